#!/bin/bash
# Builds the hand-written Coq library (full .vo build) and the extracted OCaml runner, offline.
# Idempotent: a no-op when everything is up to date.
set -e
mkdir -p "$(dirname "$0")/build"
cd "$(dirname "$0")/coq"
export PATH=/usr/bin:/usr/local/bin:$PATH
if [ ! -f Makefile ] || [ _CoqProject -nt Makefile ]; then
  coq_makefile -f _CoqProject -o Makefile > /dev/null
fi
timeout 3000 make -j"${VERIF_JOBS:-12}" > ../build/make.log 2>&1 || { tail -40 ../build/make.log; exit 1; }
cd Extract
if [ ! -x runner ] || [ Runner.vo -nt runner ] || [ driver.ml -nt runner ] || [ Extract.v -nt runner ]; then
  timeout 600 coqc -R .. PyCraft -w -extraction-opaque-accessed,-extraction-reserved-identifier Extract.v > ../../build/extract.log 2>&1 || { tail -20 ../../build/extract.log; exit 1; }
  rm -f Extract.vo Extract.vok Extract.vos Extract.glob
  ocamlfind ocamlopt -w -a -O2 runner.mli runner.ml driver.ml -o runner > ../../build/ocaml.log 2>&1 || { tail -20 ../../build/ocaml.log; exit 1; }
fi
exit 0
