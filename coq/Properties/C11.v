(* C11 - in play, keep-alives and teleports are always answered; unknown packets pass. *)
From Coq Require Import ZArith List Bool.
From PyCraft Require Import Model.Reactors Proofs.ReactorsProofs Model.LoopErr Proofs.LoopErrProofs.
Import ListNotations.
Open Scope Z_scope.

Section C11.
  Variable rsa : list Z -> list Z -> list Z.
  Variable secret : list Z.
  Variable vhash : list Z -> list Z -> list Z -> list Z.
  Variables has_token f107 : bool.
  Notation step1 := (do_step rsa secret vhash has_token f107).

  (* For every history of server packets and EVERY schedule of read and write phases (any batch sizes):
     what has been written plus what is still queued is exactly the list of answers the history demands,
     in arrival order - each keep-alive id echoed once, each position packet acknowledged by a teleport
     confirm (>= 107) or an echoing position packet; unknown ids and unhandled packets contribute nothing
     and change nothing; nothing after a disconnect packet. *)
  Theorem C11_answers : forall sched s, s_end s = None -> q_clean s ->
    let s' := fold_left step1 sched s in
    queued_only (pkts (s_wire s')) ++ s_queue s' =
      queued_only (pkts (s_wire s)) ++ s_queue s ++ spec_queued f107 (s_play s) (received sched).
  Proof. intros sched s H1 H2. exact (proj1 (responses_inv rsa secret vhash has_token f107 sched s H1 H2)). Qed.

  (* the specification for a play history without a disconnect is the concatenation of the answers *)
  Theorem C11_spec_is_flat_map : forall h,
    existsb (fun p => match p with IPlayDisconnect => true | _ => false end) h = false ->
    spec_queued f107 true h = flat_map (respond_play f107) h.
  Proof.
    induction h as [|p h IH]; intro H; [reflexivity|]. cbn [existsb] in H. apply orb_false_iff in H. destruct H as [H1 H2].
    cbn [spec_queued flat_map]. destruct p; try discriminate; rewrite (IH H2); reflexivity.
  Qed.

  (* a disconnect packet sends everything already queued, ends the thread normally and runs the exit
     callback exactly once more; later steps change nothing *)
  Theorem C11_disconnect : forall s, s_end s = None -> s_play s = true ->
    let s' := step1 s (SRecv IPlayDisconnect) in
    s_queue s' = [] /\ pkts (s_wire s') = pkts (s_wire s) ++ s_queue s /\ s_end s' = Some ENormalExit /\ s_exits s' = S (s_exits s) /\
    forall l, fold_left step1 l s' = s'.
  Proof.
    intros s H1 H2. cbn zeta. destruct (play_disconnect_step rsa secret vhash has_token f107 s H1 H2) as (A & B & C & D).
    repeat split; try assumption. exact (stuck rsa secret vhash has_token f107 _ _ C).
  Qed.

  Theorem C11_spawned : forall sched s, s_end s = None -> s_play s = true ->
    existsb (fun p => match p with IPlayDisconnect => true | _ => false end) (received sched) = false ->
    s_spawned (fold_left step1 sched s) = s_spawned s || existsb is_poslook (received sched).
  Proof. exact (spawned_iff rsa secret vhash has_token f107). Qed.
End C11.
Print Assumptions C11_answers.
Print Assumptions C11_spec_is_flat_map.
Print Assumptions C11_disconnect.
Print Assumptions C11_spawned.

Example C11_ex :
  let s := run_session (fun _ m => m) [1] (fun _ _ _ => []) false true
     [SRecv ISuccess; SRecv (IKeepAlive 5); SRecv (IOther 200); SFlush 1; SRecv (IPosLook 9 []); SRecv (IKeepAlive 6); SRecv IPlayDisconnect; SRecv (IKeepAlive 7)] in
  map w_pkt (s_wire s) = [OKeepAlive 5; OTeleportConfirm 9; OKeepAlive 6] /\ s_queue s = [] /\ s_spawned s = true /\
  s_end s = Some ENormalExit /\ s_exits s = 1%nat.
Proof. vm_compute. repeat split; reflexivity. Qed.

(* "... a server disconnect packet closes the connection, runs the exit callback exactly once and reports no error" - also
   when the answer to an earlier packet could no longer be written because the server had already closed: whatever I/O error
   that write met (every IOError is held back, not only broken-pipe and connection-reset), a disconnect packet read in the same
   turn of the networking loop cancels it and the loop ends without raising.  Without such a packet the write error is what
   the turn ends with.  (Model/LoopErr.v: one turn of NetworkingThread._run with respect to errors.) *)
Theorem C11_goodbye_cancels_write_error : forall held pre r post,
  forallb quiet pre = true -> rd_disconnect r = true -> rd_raises r = None -> rd_ends_loop r = true ->
  read_phase held (pre ++ r :: post) = TInterrupted.
Proof. exact disconnect_cancels_write_error. Qed.
Print Assumptions C11_goodbye_cancels_write_error.
Theorem C11_write_error_reported_otherwise : forall e reads,
  forallb quiet reads = true -> forallb (fun r => negb (rd_disconnect r)) reads = true -> read_phase (Some e) reads = TRaised e.
Proof. exact write_error_reported. Qed.
Print Assumptions C11_write_error_reported_otherwise.
Example C11_turn_ex :
  turn (Some {| wf_exn := 103; wf_is_ioerror := true |}) [{| rd_disconnect := false; rd_raises := None; rd_ends_loop := false |};
                                                           {| rd_disconnect := true; rd_raises := None; rd_ends_loop := true |}] = TInterrupted /\
  turn (Some {| wf_exn := 103; wf_is_ioerror := true |}) [{| rd_disconnect := false; rd_raises := None; rd_ends_loop := false |}] = TRaised 103.
Proof. vm_compute. split; reflexivity. Qed.
