(* C08 - protocol versions are totally ordered by publication; derived tables agree.
   Universal statements hold for every record list (all run-time extensions);
   the finite statements are evaluated by the kernel on the records reified from the source. *)
From Coq Require Import ZArith List Bool.
From PyCraft Require Import Base.Res Model.Versions Spec.VersionsSpec Proofs.VersionsProofs.
From Gen Require Import Versions.
Import ListNotations.
Open Scope Z_scope.

Section AnyRecords.
  Variable is_rel : Z -> bool.
  Variable records : list vrec.
  Variable st : tables.
  Let T := initglobals true is_rel records st.
  Let idx := indices T.

  Theorem C08_indices_injective : forall p q i, od_get idx p = Some i -> od_get idx q = Some i -> p = q.
  Proof. exact (fun p q i => indices_injective is_rel records st p q i). Qed.

  Theorem C08_known_iff_indexed : forall p, In p (known_protocols T) <-> known idx p.
  Proof. exact (known_iff_indexed is_rel records st). Qed.

  (* strict total order on the known protocol numbers *)
  Theorem C08_irreflexive : forall p, known idx p -> protocol_earlier idx p p = Ok false.
  Proof. exact (earlier_irrefl idx). Qed.
  Theorem C08_transitive : forall p q r, protocol_earlier idx p q = Ok true -> protocol_earlier idx q r = Ok true ->
    protocol_earlier idx p r = Ok true.
  Proof. exact (earlier_trans idx). Qed.
  Theorem C08_trichotomous : forall p q, known idx p -> known idx q ->
    (protocol_earlier idx p q = Ok true /\ p <> q /\ protocol_earlier idx q p = Ok false)
    \/ (p = q /\ protocol_earlier idx p q = Ok false /\ protocol_earlier idx q p = Ok false)
    \/ (protocol_earlier idx q p = Ok true /\ p <> q /\ protocol_earlier idx p q = Ok false).
  Proof. exact (earlier_trichotomy idx (fun p q i => indices_injective is_rel records st p q i)). Qed.

  (* the five predicates are mutually consistent *)
  Theorem C08_earlier_eq : forall p q, known idx p -> known idx q ->
    (protocol_earlier_eq idx p q = Ok true <-> protocol_earlier idx p q = Ok true \/ p = q).
  Proof. exact (earlier_eq_iff idx (fun p q i => indices_injective is_rel records st p q i)). Qed.
  Theorem C08_later_flipped : forall pv other,
    ctx_later idx pv other = protocol_earlier idx other pv /\ ctx_later_eq idx pv other = protocol_earlier_eq idx other pv
    /\ ctx_earlier idx pv other = protocol_earlier idx pv other /\ ctx_earlier_eq idx pv other = protocol_earlier_eq idx pv other.
  Proof. exact (later_is_flipped idx). Qed.
  Theorem C08_in_range : forall pv a b, known idx pv -> known idx a -> known idx b ->
    (ctx_in_range idx pv a b = Ok true <-> ctx_later_eq idx pv a = Ok true /\ ctx_earlier idx pv b = Ok true).
  Proof. exact (in_range_iff idx). Qed.
  Theorem C08_in_range_total : forall pv a b, known idx pv -> known idx a -> known idx b ->
    exists r, ctx_in_range idx pv a b = Ok r.
  Proof. exact (in_range_total idx). Qed.

  (* the order is the chronological position: index = position of the first occurrence in the records *)
  Theorem C08_chronological : forall p, od_get idx p = index_of p (first_occ (map v_proto records)).
  Proof. exact (indices_lookup is_rel records st). Qed.

  (* derived tables are the order-preserving duplicate-free projections *)
  Theorem C08_projections :
    known_protocols T = first_occ (map v_proto records)
    /\ map fst (known_versions T) = first_occ (map v_id records)
    /\ (forall k, od_get (known_versions T) k = last_assigned (pairs_of records) k None)
    /\ map fst (supported_versions T) = first_occ (map v_id (filter v_supported records))
    /\ (forall k, od_get (supported_versions T) k = last_assigned (pairs_of (filter v_supported records)) k None)
    /\ supported_protocols T = first_occ (map snd (supported_versions T))
    /\ release_versions T = od_fold (filter (fun kv => is_rel (fst kv)) (supported_versions T)) []
    /\ release_protocols T = first_occ (map snd (filter (fun kv => is_rel (fst kv)) (supported_versions T))).
  Proof. exact (projections is_rel records st). Qed.

  Theorem C08_idempotent : initglobals true is_rel records T = T.
  Proof. exact (initglobals_idempotent is_rel records st). Qed.

  (* run-time extension: appended records never move a protocol that was already known *)
  Theorem C08_extension : forall extra p i,
    od_get idx p = Some i -> od_get (indices (initglobals true is_rel (records ++ extra) st)) p = Some i.
  Proof. exact (fun extra p i => extension_preserves_indices is_rel records extra st p i). Qed.

  (* legacy mode rebuilds only the supported/release tables and leaves the index map alone *)
  Theorem C08_legacy : forall recs',
    let t := initglobals false is_rel recs' st in
    indices t = indices st /\ known_protocols t = known_protocols st /\ known_versions t = known_versions st
    /\ supported_versions t = supported_versions st
    /\ supported_protocols t = first_occ (map snd (supported_versions t))
    /\ initglobals false is_rel recs' t = t.
  Proof. exact (legacy is_rel st). Qed.
End AnyRecords.

Print Assumptions C08_indices_injective.
Print Assumptions C08_known_iff_indexed.
Print Assumptions C08_irreflexive.
Print Assumptions C08_transitive.
Print Assumptions C08_trichotomous.
Print Assumptions C08_earlier_eq.
Print Assumptions C08_later_flipped.
Print Assumptions C08_in_range.
Print Assumptions C08_in_range_total.
Print Assumptions C08_chronological.
Print Assumptions C08_projections.
Print Assumptions C08_idempotent.
Print Assumptions C08_extension.
Print Assumptions C08_legacy.

(* ---- on the records reified from the source ---- *)

(* the model of initglobals applied to the reified records reproduces the tables observed in the module *)
Theorem C08_tables_match : initglobals true (rel_of records) records empty_tables = observed.
Proof. vm_compute. reflexivity. Qed.
Print Assumptions C08_tables_match.

(* ordinary (non-pre-release) numbers are ordered numerically *)
Theorem C08_numeric_order : forall p q,
  In p (known_protocols observed) -> In q (known_protocols observed) -> nonpre PRE p = true -> nonpre PRE q = true ->
  protocol_earlier (indices observed) p q = Ok (p <? q).
Proof. apply numeric_ok_spec. vm_compute. reflexivity. Qed.
Print Assumptions C08_numeric_order.

(* non-vacuity *)
Example C08_ex : protocol_earlier (indices observed) 47 107 = Ok true
  /\ ctx_in_range (indices observed) 404 393 477 = Ok true
  /\ Nat.ltb 3 (length (filter (fun p => negb (nonpre PRE p)) (known_protocols observed))) = true.
Proof. vm_compute. repeat split; reflexivity. Qed.
