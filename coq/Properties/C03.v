(* C03 - VarInt/VarLong decoding is bounded, encoding terminates and is canonical.
   Statements only; each closed by [exact] and followed by [Print Assumptions]. *)
From Coq Require Import ZArith List.
From PyCraft Require Import Base.Res Model.VarInt Spec.VarIntSpec Proofs.VarIntProofs.
Import ListNotations.
Open Scope Z_scope.

(* Decoding any byte string: never out of fuel (terminates), looks at no more than maxb+1 bytes,
   returns a non-negative number and the suffix right after the terminating byte, or EOF, or too-long. *)
Theorem C03_read_bounded : forall maxb bs,
  0 <= maxb ->
  (exists pre b rest, bs = pre ++ b :: rest /\ Z.of_nat (length pre) <= maxb /\
      varint_read maxb bs = Ok (value_of (pre ++ [b]), rest) /\ 0 <= value_of (pre ++ [b]))
  \/ varint_read maxb bs = Err EOFError
  \/ (exists pre rest, bs = pre ++ rest /\ Z.of_nat (length pre) = maxb + 1 /\
      forall rest', varint_read maxb (pre ++ rest') = Err ValueError).
Proof. exact read_bounded. Qed.
Print Assumptions C03_read_bounded.

(* Encoding terminates for every integer: canonical form for v >= 0, ValueError for v < 0. *)
Theorem C03_send_terminates_canonical : forall v,
  0 <= v -> exists bs, varint_send v = Ok bs /\ canonical v bs.
Proof. exact send_canonical. Qed.
Print Assumptions C03_send_terminates_canonical.

Theorem C03_send_negative : forall v, v < 0 -> varint_send v = Err ValueError.
Proof. exact send_negative. Qed.
Print Assumptions C03_send_negative.

(* The canonical form is unique and denotes n. *)
Theorem C03_canonical_unique : forall n bs, canonical n bs -> forall bs', canonical n bs' -> bs = bs'.
Proof. exact canonical_unique. Qed.
Print Assumptions C03_canonical_unique.

(* Round trip with exact consumption, on [0, 128^(maxb+1)): contains [0,2^32) for maxb=5 and [0,2^64) for maxb=10. *)
Theorem C03_roundtrip : forall maxb n bs rest,
  0 <= maxb -> 0 <= n < 128 ^ (maxb + 1) -> varint_send n = Ok bs ->
  varint_read maxb (bs ++ rest) = Ok (n, rest).
Proof. exact roundtrip. Qed.
Print Assumptions C03_roundtrip.

Theorem C03_roundtrip_toolong : forall maxb n bs rest,
  0 <= maxb -> 128 ^ (maxb + 1) <= n -> varint_send n = Ok bs ->
  varint_read maxb (bs ++ rest) = Err ValueError.
Proof. exact roundtrip_toolong. Qed.
Print Assumptions C03_roundtrip_toolong.

Theorem C03_size : forall n bs,
  0 <= n < 2 ^ 84 -> varint_send n = Ok bs -> varint_size n = Ok (Z.of_nat (length bs)).
Proof. exact size_correct. Qed.
Print Assumptions C03_size.

Theorem C03_size_toolarge : forall n, 2 ^ 84 <= n -> varint_size n = Err ValueError.
Proof. exact size_toolarge. Qed.
Print Assumptions C03_size_toolarge.

(* the ranges the property names are inside the proved ranges *)
(* The encoding is prefix-free, hence injective: no integer's encoding is a proper prefix of another's,
   so a sequence of VarInts (the frame-length / packet-id prefixes of the stream) is cut in exactly one way. *)
Theorem C03_send_prefix_free : forall a b x y,
  varint_send a = Ok x -> varint_send b = Ok (x ++ y) -> y = [] /\ a = b.
Proof. exact send_prefix_free. Qed.
Print Assumptions C03_send_prefix_free.

Theorem C03_send_injective : forall a b bs, varint_send a = Ok bs -> varint_send b = Ok bs -> a = b.
Proof. exact send_injective. Qed.
Print Assumptions C03_send_injective.

Example C03_ranges : 2 ^ 32 <= 128 ^ (5 + 1) /\ 2 ^ 64 <= 128 ^ (10 + 1) /\ 128 ^ (10 + 1) <= 2 ^ 84.
Proof. vm_compute. repeat split; discriminate. Qed.

(* non-vacuity: concrete instances *)
Example C03_ex_send : varint_send 300 = Ok [172; 2] /\ varint_read 5 [172; 2; 9] = Ok (300, [9]).
Proof. vm_compute. split; reflexivity. Qed.
Example C03_ex_maxlen : varint_read 5 [255;255;255;255;255;127;1] = Ok (2^42 - 1, [1])
                     /\ varint_read 5 [255;255;255;255;255;255;1] = Err ValueError.
Proof. vm_compute. split; reflexivity. Qed.
