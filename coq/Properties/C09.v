(* C09 - status queries and version negotiation pick the right version or the right error. *)
From Coq Require Import ZArith List Bool.
From PyCraft Require Import Model.Negotiate Proofs.NegotiateProofs.
Import ListNotations.
Open Scope Z_scope.

Definition st_conn (lt : Z) := {| t_pv := lt; t_next := 1; t_follow := FRequest |}.
Definition login_conn (p : Z) := {| t_pv := p; t_next := 2; t_follow := FLoginStart |}.

(* with a single allowed version no status query is made *)
Theorem C09_single_version : forall e fuel allowed default beh lt, single allowed = true -> latest e allowed = Some lt ->
  connect fuel e allowed default beh = ([login_conn lt], Login lt).
Proof. exact single_version_no_status. Qed.
Print Assumptions C09_single_version.

(* several allowed versions: the decision rules, for every environment, allowed set and default *)
Theorem C09_server_version_allowed : forall e allowed default lt fuel n, single allowed = false -> latest e allowed = Some lt ->
  memZ n allowed = true -> connect (S fuel) e allowed default (Proto n) = ([st_conn lt; login_conn n], Login n).
Proof. intros e allowed default lt fuel n H1 H2. exact (proto_allowed e allowed default lt fuel H1 H2 n). Qed.
Print Assumptions C09_server_version_allowed.
Theorem C09_server_version_not_allowed : forall e allowed default lt fuel n, single allowed = false -> latest e allowed = Some lt ->
  memZ n allowed = false -> connect (S fuel) e allowed default (Proto n) = ([st_conn lt], Mismatch n (memZ n (e_supported e))).
Proof. intros e allowed default lt fuel n H1 H2. exact (proto_not_allowed e allowed default lt fuel H1 H2 n). Qed.
Print Assumptions C09_server_version_not_allowed.
Theorem C09_fallback_to_default : forall e allowed default lt fuel beh, single allowed = false -> latest e allowed = Some lt ->
  beh = NoVersion \/ beh = NoProtocolKey \/ beh = Closed ->
  connect (S fuel) e allowed default beh = ([st_conn lt; login_conn default], Login default).
Proof. intros e allowed default lt fuel beh H1 H2. exact (fallback e allowed default lt fuel H1 H2 beh). Qed.
Print Assumptions C09_fallback_to_default.
Theorem C09_empty_status_invalid : forall e allowed default lt fuel, single allowed = false -> latest e allowed = Some lt ->
  connect (S fuel) e allowed default EmptyObject = ([st_conn lt], InvalidStatus).
Proof. exact empty_object_invalid. Qed.
Print Assumptions C09_empty_status_invalid.
Theorem C09_default_in_no_other_case : forall e allowed default lt fuel beh, single allowed = false -> latest e allowed = Some lt ->
  forall cs pv, connect (S fuel) e allowed default beh = (cs, Login pv) ->
  (exists n, beh = Proto n /\ pv = n /\ memZ n allowed = true) \/ ((beh = NoVersion \/ beh = NoProtocolKey \/ beh = Closed) /\ pv = default).
Proof. intros e allowed default lt fuel beh H1 H2. exact (default_only_on_fallback e allowed default lt fuel H1 H2 beh). Qed.
Print Assumptions C09_default_in_no_other_case.

(* every handshake: next_state 2 exactly on login connections (followed by a login start), 1 on status connections *)
Theorem C09_handshakes : forall e fuel allowed default beh cs o, connect fuel e allowed default beh = (cs, o) ->
  Forall (fun c => (t_next c = 2 /\ t_follow c = FLoginStart) \/ (t_next c = 1 /\ t_follow c = FRequest)) cs.
Proof. exact handshake_next_state. Qed.
Print Assumptions C09_handshakes.
(* the status handshake carries the latest allowed version: a member of the allowed set with the greatest index *)
Theorem C09_latest : forall e l x, latest e l = Some x -> In x l /\ forall y, In y l -> e_index e y <= e_index e x.
Proof. intros e l x H. split; [exact (latest_in e l x H)|exact (latest_max e l x H)]. Qed.
Print Assumptions C09_latest.

(* construction refuses unknown / unsupported versions, and what it accepts is supported *)
Theorem C09_construct_refuses : forall e allowed initial vs v, allowed = Some vs -> In v vs -> proto_version e v = None -> construct e allowed initial = None.
Proof. exact construct_refuses. Qed.
Print Assumptions C09_construct_refuses.
Theorem C09_construct_refuses_initial : forall e allowed v, proto_version e v = None -> construct e allowed (Some v) = None.
Proof. exact construct_refuses_initial. Qed.
Print Assumptions C09_construct_refuses_initial.

(* plain status query *)
Theorem C09_status_query : forall pv do_ping obj echo t0 t1,
  length (filter (fun ev => match ev with SStatusHandled _ => true | _ => false end) (status_query pv do_ping obj echo t0 t1)) = 1%nat /\
  length (filter (fun ev => match ev with SExit => true | _ => false end) (status_query pv do_ping obj echo t0 t1)) = 1%nat /\
  length (filter (fun ev => match ev with SDisconnect => true | _ => false end) (status_query pv do_ping obj echo t0 t1)) = 1%nat /\
  (existsb (fun ev => match ev with SPingSent _ => true | _ => false end) (status_query pv do_ping obj echo t0 t1) = do_ping).
Proof. exact status_handler_once. Qed.
Print Assumptions C09_status_query.
Theorem C09_latency_nonneg : forall pv obj echo t0 t1, (forall t, echo t = t) -> t0 <= t1 ->
  In (SPingHandled (t1 - echo t0)) (status_query pv true obj echo t0 t1) /\ 0 <= t1 - echo t0.
Proof. exact status_latency_nonneg. Qed.
Print Assumptions C09_latency_nonneg.

Definition e0 := {| e_supported := [47; 340; 757]; e_names := [(18, 47); (112, 340); (118, 757)]; e_index := fun p => p |}.
Example C09_ex :
  construct e0 (Some [VName 18; VNum 757]) None = Some ([47; 757], 757) /\
  construct e0 (Some [VNum 5]) None = None /\ construct e0 None (Some (VName 99)) = None /\
  connect 2 e0 [47; 757] 757 (Proto 47) = ([st_conn 757; login_conn 47], Login 47) /\
  connect 2 e0 [47; 757] 757 (Proto 340) = ([st_conn 757], Mismatch 340 true) /\
  connect 2 e0 [47; 757] 47 (Proto 5) = ([st_conn 757], Mismatch 5 false) /\
  connect 2 e0 [47; 757] 47 Closed = ([st_conn 757; login_conn 47], Login 47) /\
  connect 2 e0 [340; 340] 340 (Proto 47) = ([login_conn 340], Login 340).
Proof. vm_compute. repeat split; reflexivity. Qed.
