(* C04 - block positions use the 26/12/26-bit packing of the connection's protocol. *)
From Coq Require Import ZArith List Bool.
From PyCraft Require Import Model.Position Spec.PositionSpec Proofs.PositionProofs Proofs.LayoutCheck Model.Versions.
From Gen Require Import Versions.
Import ListNotations.
Open Scope Z_scope.

(* the word is the arithmetic packing, for all integers *)
Theorem C04_pos_spec : forall later x y z, pos_word later x y z = pos_spec later x y z.
Proof. exact pos_word_spec. Qed.
Print Assumptions C04_pos_spec.

Theorem C04_pos_fits_64_bits : forall later x y z, 0 <= pos_word later x y z < 2 ^ 64.
Proof. exact pos_word_range. Qed.
Print Assumptions C04_pos_fits_64_bits.

Theorem C04_pos_roundtrip : forall later x y z,
  - 2^25 <= x < 2^25 -> - 2^11 <= y < 2^11 -> - 2^25 <= z < 2^25 ->
  pos_unword later (pos_word later x y z) = (x, y, z).
Proof. exact pos_roundtrip. Qed.
Print Assumptions C04_pos_roundtrip.

Theorem C04_csp_spec : forall x y z, csp_word x y z = csp_spec x y z.
Proof. exact csp_word_spec. Qed.
Print Assumptions C04_csp_spec.

Theorem C04_csp_roundtrip : forall x y z,
  - 2^21 <= x < 2^21 -> - 2^19 <= y < 2^19 -> - 2^21 <= z < 2^21 ->
  csp_unword (csp_word x y z) = (x, y, z).
Proof. exact csp_roundtrip. Qed.
Print Assumptions C04_csp_roundtrip.

Theorem C04_record_roundtrip_new : forall x y z sid,
  0 <= x < 16 -> 0 <= y < 16 -> 0 <= z < 16 -> 0 <= sid ->
  rec_unword (rec_word x y z sid) = (x, y, z, sid) /\ 0 <= rec_word x y z sid.
Proof. exact rec_roundtrip. Qed.
Print Assumptions C04_record_roundtrip_new.

Theorem C04_record_roundtrip_old : forall x z,
  0 <= x < 16 -> 0 <= z < 16 -> rec_unhbyte (rec_hbyte x z) = (x, z) /\ 0 <= rec_hbyte x z < 256.
Proof. exact rec_hbyte_roundtrip. Qed.
Print Assumptions C04_record_roundtrip_old.

(* which layout each known version uses: reified by probing Position.send_with_context and
   read_with_context at every known version; 0 = x|y|z, 1 = x|z|y *)
Definition idx_of (p : Z) : Z := match od_get (indices observed) p with Some i => i | None => -1 end.

Theorem C04_layout_by_version :
  0 <= idx_of 404 /\ 0 <= idx_of 477 /\ length layout = length (known_protocols observed) /\
  (forall n v, nth_error layout n = Some v ->
     (v = 0 \/ v = 1) /\ (Z.of_nat n <= idx_of 404 -> v = 0) /\ (idx_of 477 <= Z.of_nat n -> v = 1))
  /\ (forall n m a b, (n <= m)%nat -> nth_error layout n = Some a -> nth_error layout m = Some b -> a <= b).
Proof.
  split; [vm_compute; discriminate|]. split; [vm_compute; discriminate|]. split; [vm_compute; reflexivity|].
  apply layout_ok_spec. vm_compute. reflexivity.
Qed.
Print Assumptions C04_layout_by_version.

Example C04_ex : pos_word true 1 2 3 = 0x4000003002 /\ pos_word false 1 2 3 = 0x4008000003
  /\ pos_unword true (pos_word true (-5) (-7) 33554431) = (-5, -7, 33554431).
Proof. vm_compute. repeat split; reflexivity. Qed.
