(* C02 - primitive wire types encode and decode exactly as the protocol prescribes. *)
From Coq Require Import ZArith List Bool.
From Flocq Require Import IEEE754.Binary IEEE754.Bits.
From PyCraft Require Import Base.Res Model.Tables Model.Prim Model.VarInt Model.Utf8 Model.FieldTypes.
From PyCraft Require Import Proofs.PrimProofs Proofs.Utf8Proofs Proofs.FieldTypesProofs Proofs.C02Extra Proofs.FloatBits.
Import ListNotations.
Open Scope Z_scope.

(* Encoding never fails (and, the functions being total, never hangs) on an in-domain value; decoding
   the encoding followed by ANY further bytes returns the value (canon = identity except for angle and
   fixed point) and consumes exactly the encoding.  For every type term: all scalars, strings, byte
   arrays, UUIDs, angles, fixed point over every integer base, arbitrarily nested prefixed arrays. *)
Theorem C02_roundtrip : forall c nbt t v, in_dom c nbt t v ->
  exists bs, enc c t v = Ok bs /\ bs <> [] /\ forall rest, dec c nbt t (bs ++ rest) = Ok (canon t v, rest).
Proof. exact rt_all. Qed.
Print Assumptions C02_roundtrip.

(* A strict prefix of an encoding of a self-delimiting type never decodes to a value. *)
Theorem C02_strict_prefix : forall c nbt t v, self_delim t = true -> in_dom c nbt t v ->
  forall bs, enc c t v = Ok bs -> forall p, sprefix p bs -> exists e, dec c nbt t p = Err e.
Proof. exact pe_all. Qed.
Print Assumptions C02_strict_prefix.

(* Integers: exactly k bytes, the big-endian digits of v modulo 256^k (two's complement); values
   outside the type's range are refused. *)
Theorem C02_int_bytes : forall signed k v bs, enc_int signed k v = Ok bs ->
  length bs = k /\ Forall (fun b => 0 <= b < 256) bs /\ be_value 0 bs = v mod pow256 k /\ int_lo signed k <= v < int_hi signed k.
Proof. exact enc_int_spec. Qed.
Print Assumptions C02_int_bytes.
Theorem C02_int_refuses : forall signed k v, ~ (int_lo signed k <= v < int_hi signed k) -> enc_int signed k v = Err StructError.
Proof. exact enc_int_out_of_range. Qed.
Print Assumptions C02_int_refuses.

(* IEEE-754: the wire form of a float is the big-endian bytes of its bit pattern, for every binary32 /
   binary64 datum (zeros, subnormals, infinities, NaNs included), and reading returns that datum. *)
Theorem C02_float32 : forall f : binary32,
  exists bs, enc_f32 f = Ok bs /\ length bs = 4%nat /\ forall rest, dec_f32 (bs ++ rest) = Ok (f, rest).
Proof. exact f32_roundtrip. Qed.
Print Assumptions C02_float32.
Theorem C02_float64 : forall f : binary64,
  exists bs, enc_f64 f = Ok bs /\ length bs = 8%nat /\ forall rest, dec_f64 (bs ++ rest) = Ok (f, rest).
Proof. exact f64_roundtrip. Qed.
Print Assumptions C02_float64.

(* Angle: the byte sent is in 0..255 and the decoded angle is within half a step (360/512 degrees) of
   the value, modulo whole turns.  v = num / 2^k. *)
Theorem C02_angle_quantum : forall num k, 0 <= k ->
  0 <= angle_byte num k < 256 /\
  exists turns, 2 * Z.abs (angle_byte num k * (360 * 2 ^ k) - 256 * num + 256 * turns * (360 * 2 ^ k)) <= 360 * 2 ^ k.
Proof. intros num k Hk. split; [apply angle_byte_range|exact (angle_quantum num k Hk)]. Qed.
Print Assumptions C02_angle_quantum.

(* Fixed point: the integer sent is within one unit of v * 2^n, i.e. |decoded - v| < 2^-n. *)
Theorem C02_fixed_quantum : forall num k n, 0 <= k -> 0 <= n ->
  Z.abs (fixed_int num k n * 2 ^ k - num * 2 ^ n) < 2 ^ k.
Proof. exact fixed_quantum. Qed.
Print Assumptions C02_fixed_quantum.

(* UTF-8: strings of scalar values always encode; decoding inverts; the decoder never runs out of fuel. *)
Theorem C02_utf8 : forall cps, forallb is_scalar cps = true ->
  exists bs, utf8_enc cps = Ok bs /\ Forall (fun b => 0 <= b < 256) bs /\ utf8_dec bs = Ok cps.
Proof.
  intros cps H. destruct (utf8_enc_ok cps H) as (bs & Hb). exists bs.
  split; [exact Hb|]. split; [exact (utf8_enc_wf cps bs Hb)|exact (utf8_roundtrip cps bs Hb)].
Qed.
Print Assumptions C02_utf8.
Theorem C02_utf8_total : forall bs, utf8_dec bs <> OutOfFuel.
Proof. exact utf8_dec_total. Qed.
Print Assumptions C02_utf8_total.

(* non-vacuity: concrete in-domain values and their prescribed bytes, computed by the kernel *)
Definition c0 := {| c_pos_zy := true; c_rec_new := true; c_pitch_float := true |}.
Example C02_vectors :
  enc c0 TShort (VInt (-2)) = Ok [255; 254] /\ enc c0 TUShort (VInt 65534) = Ok [255; 254] /\
  enc c0 TInt (VInt (-2147483648)) = Ok [128; 0; 0; 0] /\ enc c0 TLong (VInt (-1)) = Ok [255;255;255;255;255;255;255;255] /\
  enc c0 TString (VStr [104; 233; 8364; 128512]) = Ok [10; 104; 195; 169; 226; 130; 172; 240; 159; 152; 128] /\
  enc c0 TAngle (VQ 719 1) = Ok [0] /\ enc c0 TAngle (VQ 90 0) = Ok [64] /\ enc c0 TAngle (VQ (-1) 1) = Ok [0] /\
  enc c0 (TFixed TInt 5) (VQ (-3) 1) = Ok [255; 255; 255; 208] /\
  enc c0 (TArray TVarInt (TArray TByte TBool)) (VList [VList [VBool true]; VList []]) = Ok [2; 1; 1; 0] /\
  enc c0 TFloat (VInt (bits_of_b32 (b32_of_bits 1065353216))) = Ok [63; 128; 0; 0] /\
  dec c0 (fun _ => None) TString [5; 104; 101] = Err EOFError /\
  enc c0 TUByte (VInt 256) = Err StructError.
Proof. vm_compute. repeat split; reflexivity. Qed.
