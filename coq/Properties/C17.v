(* C17 - session server hash equals Java's signed-hex SHA-1 for all inputs. *)
From Coq Require Import ZArith List Bool.
From PyCraft Require Import Base.Res Model.Utf8 Model.Sha1 Model.SignedHex Spec.JavaBigInt Proofs.SignedHexProofs.
Import ListNotations.
Open Scope Z_scope.

(* For every non-empty byte string (in particular every 20-byte digest: top bit set, leading zero
   nibbles, leading zero bytes), the printed form parses back, as signed lower-case hexadecimal, to the
   two's-complement big-endian value, has no leading zero digit and a minus sign iff negative. *)
Theorem C17_format : forall d, wfb d -> d <> [] ->
  parse_signed_hex (mc_hex d) = Some (twos_value d) /\ canonical_hex (mc_hex d).
Proof. exact mc_hex_spec. Qed.
Print Assumptions C17_format.

(* the digest input is server id (UTF-8), then secret, then key *)
Theorem C17_order : forall sid sidb secret key, utf8_enc sid = Ok sidb ->
  verification_hash sid secret key = Ok (mc_hex (sha1 (sidb ++ secret ++ key))).
Proof. intros sid sidb secret key H. unfold verification_hash. rewrite H. reflexivity. Qed.
Print Assumptions C17_order.

Definition ascii (s : list Z) := s.
(* the three published vectors, computed by the kernel: Notch, jeb_, simon *)
Example C17_notch : verification_hash [78;111;116;99;104] [] [] =
  Ok [52;101;100;49;102;52;54;98;98;101;48;52;98;99;55;53;54;98;99;98;49;55;99;48;99;55;99;101;51;101;52;54;51;50;102;48;54;97;52;56].
Proof. vm_compute. reflexivity. Qed.
Example C17_jeb : verification_hash [106;101;98;95] [] [] =
  Ok [45;55;99;57;100;53;98;48;48;52;52;99;49;51;48;49;48;57;97;53;100;55;98;53;102;98;53;99;51;49;55;99;48;50;98;52;101;50;56;99;49].
Proof. vm_compute. reflexivity. Qed.
Example C17_simon : verification_hash [115;105;109;111;110] [] [] =
  Ok [56;56;101;49;54;97;49;48;49;57;50;55;55;98;49;53;100;53;56;102;97;102;48;53;52;49;101;49;49;57;49;48;101;98;55;53;54;102;54].
Proof. vm_compute. reflexivity. Qed.
(* shapes: top bit set, leading zero byte, leading zero nibble, zero, minus one *)
Example C17_shapes :
  mc_hex [255; 255] = [45; 49] /\ mc_hex [0; 10] = [97] /\ mc_hex [128; 0] = [45; 56; 48; 48; 48]
  /\ mc_hex [0; 0] = [48] /\ mc_hex [0; 244; 1] = [102; 52; 48; 49].
Proof. vm_compute. repeat split; reflexivity. Qed.
