(* C19 - auth token state follows the Yggdrasil replies; errors leave it untouched. *)
From Coq Require Import ZArith List Bool.
From PyCraft Require Import Model.Auth Proofs.AuthProofs.
Import ListNotations.
Open Scope Z_scope.

Theorem C19_authenticated_iff : forall t, authenticated t = true <->
  truthy (t_user t) = true /\ truthy (t_access t) = true /\ truthy (t_client t) = true /\ (exists i n, t_pid t = Some i /\ t_pname t = Some n).
Proof. exact authenticated_iff. Qed.
Print Assumptions C19_authenticated_iff.

(* success: authenticate / refresh store exactly the returned tokens and profile and return True; the
   request goes to the documented endpoint with the documented payload (client token rule included) *)
Theorem C19_authenticate_success : forall t u p inv a c i n,
  perform t (Authenticate u p inv) {| r_status := 200; r_body := BResult a c i n |} =
    (OTrue, {| t_user := Some u; t_access := Some a; t_client := Some c; t_pid := Some i; t_pname := Some n |},
     [{| q_session := false; q_endpoint := 0;
         q_payload := [(0, PAgent); (1, PStr (Some u)); (2, PStr (Some p))] ++ (if inv then [] else [(3, if truthy (t_client t) then PStr (t_client t) else PFresh)]) |}]).
Proof. exact authenticate_success. Qed.
Print Assumptions C19_authenticate_success.
Theorem C19_refresh_success : forall t a0 c0 a c i n, t_access t = Some a0 -> t_client t = Some c0 ->
  perform t Refresh {| r_status := 200; r_body := BResult a c i n |} =
    (OTrue, {| t_user := t_user t; t_access := Some a; t_client := Some c; t_pid := Some i; t_pname := Some n |},
     [{| q_session := false; q_endpoint := 1; q_payload := [(4, PStr (Some a0)); (3, PStr (Some c0))] |}]).
Proof. exact refresh_success. Qed.
Print Assumptions C19_refresh_success.

(* an HTTP error reply (any status other than the operation's success codes, any body shape): the
   operation raises an error carrying the status code and the service's error fields - or the
   'malformed' form when the body is not an error object - and the stored credentials are unchanged *)
Theorem C19_error_untouched : forall t o r, error_status o (r_status r) = true -> can_request t o = true ->
  fst (fst (perform t o r)) = OYgg (Some (r_status r)) (match r_body r with BError e m c => Some (e, m, c) | _ => None end) /\
  snd (fst (perform t o r)) = t.
Proof. exact error_leaves_state. Qed.
Print Assumptions C19_error_untouched.
Theorem C19_state_changes_only_on_success : forall t o r, snd (fst (perform t o r)) <> t ->
  r_status r = 200 /\ (exists u p inv, o = Authenticate u p inv) \/ (r_status r = 200 /\ o = Refresh).
Proof. exact state_changes_only_on_success. Qed.
Print Assumptions C19_state_changes_only_on_success.
Theorem C19_sequences : forall t o r rest, error_status o (r_status r) = true -> can_request t o = true ->
  snd (perform_all t ((o, r) :: rest)) = snd (perform_all t rest).
Proof. exact error_step_invisible. Qed.
Print Assumptions C19_sequences.

Theorem C19_validate : forall t a r, t_access t = Some a ->
  fst (fst (perform t Validate r)) = (if r_status r =? 204 then OTrue else ONone) /\ snd (fst (perform t Validate r)) = t.
Proof. exact validate_spec. Qed.
Print Assumptions C19_validate.

Theorem C19_join_refuses : forall t sid r, authenticated t = false -> perform t (Join sid) r = (OYgg None None, t, []).
Proof. exact join_refuses. Qed.
Print Assumptions C19_join_refuses.
Theorem C19_join_payload : forall t sid r, authenticated t = true ->
  snd (perform t (Join sid) r) = [{| q_session := true; q_endpoint := 5; q_payload := [(4, PStr (t_access t)); (5, PProfile (t_pid t) (t_pname t)); (6, PStr (Some sid))] |}].
Proof. exact join_payload. Qed.
Print Assumptions C19_join_payload.

Definition t0 := {| t_user := Some [117]; t_access := Some [97]; t_client := Some [99]; t_pid := Some [1]; t_pname := Some [2] |}.
Example C19_ex :
  authenticated t0 = true /\ authenticated {| t_user := Some []; t_access := Some [97]; t_client := Some [99]; t_pid := Some [1]; t_pname := Some [2] |} = false /\
  fst (perform t0 Refresh {| r_status := 403; r_body := BError [70] [109] None |}) = (OYgg (Some 403) (Some ([70], [109], None)), t0) /\
  fst (perform t0 (Join [115]) {| r_status := 500; r_body := BNonJson |}) = (OYgg (Some 500) None, t0) /\
  fst (fst (perform t0 Validate {| r_status := 403; r_body := BEmpty |})) = ONone.
Proof. vm_compute. repeat split; reflexivity. Qed.
