(* C12 - concurrent writers: every packet hits the wire once, whole and in order. *)
From Coq Require Import ZArith List Bool.
From PyCraft Require Import Model.Conc Proofs.ConcProofs.
Import ListNotations.

(* Any number of user threads with any programs of queued writes, forced writes and disconnects, the
   networking thread's write loop with any batch limit, and EVERY schedule (a list of thread choices of
   any length; each choice performs one micro-step: a lock acquire or release, a deque append or
   popleft, one socket send, or interrupt + close). *)

(* the invariant holds in every reachable state *)
Theorem C12_invariant : forall limit progs sched, Inv (cnt_init progs) (run_conc limit sched (init progs)).
Proof. exact Inv_reachable. Qed.
Print Assumptions C12_invariant.

(* the wire is a sequence of whole (length, payload) pairs plus at most one open pair, whose payload the
   current lock holder is about to send: frames of different writers never interleave *)
Theorem C12_frames_contiguous : forall limit progs sched,
  exists fs, wf_wire (wire (run_conc limit sched (init progs))) fs (owed (holder_pc (run_conc limit sched (init progs)))).
Proof. exact frames_contiguous. Qed.
Print Assumptions C12_frames_contiguous.

Theorem C12_mutual_exclusion : forall limit progs sched t1 th1 t2 th2,
  nth_error (threads (run_conc limit sched (init progs))) t1 = Some th1 -> nth_error (threads (run_conc limit sched (init progs))) t2 = Some th2 ->
  holds (th_pc th1) = true -> holds (th_pc th2) = true -> t1 = t2.
Proof. exact mutual_exclusion. Qed.
Print Assumptions C12_mutual_exclusion.

(* each packet at most once *)
Theorem C12_at_most_once : forall limit progs sched, NoDup (prog_ids (threads (init progs))) ->
  exists fs, wf_wire (wire (run_conc limit sched (init progs))) fs (owed (holder_pc (run_conc limit sched (init progs)))) /\ NoDup (map fst fs).
Proof. exact at_most_once. Qed.
Print Assumptions C12_at_most_once.

(* queued packets appear in the order in which they were appended to the queue (each thread appends in
   program order, so a thread's queued packets keep their order) *)
Theorem C12_fifo : forall limit progs sched,
  exists fs rest, wf_wire (wire (run_conc limit sched (init progs))) fs (owed (holder_pc (run_conc limit sched (init progs)))) /\
                  qlog (run_conc limit sched (init progs)) = filter snd fs ++ rest.
Proof. exact fifo. Qed.
Print Assumptions C12_fifo.

(* a non-immediate disconnect sends everything queued before it and then closes the socket *)
Theorem C12_disconnect_flushes : forall limit progs sched n, closed_at (run_conc limit sched (init progs)) = Some (n, true) ->
  sock_open (run_conc limit sched (init progs)) = false /\
  exists fs, wf_wire (wire (run_conc limit sched (init progs))) fs None /\ firstn n (qlog (run_conc limit sched (init progs))) = filter snd fs.
Proof. exact disconnect_flushes. Qed.
Print Assumptions C12_disconnect_flushes.

(* once the socket is closed (immediate disconnect included) nothing further is sent *)
Theorem C12_nothing_after_close : forall limit cnt0 s t, Inv cnt0 s -> sock_open s = false ->
  wire (step limit s t) = wire s /\ sock_open (step limit s t) = false.
Proof. exact nothing_after_close. Qed.
Print Assumptions C12_nothing_after_close.

(* non-vacuity: two user threads, one schedule with a forced write squeezed between two queued ones *)
Example C12_ex :
  let s := run_conc 300 [1; 0; 0; 0; 0; 0; 2; 2; 2; 2; 1; 1; 1; 1; 1; 1; 1; 0]
               (init [[OQueue 1; OQueue 2; ODisconnect false]; [OForce 3]]) in
  parse_wire (wire s) = Some ([(1%Z, true); (3%Z, false); (2%Z, true)], None) /\ sock_open s = false /\ queue s = [] /\ closed_at s = Some (2, true).
Proof. vm_compute. repeat split; reflexivity. Qed.
