(* C15 - a server that stops mid-conversation never hangs or spins the client. *)
From Coq Require Import ZArith List Bool.
From PyCraft Require Import Base.Res Model.VarInt Model.Frame Model.Cfb8 Model.Negotiate.
From PyCraft Require Import Proofs.FrameProofs Proofs.CipherProofs Proofs.C01Proofs Proofs.NegotiateProofs.
From PyCraft Require Model.LoopErr Proofs.LoopErrProofs.
Import ListNotations.
Open Scope Z_scope.

(* The stream ends after k bytes of a valid conversation (any k: mid-frame or between frames), in any
   segmentation, any compression setting and codec: with fuel one more than the number of frames the
   reader delivers exactly the frames wholly contained in the prefix and then reports EOFError - it
   never runs out of fuel (the observable stand-in for spinning: every loop of the model is fuelled),
   and nothing the server did not send completely is delivered. *)
Theorem C15_truncated :
  forall (deflate : list Z -> list Z) (inflate : list Z -> option (list Z)),
  (forall x, inflate (deflate x) = Some x) ->
  forall decide thr ps fs, frames deflate decide thr ps fs -> forall k s fuel,
  nonempty_segs s -> flat s = firstn k (concat fs) -> (length ps < fuel)%nat ->
  read_until_error inflate fuel (comp_of thr) s = (firstn (complete k fs) ps, Err EOFError).
Proof. exact stream_truncated. Qed.
Print Assumptions C15_truncated.

(* the same through the decrypting wrapper, for every block function *)
Theorem C15_truncated_encrypted :
  forall (deflate : list Z -> list Z) (inflate : list Z -> option (list Z)),
  (forall x, inflate (deflate x) = Some x) ->
  forall decide (E : list Z -> list Z) thr ps fs sr k s fuel,
  frames deflate decide thr ps fs -> nonempty_segs s ->
  flat s = fst (enc_stream E sr (firstn k (concat fs))) -> (length ps < fuel)%nat ->
  read_until_error inflate fuel (comp_of thr) (dec_view E sr s) = (firstn (complete k fs) ps, Err EOFError).
Proof. exact encrypted_truncated. Qed.
Print Assumptions C15_truncated_encrypted.

(* the reassembly loop itself: end of stream inside a frame body is reported at the first empty read *)
Theorem C15_reassembly_reports : forall need s, nonempty_segs s -> (length (flat s) < need)%nat -> read_body need s = Err EOFError.
Proof. exact read_body_eof. Qed.
Print Assumptions C15_reassembly_reports.
Theorem C15_reassembly_bounded : forall need s, nonempty_segs s -> (need <= length (flat s))%nat ->
  exists s', read_body need s = Ok (firstn need (flat s), s') /\ flat s' = skipn need (flat s) /\ nonempty_segs s'.
Proof. exact read_body_ok. Qed.
Print Assumptions C15_reassembly_bounded.

(* how many frames: only those that end at or before byte k *)
Theorem C15_complete_le : forall k fs, (complete k fs <= length fs)%nat.
Proof. intros k fs. revert k. induction fs as [|f t IH]; intro k; cbn [complete length]; [apply le_n|]. destruct (length f <=? k)%nat; [apply le_n_S, IH|apply Nat.le_0_l]. Qed.
Print Assumptions C15_complete_le.

(* an unanswered status query (the server closes): the documented fallback to the default version *)
Theorem C15_status_fallback : forall e allowed default lt fuel, single allowed = false -> latest e allowed = Some lt ->
  connect (S fuel) e allowed default Closed =
    ([{| t_pv := lt; t_next := 1; t_follow := FRequest |}; {| t_pv := default; t_next := 2; t_follow := FLoginStart |}], Login default).
Proof. intros e allowed default lt fuel H1 H2. apply (fallback e allowed default lt fuel H1 H2 Closed). tauto. Qed.
Print Assumptions C15_status_fallback.

(* the peer is gone altogether (end of stream and the client's own writes failing): the write error that the loop holds back
   is never dropped - unless a disconnect packet is read in that turn, the turn ends by raising (Model/LoopErr.v; an
   end-of-stream error of the read is an [rd_raises]) *)
Theorem C15_held_write_error_not_dropped : forall reads e,
  forallb (fun r => negb (LoopErr.rd_disconnect r)) reads = true -> exists e', LoopErr.read_phase (Some e) reads = LoopErr.TRaised e'.
Proof. exact LoopErrProofs.held_error_not_dropped. Qed.
Print Assumptions C15_held_write_error_not_dropped.

Example C15_ex :
  read_until_error (fun x => Some x) 3 false [[2; 7]; [9; 3; 8; 1]] = ([(7, [9])], Err EOFError) /\
  read_until_error (fun x => Some x) 3 false [[2; 7]; [9]] = ([(7, [9])], Err EOFError) /\
  read_until_error (fun x => Some x) 3 false [[130]] = ([], Err EOFError) /\
  read_until_error (fun x => Some x) 3 false [] = ([], Err EOFError).
Proof. vm_compute. repeat split; reflexivity. Qed.
