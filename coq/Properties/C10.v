(* C10 - login completes correctly for every order of optional server steps. *)
From Coq Require Import ZArith List Bool.
From PyCraft Require Import Model.Reactors Proofs.ReactorsProofs Model.LoopErr Proofs.LoopErrProofs.
Import ListNotations.
Open Scope Z_scope.

Section C10.
  Variable rsa : list Z -> list Z -> list Z.
  Variable secret : list Z.
  Variable vhash : list Z -> list Z -> list Z -> list Z.
  Variables has_token f107 : bool.
  Notation step1 := (do_step rsa secret vhash has_token f107).

  (* encryption request: answered at once with the secret and the verify token encrypted to the server's
     key, written under the cipher state in force before the switch; both directions use the secret from
     then on; the session join is made exactly when the server id is not '-' and a token is configured,
     with the hash of (server id, secret, key), before the response is written *)
  Theorem C10_encryption_request : forall s sid key token, s_end s = None -> s_play s = false ->
    let s' := step1 s (SRecv (IEncReq sid key token)) in
    s_wire s' = s_wire s ++ [{| w_pkt := OEncResp (rsa key secret) (rsa key token); w_comp := s_comp s; w_enc := s_enc s |}] /\
    s_enc s' = Some secret /\ s_comp s' = s_comp s /\ s_queue s' = s_queue s /\ s_end s' = None /\ s_play s' = false /\
    s_joins s' = (if negb (zs_eq sid minus_one) && has_token then s_joins s ++ [(vhash sid secret key, length (s_wire s))] else s_joins s).
  Proof. exact (encryption_step rsa secret vhash has_token f107). Qed.

  (* every frame written after a set-compression / encryption request has been processed carries that
     threshold / that cipher, until the next such packet - for every schedule *)
  Theorem C10_flags_apply_to_everything_after : forall sched s, s_end s = None ->
    existsb is_setcomp (received sched) = false -> existsb is_encreq (received sched) = false ->
    let s' := fold_left step1 sched s in
    s_comp s' = s_comp s /\ s_enc s' = s_enc s /\
    exists new, s_wire s' = s_wire s ++ new /\ Forall (fun e => w_comp e = s_comp s /\ w_enc e = s_enc s) new.
  Proof. exact (flags_stable rsa secret vhash has_token f107). Qed.
  Theorem C10_set_compression : forall s t, s_end s = None ->
    let s' := step1 s (SRecv (ISetComp t)) in s_comp s' = Some t /\ s_wire s' = s_wire s /\ s_queue s' = s_queue s /\ s_enc s' = s_enc s /\ s_end s' = None.
  Proof. exact (set_compression_step rsa secret vhash has_token f107). Qed.

  (* plugin requests: answered unsuccessfully, each once, in request order - written or still queued -
     for every script and every schedule (the same invariant as C11) *)
  Theorem C10_plugin_answers : forall sched s, s_end s = None -> q_clean s ->
    let s' := fold_left step1 sched s in
    queued_only (pkts (s_wire s')) ++ s_queue s' =
      queued_only (pkts (s_wire s)) ++ s_queue s ++ spec_queued f107 (s_play s) (received sched).
  Proof. intros sched s H1 H2. exact (proj1 (responses_inv rsa secret vhash has_token f107 sched s H1 H2)). Qed.

  Theorem C10_success_enters_play : forall s, s_end s = None -> s_play s = false ->
    let s' := step1 s (SRecv ISuccess) in s_play s' = true /\ s_end s' = None /\ s_wire s' = s_wire s /\ s_queue s' = s_queue s.
  Proof. exact (success_step rsa secret vhash has_token f107). Qed.

  (* never a silent exit *)
  Theorem C10_disconnect_is_an_error : forall s msg, s_end s = None -> s_play s = false ->
    s_end (step1 s (SRecv (ILoginDisconnect msg))) =
      Some (match outdated_ver msg with Some v => EVersionMismatch v | None => ELoginDisconnect msg end).
  Proof. exact (login_disconnect_step rsa secret vhash has_token f107). Qed.

  (* a login on an object that has already been through a session - whatever state s that left behind (compression on, a
     cipher installed, packets still queued, the play state, a recorded error) - is, after connect(), the login of a fresh
     object under every schedule: the same frames with the same compression and cipher state (after the earlier history),
     the same joins, the same final state.  (connect() = Reactors.reconnect: new socket, new queue, compression reset,
     new login reactor.) *)
  Theorem C10_relogin_is_fresh : forall s sched,
    let a := fold_left step1 sched (reconnect s) in
    let b := run_session rsa secret vhash has_token f107 sched in
    s_wire a = s_wire s ++ s_wire b /\ s_joins a = s_joins s ++ shift_joins (length (s_wire s)) (s_joins b) /\
    s_play a = s_play b /\ s_comp a = s_comp b /\ s_enc a = s_enc b /\ s_queue a = s_queue b /\
    s_spawned a = s_spawned b /\ s_end a = s_end b /\ s_exits a = (s_exits s + s_exits b)%nat.
  Proof. exact (relogin_is_fresh rsa secret vhash has_token f107). Qed.
End C10.
Print Assumptions C10_encryption_request.
Print Assumptions C10_flags_apply_to_everything_after.
Print Assumptions C10_set_compression.
Print Assumptions C10_plugin_answers.
Print Assumptions C10_success_enters_play.
Print Assumptions C10_disconnect_is_an_error.
Print Assumptions C10_relogin_is_fresh.

Definition str (l : list Z) := l.
Example C10_ex :
  let s := run_session (fun _ m => m) [7; 7] (fun a _ _ => a) true true
     [SRecv (IPlugin 1); SRecv (ISetComp 64); SRecv (IEncReq [115] [9] [4; 2]); SRecv (IPlugin 2); SFlush 5; SRecv ISuccess; SRecv (IKeepAlive 3); SFlush 1] in
  s_wire s = [ {| w_pkt := OEncResp [7; 7] [4; 2]; w_comp := Some 64; w_enc := None |};
               {| w_pkt := OPluginResp 1; w_comp := Some 64; w_enc := Some [7; 7] |};
               {| w_pkt := OPluginResp 2; w_comp := Some 64; w_enc := Some [7; 7] |};
               {| w_pkt := OKeepAlive 3; w_comp := Some 64; w_enc := Some [7; 7] |} ] /\
  s_joins s = [([115], 0%nat)] /\ s_play s = true /\
  outdated_ver (pre_client ++ [49; 46; 56]) = Some [49; 46; 56] /\ outdated_ver (pre_server ++ [49; 46; 56; 10]) = Some [49; 46; 56] /\
  outdated_ver (pre_client ++ [49; 32; 56]) = None /\ outdated_ver (pre_client) = None.
Proof. vm_compute. repeat split; reflexivity. Qed.

(* the used object of the relogin theorem, concretely: compression was announced, a plugin answer is still queued, then the
   login was refused; the next login (plugin request, success) is written without compression and enters play *)
Example C10_relogin_ex :
  let run := fold_left (do_step (fun _ m => m) [7; 7] (fun a _ _ => a) true true) in
  let used := run [SRecv (ISetComp 64); SRecv (IPlugin 1); SRecv (ILoginDisconnect [120])] (init) in
  s_comp used = Some 64 /\ s_queue used = [OPluginResp 1] /\ s_end used = Some (ELoginDisconnect [120]) /\
  let again := run [SRecv (IPlugin 2); SFlush 3; SRecv ISuccess] (reconnect used) in
  s_wire again = [ {| w_pkt := OPluginResp 2; w_comp := None; w_enc := None |} ] /\ s_play again = true /\ s_end again = None.
Proof. vm_compute. repeat split; reflexivity. Qed.

(* "a disconnect packet during login always surfaces as a login-failure error ... never as a silent exit" - also when the
   answer to a plugin request could no longer be written: the error raised by reacting to the disconnect packet is what
   leaves the networking loop, whatever write error had been held back in that turn (Model/LoopErr.v). *)
Theorem C10_refusal_wins_over_write_error : forall held pre r e post,
  forallb quiet pre = true -> rd_raises r = Some e -> read_phase held (pre ++ r :: post) = TRaised e.
Proof. exact reaction_error_wins. Qed.
Print Assumptions C10_refusal_wins_over_write_error.
