(* C14 - networking-thread exceptions are contained and routed like try/except. *)
From Coq Require Import ZArith List Bool.
From PyCraft Require Import Model.ExcChain Spec.TryExcept Proofs.ExcChainProofs.
Import ListNotations.
Open Scope Z_scope.

(* The for/else loop of _handle_exception (iteration over a mutable current exception) IS Python's
   try/except chain (structural recursion where a raising handler passes its exception to the following
   clauses): same calls, same resulting exception, same "caught" - for every isinstance relation,
   handler list, type filters and behaviours. *)
Theorem C14_chain_is_try_except : forall isinst hs e,
  let st := handler_loop isinst hs e in (ls_log st, ls_exc st, ls_caught st) = try_except isinst hs e.
Proof. exact chain_is_try_except. Qed.
Print Assumptions C14_chain_is_try_except.

Theorem C14_first_match_receives : forall isinst hs e pre h post, hs = pre ++ h :: post ->
  Forall (fun g => hmatches isinst g e = false) pre -> hmatches isinst h e = true ->
  exists rest, fst (fst (try_except isinst hs e)) = HCall (h_id h) e (h_reconnects h) :: rest.
Proof. exact first_match_receives. Qed.
Print Assumptions C14_first_match_receives.

Theorem C14_final_always_runs : forall isinst hook hs f rc e, hook <> RConsumed ->
  let e0 := match hook with RRaises e' => e' | _ => e end in
  r_log (handle_exception isinst hook hs (FFun f rc) e) =
    ls_log (handler_loop isinst hs e0) ++ [FinalCall (ls_exc (handler_loop isinst hs e0)) rc].
Proof. exact final_always_runs. Qed.
Print Assumptions C14_final_always_runs.

Theorem C14_recorded : forall isinst hook hs fin e, hook <> RConsumed ->
  let e0 := match hook with RRaises e' => e' | _ => e end in
  let ec := ls_exc (handler_loop isinst hs e0) in
  r_recorded (handle_exception isinst hook hs fin e) =
    Some (match fin with FFun f _ => match f ec with HReturn => ec | HRaise e' => e' end | _ => ec end).
Proof. exact recorded. Qed.
Print Assumptions C14_recorded.

Theorem C14_reraise_iff : forall isinst hook hs fin e,
  r_reraised (handle_exception isinst hook hs fin e) <> None <->
  fin = FNone /\ r_caught (handle_exception isinst hook hs fin e) = false /\ hook <> RConsumed.
Proof. exact reraise_iff. Qed.
Print Assumptions C14_reraise_iff.

(* the thread ends, its slot is cleared (so the same object can connect again), and the connection is
   closed unless a handler that ran has already started a new one *)
Theorem C14_thread_ends_and_closes : forall isinst hook hs fin e, hook <> RConsumed ->
  let a := thread_run_raising isinst hook hs fin e in
  a_interrupt a = true /\ a_slot_cleared a = true /\
  r_disconnected (a_result a) = negb (existsb call_reconnects (r_log (a_result a))).
Proof. exact thread_ends_and_closes. Qed.
Print Assumptions C14_thread_ends_and_closes.

Definition isi (e t : Z) : bool := (e =? t) || (t =? 0).
Example C14_ex :
  let H i ts b := {| h_id := i; h_types := ts; h_beh := b; h_reconnects := false |} in
  let r := handle_exception isi RPass [H 1 [5] (fun _ => HReturn); H 2 [7] (fun _ => HRaise 8); H 3 [7] (fun _ => HReturn); H 4 [] (fun _ => HReturn)]
             (FFun (fun _ => HReturn) false) 7 in
  r_log r = [HCall 2 7 false; HCall 4 8 false; FinalCall 8 false] /\ r_recorded r = Some 8 /\ r_caught r = true /\ r_reraised r = None.
Proof. vm_compute. repeat split; reflexivity. Qed.
