(* C16 - connection lifecycle: one active thread, clean refusal, always reusable. *)
From Coq Require Import List Bool Arith.
From PyCraft Require Import Model.Lifecycle Proofs.LifecycleProofs.
Import ListNotations.

(* Every history of actions, of any length: connect() / status() calls (TCP accepted or refused),
   disconnect() calls, and the steps of every networking thread ever created (passing the join on its
   predecessor and entering the loop; leaving the loop on interrupt; leaving it by an exception; the
   finally clause), interleaved in any order - calls made from inside listeners and handlers are calls
   made while the calling thread is in its loop or has just left it. *)

(* at most one networking thread is in the read/write loop (or between the loop and its finally clause) *)
Theorem C16_one_active_thread : forall acts t1 th1 t2 th2,
  get (run_actions acts init_conn) t1 = Some th1 -> get (run_actions acts init_conn) t2 = Some th2 ->
  in_loop (nt_state th1) = true -> in_loop (nt_state th2) = true -> t1 = t2.
Proof. exact one_active_thread. Qed.
Print Assumptions C16_one_active_thread.

(* a successor enters the loop only after its predecessor has finished *)
Theorem C16_successor_after_predecessor : forall acts t th p,
  get (run_actions acts init_conn) t = Some th -> nt_prev th = Some p -> nt_state th <> TCreated ->
  exists pth, get (run_actions acts init_conn) p = Some pth /\ nt_state pth = TFinished.
Proof. exact successor_after_predecessor. Qed.
Print Assumptions C16_successor_after_predecessor.

(* on an active connection connect() / status() fail with InvalidState and change nothing *)
Theorem C16_refusal : forall c ok, active c = true -> do_action c (AConnect ok) = (c, RInvalidState).
Proof. exact refusal. Qed.
Print Assumptions C16_refusal.

(* once every thread has finished - whatever ended it - the connection is not active and connect() succeeds;
   a refused TCP connect leaves it that way *)
Theorem C16_reusable : forall acts, let c := run_actions acts init_conn in
  (forall t th, get c t = Some th -> nt_state th = TFinished) -> active c = false /\ snd (do_action c (AConnect true)) = ROk.
Proof. exact reusable. Qed.
Print Assumptions C16_reusable.
Theorem C16_refused_connect : forall c, active c = false ->
  let c' := fst (do_action c (AConnect false)) in snd (do_action c (AConnect false)) = RRefused /\ active c' = false /\ ths c' = ths c.
Proof. exact refused_connect_keeps_reusable. Qed.
Print Assumptions C16_refused_connect.

(* disconnect() returns normally in every state, any number of times, and interrupts the thread in charge *)
Theorem C16_disconnect_total : forall c, snd (do_action c ADisconnect) = ROk.
Proof. exact disconnect_total. Qed.
Print Assumptions C16_disconnect_total.
Theorem C16_disconnect_interrupts : forall c t th, Inv c -> get c t = Some th ->
  (nxt c = Some t \/ (nxt c = None /\ cur c = Some t)) ->
  interrupted (fst (do_action c ADisconnect)) t = true /\ active (fst (do_action c ADisconnect)) = (match nxt c with Some _ => true | None => false end).
Proof. exact disconnect_interrupts. Qed.
Print Assumptions C16_disconnect_interrupts.
(* ... and an interrupted thread in the loop can always leave it and finish (its steps are enabled) *)
Theorem C16_interrupted_thread_terminates : forall c t th, get c t = Some th -> nt_state th = TInLoop -> nt_interrupt th = true ->
  exists th', get (fst (do_action (fst (do_action c (ALeave t))) (AFinally t))) t = Some th' /\ nt_state th' = TFinished.
Proof.
  intros c t th G S Hi.
  assert (fst (do_action c (ALeave t)) = set_thread c t {| nt_state := TLeft; nt_interrupt := true; nt_prev := nt_prev th |}) as E1
    by (cbn [do_action]; rewrite G, S, Hi; reflexivity).
  rewrite E1.
  assert (get (set_thread c t {| nt_state := TLeft; nt_interrupt := true; nt_prev := nt_prev th |}) t = Some {| nt_state := TLeft; nt_interrupt := true; nt_prev := nt_prev th |}) as G'
    by (rewrite (get_set_thread c t _ t th G), Nat.eqb_refl; reflexivity).
  cbn [do_action]. rewrite G'. cbn [nt_state nt_interrupt nt_prev fst]. exists {| nt_state := TFinished; nt_interrupt := true; nt_prev := nt_prev th |}. split; [|reflexivity]. unfold get. cbn [ths].
  apply (ConcProofs.nth_upd_same _ _ _ _ G').
Qed.
Print Assumptions C16_interrupted_thread_terminates.

Example C16_ex :
  results [AConnect true; AConnect true; ADisconnect; AConnect true; ABegin 0; ABegin 1; ALeave 0; AFinally 0; ABegin 1; AConnect true; ADisconnect; ALeave 1; AFinally 1; AConnect false; AConnect true] init_conn
  = [ROk; RInvalidState; ROk; ROk; RNone; RNone; RNone; RNone; RNone; RInvalidState; ROk; RNone; RNone; RRefused; ROk].
Proof. vm_compute. reflexivity. Qed.
