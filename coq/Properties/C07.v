(* C07 - core packets match the published protocol for every supported release. *)
From Coq Require Import ZArith List Bool.
From PyCraft Require Import Base.Res Model.Tables Model.FieldTypes Spec.ProtocolTable Proofs.C07Proofs.
From Gen Require Import Tables Versions.
Import ListNotations.
Open Scope Z_scope.

Definition memZ (x : Z) (l : list Z) : bool := existsb (Z.eqb x) l.

(* the releases the README lists are exactly the table's releases *)
Theorem C07_release_list :
  forallb (fun v => memZ v spec_releases) readme_release_protocols = true /\
  forallb (fun v => memZ v readme_release_protocols) spec_releases = true.
Proof. vm_compute. split; reflexivity. Qed.
Print Assumptions C07_release_list.

Fixpoint index_in (v : Z) (l : list Z) (i : Z) : option Z :=
  match l with [] => None | x :: t => if x =? v then Some i else index_in v t (i + 1) end.
Definition vi_of (v : Z) : option Z := index_in v protos 0.
Fixpoint assoc_opt (l : list (Z * Z)) (k : Z) : option Z :=
  match l with [] => None | (k', c) :: t => if k' =? k then Some c else assoc_opt t k end.
Definition opt_eqb (o : option Z) (n : Z) : bool := match o with Some m => m =? n | None => false end.

(* one (core packet, release): the class pyCraft registers in the right state/direction table has the
   published id and a layout that is field-by-field wire-compatible with the published one *)
Definition core_ok (p v : Z) : bool :=
  match vi_of v, assoc_opt core_class p with
  | Some vi, Some c =>
      if spec_exists p v then
        memZ c (members (spec_table p) vi) && opt_eqb (id_of c vi) (spec_id p v) &&
        match def_of c vi with Some d => layout_compat (map snd d) (spec_layout p v) | None => false end
      else negb (memZ c (members (spec_table p) vi))
  | _, _ => false
  end.

Theorem C07_ids_and_layouts : forall v p, In v spec_releases -> In p core_packets -> core_ok p v = true.
Proof.
  assert (forallb (fun v => forallb (fun p => core_ok p v) core_packets) spec_releases = true) as H by (vm_compute; reflexivity).
  intros v p Hv Hp. rewrite forallb_forall in H. specialize (H v Hv). rewrite forallb_forall in H. exact (H p Hp).
Qed.
Print Assumptions C07_ids_and_layouts.

(* wire-compatible layouts write the same bytes (universal over values; a signed and an unsigned
   byte agree modulo 256), so what Packet.write_fields puts on the wire for a core packet is what the
   published layout prescribes; the id precedes it in the frame (C01). *)
Theorem C07_bytes : forall c (d : defn) (s : list ftype) vs bs,
  layout_compat (map snd d) s = true -> encode_fields c d vs = Ok bs ->
  encode_fields c (unnamed s) (views (map snd d) s vs) = Ok bs.
Proof. exact layout_same_bytes. Qed.
Print Assumptions C07_bytes.

(* non-vacuity and a few published facts spelled out *)
Example C07_ex :
  (length spec_releases =? 30)%nat = true /\ (length core_packets =? 20)%nat = true /\
  spec_id P_keep_alive_cb 340 = 31 /\ spec_layout P_keep_alive_cb 338 = [TVarInt] /\ spec_layout P_keep_alive_cb 340 = [TLong] /\
  spec_id P_chat_sb 757 = 3 /\ spec_id P_join_game 47 = 1 /\ spec_id P_disconnect 47 = 64 /\
  core_ok P_teleport_confirm 47 = true /\ core_ok P_teleport_confirm 107 = true.
Proof. vm_compute. repeat split; reflexivity. Qed.
