(* C18 - the encrypted channel is AES-128-CFB8 keyed by the secret; secrets reach the server. *)
From Coq Require Import ZArith List Bool.
From PyCraft Require Import Model.Aes Model.Cfb8 Model.Rsa Proofs.CipherProofs.
Import ListNotations.
Open Scope Z_scope.

(* CFB8 over ANY block function: decryption inverts encryption for every plaintext and register, and
   leaves both ends in the same state *)
Theorem C18_cfb8_inverse : forall E ps sr, dec_stream E sr (fst (enc_stream E sr ps)) = (ps, snd (enc_stream E sr ps)).
Proof. exact dec_enc_stream. Qed.
Print Assumptions C18_cfb8_inverse.

(* one continuous stream per direction: any split across calls gives the encryption of the whole *)
Theorem C18_chunking : forall E chunks sr,
  concat (fst (enc_chunks E sr chunks)) = fst (enc_stream E sr (concat chunks)) /\
  concat (fst (dec_chunks E sr chunks)) = fst (dec_stream E sr (concat chunks)).
Proof. intros E chunks sr. split; [apply enc_chunking|apply dec_chunking]. Qed.
Print Assumptions C18_chunking.

(* any partition into send() calls against any partition into recv()/read() results *)
Theorem C18_end_to_end : forall E sr sends recvs,
  concat recvs = concat (fst (enc_chunks E sr sends)) -> concat (fst (dec_chunks E sr recvs)) = concat sends.
Proof. exact cfb8_end_to_end. Qed.
Print Assumptions C18_end_to_end.

(* key and IV are both the shared secret, block function AES-128 (by definition of the model, which the
   correspondence ties to create_AES_cipher); the two directions are separate instances of the stream *)
Theorem C18_key_iv : forall secret chunks,
  mc_encrypt secret chunks = fst (enc_chunks (aes128 secret) secret chunks) /\
  mc_decrypt secret chunks = fst (dec_chunks (aes128 secret) secret chunks).
Proof. intros. split; reflexivity. Qed.
Print Assumptions C18_key_iv.

(* PKCS#1 v1.5: for every message and every non-zero padding string of at least 8 bytes, the key holder
   strips the padding to exactly the message; and with any RSA primitive invertible below the modulus
   recovers it from the ciphertext integer *)
Theorem C18_pkcs1_unpad : forall ps m, Forall (fun b => b <> 0) ps -> (8 <= length ps)%nat -> pkcs1_unpad (pkcs1_pad ps m) = Some m.
Proof. exact pkcs1_unpad_pad. Qed.
Print Assumptions C18_pkcs1_unpad.
Theorem C18_secrets_delivered : forall (rsa_enc rsa_dec : Z -> Z) modulus,
  (forall x, 0 <= x < modulus -> rsa_dec (rsa_enc x) = x) ->
  forall ps m, Forall (fun b => 0 < b < 256) ps -> (8 <= length ps)%nat -> Forall (fun b => 0 <= b < 256) m ->
  0 <= os2ip (pkcs1_pad ps m) < modulus ->
  decrypt_block rsa_dec (length (pkcs1_pad ps m)) (encrypt_block rsa_enc ps m) = Some m.
Proof. exact key_holder_recovers. Qed.
Print Assumptions C18_secrets_delivered.

(* FIPS-197 appendix C.1, and an AES-128-CFB8 stream, computed by the kernel *)
Example C18_fips197 :
  aes128 [0;1;2;3;4;5;6;7;8;9;10;11;12;13;14;15] [0;17;34;51;68;85;102;119;136;153;170;187;204;221;238;255]
  = [105;196;224;216;106;123;4;48;216;205;183;128;112;180;197;90].
Proof. vm_compute. reflexivity. Qed.
Example C18_stream_ex :
  let k := [0;1;2;3;4;5;6;7;8;9;10;11;12;13;14;15] in
  mc_decrypt k [concat (mc_encrypt k [[1; 2]; [3]; []; [4; 5; 6]])] = [[1; 2; 3; 4; 5; 6]].
Proof. vm_compute. reflexivity. Qed.
