(* C13 - listeners fire in documented order, once each; ignore stops later stages. *)
From Coq Require Import ZArith List Bool.
From PyCraft Require Import Model.Dispatch Proofs.DispatchProofs Proofs.FlushProofs.
From PyCraft Require Model.LoopErr Proofs.LoopErrProofs.
Import ListNotations.
Open Scope Z_scope.

(* For every subclass relation, every list of early and ordinary listeners (filters, behaviours), every
   built-in reaction and every packet: the calls made are the early listeners whose filter contains a
   superclass of the packet's class, in registration order, then the reaction, then the matching
   ordinary listeners in registration order - truncated right after the first one that signals ignore
   (or raises). *)
Theorem C13_incoming_order : forall subclass early late reaction p,
  react_in subclass early late reaction p =
  cut (cands subclass early p ++ (Reaction (p_key p), reaction p) :: cands subclass late p).
Proof. exact react_in_spec. Qed.
Print Assumptions C13_incoming_order.

Theorem C13_once_each : forall subclass early late reaction p,
  NoDup (map l_id (early ++ late)) -> NoDup (fst (react_in subclass early late reaction p)).
Proof. exact at_most_once. Qed.
Print Assumptions C13_once_each.

Theorem C13_called_iff_matching : forall subclass early late reaction p l,
  snd (react_in subclass early late reaction p) = ODone -> In l (early ++ late) ->
  (In (Call (l_id l) (p_key p)) (fst (react_in subclass early late reaction p)) <->
   exists l', In l' (early ++ late) /\ l_id l' = l_id l /\ matches subclass l' p = true).
Proof. exact called_iff. Qed.
Print Assumptions C13_called_iff_matching.

(* outgoing: early outgoing listeners, then the write, then outgoing listeners; an early ignore
   suppresses the write *)
Theorem C13_outgoing_order : forall subclass early_out late_out p,
  write_out subclass early_out late_out (fun _ => Return) p =
  cut (cands subclass early_out p ++ (Written (p_key p), Return) :: cands subclass late_out p).
Proof. exact write_out_spec. Qed.
Print Assumptions C13_outgoing_order.
Theorem C13_early_ignore_suppresses_write : forall subclass early_out late_out p,
  snd (run_listeners subclass early_out p) <> ODone ->
  forall pk, ~ In (Written pk) (fst (write_out subclass early_out late_out (fun _ => Return) p)).
Proof. exact early_ignore_suppresses_write. Qed.
Print Assumptions C13_early_ignore_suppresses_write.

(* a write that fails (the socket raises e): nothing counts as written, no ordinary outgoing listener hears of the
   packet, and e reaches the caller - whatever the state of the connection *)
Theorem C13_failed_write_not_announced : forall subclass early_out late_out write p e,
  write p = Raise e ->
  (forall pk, ~ In (Written pk) (fst (write_out subclass early_out late_out write p))) /\
  (forall l, In l late_out -> ~ In (l_id l) (map l_id early_out) ->
             ~ In (Call (l_id l) (p_key p)) (fst (write_out subclass early_out late_out write p))).
Proof. exact failed_write_not_announced. Qed.
Print Assumptions C13_failed_write_not_announced.
Theorem C13_failed_write_reaches_caller : forall subclass early_out late_out write p e,
  write p = Raise e -> snd (run_listeners subclass early_out p) = ODone ->
  write_out subclass early_out late_out write p = (fst (run_listeners subclass early_out p), ORaised e).
Proof. exact failed_write. Qed.
Print Assumptions C13_failed_write_reaches_caller.

(* a write that failed in a turn of the loop does not change which of the packets read in that turn are dispatched
   (Model/LoopErr.v: read_phase_n counts the packets handed to _react) *)
Theorem C13_failed_write_does_not_skip_dispatch : forall reads held held',
  snd (LoopErr.read_phase_n held reads) = snd (LoopErr.read_phase_n held' reads).
Proof. exact LoopErrProofs.dispatch_count_independent_of_write_error. Qed.
Print Assumptions C13_failed_write_does_not_skip_dispatch.
Theorem C13_every_readable_packet_dispatched : forall reads held,
  forallb LoopErrProofs.quiet reads = true -> snd (LoopErr.read_phase_n held reads) = length reads.
Proof. exact LoopErrProofs.all_dispatched_when_quiet. Qed.
Print Assumptions C13_every_readable_packet_dispatched.
Theorem C13_counting_turn_is_the_turn : forall reads held, fst (LoopErr.read_phase_n held reads) = LoopErr.read_phase held reads.
Proof. exact LoopErrProofs.read_phase_n_fst. Qed.
Print Assumptions C13_counting_turn_is_the_turn.

(* histories: an ignore affects that packet only - the log of a history is the concatenation *)
Theorem C13_histories : forall subclass early late reaction ps,
  (forall p, In p ps -> forall e, snd (react_in subclass early late reaction p) <> ORaised e) ->
  fst (react_all subclass early late reaction ps) = flat_map (fun p => fst (react_in subclass early late reaction p)) ps.
Proof. exact react_all_concat. Qed.
Print Assumptions C13_histories.

(* registration order is kept within each of the four classes *)
Theorem C13_registration : forall regs,
  let sel (e o : bool) := map (fun x => fst (fst x)) (filter (fun x => Bool.eqb (snd (fst x)) e && Bool.eqb (snd x) o) regs) in
  r_late (register_all regs) = sel false false /\ r_early (register_all regs) = sel true false /\
  r_out (register_all regs) = sel false true /\ r_early_out (register_all regs) = sel true true.
Proof. exact register_order. Qed.
Print Assumptions C13_registration.

(* The flush of the outgoing queue (disconnect(), the write phase of the loop): a packet vetoed by an outgoing listener
   (IgnorePacket) or refused by its own write is skipped - for that packet only; every other queued packet is written, in
   queue order, once, and the queue is empty afterwards. *)
Theorem C13_flush_skips_only_vetoed : forall subclass early_out late_out write ps,
  Forall (no_raise subclass early_out late_out write) ps ->
  let '(log, o, rest) := flush_all subclass early_out late_out write ps in
  written_keys log = map p_key (filter (goes_out subclass early_out write) ps) /\ rest = [] /\ (forall e, o <> ORaised e).
Proof. exact flush_skips_only_vetoed. Qed.
Print Assumptions C13_flush_skips_only_vetoed.

(* An exception other than IgnorePacket ends the flush at that packet: what precedes it was written as above, what
   follows it is still queued, and the exception is the outcome. *)
Theorem C13_flush_stops_at_raise : forall subclass early_out late_out write pre p post e,
  Forall (no_raise subclass early_out late_out write) pre ->
  snd (write_out subclass early_out late_out write p) = ORaised e ->
  let '(log, o, rest) := flush_all subclass early_out late_out write (pre ++ p :: post) in
  o = ORaised e /\ rest = post /\
  written_keys log = map p_key (filter (goes_out subclass early_out write) pre)
                     ++ (if goes_out subclass early_out write p then [p_key p] else []).
Proof. exact flush_stops_at_raise. Qed.
Print Assumptions C13_flush_stops_at_raise.

Definition sub01 (c t : Z) : bool := (c =? t) || (t =? 0).      (* class 0 is the root *)
Example C13_ex :
  let L i f b := {| l_id := i; l_filter := f; l_beh := fun _ => b |} in
  react_in sub01 [L 1 [5] Return; L 2 [0] Ignore; L 3 [0] Return] [L 4 [0] Return] (fun _ => Return) {| p_key := 9; p_cls := 7 |}
    = ([Call 2 9], OIgnored) /\
  react_in sub01 [L 1 [7] Return] [L 4 [0] Return; L 5 [3] Return] (fun _ => Return) {| p_key := 9; p_cls := 7 |}
    = ([Call 1 9; Reaction 9; Call 4 9], ODone).
Proof. vm_compute. split; reflexivity. Qed.

Example C13_ex_flush :
  let L i f b := {| l_id := i; l_filter := f; l_beh := b |} in
  let veto := L 1 [0] (fun p => if p_key p =? 20 then Ignore else Return) in
  let P k := {| p_key := k; p_cls := 7 |} in
  flush_all sub01 [veto] [L 2 [0] (fun _ => Return)] (fun _ => Return) [P 10; P 20; P 30]
    = ([Call 1 10; Written 10; Call 2 10; Call 1 20; Call 1 30; Written 30; Call 2 30], ODone, []).
Proof. vm_compute. reflexivity. Qed.
