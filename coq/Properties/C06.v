(* C06 - per-version packet id tables are total and injective.
   Finite statement, evaluated by the kernel over the tables reified from the source on this run,
   plus the universal order-independence lemma. *)
From Coq Require Import ZArith List Bool Permutation.
From PyCraft Require Import Model.Tables Proofs.TablesProofs.
From Gen Require Import Tables.
Import ListNotations.
Open Scope Z_scope.

Definition tables8 : list Z := [0; 1; 2; 3; 4; 5; 6; 7].

(* every supported version, all 8 state/direction tables: every member class (outside the listed,
   still-reproducing known findings in [skips]) has a non-negative id, ids pairwise distinct *)
Theorem C06_ids_total_injective : forall vi tbl, In vi supported_idx -> In tbl tables8 ->
  members_defined tbl vi = true /\
  table_ok members id_of (map (fun s => snd s) (filter (fun s => (fst (fst s) =? vi) && (snd (fst s) =? tbl)) skips)) tbl vi = true.
Proof.
  assert (forallb (fun vi => forallb (fun tbl => members_defined tbl vi) tables8) supported_idx = true) as Hd
    by (vm_compute; reflexivity).
  assert (all_tables_ok members id_of skips tables8 supported_idx = true) as Hok by (vm_compute; reflexivity).
  intros vi tbl Hvi Htbl. split.
  - rewrite forallb_forall in Hd. specialize (Hd vi Hvi). rewrite forallb_forall in Hd. exact (Hd tbl Htbl).
  - exact (all_tables_ok_spec members id_of skips tables8 supported_idx Hok vi tbl Hvi Htbl).
Qed.
Print Assumptions C06_ids_total_injective.

(* meaning of the boolean check where nothing is skipped *)
Theorem C06_meaning : forall tbl vi, table_ok members id_of [] tbl vi = true ->
  (forall c, In c (members tbl vi) -> exists n, id_of c vi = Some n /\ 0 <= n)
  /\ NoDup (map (fun c => id_of c vi) (members tbl vi)).
Proof. exact (table_ok_spec members id_of). Qed.
Print Assumptions C06_meaning.

(* an incoming id selects the class whose id it is, whatever the set iteration order (universal) *)
Theorem C06_decoder_choice : forall (id : Z -> Z) (ms order : list Z),
  NoDup (map id ms) -> Permutation ms order ->
  (forall c, In c ms -> lookup_last (build_table id order) (id c) = Some c)
  /\ (forall k, ~ In k (map id ms) -> lookup_last (build_table id order) k = None).
Proof. exact decoder_choice. Qed.
Print Assumptions C06_decoder_choice.

(* the listed exceptions are real: each skipped class still shares its id with another member *)
Definition skip_real (s : Z * Z * Z) : bool :=
  let '(vi, tbl, c) := s in
  existsb (fun c' => negb (c' =? c) && match id_of c vi, id_of c' vi with Some a, Some b => a =? b | _, _ => false end)
          (members tbl vi) && existsb (Z.eqb c) (members tbl vi).
Theorem C06_refuted_known_findings : forallb skip_real skips = true.
Proof. vm_compute. reflexivity. Qed.
Print Assumptions C06_refuted_known_findings.

(* non-vacuity: the sweep covers 250 versions x 8 tables and the play table is populated *)
Example C06_ex : (length supported_idx =? 250)%nat = true /\ (20 <=? length (members 3 (nversions - 1)))%nat = true.
Proof. vm_compute. split; reflexivity. Qed.
