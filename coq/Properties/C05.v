(* C05 - every packet class round-trips under every supported protocol version. *)
From Coq Require Import ZArith List Bool Permutation.
From PyCraft Require Import Base.Res Model.Tables Model.Prim Model.FieldTypes Model.Prog Model.CustomPackets.
From PyCraft Require Import Proofs.FieldTypesProofs Proofs.ProgProofs Proofs.DefnWf Proofs.TablesProofs.
From Gen Require Import Tables.
Import ListNotations.
Open Scope Z_scope.

(* Every layout - a field list, or a layout with control fields and counted repetitions (the six
   packets with hand-written read / write_fields) - and every assignment of wire-representable values:
   writing succeeds, and reading the bytes followed by any further bytes (none, if the layout ends in
   a trailing array) returns exactly those values (angles and fixed point to their quantum) and
   consumes exactly the payload. *)
Theorem C05_layout_roundtrip : forall c nbt p vs, pdom c nbt p vs ->
  exists bs, enc_prog c p vs = Ok bs /\
    forall rest, (ends_trail p vs = true -> rest = []) -> dec_prog c nbt p (bs ++ rest) = Ok (pcanon p vs, rest).
Proof. intros c nbt p vs H. destruct (prog_rt c nbt p vs H) as (bs & Hb & _ & Hr). exists bs. split; assumption. Qed.
Print Assumptions C05_layout_roundtrip.

(* The same for Packet.write_fields / Packet.read over ANY declared definition: user-defined packets. *)
Theorem C05_user_defined : forall c nbt (d : defn) vs, pdom c nbt (prog_of_defn d) vs ->
  exists bs, encode_fields c d vs = Ok bs /\
    forall rest, (ends_trail (prog_of_defn d) vs = true -> rest = []) ->
      decode_fields c nbt d (bs ++ rest) = Ok (pcanon (prog_of_defn d) vs, rest).
Proof.
  intros c nbt d vs H. destruct (prog_rt c nbt _ vs H) as (bs & Hb & _ & Hr). exists bs.
  rewrite enc_defn_prog. split; [exact Hb|]. intros rest Hrest. rewrite dec_defn_prog. exact (Hr rest Hrest).
Qed.
Print Assumptions C05_user_defined.

Definition tables8 : list Z := [0; 1; 2; 3; 4; 5; 6; 7].
Definition class_ok (vi c : Z) : bool :=
  match def_of c vi with
  | Some d => wf_defn d
  | None => existsb (Z.eqb c) custom_modelled
  end.

(* Finite, evaluated by the kernel over the tables reified on this run: every class registered in any
   of the 8 tables at any supported version either has a well-formed definition (so the theorem above
   applies to it, and well-formed types have values: wf_inhabited) or is one of the six hand-modelled
   classes. *)
Theorem C05_tables : forall vi tbl c, In vi supported_idx -> In tbl tables8 -> In c (members tbl vi) -> class_ok vi c = true.
Proof.
  assert (forallb (fun vi => forallb (fun tbl => forallb (class_ok vi) (members tbl vi)) tables8) supported_idx = true) as H
    by (vm_compute; reflexivity).
  intros vi tbl c Hvi Ht Hc. rewrite forallb_forall in H. specialize (H vi Hvi).
  rewrite forallb_forall in H. specialize (H tbl Ht). rewrite forallb_forall in H. exact (H c Hc).
Qed.
Print Assumptions C05_tables.

Theorem C05_wf_types_have_values : forall c nbt t, wf_type t = true -> nbt_free t = true -> exists v, in_dom c nbt t v.
Proof. exact wf_inhabited. Qed.
Print Assumptions C05_wf_types_have_values.

(* Reading a written frame back through the id table of its version selects the class that wrote it
   whenever ids are distinct (C06; its listed exceptions are C05's too). *)
Theorem C05_same_class : forall (id : Z -> Z) (ms order : list Z),
  NoDup (map id ms) -> Permutation ms order -> forall c, In c ms -> lookup_last (build_table id order) (id c) = Some c.
Proof. intros id ms order Hn Hp. exact (proj1 (decoder_choice id ms order Hn Hp)). Qed.
Print Assumptions C05_same_class.

(* non-vacuity: concrete packets of the hand-modelled classes, written and read back by the kernel *)
Definition c0 := {| c_pos_zy := true; c_rec_new := true; c_pitch_float := true |}.
Fixpoint eqbl (a b : list Z) : bool := match a, b with [], [] => true | x :: a', y :: b' => (x =? y) && eqbl a' b' | _, _ => false end.
Definition rt (p : prog) (vs : list value) : bool :=
  match enc_prog c0 p vs with
  | Ok bs => match dec_prog c0 (fun _ => None) p bs with
             | Ok (vs', []) => match enc_prog c0 p vs' with Ok bs' => eqbl bs bs' | _ => false end
             | _ => false end
  | _ => false
  end.
Definition U0 := VStr (uuid_text zero_uuid).
Example C05_custom_examples :
  rt plugin_response [VInt 7; VBool true; VBytes [1; 2; 3]] = true /\
  rt plugin_response [VInt 7; VBool false] = true /\
  rt (face_player true) [VInt 1; VInt 0; VInt 0; VInt 0; VBool true; VInt 9; VInt 0] = true /\
  rt (face_player false) [VBool false; VInt 1; VInt 2; VInt 3] = true /\
  rt (combat_event false) [VInt 2; VInt 5; VInt (-1); VStr [104; 105]] = true /\
  rt (spawn_object true true true) [VInt 1; U0; VInt 70; VInt 0; VInt 0; VInt 0; VQ 90 0; VQ 45 0; VInt 0; VInt 1; VInt (-1); VInt 0] = true /\
  rt (spawn_object false false false) [VInt 1; VInt 70; VInt 0; VInt 0; VInt 0; VQ 90 0; VQ 45 0; VInt 0] = true /\
  rt player_list_item [VInt 0; VList [VTup [U0; VStr [97]; VList [VTup [VStr [110]; VStr [118]; VBool true; VStr [115]]]; VInt 1; VInt 20; VBool false]]] = true /\
  rt player_list_item [VInt 4; VList [VTup [U0]; VTup [U0]]] = true /\
  rt (map_packet false true true true true)
     [VInt 3; VInt 1; VBool false; VBool true; VList [VTup [VInt 2; VInt (-5); VInt 5; VInt 8; VBool true; VStr [120]]];
      VInt 2; VInt 1; VInt (-3); VInt 4; VBytes [9; 9]] = true /\
  rt (map_packet true false false false false) [VInt 3; VInt 1; VBool true; VList [VTup [VInt 35; VInt 0; VInt 0]]; VInt 0] = true.
Proof. vm_compute. repeat split; reflexivity. Qed.
