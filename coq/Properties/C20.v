(* C20 - state trackers replay packet histories; helper value types obey their laws. *)
From Coq Require Import ZArith List Bool.
From PyCraft Require Import Model.Trackers Proofs.TrackersProofs.
Import ListNotations.
Open Scope Z_scope.

(* player list: after ANY history of add / update / remove actions the tracker (a dict) maps every uuid to
   what replaying the history prescribes: an add overwrites, updates and removals of unknown players are
   no-ops *)
Theorem C20_playerlist_replay : forall acts d, wf_dict d ->
  wf_dict (fold_left papply acts d) /\ forall x, dget (fold_left papply acts d) x = fold_left aapply acts (dget d) x.
Proof. exact playerlist_replay. Qed.
Print Assumptions C20_playerlist_replay.

(* map patch: for a patch lying inside the map (every target index in range, the patch no wider than the
   room right of its offset), pixel offset + (i mod w, i div w) holds patch byte i, every other pixel is
   unchanged *)
Theorem C20_map_patch : forall mapw offx offz w px, (0 < w)%nat -> (offx + w <= mapw)%nat ->
  forall n pix, (forall i, (i < n)%nat -> (target mapw offx offz w i < length pix)%nat) ->
  length (patch_upto mapw offx offz w px n pix) = length pix /\
  (forall i, (i < n)%nat -> nth (target mapw offx offz w i) (patch_upto mapw offx offz w px n pix) 0 = nth i px 0) /\
  (forall j, (forall i, (i < n)%nat -> target mapw offx offz w i <> j) -> nth j (patch_upto mapw offx offz w px n pix) 0 = nth j pix 0).
Proof. exact patch_spec. Qed.
Print Assumptions C20_map_patch.

(* position: relative flags add, others assign; yaw and pitch end in [0, 360) and differ from the raw
   value by whole turns *)
Theorem C20_position : forall full_turn flags p t, 0 < full_turn ->
  let r := papply_pos full_turn flags p t in
  px_ r = (if Z.testbit flags 0 then px_ t + px_ p else px_ p) /\
  py_ r = (if Z.testbit flags 1 then py_ t + py_ p else py_ p) /\
  pz_ r = (if Z.testbit flags 2 then pz_ t + pz_ p else pz_ p) /\
  0 <= pyaw r < full_turn /\ 0 <= ppitch r < full_turn /\
  (pyaw r - (if Z.testbit flags 3 then pyaw t + pyaw p else pyaw p)) mod full_turn = 0 /\
  (ppitch r - (if Z.testbit flags 4 then ppitch t + ppitch p else ppitch p)) mod full_turn = 0.
Proof. exact position_apply. Qed.
Print Assumptions C20_position.

(* flag names: a printed name parses back (OR of the named members) to the value; every value that is an OR
   of members gets a name - for every enum (member names distinct) and every integer value *)
Theorem C20_flag_name_parses_back : forall ms value names, NoDup (map fst ms) ->
  name_from_value ms value = Some names -> parse_names ms names = value.
Proof. exact name_parses_back. Qed.
Print Assumptions C20_flag_name_parses_back.
Theorem C20_flag_or_of_members_named : forall ms value sub, (forall e, In e sub -> In e ms) ->
  value = fold_left Z.lor (map snd sub) 0 -> exists names, name_from_value ms value = Some names.
Proof. exact or_of_members_has_name. Qed.
Print Assumptions C20_flag_or_of_members_named.

(* records: equal records hash equally; equality is type-sensitive and field-wise *)
Theorem C20_record_eq_hash : forall H a b, mr_eq a b = true -> mr_hash H a = mr_hash H b.
Proof. exact record_eq_hash. Qed.
Print Assumptions C20_record_eq_hash.
Theorem C20_record_eq_fieldwise : forall a b, mr_eq a b = true <-> mr_type a = mr_type b /\ mr_slots a = mr_slots b.
Proof. exact record_eq_fieldwise. Qed.
Print Assumptions C20_record_eq_fieldwise.

(* vectors: component-wise, the result has the left operand's type *)
Theorem C20_vector : forall a b k,
  v_type (vadd a b) = v_type a /\ v_type (vsub a b) = v_type a /\ v_type (vneg a) = v_type a /\ v_type (vmul a k) = v_type a /\ v_type (vfloordiv a k) = v_type a /\
  vx (vadd a b) = vx a + vx b /\ vy (vadd a b) = vy a + vy b /\ vz (vadd a b) = vz a + vz b /\
  vsub (vadd a b) b = a /\ vadd a (vneg a) = {| v_type := v_type a; vx := 0; vy := 0; vz := 0 |}.
Proof. exact vector_ops. Qed.
Print Assumptions C20_vector.

(* aliases read back what was set *)
Theorem C20_alias : forall target o v, alias_get target (alias_set target o v) = Some v.
Proof. exact alias_get_after_set. Qed.
Print Assumptions C20_alias.
Theorem C20_multi_alias : forall names o vs, NoDup names -> length vs = length names ->
  multi_get names (multi_set names o vs) = map Some vs.
Proof. exact multi_alias_get_after_set. Qed.
Print Assumptions C20_multi_alias.

Example C20_ex :
  name_from_value [(1, 1); (2, 2); (3, 4); (4, 3)] 7 = Some [4; 3] /\ parse_names [(1, 1); (2, 2); (3, 4); (4, 3)] [4; 3] = 7 /\
  name_from_value [(1, 1); (2, 2)] 4 = None /\ name_from_value [(1, 1); (2, 2)] 0 = Some [] /\
  apply_to_map 4 1 1 2 [7; 8; 9] [0;0;0;0; 0;0;0;0; 0;0;0;0; 0;0;0;0] = [0;0;0;0; 0;7;8;0; 0;9;0;0; 0;0;0;0] /\
  pyaw (papply_pos 360 8 {| px_ := 0; py_ := 0; pz_ := 0; pyaw := 350; ppitch := -10 |} {| px_ := 1; py_ := 1; pz_ := 1; pyaw := 20; ppitch := 0 |}) = 10.
Proof. vm_compute. repeat split; reflexivity. Qed.
