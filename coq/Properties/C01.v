(* C01 - framed packet stream survives any threshold, cipher and read segmentation. *)
From Coq Require Import ZArith List Bool.
From PyCraft Require Import Base.Res Model.VarInt Model.Frame Model.Cfb8 Model.Aes.
From PyCraft Require Import Proofs.FrameProofs Proofs.CipherProofs Proofs.C01Proofs.
Import ListNotations.
Open Scope Z_scope.

(* For every compressor/decompressor pair with inflate (deflate x) = x, every decision "compress this
   payload or not" (the writer's len > threshold != -1 is one), every threshold setting [thr] (None =
   compression disabled, Some t for any integer t), every packet sequence ps with its frames fs, every
   continuation [rest] and EVERY segmentation s of the bytes into read() results: reading |ps| packets
   returns exactly ps - nothing lost, duplicated, merged, split or reordered - and leaves the cursor
   exactly at [rest], so no byte of one packet leaks into the next.  The reader returns (id, payload)
   for every id: an unknown id is consumed as a whole frame like any other. *)
Theorem C01_stream_roundtrip :
  forall (deflate : list Z -> list Z) (inflate : list Z -> option (list Z)),
  (forall x, inflate (deflate x) = Some x) ->
  forall (decide : Z -> list Z -> bool) thr ps fs, frames deflate decide thr ps fs ->
  forall rest s, nonempty_segs s -> flat s = concat fs ++ rest ->
  exists s', read_n inflate (comp_of thr) (length ps) s = Ok (ps, s') /\ flat s' = rest /\ nonempty_segs s'.
Proof. exact stream_roundtrip. Qed.
Print Assumptions C01_stream_roundtrip.

(* what is written is the concatenation of the frames *)
Theorem C01_writer :
  forall deflate decide thr ps fs, frames deflate decide thr ps fs -> write_all deflate decide thr ps = Ok (concat fs).
Proof. exact write_all_frames. Qed.
Print Assumptions C01_writer.

(* Encrypted: for every block function and register (AES-128 keyed by the secret is one instance),
   every partition of the plaintext into send() calls and every partition of the ciphertext into read()
   results, reading through the decrypting wrapper gives the same packets; [rd_dec_view] shows that the
   wrapper's read(n) = decrypt(actual.read(n)) is reading the decrypted view of the segments. *)
Theorem C01_encrypted :
  forall (deflate : list Z -> list Z) (inflate : list Z -> option (list Z)),
  (forall x, inflate (deflate x) = Some x) ->
  forall decide (E : list Z -> list Z) thr ps fs sr sends rest s,
  frames deflate decide thr ps fs -> concat sends = concat fs ++ rest ->
  nonempty_segs s -> flat s = concat (fst (enc_chunks E sr sends)) ->
  exists s', read_n inflate (comp_of thr) (length ps) (dec_view E sr s) = Ok (ps, s') /\ flat s' = rest /\ nonempty_segs s'.
Proof. exact encrypted_roundtrip. Qed.
Print Assumptions C01_encrypted.

Theorem C01_wrapper_read : forall E n s sr, nonempty_segs s ->
  rd n (dec_view E sr s) = (fst (dec_stream E sr (fst (rd n s))), dec_view E (snd (dec_stream E sr (fst (rd n s)))) (snd (rd n s))).
Proof. exact rd_dec_view. Qed.
Print Assumptions C01_wrapper_read.

(* non-vacuity: two packets, compression on with one payload "compressed" by an identity codec, one-byte reads *)
Definition idz (x : list Z) := x.
Definition dec1 (t : Z) (p : list Z) : bool := t <? Z.of_nat (length p).
Example C01_ex :
  let ps := [(5, [1; 2; 3]); (300, [])] in
  exists bytes, write_all idz dec1 (Some 2) ps = Ok bytes /\
    read_n (fun x => Some x) true 2 (map (fun b => [b]) bytes) = Ok (ps, []) /\
    bytes = [5; 4; 5; 1; 2; 3; 3; 0; 172; 2].
Proof. exists [5; 4; 5; 1; 2; 3; 3; 0; 172; 2]. vm_compute. repeat split; reflexivity. Qed.
