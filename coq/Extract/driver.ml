(* Generic driver: reads one s-expression per line, "(fn arg)", numbers in hex with optional '-',
   calls the extracted [Runner.run] and prints the resulting s-expression. *)
open Runner

let hexval c = match c with
  | '0'..'9' -> Char.code c - 48 | 'a'..'f' -> Char.code c - 87
  | _ -> failwith "hex"

(* most-significant-first bit list -> positive (first bit must be 1) *)
let pos_of_hex (s : string) : positive option =
  let p = ref None in
  String.iter (fun c ->
    let v = hexval c in
    for i = 3 downto 0 do
      let b = (v lsr i) land 1 = 1 in
      match !p with
      | None -> if b then p := Some XH
      | Some q -> p := Some (if b then XI q else XO q)
    done) s;
  !p

let z_of_token (t : string) : z =
  let neg = String.length t > 0 && t.[0] = '-' in
  let body = if neg then String.sub t 1 (String.length t - 1) else t in
  match pos_of_hex body with
  | None -> Z0
  | Some p -> if neg then Zneg p else Zpos p

let hex_of_pos (p : positive) : string =
  (* collect bits lsb first *)
  let bits = ref [] in
  let rec go p = match p with
    | XH -> bits := true :: !bits
    | XO q -> bits := false :: !bits; go q
    | XI q -> bits := true :: !bits; go q in
  go p;
  (* !bits is msb first now *)
  let l = !bits in
  let n = List.length l in
  let pad = (4 - n mod 4) mod 4 in
  let l = (List.init pad (fun _ -> false)) @ l in
  let buf = Buffer.create (n / 4 + 2) in
  let rec emit l = match l with
    | a :: b :: c :: d :: r ->
      let v = (if a then 8 else 0) + (if b then 4 else 0) + (if c then 2 else 0) + (if d then 1 else 0) in
      Buffer.add_char buf "0123456789abcdef".[v]; emit r
    | [] -> ()
    | _ -> failwith "bits" in
  emit l; Buffer.contents buf

let string_of_z (z : z) : string = match z with
  | Z0 -> "0" | Zpos p -> hex_of_pos p | Zneg p -> "-" ^ hex_of_pos p

let parse (s : string) : sx =
  let n = String.length s in
  let pos = ref 0 in
  let rec skip () = if !pos < n && (s.[!pos] = ' ' || s.[!pos] = '\t' || s.[!pos] = '\r') then (incr pos; skip ()) in
  let rec item () : sx =
    skip ();
    if !pos >= n then failwith "eol"
    else if s.[!pos] = '(' then begin
      incr pos;
      let acc = ref [] in
      let rec loop () =
        skip ();
        if !pos >= n then failwith "unterminated"
        else if s.[!pos] = ')' then incr pos
        else (acc := item () :: !acc; loop ()) in
      loop (); L (List.rev !acc)
    end else begin
      let st = !pos in
      while !pos < n && s.[!pos] <> ' ' && s.[!pos] <> ')' && s.[!pos] <> '(' do incr pos done;
      I (z_of_token (String.sub s st (!pos - st)))
    end in
  item ()

let rec print buf (x : sx) = match x with
  | I z -> Buffer.add_string buf (string_of_z z)
  | L l ->
    Buffer.add_char buf '(';
    List.iteri (fun i y -> if i > 0 then Buffer.add_char buf ' '; print buf y) l;
    Buffer.add_char buf ')'

let () =
  let buf = Buffer.create 65536 in
  (try
    while true do
      let line = input_line stdin in
      if String.length line > 0 then begin
        Buffer.clear buf;
        (match (try Some (parse line) with Failure _ -> None) with
         | Some (L [I fn; arg]) -> print buf (run fn arg)
         | _ -> Buffer.add_string buf "(63)");
        print_string (Buffer.contents buf); print_char '\n'; Stdlib.flush Stdlib.stdout
      end
    done
  with End_of_file -> ())
