From Coq Require Import Extraction ExtrOcamlBasic.
From PyCraft Require Import Extract.Runner.
Extraction Language OCaml.
Extraction "runner.ml" Runner.run.
