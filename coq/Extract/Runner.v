(* Entry point of the extracted runner: [run fn arg].  The Python side finds function
   numbers by parsing the "(* FN name *)" comments below. *)
From Coq Require Import ZArith List.
From PyCraft Require Import Base.Res Base.Sx Model.VarInt.
Import ListNotations.
Open Scope Z_scope.

Definition of_zrest (p : Z * list Z) : sx := L [I (fst p); of_zs (snd p)].

Definition run (fn : Z) (a : sx) : sx :=
  match fn with
  | 1 => (* FN varint_read : (maxb bytes) *)
      of_res of_zrest (varint_read (sx_z (sx_nth a 0)) (sx_zs (sx_nth a 1)))
  | 2 => (* FN varint_send : (v) *)
      of_res of_zs (varint_send (sx_z (sx_nth a 0)))
  | 3 => (* FN varint_size : (v) *)
      of_res I (varint_size (sx_z (sx_nth a 0)))
  | _ => L [I 99]
  end.
