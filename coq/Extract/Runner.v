(* Entry point of the extracted runner: [run fn arg].  The Python side finds function
   numbers by parsing the "(* FN name *)" comments below. *)
From Coq Require Import ZArith List Bool.
From PyCraft Require Import Base.Res Base.Sx Model.VarInt Model.Versions Model.Position Model.SignedHex Model.Sha1 Model.Tables Model.FieldTypes Model.Nbt Model.Prog Model.CustomPackets Spec.ProtocolTable Model.Frame Model.Aes Model.Cfb8 Model.Rsa Model.Dispatch Model.ExcChain Model.Reactors Model.Negotiate Model.Conc Model.Lifecycle Model.Auth Model.Trackers.
From PyCraft Require Model.LoopErr.
Import ListNotations.
Open Scope Z_scope.

Definition of_zrest (p : Z * list Z) : sx := L [I (fst p); of_zs (snd p)].

(* ---- versions ---- *)
Definition sx_pairs (s : sx) : list (Z * Z) := map (fun p => (sx_z (sx_nth p 0), sx_z (sx_nth p 1))) (sx_list s).
Definition of_pairs (l : list (Z * Z)) : sx := L (map (fun p => L [I (fst p); I (snd p)]) l).
Definition sx_vrec (s : sx) : vrec :=
  {| v_id := sx_z (sx_nth s 0); v_proto := sx_z (sx_nth s 1); v_supported := sx_bool (sx_nth s 2); v_release := sx_bool (sx_nth s 3) |}.
Definition sx_tables (s : sx) : tables :=
  {| known_versions := sx_pairs (sx_nth s 0); known_protocols := sx_zs (sx_nth s 1); indices := sx_pairs (sx_nth s 2);
     supported_versions := sx_pairs (sx_nth s 3); supported_protocols := sx_zs (sx_nth s 4);
     release_versions := sx_pairs (sx_nth s 5); release_protocols := sx_zs (sx_nth s 6) |}.
Definition of_tables (t : tables) : sx :=
  L [of_pairs (known_versions t); of_zs (known_protocols t); of_pairs (indices t); of_pairs (supported_versions t);
     of_zs (supported_protocols t); of_pairs (release_versions t); of_zs (release_protocols t)].
(* release-ness of an id: looked up among the ids the harness classified *)
Definition rel_in (rel_ids : list Z) (vid : Z) : bool := memZ vid rel_ids.

(* ---- positions ---- *)
Definition of_triple (t : Z * Z * Z) : sx := let '(x, y, z) := t in L [I x; I y; I z].
Definition of_quad (t : Z * Z * Z * Z) : sx := let '(x, y, z, s) := t in L [I x; I y; I z; I s].

(* ---- field codec ---- *)
(* ftype: I tag for nullary; (15 base bits) TFixed; (21 len elem) TArray; (22 c) TCustom *)
Fixpoint sx_ftype (fuel : nat) (s : sx) : ftype :=
  match fuel with
  | O => TBool
  | S f =>
    match s with
    | I 0 => TBool | I 1 => TUByte | I 2 => TByte | I 3 => TShort | I 4 => TUShort | I 5 => TInt | I 6 => TLong
    | I 7 => TULong | I 8 => TFloat | I 9 => TDouble | I 10 => TVarInt | I 11 => TVarLong | I 12 => TString
    | I 13 => TUUID | I 14 => TAngle | I 16 => TShortBytes | I 17 => TVarBytes | I 18 => TTrailing
    | I 19 => TPosition | I 20 => TNBT
    | L [I 15; b; I n] => TFixed (sx_ftype f b) n
    | L [I 21; l; e] => TArray (sx_ftype f l) (sx_ftype f e)
    | L [I 22; I c] => TCustom c
    | _ => TBool
    end
  end.
Fixpoint sx_value (fuel : nat) (s : sx) : value :=
  match fuel with
  | O => VInt 0
  | S f =>
    match s with
    | L [I 0; I b] => VBool (negb (b =? 0))
    | L [I 1; I z] => VInt z
    | L [I 2; L l] => VStr (map sx_z l)
    | L [I 3; L l] => VBytes (map sx_z l)
    | L [I 4; I n; I k] => VQ n k
    | L [I 5; L l] => VList (map (sx_value f) l)
    | L [I 6; L l] => VTup (map (sx_value f) l)
    | _ => VInt 0
    end
  end.
Fixpoint of_value (fuel : nat) (v : value) : sx :=
  match fuel with
  | O => I 0
  | S f =>
    match v with
    | VBool b => L [I 0; of_bool b]
    | VInt z => L [I 1; I z]
    | VStr l => L [I 2; of_zs l]
    | VBytes l => L [I 3; of_zs l]
    | VQ n k => L [I 4; I n; I k]
    | VList l => L [I 5; L (map (of_value f) l)]
    | VTup l => L [I 6; L (map (of_value f) l)]
    end
  end.
Fixpoint of_ftype (t : ftype) : sx :=
  match t with
  | TBool => I 0 | TUByte => I 1 | TByte => I 2 | TShort => I 3 | TUShort => I 4 | TInt => I 5 | TLong => I 6
  | TULong => I 7 | TFloat => I 8 | TDouble => I 9 | TVarInt => I 10 | TVarLong => I 11 | TString => I 12
  | TUUID => I 13 | TAngle => I 14 | TShortBytes => I 16 | TVarBytes => I 17 | TTrailing => I 18
  | TPosition => I 19 | TNBT => I 20
  | TFixed b n => L [I 15; of_ftype b; I n]
  | TArray l e => L [I 21; of_ftype l; of_ftype e]
  | TCustom c => L [I 22; I c]
  end.
Definition sx_cctx (s : sx) : cctx :=
  {| c_pos_zy := sx_bool (sx_nth s 0); c_rec_new := sx_bool (sx_nth s 1); c_pitch_float := sx_bool (sx_nth s 2) |}.
Definition sx_defn (s : sx) : defn := map (fun t => (0, sx_ftype 12 t)) (sx_list s).
Definition of_vrest (p : value * list Z) : sx := L [of_value 12 (fst p); of_zs (snd p)].
Definition of_vsrest (p : list value * list Z) : sx := L [L (map (of_value 12) (fst p)); of_zs (snd p)].

(* ---- framing: zlib is a table of (plain, compressed) pairs computed by the harness ---- *)
Fixpoint zs_eqb (a b : list Z) : bool :=
  match a, b with [], [] => true | x :: a', y :: b' => Z.eqb x y && zs_eqb a' b' | _, _ => false end.
Fixpoint tbl_fwd (t : list (list Z * list Z)) (x : list Z) : list Z :=
  match t with [] => x | (p, c) :: r => if zs_eqb p x then c else tbl_fwd r x end.
Fixpoint tbl_bwd (t : list (list Z * list Z)) (y : list Z) : option (list Z) :=
  match t with [] => None | (p, c) :: r => if zs_eqb c y then Some p else tbl_bwd r y end.
Definition sx_tbl (s : sx) : list (list Z * list Z) := map (fun e => (sx_zs (sx_nth e 0), sx_zs (sx_nth e 1))) (sx_list s).
Definition sx_thr (s : sx) : option Z := match sx_list s with [] => None | t :: _ => Some (sx_z t) end.
Definition decide_mode (mode : Z) (t : Z) (p : list Z) : bool :=
  match mode with 0 => (t <? Z.of_nat (length p)) && negb (t =? -1) | 1 => true | _ => false end.
Definition sx_packets (s : sx) : list (Z * list Z) := map (fun e => (sx_z (sx_nth e 0), sx_zs (sx_nth e 1))) (sx_list s).
Definition of_packets (l : list (Z * list Z)) : sx := L (map (fun p => L [I (fst p); of_zs (snd p)]) l).
Definition of_stream (s : list (list Z)) : sx := L (map of_zs s).
Definition sx_stream (s : sx) : list (list Z) := map sx_zs (sx_list s).

(* ---- dispatch / exception chains ---- *)
Definition rel_of (s : sx) (x y : Z) : bool :=        (* ((x (y1 y2 ...)) ...) *)
  existsb (fun e => Z.eqb (sx_z (sx_nth e 0)) x && memZ y (sx_zs (sx_nth e 1))) (sx_list s).
Definition sx_beh (s : sx) : beh := match s with I 0 => Return | I 1 => Ignore | L [I 2; I e] => Raise e | _ => Return end.
(* behaviour per packet key: ((key beh) ...) default Return *)
Definition beh_fn (s : sx) (p : packet) : beh :=
  match find (fun e => Z.eqb (sx_z (sx_nth e 0)) (p_key p)) (sx_list s) with Some e => sx_beh (sx_nth e 1) | None => Return end.
Definition sx_listener (s : sx) : listener := {| l_id := sx_z (sx_nth s 0); l_filter := sx_zs (sx_nth s 1); l_beh := beh_fn (sx_nth s 2) |}.
Definition sx_packet (s : sx) : packet := {| p_key := sx_z (sx_nth s 0); p_cls := sx_z (sx_nth s 1) |}.
Definition of_event (e : event) : sx := match e with Call l k => L [I 0; I l; I k] | Reaction k => L [I 1; I k] | Written k => L [I 2; I k] end.
Definition of_outcome (o : Dispatch.outcome) : sx := match o with ODone => L [I 0] | OIgnored => L [I 1] | ORaised e => L [I 2; I e] end.
Definition of_dispatch (r : list event * Dispatch.outcome) : sx := L [L (map of_event (fst r)); of_outcome (snd r)].
Definition sx_hres (s : sx) : hres := match s with L [I 1; I e] => HRaise e | _ => HReturn end.
Definition hres_fn (s : sx) (e : Z) : hres :=
  match find (fun x => Z.eqb (sx_z (sx_nth x 0)) e) (sx_list s) with Some x => sx_hres (sx_nth x 1) | None => HReturn end.
Definition sx_handler (s : sx) : handler :=
  {| h_id := sx_z (sx_nth s 0); h_types := sx_zs (sx_nth s 1); h_beh := hres_fn (sx_nth s 2); h_reconnects := sx_bool (sx_nth s 3) |}.
Definition sx_final (s : sx) : final :=
  match sx_z (sx_nth s 0) with 0 => FNone | 1 => FFalse | _ => FFun (hres_fn (sx_nth s 1)) (sx_bool (sx_nth s 2)) end.
Definition sx_hook (s : sx) : rhook := match s with I 1 => RConsumed | L [I 2; I e] => RRaises e | _ => RPass end.
Definition of_call (c : call) : sx := match c with HCall h e r => L [I 0; I h; I e; of_bool r] | FinalCall e r => L [I 1; I e; of_bool r] end.
Definition of_result (r : ExcChain.result) : sx :=
  L [L (map of_call (r_log r)); of_opt I (r_recorded r); of_bool (r_caught r); of_opt I (r_reraised r); of_bool (r_disconnected r); of_bool (r_consumed r)].

(* ---- login / play sessions ---- *)
Definition sx_inpkt (s : sx) : inpkt :=
  match sx_z (sx_nth s 0) with
  | 0 => IEncReq (sx_zs (sx_nth s 1)) (sx_zs (sx_nth s 2)) (sx_zs (sx_nth s 3))
  | 1 => ISetComp (sx_z (sx_nth s 1))
  | 2 => IPlugin (sx_z (sx_nth s 1))
  | 3 => ISuccess
  | 4 => ILoginDisconnect (sx_zs (sx_nth s 1))
  | 5 => IKeepAlive (sx_z (sx_nth s 1))
  | 6 => IPosLook (sx_z (sx_nth s 1)) (sx_zs (sx_nth s 2))
  | 7 => IPlayDisconnect
  | _ => IOther (sx_z (sx_nth s 1))
  end.
Definition sx_step (s : sx) : Reactors.step :=
  match sx_z (sx_nth s 0) with 0 => SRecv (sx_inpkt (sx_nth s 1)) | _ => SFlush (Z.to_nat (sx_z (sx_nth s 1))) end.
Definition of_outpkt (o : outpkt) : sx :=
  match o with
  | OEncResp a b => L [I 0; of_zs a; of_zs b] | OPluginResp m => L [I 1; I m] | OKeepAlive k => L [I 2; I k]
  | OTeleportConfirm t => L [I 3; I t] | OPosLook p => L [I 4; of_zs p]
  end.
Definition of_wev (w : wev) : sx := L [of_outpkt (w_pkt w); of_opt I (w_comp w); of_opt of_zs (w_enc w)].
Definition of_ending (e : ending) : sx :=
  match e with ENormalExit => L [I 0] | ELoginDisconnect m => L [I 1; of_zs m] | EVersionMismatch v => L [I 2; of_zs v] end.
Definition hash_or_nil (sid sec key : list Z) : list Z := match verification_hash sid sec key with Ok h => h | _ => [] end.
Definition of_sess (s : sess) : sx :=
  L [of_bool (s_play s); of_opt I (s_comp s); of_opt of_zs (s_enc s); L (map of_outpkt (s_queue s)); L (map of_wev (s_wire s));
     L (map (fun j => L [of_zs (fst j); of_nat (snd j)]) (s_joins s)); of_bool (s_spawned s); of_opt of_ending (s_end s); of_nat (s_exits s)].

(* ---- negotiation ---- *)
Definition sx_vspec (s : sx) : vspec := match sx_z (sx_nth s 0) with 0 => VName (sx_z (sx_nth s 1)) | 1 => VNum (sx_z (sx_nth s 1)) | _ => VOther end.
Definition sx_env (sup names idx : sx) : env :=
  {| e_supported := sx_zs sup; e_names := sx_pairs names; e_index := fun p => match Negotiate.lookup (sx_pairs idx) p with Some i => i | None => -1 end |}.
Definition sx_sbeh (s : sx) : sbeh :=
  match sx_z (sx_nth s 0) with 0 => Closed | 1 => EmptyObject | 2 => NoVersion | 3 => NoProtocolKey | _ => Proto (sx_z (sx_nth s 1)) end.
Definition of_tcp (c : tcp) : sx := L [I (t_pv c); I (t_next c); I (match t_follow c with FRequest => 0 | FLoginStart => 1 end)].
Definition of_noutcome (o : Negotiate.outcome) : sx :=
  match o with Login p => L [I 0; I p] | Mismatch p s => L [I 1; I p; of_bool s] | InvalidStatus => L [I 2] | NoVersions => L [I 3] end.

(* ---- interleaving model ---- *)
Definition sx_op (s : sx) : op :=
  match sx_z (sx_nth s 0) with 0 => OQueue (sx_z (sx_nth s 1)) | 1 => OForce (sx_z (sx_nth s 1)) | _ => ODisconnect (sx_bool (sx_nth s 1)) end.
Definition of_pkt (p : pkt) : sx := L [I (fst p); of_bool (snd p)].
Definition of_wevent (e : wevent) : sx := match e with SendLen p => L [I 0; of_pkt p] | SendBody p => L [I 1; of_pkt p] end.
Definition of_conc (s : Conc.st) : sx :=
  L [L (map of_wevent (Conc.wire s)); L (map of_pkt (Conc.queue s)); of_opt of_nat (Conc.lock s); of_bool (Conc.interrupt s); of_bool (Conc.sock_open s);
     of_opt (fun r => L [L (map of_pkt (fst r)); of_opt of_pkt (snd r)]) (parse_wire (Conc.wire s))].

(* ---- lifecycle ---- *)
Definition sx_action (s : sx) : action :=
  let t := Z.to_nat (sx_z (sx_nth s 1)) in
  match sx_z (sx_nth s 0) with
  | 0 => AConnect (sx_bool (sx_nth s 1)) | 1 => ADisconnect | 2 => ABegin t | 3 => ALeave t | 4 => AFault t | _ => AFinally t
  end.
Definition of_lresult (r : Lifecycle.result) : sx := I (match r with RNone => 0 | ROk => 1 | RInvalidState => 2 | RRefused => 3 end).
Definition of_tstate (s : tstate) : sx := I (match s with TCreated => 0 | TInLoop => 1 | TLeft => 2 | TFinished => 3 end).
Definition of_lconn (c : Lifecycle.conn) : sx :=
  L [L (map (fun th => L [of_tstate (nt_state th); of_bool (nt_interrupt th); of_opt of_nat (nt_prev th)]) (Lifecycle.ths c));
     of_opt of_nat (Lifecycle.cur c); of_opt of_nat (Lifecycle.nxt c); of_bool (Lifecycle.sock c); of_nat (Lifecycle.tcp_count c); of_bool (Lifecycle.active c)].

(* ---- authentication ---- *)
Definition sx_ostr (s : sx) : option (list Z) := match sx_list s with [] => None | x :: _ => Some (sx_zs x) end.
Definition of_ostr (o : option (list Z)) : sx := of_opt of_zs o.
Definition sx_token (s : sx) : token :=
  {| t_user := sx_ostr (sx_nth s 0); t_access := sx_ostr (sx_nth s 1); t_client := sx_ostr (sx_nth s 2); t_pid := sx_ostr (sx_nth s 3); t_pname := sx_ostr (sx_nth s 4) |}.
Definition of_token (t : token) : sx := L [of_ostr (t_user t); of_ostr (t_access t); of_ostr (t_client t); of_ostr (t_pid t); of_ostr (t_pname t)].
Definition sx_body (s : sx) : body :=
  match sx_z (sx_nth s 0) with
  | 0 => BResult (sx_zs (sx_nth s 1)) (sx_zs (sx_nth s 2)) (sx_zs (sx_nth s 3)) (sx_zs (sx_nth s 4))
  | 1 => BError (sx_zs (sx_nth s 1)) (sx_zs (sx_nth s 2)) (sx_ostr (sx_nth s 3))
  | 2 => BPartialError | 3 => BNonJson | _ => BEmpty
  end.
Definition sx_opn (s : sx) : opn :=
  match sx_z (sx_nth s 0) with
  | 0 => Authenticate (sx_zs (sx_nth s 1)) (sx_zs (sx_nth s 2)) (sx_bool (sx_nth s 3))
  | 1 => Refresh | 2 => Validate | 3 => Invalidate | 4 => Join (sx_zs (sx_nth s 1)) | _ => SignOut (sx_zs (sx_nth s 1)) (sx_zs (sx_nth s 2))
  end.
Definition of_pval (v : pval) : sx :=
  match v with PStr s => L [I 0; of_ostr s] | PFresh => L [I 1] | PAgent => L [I 2] | PProfile i n => L [I 3; of_ostr i; of_ostr n] end.
Definition of_request (q : request) : sx := L [of_bool (q_session q); I (q_endpoint q); L (map (fun kv => L [I (fst kv); of_pval (snd kv)]) (q_payload q))].
Definition of_aoutcome (o : Auth.outcome) : sx :=
  match o with
  | OTrue => L [I 0] | ONone => L [I 1]
  | OYgg st err => L [I 2; of_opt I st; of_opt (fun e => L [of_zs (fst (fst e)); of_zs (snd (fst e)); of_ostr (snd e)]) err]
  | OValueError => L [I 3] | OUnclaimed => L [I 4]
  end.

(* ---- trackers ---- *)
Definition sx_optz (s : sx) : option Z := match sx_list s with [] => None | x :: _ => Some (sx_z x) end.
Definition sx_item (s : sx) : item :=
  {| it_name := sx_z (sx_nth s 0); it_props := sx_z (sx_nth s 1); it_gamemode := sx_z (sx_nth s 2); it_ping := sx_z (sx_nth s 3); it_display := sx_optz (sx_nth s 4) |}.
Definition of_item (i : item) : sx := L [I (it_name i); I (it_props i); I (it_gamemode i); I (it_ping i); of_opt I (it_display i)].
Definition sx_paction (s : sx) : paction :=
  let u := sx_z (sx_nth s 1) in
  match sx_z (sx_nth s 0) with
  | 0 => PAdd u (sx_item (sx_nth s 2)) | 1 => PGamemode u (sx_z (sx_nth s 2)) | 2 => PLatency u (sx_z (sx_nth s 2))
  | 3 => PDisplay u (sx_optz (sx_nth s 2)) | _ => PRemove u
  end.
Definition sx_plook (s : sx) : plook := {| px_ := sx_z (sx_nth s 0); py_ := sx_z (sx_nth s 1); pz_ := sx_z (sx_nth s 2); pyaw := sx_z (sx_nth s 3); ppitch := sx_z (sx_nth s 4) |}.
Definition sx_nat (s : sx) : nat := Z.to_nat (sx_z s).

Definition run (fn : Z) (a : sx) : sx :=
  match fn with
  | 1 => (* FN varint_read : (maxb bytes) *)
      of_res of_zrest (varint_read (sx_z (sx_nth a 0)) (sx_zs (sx_nth a 1)))
  | 2 => (* FN varint_send : (v) *)
      of_res of_zs (varint_send (sx_z (sx_nth a 0)))
  | 3 => (* FN varint_size : (v) *)
      of_res I (varint_size (sx_z (sx_nth a 0)))
  | 10 => (* FN initglobals : (use_known release_ids records tables) *)
      of_tables (initglobals (sx_bool (sx_nth a 0)) (rel_in (sx_zs (sx_nth a 1))) (map sx_vrec (sx_list (sx_nth a 2))) (sx_tables (sx_nth a 3)))
  | 11 => (* FN od_set : (dict k v) *)
      of_pairs (od_set (sx_pairs (sx_nth a 0)) (sx_z (sx_nth a 1)) (sx_z (sx_nth a 2)))
  | 12 => (* FN cmp_batch : (indices pairs) -> list of (earlier earlier_eq) *)
      let idx := sx_pairs (sx_nth a 0) in
      L (map (fun pq => L [of_res of_bool (protocol_earlier idx (fst pq) (snd pq)); of_res of_bool (protocol_earlier_eq idx (fst pq) (snd pq))])
             (sx_pairs (sx_nth a 1)))
  | 13 => (* FN in_range_batch : (indices triples(pv start end)) *)
      let idx := sx_pairs (sx_nth a 0) in
      L (map (fun t => of_res of_bool (ctx_in_range idx (sx_z (sx_nth t 0)) (sx_z (sx_nth t 1)) (sx_z (sx_nth t 2)))) (sx_list (sx_nth a 1)))
  | 20 => (* FN pos_batch : (later triples) -> list of (word unword) *)
      let later := sx_bool (sx_nth a 0) in
      L (map (fun t => let w := pos_word later (sx_z (sx_nth t 0)) (sx_z (sx_nth t 1)) (sx_z (sx_nth t 2)) in
                       L [I w; of_triple (pos_unword later w)]) (sx_list (sx_nth a 1)))
  | 21 => (* FN pos_unword_batch : (later words) *)
      let later := sx_bool (sx_nth a 0) in L (map (fun w => of_triple (pos_unword later (sx_z w))) (sx_list (sx_nth a 1)))
  | 22 => (* FN csp_batch : (triples) -> list of (word unword) *)
      L (map (fun t => let w := csp_word (sx_z (sx_nth t 0)) (sx_z (sx_nth t 1)) (sx_z (sx_nth t 2)) in
                       L [I w; of_triple (csp_unword w)]) (sx_list a))
  | 23 => (* FN csp_unword_batch : (words) *)
      L (map (fun w => of_triple (csp_unword (sx_z w))) (sx_list a))
  | 24 => (* FN rec_batch : (quads x y z sid) -> list of (word unword hbyte unhbyte) *)
      L (map (fun t => let x := sx_z (sx_nth t 0) in let y := sx_z (sx_nth t 1) in let z := sx_z (sx_nth t 2) in
                       let sid := sx_z (sx_nth t 3) in let w := rec_word x y z sid in let h := rec_hbyte x z in
                       L [I w; of_quad (rec_unword w); I h; L [I (fst (rec_unhbyte h)); I (snd (rec_unhbyte h))]]) (sx_list a))
  | 30 => (* FN verification_hash : (server_id_codepoints secret key) *)
      of_res of_zs (verification_hash (sx_zs (sx_nth a 0)) (sx_zs (sx_nth a 1)) (sx_zs (sx_nth a 2)))
  | 31 => (* FN mc_hex : (digest) *)
      of_zs (mc_hex (sx_zs (sx_nth a 0)))
  | 32 => (* FN sha1 : (bytes) *)
      of_zs (sha1 (sx_zs (sx_nth a 0)))
  | 40 => (* FN enc : (cctx ftype value) *)
      of_res of_zs (enc (sx_cctx (sx_nth a 0)) (sx_ftype 12 (sx_nth a 1)) (sx_value 12 (sx_nth a 2)))
  | 41 => (* FN dec : (cctx ftype bytes) *)
      of_res of_vrest (dec (sx_cctx (sx_nth a 0)) nbt_split (sx_ftype 12 (sx_nth a 1)) (sx_zs (sx_nth a 2)))
  | 42 => (* FN encode_fields : (cctx defn values) *)
      of_res of_zs (encode_fields (sx_cctx (sx_nth a 0)) (sx_defn (sx_nth a 1)) (map (sx_value 12) (sx_list (sx_nth a 2))))
  | 43 => (* FN decode_fields : (cctx defn bytes) *)
      of_res of_vsrest (decode_fields (sx_cctx (sx_nth a 0)) nbt_split (sx_defn (sx_nth a 1)) (sx_zs (sx_nth a 2)))
  | 44 => (* FN nbt_split : (bytes) *)
      of_opt (fun p => L [of_zs (fst p); of_zs (snd p)]) (nbt_split (sx_zs (sx_nth a 0)))
  | 45 => (* FN enc_prog : (cctx which flags values) *)
      of_res of_zs (enc_prog (sx_cctx (sx_nth a 0)) (custom_prog (sx_z (sx_nth a 1)) (map sx_bool (sx_list (sx_nth a 2))))
                             (map (sx_value 12) (sx_list (sx_nth a 3))))
  | 46 => (* FN dec_prog : (cctx which flags bytes) *)
      of_res of_vsrest (dec_prog (sx_cctx (sx_nth a 0)) nbt_split (custom_prog (sx_z (sx_nth a 1)) (map sx_bool (sx_list (sx_nth a 2))))
                                 (sx_zs (sx_nth a 3)))
  | 50 => (* FN spec_packet : (packet proto) -> (exists table id layout) *)
      let p := sx_z (sx_nth a 0) in let v := sx_z (sx_nth a 1) in
      L [of_bool (spec_exists p v); I (spec_table p); I (spec_id p v); L (map of_ftype (spec_layout p v))]
  | 51 => (* FN spec_releases : () *)
      L [of_zs spec_releases; of_zs core_packets]
  | 60 => (* FN write_all : (table thr mode packets) *)
      of_res of_zs (write_all (tbl_fwd (sx_tbl (sx_nth a 0))) (decide_mode (sx_z (sx_nth a 2))) (sx_thr (sx_nth a 1)) (sx_packets (sx_nth a 3)))
  | 61 => (* FN read_n : (table comp n stream) -> packets, remaining stream *)
      of_res (fun r => L [of_packets (fst r); of_stream (snd r)])
             (read_n (tbl_bwd (sx_tbl (sx_nth a 0))) (sx_bool (sx_nth a 1)) (Z.to_nat (sx_z (sx_nth a 2))) (sx_stream (sx_nth a 3)))
  | 62 => (* FN read_until_error : (table comp fuel stream) -> packets, how it ended *)
      let r := read_until_error (tbl_bwd (sx_tbl (sx_nth a 0))) (Z.to_nat (sx_z (sx_nth a 2))) (sx_bool (sx_nth a 1)) (sx_stream (sx_nth a 3)) in
      L [of_packets (fst r); of_res (fun _ => I 0) (snd r)]
  | 63 => (* FN mc_encrypt : (secret chunks) *)
      of_stream (mc_encrypt (sx_zs (sx_nth a 0)) (sx_stream (sx_nth a 1)))
  | 64 => (* FN mc_decrypt : (secret chunks) *)
      of_stream (mc_decrypt (sx_zs (sx_nth a 0)) (sx_stream (sx_nth a 1)))
  | 65 => (* FN aes128 : (key block) *)
      of_zs (aes128 (sx_zs (sx_nth a 0)) (sx_zs (sx_nth a 1)))
  | 66 => (* FN pkcs1_unpad : (em) *)
      of_opt of_zs (pkcs1_unpad (sx_zs (sx_nth a 0)))
  | 67 => (* FN pkcs1_pad : (ps m) *)
      of_zs (pkcs1_pad (sx_zs (sx_nth a 0)) (sx_zs (sx_nth a 1)))
  | 70 => (* FN react_all : (subclass early late reaction packets) *)
      of_dispatch (react_all (rel_of (sx_nth a 0)) (map sx_listener (sx_list (sx_nth a 1))) (map sx_listener (sx_list (sx_nth a 2)))
                             (beh_fn (sx_nth a 3)) (map sx_packet (sx_list (sx_nth a 4))))
  | 71 => (* FN write_out : (subclass early_out late_out write_beh packet) *)
      of_dispatch (write_out (rel_of (sx_nth a 0)) (map sx_listener (sx_list (sx_nth a 1))) (map sx_listener (sx_list (sx_nth a 2)))
                             (beh_fn (sx_nth a 3)) (sx_packet (sx_nth a 4)))
  | 73 => (* FN flush_all : (subclass early_out late_out write_beh packets) -> events, outcome, keys still queued *)
      let r := flush_all (rel_of (sx_nth a 0)) (map sx_listener (sx_list (sx_nth a 1))) (map sx_listener (sx_list (sx_nth a 2)))
                         (beh_fn (sx_nth a 3)) (map sx_packet (sx_list (sx_nth a 4))) in
      L [L (map of_event (fst (fst r))); of_outcome (snd (fst r)); L (map (fun q => I (p_key q)) (snd r))]
  | 72 => (* FN handle_exception : (isinst hook handlers final exc) *)
      of_result (handle_exception (rel_of (sx_nth a 0)) (sx_hook (sx_nth a 1)) (map sx_handler (sx_list (sx_nth a 2))) (sx_final (sx_nth a 3)) (sx_z (sx_nth a 4)))
  | 80 => (* FN session_run : (secret has_token f107 schedule) ; RSA is reported as the plaintext it carries *)
      of_sess (run_session (fun _ m => m) (sx_zs (sx_nth a 0)) hash_or_nil (sx_bool (sx_nth a 1)) (sx_bool (sx_nth a 2)) (map sx_step (sx_list (sx_nth a 3))))
  | 82 => (* FN loop_turn : (write_fault_opt:(exn is_ioerror)? reads:((disconnect raises_opt ends_loop)...)) -> (0) continue | (1) interrupted | (2 e) raised *)
      let w := match sx_list (sx_nth a 0) with [] => None | f :: _ => Some {| LoopErr.wf_exn := sx_z (sx_nth f 0); LoopErr.wf_is_ioerror := sx_bool (sx_nth f 1) |} end in
      let rds := map (fun r => {| LoopErr.rd_disconnect := sx_bool (sx_nth r 0);
                                  LoopErr.rd_raises := match sx_list (sx_nth r 1) with [] => None | e :: _ => Some (sx_z e) end;
                                  LoopErr.rd_ends_loop := sx_bool (sx_nth r 2) |}) (sx_list (sx_nth a 1)) in
      match LoopErr.turn w rds with
      | LoopErr.TContinue => L [I 0] | LoopErr.TInterrupted => L [I 1] | LoopErr.TRaised e => L [I 2; I e]
      end
  | 83 => (* FN loop_turn_n : as loop_turn, with the number of packets dispatched in the turn: (outcome count) *)
      let w := match sx_list (sx_nth a 0) with [] => None | f :: _ => Some {| LoopErr.wf_exn := sx_z (sx_nth f 0); LoopErr.wf_is_ioerror := sx_bool (sx_nth f 1) |} end in
      let rds := map (fun r => {| LoopErr.rd_disconnect := sx_bool (sx_nth r 0);
                                  LoopErr.rd_raises := match sx_list (sx_nth r 1) with [] => None | e :: _ => Some (sx_z e) end;
                                  LoopErr.rd_ends_loop := sx_bool (sx_nth r 2) |}) (sx_list (sx_nth a 1)) in
      let (o, n) := LoopErr.turn_n w rds in
      L [match o with LoopErr.TContinue => L [I 0] | LoopErr.TInterrupted => L [I 1] | LoopErr.TRaised e => L [I 2; I e] end; I (Z.of_nat n)]
  | 81 => (* FN outdated_ver : (msg) *)
      of_opt of_zs (outdated_ver (sx_zs (sx_nth a 0)))
  | 90 => (* FN negotiate : (supported names indices allowed_opt initial_opt behaviour) -> () on ValueError | (allowed default conns outcome) *)
      let e := sx_env (sx_nth a 0) (sx_nth a 1) (sx_nth a 2) in
      let al := match sx_list (sx_nth a 3) with [] => None | l :: _ => Some (map sx_vspec (sx_list l)) end in
      let ini := match sx_list (sx_nth a 4) with [] => None | v :: _ => Some (sx_vspec v) end in
      match construct e al ini with
      | None => L []
      | Some (alw, d) => let r := connect 2 e alw d (sx_sbeh (sx_nth a 5)) in L [of_zs alw; I d; L (map of_tcp (fst r)); of_noutcome (snd r)]
      end
  | 95 => (* FN conc_run : (limit programs schedule) *)
      of_conc (Conc.run_conc (Z.to_nat (sx_z (sx_nth a 0))) (map (fun t => Z.to_nat (sx_z t)) (sx_list (sx_nth a 2)))
                        (Conc.init (map (fun p => map sx_op (sx_list p)) (sx_list (sx_nth a 1)))))
  | 96 => (* FN lifecycle_run : (actions) -> (results, final state) *)
      let acts := map sx_action (sx_list (sx_nth a 0)) in
      L [L (map of_lresult (Lifecycle.results acts Lifecycle.init_conn)); of_lconn (Lifecycle.run_actions acts Lifecycle.init_conn)]
  | 97 => (* FN auth_perform : (token op status body) -> (outcome token requests) *)
      let r := perform (sx_token (sx_nth a 0)) (sx_opn (sx_nth a 1)) {| r_status := sx_z (sx_nth a 2); r_body := sx_body (sx_nth a 3) |} in
      L [of_aoutcome (fst (fst r)); of_token (snd (fst r)); L (map of_request (snd r))]
  | 100 => (* FN playerlist : (actions) -> ((uuid item) ...) in dict order *)
      L (map (fun kv => L [I (fst kv); of_item (snd kv)]) (fold_left papply (map sx_paction (sx_list (sx_nth a 0))) []))
  | 101 => (* FN map_patch : (mapw offx offz w patch pixels) *)
      of_zs (apply_to_map (sx_nat (sx_nth a 0)) (sx_nat (sx_nth a 1)) (sx_nat (sx_nth a 2)) (sx_nat (sx_nth a 3)) (sx_zs (sx_nth a 4)) (sx_zs (sx_nth a 5)))
  | 102 => (* FN pos_apply : (full_turn flags packet target) *)
      let r := papply_pos (sx_z (sx_nth a 0)) (sx_z (sx_nth a 1)) (sx_plook (sx_nth a 2)) (sx_plook (sx_nth a 3)) in
      L [I (px_ r); I (py_ r); I (pz_ r); I (pyaw r); I (ppitch r)]
  | 103 => (* FN flag_name : (members value) -> names | () ; and what they parse back to *)
      match name_from_value (sx_pairs (sx_nth a 0)) (sx_z (sx_nth a 1)) with
      | Some ns => L [of_zs ns; I (parse_names (sx_pairs (sx_nth a 0)) ns)]
      | None => L []
      end
  | _ => L [I 99]
  end.
