(* Entry point of the extracted runner: [run fn arg].  The Python side finds function
   numbers by parsing the "(* FN name *)" comments below. *)
From Coq Require Import ZArith List.
From PyCraft Require Import Base.Res Base.Sx Model.VarInt Model.Versions Model.Position Model.SignedHex Model.Sha1.
Import ListNotations.
Open Scope Z_scope.

Definition of_zrest (p : Z * list Z) : sx := L [I (fst p); of_zs (snd p)].

(* ---- versions ---- *)
Definition sx_pairs (s : sx) : list (Z * Z) := map (fun p => (sx_z (sx_nth p 0), sx_z (sx_nth p 1))) (sx_list s).
Definition of_pairs (l : list (Z * Z)) : sx := L (map (fun p => L [I (fst p); I (snd p)]) l).
Definition sx_vrec (s : sx) : vrec :=
  {| v_id := sx_z (sx_nth s 0); v_proto := sx_z (sx_nth s 1); v_supported := sx_bool (sx_nth s 2); v_release := sx_bool (sx_nth s 3) |}.
Definition sx_tables (s : sx) : tables :=
  {| known_versions := sx_pairs (sx_nth s 0); known_protocols := sx_zs (sx_nth s 1); indices := sx_pairs (sx_nth s 2);
     supported_versions := sx_pairs (sx_nth s 3); supported_protocols := sx_zs (sx_nth s 4);
     release_versions := sx_pairs (sx_nth s 5); release_protocols := sx_zs (sx_nth s 6) |}.
Definition of_tables (t : tables) : sx :=
  L [of_pairs (known_versions t); of_zs (known_protocols t); of_pairs (indices t); of_pairs (supported_versions t);
     of_zs (supported_protocols t); of_pairs (release_versions t); of_zs (release_protocols t)].
(* release-ness of an id: looked up among the ids the harness classified *)
Definition rel_in (rel_ids : list Z) (vid : Z) : bool := memZ vid rel_ids.

(* ---- positions ---- *)
Definition of_triple (t : Z * Z * Z) : sx := let '(x, y, z) := t in L [I x; I y; I z].
Definition of_quad (t : Z * Z * Z * Z) : sx := let '(x, y, z, s) := t in L [I x; I y; I z; I s].

Definition run (fn : Z) (a : sx) : sx :=
  match fn with
  | 1 => (* FN varint_read : (maxb bytes) *)
      of_res of_zrest (varint_read (sx_z (sx_nth a 0)) (sx_zs (sx_nth a 1)))
  | 2 => (* FN varint_send : (v) *)
      of_res of_zs (varint_send (sx_z (sx_nth a 0)))
  | 3 => (* FN varint_size : (v) *)
      of_res I (varint_size (sx_z (sx_nth a 0)))
  | 10 => (* FN initglobals : (use_known release_ids records tables) *)
      of_tables (initglobals (sx_bool (sx_nth a 0)) (rel_in (sx_zs (sx_nth a 1))) (map sx_vrec (sx_list (sx_nth a 2))) (sx_tables (sx_nth a 3)))
  | 11 => (* FN od_set : (dict k v) *)
      of_pairs (od_set (sx_pairs (sx_nth a 0)) (sx_z (sx_nth a 1)) (sx_z (sx_nth a 2)))
  | 12 => (* FN cmp_batch : (indices pairs) -> list of (earlier earlier_eq) *)
      let idx := sx_pairs (sx_nth a 0) in
      L (map (fun pq => L [of_res of_bool (protocol_earlier idx (fst pq) (snd pq)); of_res of_bool (protocol_earlier_eq idx (fst pq) (snd pq))])
             (sx_pairs (sx_nth a 1)))
  | 13 => (* FN in_range_batch : (indices triples(pv start end)) *)
      let idx := sx_pairs (sx_nth a 0) in
      L (map (fun t => of_res of_bool (ctx_in_range idx (sx_z (sx_nth t 0)) (sx_z (sx_nth t 1)) (sx_z (sx_nth t 2)))) (sx_list (sx_nth a 1)))
  | 20 => (* FN pos_batch : (later triples) -> list of (word unword) *)
      let later := sx_bool (sx_nth a 0) in
      L (map (fun t => let w := pos_word later (sx_z (sx_nth t 0)) (sx_z (sx_nth t 1)) (sx_z (sx_nth t 2)) in
                       L [I w; of_triple (pos_unword later w)]) (sx_list (sx_nth a 1)))
  | 21 => (* FN pos_unword_batch : (later words) *)
      let later := sx_bool (sx_nth a 0) in L (map (fun w => of_triple (pos_unword later (sx_z w))) (sx_list (sx_nth a 1)))
  | 22 => (* FN csp_batch : (triples) -> list of (word unword) *)
      L (map (fun t => let w := csp_word (sx_z (sx_nth t 0)) (sx_z (sx_nth t 1)) (sx_z (sx_nth t 2)) in
                       L [I w; of_triple (csp_unword w)]) (sx_list a))
  | 23 => (* FN csp_unword_batch : (words) *)
      L (map (fun w => of_triple (csp_unword (sx_z w))) (sx_list a))
  | 24 => (* FN rec_batch : (quads x y z sid) -> list of (word unword hbyte unhbyte) *)
      L (map (fun t => let x := sx_z (sx_nth t 0) in let y := sx_z (sx_nth t 1) in let z := sx_z (sx_nth t 2) in
                       let sid := sx_z (sx_nth t 3) in let w := rec_word x y z sid in let h := rec_hbyte x z in
                       L [I w; of_quad (rec_unword w); I h; L [I (fst (rec_unhbyte h)); I (snd (rec_unhbyte h))]]) (sx_list a))
  | 30 => (* FN verification_hash : (server_id_codepoints secret key) *)
      of_res of_zs (verification_hash (sx_zs (sx_nth a 0)) (sx_zs (sx_nth a 1)) (sx_zs (sx_nth a 2)))
  | 31 => (* FN mc_hex : (digest) *)
      of_zs (mc_hex (sx_zs (sx_nth a 0)))
  | 32 => (* FN sha1 : (bytes) *)
      of_zs (sha1 (sx_zs (sx_nth a 0)))
  | _ => L [I 99]
  end.
