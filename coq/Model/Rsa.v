(* PKCS#1 v1.5 encryption padding (type 2), as a function of the random padding string: what
   pubkey.encrypt(m, PKCS1v15()) feeds to the RSA primitive and what the key holder strips. *)
From Coq Require Import ZArith List Bool.
From PyCraft Require Import Model.Prim.
Import ListNotations.
Open Scope Z_scope.

Definition pkcs1_pad (ps m : list Z) : list Z := [0; 2] ++ ps ++ [0] ++ m.

(* skip the non-zero padding; n counts the padding bytes seen *)
Fixpoint strip_ps (n : nat) (bs : list Z) : option (list Z) :=
  match bs with
  | [] => None
  | b :: t => if b =? 0 then (if (8 <=? n)%nat then Some t else None) else strip_ps (S n) t
  end.
Definition pkcs1_unpad (em : list Z) : option (list Z) :=
  match em with
  | 0 :: 2 :: t => strip_ps 0 t
  | _ => None
  end.

(* big-endian integer <-> k bytes (OS2IP / I2OSP), for textbook RSA over the padded block *)
Definition os2ip (bs : list Z) : Z := be_value 0 bs.
Definition i2osp (k : nat) (n : Z) : list Z := be_bytes k n.
