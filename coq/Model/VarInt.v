(* Model of minecraft/networking/types/basic.py: VarInt / VarLong (read, send, size).
   Line-by-line image of the Python loops; [OutOfFuel] is distinct from every normal result. *)
From Coq Require Import ZArith List.
From PyCraft Require Import Base.Res.
Import ListNotations.
Open Scope Z_scope.

(* VarInt.read: [maxb] is cls.max_bytes (5 or 10); [count] is bytes_encountered. *)
Fixpoint read_loop (maxb : Z) (fuel : nat) (number count : Z) (bs : list Z) : res (Z * list Z) :=
  match fuel with
  | O => OutOfFuel
  | S f =>
    match bs with
    | [] => Err EOFError                                   (* len(byte) < 1 *)
    | b :: rest =>
      let number' := Z.lor number (Z.shiftl (Z.land b 127) (7 * count)) in
      if Z.land b 128 =? 0 then Ok (number', rest)          (* if not byte & 0x80: break *)
      else
        let count' := count + 1 in
        if count' >? maxb then Err ValueError               (* too long *)
        else read_loop maxb f number' count' rest
    end
  end.

Definition varint_read (maxb : Z) (bs : list Z) : res (Z * list Z) :=
  read_loop maxb (Z.to_nat (maxb + 2)) 0 0 bs.

(* VarInt.send: the while-True loop; fuel is explicit. *)
Fixpoint send_loop (fuel : nat) (v : Z) : res (list Z) :=
  match fuel with
  | O => OutOfFuel
  | S f =>
    let byte := Z.land v 127 in
    let v' := Z.shiftr v 7 in
    let out := Z.lor byte (if v' >? 0 then 128 else 0) in
    if v' =? 0 then Ok [out]
    else match send_loop f v' with Ok r => Ok (out :: r) | Err e => Err e | OutOfFuel => OutOfFuel end
  end.

(* enough iterations for every non-negative value: one per 7 bits *)
Definition send_fuel (v : Z) : nat := S (Z.to_nat (Z.log2 v / 7 + 1)).

Definition varint_send (v : Z) : res (list Z) :=
  if v <? 0 then Err ValueError else send_loop (send_fuel v) v.

(* VarInt.size: first-match scan of VARINT_SIZE_TABLE (in dict order). *)
Fixpoint size_scan (tbl : list (Z * Z)) (v : Z) : res Z :=
  match tbl with
  | [] => Err ValueError
  | (mx, sz) :: t => if v <? mx then Ok sz else size_scan t v
  end.

Definition size_table : list (Z * Z) :=
  [(2^7,1); (2^14,2); (2^21,3); (2^28,4); (2^35,5); (2^42,6);
   (2^49,7); (2^56,8); (2^63,9); (2^70,10); (2^77,11); (2^84,12)].

Definition varint_size (v : Z) : res Z := size_scan size_table v.
