(* Generic field codec: the model of Type.send_with_context / read_with_context for every
   library type (types/basic.py) and the five nested Type subclasses, by recursion on the
   [ftype] AST, and of Packet.write_fields / Packet.read over a definition (packet.py). *)
From Coq Require Import ZArith List Bool.
From PyCraft Require Import Base.Res Model.Tables Model.Prim Model.VarInt Model.Utf8 Model.Position Model.SignedHex.
Import ListNotations.
Open Scope Z_scope.

Inductive value :=
| VBool (b : bool)
| VInt (z : Z)                 (* integers; floats are carried as their IEEE-754 bit pattern *)
| VStr (cps : list Z)          (* unicode scalar values *)
| VBytes (bs : list Z)
| VQ (num k : Z)               (* the dyadic rational num / 2^k *)
| VList (vs : list value)
| VTup (vs : list value).

(* what the context-dependent types consult *)
Record cctx := { c_pos_zy : bool;        (* Position: protocol_later_eq(443) *)
                 c_rec_new : bool;       (* MultiBlockChange.Record: protocol_later_eq(741) *)
                 c_pitch_float : bool }. (* SoundEffect.Pitch: protocol_later_eq(201) *)

Definition rbind {A B} (r : res A) (f : A -> res B) : res B := bind r f.

(* round half to even of a / b, b > 0 *)
Definition round_half_even (a b : Z) : Z :=
  let q := a / b in let r := a mod b in
  if 2 * r <? b then q else if b <? 2 * r then q + 1 else if Z.even q then q else q + 1.

(* Angle.send on the dyadic num / 2^k: round(256 * ((v % 360) / 360)) % 256 *)
Definition angle_byte (num k : Z) : Z :=
  let m := 360 * 2 ^ k in
  round_half_even (256 * (num mod m)) m mod 256.

(* int(v * 2^n) for v = num / 2^k : truncation toward zero *)
Definition fixed_int (num k n : Z) : Z := Z.quot (num * 2 ^ n) (2 ^ k).

(* UUID canonical text <-> 16 bytes *)
Definition hex2 (b : Z) : list Z := [hexchar (b / 16); hexchar (b mod 16)].
Definition uuid_text (bs : list Z) : list Z :=
  match bs with
  | [b0;b1;b2;b3;b4;b5;b6;b7;b8;b9;b10;b11;b12;b13;b14;b15] =>
    hex2 b0 ++ hex2 b1 ++ hex2 b2 ++ hex2 b3 ++ [45] ++ hex2 b4 ++ hex2 b5 ++ [45] ++ hex2 b6 ++ hex2 b7 ++ [45]
    ++ hex2 b8 ++ hex2 b9 ++ [45] ++ hex2 b10 ++ hex2 b11 ++ hex2 b12 ++ hex2 b13 ++ hex2 b14 ++ hex2 b15
  | _ => []
  end.
Definition unhex (c : Z) : option Z :=
  if (48 <=? c) && (c <=? 57) then Some (c - 48) else if (97 <=? c) && (c <=? 102) then Some (c - 87) else None.
Fixpoint unhex_pairs (s : list Z) : option (list Z) :=
  match s with
  | [] => Some []
  | a :: b :: t => match unhex a, unhex b, unhex_pairs t with
                   | Some x, Some y, Some r => Some ((x * 16 + y) :: r) | _, _, _ => None end
  | _ => None
  end.
Definition uuid_parse (s : list Z) : option (list Z) :=
  match s with
  | [a0;a1;a2;a3;a4;a5;a6;a7;d1;b0;b1;b2;b3;d2;c0;c1;c2;c3;d3;e0;e1;e2;e3;d4;f0;f1;f2;f3;f4;f5;f6;f7;f8;f9;f10;f11] =>
    if (d1 =? 45) && (d2 =? 45) && (d3 =? 45) && (d4 =? 45)
    then unhex_pairs [a0;a1;a2;a3;a4;a5;a6;a7;b0;b1;b2;b3;c0;c1;c2;c3;e0;e1;e2;e3;f0;f1;f2;f3;f4;f5;f6;f7;f8;f9;f10;f11]
    else None
  | _ => None
  end.

Definition take_res (e : exn) (k : nat) (bs : list Z) : res (list Z * list Z) :=
  match take k bs with Some p => Ok p | None => Err e end.

Definition take_z (e : exn) (n : Z) (bs : list Z) : res (list Z * list Z) :=
  if n <? 0 then Err StructError
  else if Z.of_nat (length bs) <? n then Err e
  else take_res e (Z.to_nat n) bs.

Definition enc3 (f : value -> res (list Z)) (vs : list value) : res (list Z) :=
  match vs with
  | [a; b; c] => rbind (f a) (fun x => rbind (f b) (fun y => rbind (f c) (fun z => Ok (x ++ y ++ z))))
  | _ => Err TypeError
  end.

Definition as_int (v : value) : res Z := match v with VInt z => Ok z | _ => Err TypeError end.

(* element loops of PrefixedArray, parameterised by the element codec *)
Fixpoint enc_list (f : value -> res (list Z)) (vs : list value) : res (list Z) :=
  match vs with
  | [] => Ok []
  | x :: t => rbind (f x) (fun a => rbind (enc_list f t) (fun b => Ok (a ++ b)))
  end.
(* [for i in range(cnt)]: a non-positive count reads nothing; fuel bounds the iterations *)
Fixpoint dec_loop (f : list Z -> res (value * list Z)) (fuel : nat) (cnt : Z) (bs : list Z) : res (list value * list Z) :=
  if cnt <=? 0 then Ok ([], bs)
  else match fuel with
       | O => OutOfFuel
       | S g => rbind (f bs) (fun q => rbind (dec_loop f g (cnt - 1) (snd q)) (fun r => Ok (fst q :: fst r, snd r)))
       end.

Section Codec.
  Variable c : cctx.

  Definition enc_scalar_int (signed : bool) (k : nat) (v : value) : res (list Z) :=
    rbind (as_int v) (enc_int signed k).
  Definition dec_scalar_int (signed : bool) (k : nat) (bs : list Z) : res (value * list Z) :=
    rbind (dec_int signed k bs) (fun p => Ok (VInt (fst p), snd p)).

  Definition enc_custom (cid : Z) (v : value) : res (list Z) :=
    match cid, v with
    | 0, VTup vs => enc3 (enc_scalar_int true 1) vs                         (* ExplosionPacket.Record *)
    | 1, VTup [VInt x; VInt y; VInt z] => enc_int false 8 (csp_word x y z)   (* ChunkSectionPos *)
    | 2, VTup [VInt x; VInt y; VInt z; VInt sid] =>                          (* MultiBlockChangePacket.Record *)
        if c_rec_new c then varint_send (rec_word x y z sid)
        else rbind (enc_int false 1 (rec_hbyte x z)) (fun h => rbind (enc_int false 1 y) (fun yb =>
             rbind (varint_send sid) (fun s => Ok (h ++ yb ++ s))))
    | 3, VTup vs =>                                                          (* SoundEffectPacket.EffectPosition *)
        enc3 (fun v => match v with VQ num k => enc_int true 4 (fixed_int num k 3) | _ => Err TypeError end) vs
    | 4, _ => if c_pitch_float c then enc_scalar_int false 4 v else enc_scalar_int true 1 v   (* Pitch, wire level *)
    | _, _ => Err TypeError
    end.

  Definition dec_custom (cid : Z) (bs : list Z) : res (value * list Z) :=
    match cid with
    | 0 => rbind (dec_int true 1 bs) (fun a => rbind (dec_int true 1 (snd a)) (fun b => rbind (dec_int true 1 (snd b)) (fun d =>
           Ok (VTup [VInt (fst a); VInt (fst b); VInt (fst d)], snd d))))
    | 1 => rbind (dec_int false 8 bs) (fun p => let '(x, y, z) := csp_unword (fst p) in Ok (VTup [VInt x; VInt y; VInt z], snd p))
    | 2 => if c_rec_new c
           then rbind (varint_read 10 bs) (fun p => let '(x, y, z, sid) := rec_unword (fst p) in
                  Ok (VTup [VInt x; VInt y; VInt z; VInt sid], snd p))
           else rbind (dec_int false 1 bs) (fun h => rbind (dec_int false 1 (snd h)) (fun y => rbind (varint_read 5 (snd y)) (fun s =>
                  let '(x, z) := rec_unhbyte (fst h) in Ok (VTup [VInt x; VInt (fst y); VInt z; VInt (fst s)], snd s))))
    | 3 => rbind (dec_int true 4 bs) (fun a => rbind (dec_int true 4 (snd a)) (fun b => rbind (dec_int true 4 (snd b)) (fun d =>
           Ok (VTup [VQ (fst a) 3; VQ (fst b) 3; VQ (fst d) 3], snd d))))
    | 4 => if c_pitch_float c then dec_scalar_int false 4 bs else dec_scalar_int true 1 bs
    | _ => Err TypeError
    end.

  Fixpoint enc (t : ftype) (v : value) {struct t} : res (list Z) :=
    match t with
    | TBool => match v with VBool b => Ok (enc_bool b) | _ => Err TypeError end
    | TUByte => enc_scalar_int false 1 v
    | TByte => enc_scalar_int true 1 v
    | TShort => enc_scalar_int true 2 v
    | TUShort => enc_scalar_int false 2 v
    | TInt => enc_scalar_int true 4 v
    | TLong => enc_scalar_int true 8 v
    | TULong => enc_scalar_int false 8 v
    | TFloat => enc_scalar_int false 4 v
    | TDouble => enc_scalar_int false 8 v
    | TVarInt | TVarLong => rbind (as_int v) varint_send
    | TString => match v with
                 | VStr cps => rbind (utf8_enc cps) (fun b => rbind (varint_send (Z.of_nat (length b))) (fun l => Ok (l ++ b)))
                 | _ => Err TypeError end
    | TUUID => match v with
               | VStr s => match uuid_parse s with Some b => Ok b | None => Err ValueError end
               | _ => Err TypeError end
    | TAngle => match v with VQ num k => enc_int false 1 (angle_byte num k) | _ => Err TypeError end
    | TFixed base n => match v with VQ num k => enc base (VInt (fixed_int num k n)) | _ => Err TypeError end
    | TShortBytes => match v with
                     | VBytes b => rbind (enc_int true 2 (Z.of_nat (length b))) (fun l => Ok (l ++ b))
                     | _ => Err TypeError end
    | TVarBytes => match v with
                   | VBytes b => rbind (varint_send (Z.of_nat (length b))) (fun l => Ok (l ++ b))
                   | _ => Err TypeError end
    | TTrailing => match v with VBytes b => Ok b | _ => Err TypeError end
    | TPosition => match v with
                   | VTup [VInt x; VInt y; VInt z] => enc_int false 8 (pos_word (c_pos_zy c) x y z)
                   | _ => Err TypeError end
    | TNBT => match v with VBytes b => Ok b | _ => Err TypeError end
    | TArray lt et =>
        match v with
        | VList vs =>
          rbind (enc lt (VInt (Z.of_nat (length vs)))) (fun l =>
          rbind (enc_list (enc et) vs) (fun body => Ok (l ++ body)))
        | _ => Err TypeError
        end
    | TCustom cid => enc_custom cid v
    end.

  (* NBT: the document at the head of the stream is split off by [nbt_split] (a parameter:
     pynbt on the Python side); NBT is outside C02's list of types. *)
  Variable nbt_split : list Z -> option (list Z * list Z).

  Fixpoint dec (t : ftype) (bs : list Z) {struct t} : res (value * list Z) :=
    match t with
    | TBool => rbind (dec_bool bs) (fun p => Ok (VBool (fst p), snd p))
    | TUByte => dec_scalar_int false 1 bs
    | TByte => dec_scalar_int true 1 bs
    | TShort => dec_scalar_int true 2 bs
    | TUShort => dec_scalar_int false 2 bs
    | TInt => dec_scalar_int true 4 bs
    | TLong => dec_scalar_int true 8 bs
    | TULong => dec_scalar_int false 8 bs
    | TFloat => dec_scalar_int false 4 bs
    | TDouble => dec_scalar_int false 8 bs
    | TVarInt => rbind (varint_read 5 bs) (fun p => Ok (VInt (fst p), snd p))
    | TVarLong => rbind (varint_read 10 bs) (fun p => Ok (VInt (fst p), snd p))
    | TString => rbind (varint_read 5 bs) (fun p =>
                 rbind (take_z EOFError (fst p) (snd p)) (fun q =>
                 rbind (utf8_dec (fst q)) (fun cps => Ok (VStr cps, snd q))))
    | TUUID => rbind (take_res ValueError 16 bs) (fun q => Ok (VStr (uuid_text (fst q)), snd q))
    | TAngle => rbind (dec_int false 1 bs) (fun p => Ok (VQ (45 * fst p) 5, snd p))
    | TFixed base n => rbind (dec base bs) (fun p => match fst p with VInt i => Ok (VQ i n, snd p) | _ => Err TypeError end)
    | TShortBytes => rbind (dec_int true 2 bs) (fun p => rbind (take_z StructError (fst p) (snd p)) (fun q => Ok (VBytes (fst q), snd q)))
    | TVarBytes => rbind (varint_read 5 bs) (fun p => rbind (take_z StructError (fst p) (snd p)) (fun q => Ok (VBytes (fst q), snd q)))
    | TTrailing => Ok (VBytes bs, [])
    | TPosition => rbind (dec_int false 8 bs) (fun p =>
                   let '(x, y, z) := pos_unword (c_pos_zy c) (fst p) in Ok (VTup [VInt x; VInt y; VInt z], snd p))
    | TNBT => match nbt_split bs with Some (d, r) => Ok (VBytes d, r) | None => Err (OtherExn 1) end
    | TArray lt et =>
        rbind (dec lt bs) (fun p =>
        match fst p with
        | VInt n =>
          rbind (dec_loop (dec et) (S (length (snd p))) n (snd p)) (fun r => Ok (VList (fst r), snd r))
        | _ => Err TypeError
        end)
    | TCustom cid => dec_custom cid bs
    end.

  (* Packet.write_fields / Packet.read over a definition; values are positional *)
  Fixpoint encode_fields (d : defn) (vs : list value) : res (list Z) :=
    match d, vs with
    | [], [] => Ok []
    | (_, t) :: d', v :: vs' => rbind (enc t v) (fun a => rbind (encode_fields d' vs') (fun b => Ok (a ++ b)))
    | _, _ => Err TypeError
    end.
  Fixpoint decode_fields (d : defn) (bs : list Z) : res (list value * list Z) :=
    match d with
    | [] => Ok ([], bs)
    | (_, t) :: d' => rbind (dec t bs) (fun p => rbind (decode_fields d' (snd p)) (fun q => Ok (fst p :: fst q, snd q)))
    end.
End Codec.
