(* The six packet classes with hand-written read / write_fields, as layout programs over the
   version-dependent feature flags each of them consults. *)
From Coq Require Import ZArith List Bool.
From PyCraft Require Import Base.Res Model.Tables Model.FieldTypes Model.Prog.
Import ListNotations.
Open Scope Z_scope.

Definition opt (t : ftype) (k : prog) : prog := PCase TBool (fun b => if b =? 0 then k else PField t k).

(* serverbound.login.PluginResponsePacket: message_id, successful, data if successful *)
Definition plugin_response : prog :=
  PField TVarInt (PCase TBool (fun b => if b =? 0 then PEnd else PTrail)).

(* clientbound.play.FacePlayerPacket *)
Definition face_player (f353 : bool) : prog :=
  if f353 then
    PField TVarInt (PField TDouble (PField TDouble (PField TDouble
      (PCase TBool (fun b => if b =? 0 then PEnd else PField TVarInt (PField TVarInt PEnd))))))
  else
    PCase TBool (fun b => if b =? 0 then PField TDouble (PField TDouble (PField TDouble PEnd))
                          else PField TVarInt PEnd).

(* clientbound.play.CombatEventPacket: NotImplementedError from PRE|15 on *)
Definition combat_event (removed : bool) : prog :=
  if removed then PFail (OtherExn 2) else
  PCase TVarInt (fun ev =>
    if ev =? 0 then PEnd
    else if ev =? 1 then PField TVarInt (PField TInt PEnd)
    else if ev =? 2 then PField TVarInt (PField TInt (PField TString PEnd))
    else PFail ValueError).

(* clientbound.play.SpawnObjectPacket *)
Definition spawn_object (f49 f458 f100 : bool) : prog :=
  let xyz := if f100 then TDouble else TInt in
  let tail := PField xyz (PField xyz (PField xyz (PField TAngle (PField TAngle
    (PCase TInt (fun data => if f49 || (0 <? data) then PField TShort (PField TShort (PField TShort PEnd)) else PEnd)))))) in
  let ty := PField (if f458 then TVarInt else TByte) tail in
  PField TVarInt (if f49 then PField TUUID ty else ty).

(* clientbound.play.PlayerListItemPacket *)
Definition player_property : prog := PField TString (PField TString (opt TString PEnd)).
Definition player_action (a : Z) : prog :=
  if a =? 0 then PField TUUID (PField TString (PRepeat TVarInt player_property
                   (PField TVarInt (PField TVarInt (opt TString PEnd)))))
  else if a =? 1 then PField TUUID (PField TVarInt PEnd)
  else if a =? 2 then PField TUUID (PField TVarInt PEnd)
  else if a =? 3 then PField TUUID (opt TString PEnd)
  else PField TUUID PEnd.
Definition player_list_item : prog :=
  PCase TVarInt (fun a => if (0 <=? a) && (a <=? 4) then PRepeat TVarInt (player_action a) PEnd else PFail ValueError).

(* clientbound.play.MapPacket *)
Definition map_icon (icon_varint icon_name : bool) : prog :=
  let name := if icon_name then opt TString PEnd else PEnd in
  if icon_varint then PField TVarInt (PField TByte (PField TByte (PField TUByte name)))
  else PField TUByte (PField TByte (PField TByte name)).
Definition map_packet (track_early locked track_late icon_varint icon_name : bool) : prog :=
  let cols := PCase TUByte (fun w => if w =? 0 then PEnd
                 else PField TUByte (PField TByte (PField TByte (PField TVarBytes PEnd)))) in
  let icons := PRepeat TVarInt (map_icon icon_varint icon_name) cols in
  let t2 := if track_late then PField TBool icons else icons in
  let l := if locked then PField TBool t2 else t2 in
  let t1 := if track_early then PField TBool l else l in
  PField TVarInt (PField TByte t1).

(* numbering used by the runner and the harness *)
Definition custom_prog (which : Z) (flags : list bool) : prog :=
  let f i := nth i flags false in
  match which with
  | 0 => plugin_response
  | 1 => face_player (f 0%nat)
  | 2 => combat_event (f 0%nat)
  | 3 => spawn_object (f 0%nat) (f 1%nat) (f 2%nat)
  | 4 => player_list_item
  | 5 => map_packet (f 0%nat) (f 1%nat) (f 2%nat) (f 3%nat) (f 4%nat)
  | _ => PFail TypeError
  end.
