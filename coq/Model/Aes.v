(* AES-128 encryption of one block (FIPS-197), executable: used only as the block function of the
   generic CFB8 model.  Validated on the FIPS-197 appendix vector by the kernel and against the
   `cryptography` library by the correspondence check; not proved against a standard. *)
From Coq Require Import ZArith List.
Import ListNotations.
Open Scope Z_scope.

Definition sbox_tbl : list Z := [99; 124; 119; 123; 242; 107; 111; 197; 48; 1; 103; 43; 254; 215; 171; 118; 202; 130; 201; 125; 250; 89; 71; 240; 173; 212; 162; 175; 156; 164; 114; 192; 183; 253; 147; 38; 54; 63; 247; 204; 52; 165; 229; 241; 113; 216; 49; 21; 4; 199; 35; 195; 24; 150; 5; 154; 7; 18; 128; 226; 235; 39; 178; 117; 9; 131; 44; 26; 27; 110; 90; 160; 82; 59; 214; 179; 41; 227; 47; 132; 83; 209; 0; 237; 32; 252; 177; 91; 106; 203; 190; 57; 74; 76; 88; 207; 208; 239; 170; 251; 67; 77; 51; 133; 69; 249; 2; 127; 80; 60; 159; 168; 81; 163; 64; 143; 146; 157; 56; 245; 188; 182; 218; 33; 16; 255; 243; 210; 205; 12; 19; 236; 95; 151; 68; 23; 196; 167; 126; 61; 100; 93; 25; 115; 96; 129; 79; 220; 34; 42; 144; 136; 70; 238; 184; 20; 222; 94; 11; 219; 224; 50; 58; 10; 73; 6; 36; 92; 194; 211; 172; 98; 145; 149; 228; 121; 231; 200; 55; 109; 141; 213; 78; 169; 108; 86; 244; 234; 101; 122; 174; 8; 186; 120; 37; 46; 28; 166; 180; 198; 232; 221; 116; 31; 75; 189; 139; 138; 112; 62; 181; 102; 72; 3; 246; 14; 97; 53; 87; 185; 134; 193; 29; 158; 225; 248; 152; 17; 105; 217; 142; 148; 155; 30; 135; 233; 206; 85; 40; 223; 140; 161; 137; 13; 191; 230; 66; 104; 65; 153; 45; 15; 176; 84; 187; 22].
Definition sbox (b : Z) : Z := nth (Z.to_nat b) sbox_tbl 0.
Definition xtime (b : Z) : Z := let s := 2 * b in if 256 <=? s then Z.lxor (s - 256) 27 else s.
Definition xor_l (a b : list Z) : list Z := map (fun p => Z.lxor (fst p) (snd p)) (combine a b).
Definition nthz (l : list Z) (i : nat) : Z := nth i l 0.

(* state: 16 bytes, byte i = row (i mod 4), column (i / 4) *)
Definition shift_rows (s : list Z) : list Z :=
  map (fun i => nthz s (Nat.modulo i 4 + 4 * Nat.modulo (Nat.div i 4 + Nat.modulo i 4) 4)) (seq 0 16).
Definition mix_col (a0 a1 a2 a3 : Z) : list Z :=
  let m2 := xtime in let m3 x := Z.lxor (xtime x) x in
  [Z.lxor (Z.lxor (m2 a0) (m3 a1)) (Z.lxor a2 a3);
   Z.lxor (Z.lxor a0 (m2 a1)) (Z.lxor (m3 a2) a3);
   Z.lxor (Z.lxor a0 a1) (Z.lxor (m2 a2) (m3 a3));
   Z.lxor (Z.lxor (m3 a0) a1) (Z.lxor a2 (m2 a3))].
Definition mix_columns (s : list Z) : list Z :=
  flat_map (fun c => mix_col (nthz s (4 * c)) (nthz s (4 * c + 1)) (nthz s (4 * c + 2)) (nthz s (4 * c + 3))) (seq 0 4).

Definition rcon : list Z := [1; 2; 4; 8; 16; 32; 64; 128; 27; 54].
(* next round key from the previous one *)
Definition next_key (k : list Z) (rc : Z) : list Z :=
  let w i := [nthz k (4 * i); nthz k (4 * i + 1); nthz k (4 * i + 2); nthz k (4 * i + 3)] in
  let t := match w 3%nat with [a; b; c; d] => [Z.lxor (sbox b) rc; sbox c; sbox d; sbox a] | _ => [] end in
  let w0 := xor_l (w 0%nat) t in let w1 := xor_l (w 1%nat) w0 in let w2 := xor_l (w 2%nat) w1 in let w3 := xor_l (w 3%nat) w2 in
  w0 ++ w1 ++ w2 ++ w3.
Fixpoint round_keys (k : list Z) (rcs : list Z) : list (list Z) :=
  match rcs with [] => [k] | rc :: t => k :: round_keys (next_key k rc) t end.

Fixpoint rounds (s : list Z) (ks : list (list Z)) : list Z :=
  match ks with
  | [] => s
  | [k] => xor_l (shift_rows (map sbox s)) k
  | k :: t => rounds (xor_l (mix_columns (shift_rows (map sbox s))) k) t
  end.

Definition aes128 (key block : list Z) : list Z :=
  match round_keys key rcon with
  | k0 :: ks => rounds (xor_l block k0) ks
  | [] => []
  end.
