(* CFB8 over an arbitrary block function with a 16-byte shift register, as two stateful
   per-direction streams: EncryptedSocketWrapper.send / recv and EncryptedFileObjectWrapper.read
   (encryption.py) each call cipher.update on exactly the bytes of that call. *)
From Coq Require Import ZArith List.
From PyCraft Require Import Model.Aes.
Import ListNotations.
Open Scope Z_scope.

Section CFB8.
  Variable E : list Z -> list Z.                 (* block function on the shift register *)

  Definition keystream_byte (sr : list Z) : Z := hd 0 (E sr).
  Definition shift (sr : list Z) (c : Z) : list Z := tl sr ++ [c].

  (* one update() call: the state is carried to the next call *)
  Fixpoint enc_stream (sr : list Z) (ps : list Z) : list Z * list Z :=
    match ps with
    | [] => ([], sr)
    | p :: t => let c := Z.lxor p (keystream_byte sr) in
                let '(cs, sr') := enc_stream (shift sr c) t in (c :: cs, sr')
    end.
  Fixpoint dec_stream (sr : list Z) (cs : list Z) : list Z * list Z :=
    match cs with
    | [] => ([], sr)
    | c :: t => let p := Z.lxor c (keystream_byte sr) in
                let '(ps, sr') := dec_stream (shift sr c) t in (p :: ps, sr')
    end.

  (* a sequence of calls *)
  Fixpoint enc_chunks (sr : list Z) (chunks : list (list Z)) : list (list Z) * list Z :=
    match chunks with
    | [] => ([], sr)
    | ch :: t => let '(c, sr1) := enc_stream sr ch in let '(cs, sr2) := enc_chunks sr1 t in (c :: cs, sr2)
    end.
  Fixpoint dec_chunks (sr : list Z) (chunks : list (list Z)) : list (list Z) * list Z :=
    match chunks with
    | [] => ([], sr)
    | ch :: t => let '(p, sr1) := dec_stream sr ch in let '(ps, sr2) := dec_chunks sr1 t in (p :: ps, sr2)
    end.
End CFB8.

(* create_AES_cipher(shared_secret): AES-128, key = IV = the secret *)
Definition mc_encrypt (secret : list Z) (chunks : list (list Z)) : list (list Z) :=
  fst (enc_chunks (aes128 secret) secret chunks).
Definition mc_decrypt (secret : list Z) (chunks : list (list Z)) : list (list Z) :=
  fst (dec_chunks (aes128 secret) secret chunks).
