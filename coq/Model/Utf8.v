(* UTF-8 (RFC 3629) over lists of Unicode scalar values, as performed by str.encode('utf-8')
   and bytes.decode('utf-8') (strict).  Library code on the Python side: this is an executable
   re-implementation validated by the correspondence check. *)
From Coq Require Import ZArith List Bool.
From PyCraft Require Import Base.Res.
Import ListNotations.
Open Scope Z_scope.

Definition is_scalar (c : Z) : bool :=
  (0 <=? c) && (c <? 1114112) && negb ((55296 <=? c) && (c <? 57344)).

Definition enc_cp (c : Z) : list Z :=
  if c <? 128 then [c]
  else if c <? 2048 then [192 + c / 64; 128 + c mod 64]
  else if c <? 65536 then [224 + c / 4096; 128 + (c / 64) mod 64; 128 + c mod 64]
  else [240 + c / 262144; 128 + (c / 4096) mod 64; 128 + (c / 64) mod 64; 128 + c mod 64].

Fixpoint utf8_enc (cps : list Z) : res (list Z) :=
  match cps with
  | [] => Ok []
  | c :: t => if is_scalar c then match utf8_enc t with Ok r => Ok (enc_cp c ++ r) | e => e end
              else Err UnicodeError
  end.

Definition is_cont (b : Z) : bool := (128 <=? b) && (b <? 192).
Definition inr (lo hi b : Z) : bool := (lo <=? b) && (b <=? hi).

(* decode one scalar value from the head of the byte list *)
Definition dec_cp (bs : list Z) : option (Z * list Z) :=
  match bs with
  | [] => None
  | b1 :: r1 =>
    if inr 0 127 b1 then Some (b1, r1)
    else if inr 194 223 b1 then
      match r1 with
      | b2 :: r2 => if is_cont b2 then Some ((b1 - 192) * 64 + (b2 - 128), r2) else None
      | _ => None
      end
    else if inr 224 239 b1 then
      match r1 with
      | b2 :: b3 :: r3 =>
        if (if b1 =? 224 then inr 160 191 b2 else if b1 =? 237 then inr 128 159 b2 else is_cont b2) && is_cont b3
        then Some ((b1 - 224) * 4096 + (b2 - 128) * 64 + (b3 - 128), r3) else None
      | _ => None
      end
    else if inr 240 244 b1 then
      match r1 with
      | b2 :: b3 :: b4 :: r4 =>
        if (if b1 =? 240 then inr 144 191 b2 else if b1 =? 244 then inr 128 143 b2 else is_cont b2)
           && is_cont b3 && is_cont b4
        then Some ((b1 - 240) * 262144 + (b2 - 128) * 4096 + (b3 - 128) * 64 + (b4 - 128), r4) else None
      | _ => None
      end
    else None
  end.

(* every successful step consumes at least one byte, so the length is enough fuel *)
Fixpoint utf8_dec_f (fuel : nat) (bs : list Z) : res (list Z) :=
  match bs with
  | [] => Ok []
  | _ =>
    match fuel with
    | O => OutOfFuel
    | S f => match dec_cp bs with
             | None => Err UnicodeError
             | Some (c, rest) => match utf8_dec_f f rest with Ok r => Ok (c :: r) | e => e end
             end
    end
  end.
Definition utf8_dec (bs : list Z) : res (list Z) := utf8_dec_f (length bs) bs.
