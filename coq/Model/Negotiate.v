(* Version negotiation: Connection.__init__ (version resolution), connect, _handshake,
   PlayingStatusReactor (handle_status / handle_failure / handle_exception), _version_mismatch, and
   the plain status query Connection.status with StatusReactor (connection.py). *)
From Coq Require Import ZArith List Bool.
Import ListNotations.
Open Scope Z_scope.

Inductive vspec := VName (n : Z) | VNum (p : Z) | VOther.     (* a version given as id string, number, or neither *)

Record env := { e_supported : list Z;            (* SUPPORTED_PROTOCOL_VERSIONS *)
                e_names : list (Z * Z);          (* SUPPORTED_MINECRAFT_VERSIONS: name code -> protocol *)
                e_index : Z -> Z }.              (* PROTOCOL_VERSION_INDICES.get (chronological position) *)

Definition memZ (x : Z) (l : list Z) : bool := existsb (Z.eqb x) l.
Fixpoint lookup (l : list (Z * Z)) (k : Z) : option Z :=
  match l with [] => None | (k', v) :: t => if k' =? k then Some v else lookup t k end.

(* proto_version(version): ValueError (None) unless the result is a supported protocol number *)
Definition proto_version (e : env) (v : vspec) : option Z :=
  match (match v with VName n => lookup (e_names e) n | VNum p => Some p | VOther => None end) with
  | Some p => if memZ p (e_supported e) then Some p else None
  | None => None
  end.
Fixpoint map_opt {A B} (f : A -> option B) (l : list A) : option (list B) :=
  match l with [] => Some [] | x :: t => match f x, map_opt f t with Some y, Some r => Some (y :: r) | _, _ => None end end.

(* max(allowed, key=PROTOCOL_VERSION_INDICES.get): the first element with the greatest index *)
Fixpoint latest (e : env) (l : list Z) : option Z :=
  match l with
  | [] => None
  | x :: t => match latest e t with
              | Some y => if e_index e x <? e_index e y then Some y else Some x
              | None => Some x
              end
  end.

(* Connection.__init__: (allowed set, default version) or ValueError *)
Definition construct (e : env) (allowed : option (list vspec)) (initial : option vspec) : option (list Z * Z) :=
  match (match allowed with None => Some (e_supported e) | Some vs => map_opt (proto_version e) vs end) with
  | None => None
  | Some al =>
    match latest e al with
    | None => None                                     (* max() of an empty set *)
    | Some lt =>
      match initial with
      | None => Some (al, lt)
      | Some v => match proto_version e v with Some d => Some (al, d) | None => None end
      end
    end
  end.

(* what the server's status reply amounts to *)
Inductive sbeh := Closed | EmptyObject | NoVersion | NoProtocolKey | Proto (n : Z).
(* one TCP connection as the server sees it: the handshake and what follows *)
Inductive follow := FRequest | FLoginStart.
Record tcp := { t_pv : Z; t_next : Z; t_follow : follow }.
Inductive outcome := Login (pv : Z) | Mismatch (pv : Z) (supported : bool) | InvalidStatus | NoVersions.

Definition single (l : list Z) : bool := match l with [] => false | x :: t => forallb (Z.eqb x) t end.   (* len(set(l)) == 1 *)

(* connect(); the status reactor's handlers call connect() again after narrowing the allowed set *)
Fixpoint connect (fuel : nat) (e : env) (allowed : list Z) (default : Z) (beh : sbeh) : list tcp * outcome :=
  match latest e allowed with
  | None => ([], NoVersions)
  | Some lt =>
    if single allowed then ([{| t_pv := lt; t_next := 2; t_follow := FLoginStart |}], Login lt)
    else
      let st := {| t_pv := lt; t_next := 1; t_follow := FRequest |} in
      match fuel with
      | O => ([st], NoVersions)
      | S f =>
        let again p := let '(cs, o) := connect f e [p] default beh in (st :: cs, o) in
        match beh with
        | EmptyObject => ([st], InvalidStatus)                               (* IOError('Invalid server status.') *)
        | NoVersion | NoProtocolKey | Closed => again default                 (* handle_failure *)
        | Proto n => if memZ n allowed then again n                           (* handle_proto_version *)
                     else ([st], Mismatch n (memZ n (e_supported e)))          (* _version_mismatch *)
        end
      end
  end.

(* ---- plain status query: Connection.status + StatusReactor ---- *)
Inductive sev := SHandshake (pv next : Z) | SRequestSent | SStatusHandled (obj : Z) | SPingSent (t : Z) | SDisconnect
               | SPingHandled (latency : Z) | SExit.
(* the server answers the request with object [obj]; if pinged it echoes [echo t]; the clock reads t0, t1 *)
Definition status_query (pv : Z) (do_ping : bool) (obj : Z) (echo : Z -> Z) (t0 t1 : Z) : list sev :=
  [SHandshake pv 1; SRequestSent] ++
  (if do_ping then [SPingSent t0; SStatusHandled obj; SDisconnect; SPingHandled (t1 - echo t0); SExit]
   else [SDisconnect; SStatusHandled obj; SExit]).
