(* AuthenticationToken (authentication.py): token state, the six operations and
   _raise_from_response, against a reply (status code, body shape) of the Yggdrasil service. *)
From Coq Require Import ZArith List Bool.
Import ListNotations.
Open Scope Z_scope.

Definition str := list Z.
Definition truthy (o : option str) : bool := match o with Some (_ :: _) => true | _ => false end.   (* not None, not '' *)

Record token := { t_user : option str; t_access : option str; t_client : option str; t_pid : option str; t_pname : option str }.

(* Profile.__bool__: id_ is not None and name is not None *)
Definition profile_ok (t : token) : bool := match t_pid t, t_pname t with Some _, Some _ => true | _, _ => false end.
Definition authenticated (t : token) : bool := truthy (t_user t) && truthy (t_access t) && truthy (t_client t) && profile_ok t.

Inductive body :=
| BResult (access client pid pname : str)       (* a valid authenticate / refresh result *)
| BError (e m : str) (cause : option str)       (* {"error":..,"errorMessage":..[,"cause":..]} *)
| BPartialError                                  (* an object with "error" but without "errorMessage" *)
| BNonJson
| BEmpty.
Record reply := { r_status : Z; r_body : body }.

Inductive pval := PStr (s : option str) | PFresh | PAgent | PProfile (pid pname : option str).
Record request := { q_session : bool; q_endpoint : Z; q_payload : list (Z * pval) }.
(* endpoints: 0 authenticate 1 refresh 2 validate 3 signout 4 invalidate 5 join;
   payload keys: 0 agent 1 username 2 password 3 clientToken 4 accessToken 5 selectedProfile 6 serverId *)

Inductive outcome :=
| OTrue | ONone
| OYgg (status : option Z) (err : option (str * str * option str))   (* YggdrasilError: status code, error fields (None = malformed) *)
| OValueError
| OUnclaimed.                                    (* a 200 reply whose body is not a result: outside the property *)

Inductive opn :=
| Authenticate (user pass : str) (invalidate_previous : bool)
| Refresh | Validate | Invalidate | Join (sid : str) | SignOut (user pass : str).

(* _raise_from_response on a status other than 200 *)
Definition raise_from (r : reply) : outcome :=
  OYgg (Some (r_status r)) (match r_body r with BError e m c => Some (e, m, c) | _ => None end).

Definition store (t : token) (user : option str) (b : body) : option token :=
  match b with
  | BResult a c i n => Some {| t_user := user; t_access := Some a; t_client := Some c; t_pid := Some i; t_pname := Some n |}
  | _ => None
  end.

(* one operation against one reply: outcome, new state, requests made *)
Definition perform (t : token) (o : opn) (r : reply) : outcome * token * list request :=
  match o with
  | Authenticate u p inv =>
      let pl := [(0, PAgent); (1, PStr (Some u)); (2, PStr (Some p))]
                ++ (if inv then [] else [(3, if truthy (t_client t) then PStr (t_client t) else PFresh)]) in
      let q := {| q_session := false; q_endpoint := 0; q_payload := pl |} in
      if r_status r =? 200 then
        match store t (Some u) (r_body r) with Some t' => (OTrue, t', [q]) | None => (OUnclaimed, t, [q]) end
      else (raise_from r, t, [q])
  | Refresh =>
      match t_access t, t_client t with
      | None, _ | _, None => (OValueError, t, [])
      | Some a, Some c =>
        let q := {| q_session := false; q_endpoint := 1; q_payload := [(4, PStr (Some a)); (3, PStr (Some c))] |} in
        if r_status r =? 200 then
          match store t (t_user t) (r_body r) with Some t' => (OTrue, t', [q]) | None => (OUnclaimed, t, [q]) end
        else (raise_from r, t, [q])
      end
  | Validate =>
      match t_access t with
      | None => (OValueError, t, [])
      | Some a => (if r_status r =? 204 then OTrue else ONone, t,
                   [{| q_session := false; q_endpoint := 2; q_payload := [(4, PStr (Some a))] |}])
      end
  | SignOut u p =>
      let q := {| q_session := false; q_endpoint := 3; q_payload := [(1, PStr (Some u)); (2, PStr (Some p))] |} in
      (if r_status r =? 200 then OTrue else raise_from r, t, [q])
  | Invalidate =>
      let q := {| q_session := false; q_endpoint := 4; q_payload := [(4, PStr (t_access t)); (3, PStr (t_client t))] |} in
      (if (r_status r =? 204) || (r_status r =? 200) then OTrue else raise_from r, t, [q])
  | Join sid =>
      if authenticated t then
        let q := {| q_session := true; q_endpoint := 5;
                    q_payload := [(4, PStr (t_access t)); (5, PProfile (t_pid t) (t_pname t)); (6, PStr (Some sid))] |} in
        (if (r_status r =? 204) || (r_status r =? 200) then OTrue else raise_from r, t, [q])
      else (OYgg None None, t, [])                     (* refuses without contacting the service *)
  end.

Fixpoint perform_all (t : token) (ops : list (opn * reply)) : list outcome * token :=
  match ops with
  | [] => ([], t)
  | (o, r) :: rest => let '(out, t', _) := perform t o r in let '(outs, tf) := perform_all t' rest in (out :: outs, tf)
  end.
