(* LoginReactor.react, PlayingReactor.react and the batching loop NetworkingThread._run
   (connection.py), as a state machine over incoming packets and flush steps.  A schedule is a list
   of steps: [SRecv p] - one packet is read and reacted to; [SFlush n] - the write phase pops up to n
   queued packets (n arbitrary: the 300-packet limit and everything else about batching is covered by
   quantifying over all schedules). *)
From Coq Require Import ZArith List Bool.
Import ListNotations.
Open Scope Z_scope.

Inductive inpkt :=
| IEncReq (sid key token : list Z)
| ISetComp (t : Z)
| IPlugin (mid : Z)
| ISuccess
| ILoginDisconnect (msg : list Z)        (* msg: the text extracted from the JSON, or the raw data *)
| IKeepAlive (k : Z)
| IPosLook (tid : Z) (pos : list Z)      (* pos: x y z yaw pitch as bit patterns *)
| IPlayDisconnect
| IOther (id : Z).                        (* known-but-unhandled packets and unknown ids *)

Inductive outpkt :=
| OEncResp (enc_secret enc_token : list Z)
| OPluginResp (mid : Z)                   (* successful = False *)
| OKeepAlive (k : Z)
| OTeleportConfirm (tid : Z)
| OPosLook (pos : list Z).                (* echo with on_ground = True *)

Record wev := { w_pkt : outpkt; w_comp : option Z; w_enc : option (list Z) }.   (* one frame on the wire *)
Inductive ending := ENormalExit | ELoginDisconnect (msg : list Z) | EVersionMismatch (ver : list Z).
Inductive step := SRecv (p : inpkt) | SFlush (n : nat).

(* --- the two 'Outdated' messages: re.match(r"Outdated (client! Please use|server! I'm still on) (?P<ver>\S+)$") --- *)
Definition is_space (c : Z) : bool :=
  existsb (Z.eqb c) [9; 10; 11; 12; 13; 28; 29; 30; 31; 32; 133; 160; 5760; 8232; 8233; 8239; 8287; 12288]
  || ((8192 <=? c) && (c <=? 8202)).
Fixpoint strip_prefix (pre s : list Z) : option (list Z) :=
  match pre, s with
  | [], _ => Some s
  | a :: pre', b :: s' => if a =? b then strip_prefix pre' s' else None
  | _, [] => None
  end.
(* \S+$ : a non-empty run of non-space characters up to the end, or up to one final newline *)
Fixpoint nonspace_run (s : list Z) : option (list Z) :=
  match s with
  | [] => Some []
  | [10] => Some []
  | c :: t => if is_space c then None else match nonspace_run t with Some r => Some (c :: r) | None => None end
  end.
Definition pre_client : list Z := [79;117;116;100;97;116;101;100;32;99;108;105;101;110;116;33;32;80;108;101;97;115;101;32;117;115;101;32].
Definition pre_server : list Z := [79;117;116;100;97;116;101;100;32;115;101;114;118;101;114;33;32;73;39;109;32;115;116;105;108;108;32;111;110;32].
Definition outdated_ver (msg : list Z) : option (list Z) :=
  let try pre := match strip_prefix pre msg with
                 | Some rest => match nonspace_run rest with Some (c :: r) => Some (c :: r) | _ => None end
                 | None => None end in
  match try pre_client with Some v => Some v | None => try pre_server end.

Section Session.
  Variable rsa : list Z -> list Z -> list Z.           (* pubkey -> message -> ciphertext (one per call) *)
  Variable secret : list Z.                             (* generate_shared_secret() of this login *)
  Variable vhash : list Z -> list Z -> list Z -> list Z. (* generate_verification_hash(server_id, secret, key) *)
  Variable has_token : bool.                            (* an AuthenticationToken is configured *)
  Variable f107 : bool.                                 (* protocol_later_eq(107): teleport confirm *)

  Record sess := { s_play : bool; s_comp : option Z; s_enc : option (list Z); s_queue : list outpkt; s_wire : list wev;
                   s_joins : list (list Z * nat); s_spawned : bool; s_end : option ending; s_exits : nat }.
  Definition init : sess :=
    {| s_play := false; s_comp := None; s_enc := None; s_queue := []; s_wire := []; s_joins := []; s_spawned := false;
       s_end := None; s_exits := 0 |}.

  Definition emit (s : sess) (o : outpkt) : wev := {| w_pkt := o; w_comp := s_comp s; w_enc := s_enc s |}.
  Definition upd_wire (s : sess) (w : list wev) (q : list outpkt) : sess :=
    {| s_play := s_play s; s_comp := s_comp s; s_enc := s_enc s; s_queue := q; s_wire := w; s_joins := s_joins s;
       s_spawned := s_spawned s; s_end := s_end s; s_exits := s_exits s |}.
  Definition enqueue (s : sess) (o : outpkt) : sess := upd_wire s (s_wire s) (s_queue s ++ [o]).

  (* _pop_packet up to n times *)
  Fixpoint flush (n : nat) (s : sess) : sess :=
    match n, s_queue s with
    | S k, o :: q => flush k (upd_wire s (s_wire s ++ [emit s o]) q)
    | _, _ => s
    end.

  Definition minus_one : list Z := [45].          (* server id '-' : offline mode *)
  Fixpoint zs_eq (a b : list Z) : bool :=
    match a, b with [], [] => true | x :: a', y :: b' => (x =? y) && zs_eq a' b' | _, _ => false end.

  Definition react_login (s : sess) (p : inpkt) : sess :=
    match p with
    | IEncReq sid key token =>
        let joins := if negb (zs_eq sid minus_one) && has_token then s_joins s ++ [(vhash sid secret key, length (s_wire s))] else s_joins s in
        (* forced write, before the cipher is installed *)
        let w := s_wire s ++ [emit s (OEncResp (rsa key secret) (rsa key token))] in
        {| s_play := false; s_comp := s_comp s; s_enc := Some secret; s_queue := s_queue s; s_wire := w; s_joins := joins;
           s_spawned := s_spawned s; s_end := None; s_exits := s_exits s |}
    | ISetComp t =>
        {| s_play := false; s_comp := Some t; s_enc := s_enc s; s_queue := s_queue s; s_wire := s_wire s; s_joins := s_joins s;
           s_spawned := s_spawned s; s_end := None; s_exits := s_exits s |}
    | IPlugin mid => enqueue s (OPluginResp mid)
    | ISuccess =>
        {| s_play := true; s_comp := s_comp s; s_enc := s_enc s; s_queue := s_queue s; s_wire := s_wire s; s_joins := s_joins s;
           s_spawned := s_spawned s; s_end := None; s_exits := s_exits s |}
    | ILoginDisconnect msg =>
        {| s_play := false; s_comp := s_comp s; s_enc := s_enc s; s_queue := s_queue s; s_wire := s_wire s; s_joins := s_joins s;
           s_spawned := s_spawned s;
           s_end := Some (match outdated_ver msg with Some v => EVersionMismatch v | None => ELoginDisconnect msg end);
           s_exits := s_exits s |}
    | _ => s
    end.

  Definition respond_play (p : inpkt) : list outpkt :=
    match p with
    | IKeepAlive k => [OKeepAlive k]
    | IPosLook tid pos => [if f107 then OTeleportConfirm tid else OPosLook pos]
    | _ => []
    end.

  Definition react_play (s : sess) (p : inpkt) : sess :=
    match p with
    | ISetComp t =>
        {| s_play := true; s_comp := Some t; s_enc := s_enc s; s_queue := s_queue s; s_wire := s_wire s; s_joins := s_joins s;
           s_spawned := s_spawned s; s_end := None; s_exits := s_exits s |}
    | IKeepAlive _ => upd_wire s (s_wire s) (s_queue s ++ respond_play p)
    | IPosLook _ _ =>
        {| s_play := true; s_comp := s_comp s; s_enc := s_enc s; s_queue := s_queue s ++ respond_play p; s_wire := s_wire s;
           s_joins := s_joins s; s_spawned := true; s_end := None; s_exits := s_exits s |}
    | IPlayDisconnect =>
        (* disconnect(): flush everything queued, interrupt, close; the loop exits and runs the exit callback *)
        let s' := flush (length (s_queue s)) s in
        {| s_play := true; s_comp := s_comp s'; s_enc := s_enc s'; s_queue := s_queue s'; s_wire := s_wire s'; s_joins := s_joins s';
           s_spawned := s_spawned s'; s_end := Some ENormalExit; s_exits := S (s_exits s') |}
    | _ => s
    end.

  Definition do_step (s : sess) (st : step) : sess :=
    match s_end s with
    | Some _ => s                                        (* the thread has ended *)
    | None =>
      match st with
      | SRecv p => if s_play s then react_play s p else react_login s p
      | SFlush n => flush n s
      end
    end.
  Definition run_session (sched : list step) : sess := fold_left do_step sched init.

  (* Connection.connect() on an object that has been through a session: _connect() makes a new socket (no cipher), a new
     outgoing queue and resets the compression options, connect() resets [spawned] and installs a new login reactor; what was
     written, joined and called back before stays history.  (The secret of the section is the one of the login that follows.) *)
  Definition reconnect (s : sess) : sess :=
    {| s_play := false; s_comp := None; s_enc := None; s_queue := []; s_wire := s_wire s; s_joins := s_joins s;
       s_spawned := false; s_end := None; s_exits := s_exits s |}.

  Definition received (sched : list step) : list inpkt :=
    flat_map (fun st => match st with SRecv p => [p] | _ => [] end) sched.
End Session.
