(* Interleaving semantics of the writers of a Connection (connection.py): user threads issuing
   write_packet (queued or forced) and disconnect, and the networking thread's write loop, cut into
   micro-steps at the operations that are scheduling points: lock acquire / release, deque.append,
   deque.popleft, each socket.send (a frame is two sends: length prefix, then payload), and
   interrupt + shutdown/close.  A schedule is a list of thread choices; a chosen thread that is not
   enabled (lock held elsewhere, program finished) does nothing. *)
From Coq Require Import ZArith List Bool Arith.
Import ListNotations.

Definition pkt := (Z * bool)%type.                    (* (identity, queued?) *)
Inductive op := OQueue (x : Z) | OForce (x : Z) | ODisconnect (imm : bool).
Inductive wevent := SendLen (p : pkt) | SendBody (p : pkt).

(* what a lock holder is doing *)
Inductive mode :=
| MForceDone                    (* forced write finished: release *)
| MFlush (imm : bool)           (* disconnect(): flush the queue unless immediate, then close *)
| MClosed                       (* disconnect(): closed: release *)
| MNet (k : nat).               (* networking thread: k packets written in this round *)
Inductive pc :=
| Idle                          (* between operations, lock not held *)
| Hold (m : mode)               (* lock held, at the head of the loop *)
| Popped (p : pkt) (m : mode)   (* a packet taken (popleft / forced argument), nothing sent yet *)
| Len (p : pkt) (m : mode)      (* its length prefix has been sent *)
| Done.                         (* finished, or ended by an exception *)
Record thread := { th_net : bool; th_ops : list op; th_pc : pc }.

Record st := { threads : list thread; lock : option nat; queue : list pkt; wire : list wevent;
               interrupt : bool; sock_open : bool;
               qlog : list pkt;        (* ghost: everything ever appended to the queue, in order *)
               popped : list pkt;      (* ghost: everything ever popped, in order *)
               closed_at : option (nat * bool) }.  (* ghost: |qlog| when the socket was closed, and whether it was a flushing close *)

Definition upd {A} (l : list A) (t : nat) (v : A) : list A := firstn t l ++ match skipn t l with [] => [] | _ :: r => v :: r end.
Definition set_pc (th : thread) (c : pc) : thread := {| th_net := th_net th; th_ops := th_ops th; th_pc := c |}.
Definition set_ops_pc (th : thread) (o : list op) (c : pc) : thread := {| th_net := th_net th; th_ops := o; th_pc := c |}.

Definition with_thread (s : st) (t : nat) (th : thread) : st :=
  {| threads := upd (threads s) t th; lock := lock s; queue := queue s; wire := wire s; interrupt := interrupt s;
     sock_open := sock_open s; qlog := qlog s; popped := popped s; closed_at := closed_at s |}.
Definition set_lock (s : st) (l : option nat) : st :=
  {| threads := threads s; lock := l; queue := queue s; wire := wire s; interrupt := interrupt s;
     sock_open := sock_open s; qlog := qlog s; popped := popped s; closed_at := closed_at s |}.
Definition emit (s : st) (e : wevent) : st :=
  {| threads := threads s; lock := lock s; queue := queue s; wire := wire s ++ [e]; interrupt := interrupt s;
     sock_open := sock_open s; qlog := qlog s; popped := popped s; closed_at := closed_at s |}.
Definition enqueue (s : st) (p : pkt) : st :=
  {| threads := threads s; lock := lock s; queue := queue s ++ [p]; wire := wire s; interrupt := interrupt s;
     sock_open := sock_open s; qlog := qlog s ++ [p]; popped := popped s; closed_at := closed_at s |}.
Definition pop (s : st) (p : pkt) (q : list pkt) : st :=
  {| threads := threads s; lock := lock s; queue := q; wire := wire s; interrupt := interrupt s;
     sock_open := sock_open s; qlog := qlog s; popped := popped s ++ [p]; closed_at := closed_at s |}.
Definition close (s : st) (flushing : bool) : st :=
  {| threads := threads s; lock := lock s; queue := queue s; wire := wire s; interrupt := true;
     sock_open := false; qlog := qlog s; popped := popped s;
     closed_at := match closed_at s with Some c => Some c | None => Some (length (qlog s), flushing) end |}.

Section Step.
  Variable limit : nat.                               (* the 300-packet bound of one write phase *)

  Definition free_for (s : st) (t : nat) : bool := match lock s with None => true | Some _ => false end.

  Definition step (s : st) (t : nat) : st :=
    match nth_error (threads s) t with
    | None => s
    | Some th =>
      match th_pc th with
      | Done => s
      | Idle =>
        if th_net th then
          if interrupt s then with_thread s t (set_pc th Done)
          else if free_for s t then with_thread (set_lock s (Some t)) t (set_pc th (Hold (MNet 0)))
          else s
        else
          match th_ops th with
          | [] => s
          | OQueue x :: r => with_thread (enqueue s (x, true)) t (set_ops_pc th r Idle)        (* deque.append: no lock *)
          | OForce x :: r => if free_for s t then with_thread (set_lock s (Some t)) t (set_ops_pc th r (Popped (x, false) MForceDone)) else s
          | ODisconnect imm :: r => if free_for s t then with_thread (set_lock s (Some t)) t (set_ops_pc th r (Hold (MFlush imm))) else s
          end
      | Popped p m =>
        if sock_open s then with_thread (emit s (SendLen p)) t (set_pc th (Len p m))
        else with_thread (set_lock s None) t (set_pc th Done)                                  (* the write raises; the with-block releases *)
      | Len p m => with_thread (emit s (SendBody p)) t (set_pc th (Hold m))
      | Hold MForceDone => with_thread (set_lock s None) t (set_pc th Idle)
      | Hold MClosed => with_thread (set_lock s None) t (set_pc th Idle)
      | Hold (MFlush imm) =>
        if imm || negb (sock_open s) then with_thread (close s false) t (set_pc th (Hold MClosed))
        else match queue s with
             | [] => with_thread (close s true) t (set_pc th (Hold MClosed))
             | p :: q => with_thread (pop s p q) t (set_pc th (Popped p (MFlush imm)))
             end
      | Hold (MNet k) =>
        if interrupt s || (limit <=? k) then with_thread (set_lock s None) t (set_pc th Idle)
        else match queue s with
             | [] => with_thread (set_lock s None) t (set_pc th Idle)
             | p :: q => with_thread (pop s p q) t (set_pc th (Popped p (MNet (S k))))
             end
      end
    end.

  Definition run_conc (sched : list nat) (s : st) : st := fold_left step sched s.
End Step.

Definition init (progs : list (list op)) : st :=
  {| threads := {| th_net := true; th_ops := []; th_pc := Idle |} :: map (fun o => {| th_net := false; th_ops := o; th_pc := Idle |}) progs;
     lock := None; queue := []; wire := []; interrupt := false; sock_open := true; qlog := []; popped := []; closed_at := None |}.

(* the wire as frames: complete (length, payload) pairs, and possibly one open pair *)
Fixpoint parse_wire (w : list wevent) : option (list pkt * option pkt) :=
  match w with
  | [] => Some ([], None)
  | SendLen p :: SendBody p' :: r =>
      if (Z.eqb (fst p) (fst p') && Bool.eqb (snd p) (snd p'))%bool then
        match parse_wire r with Some (fs, o) => Some (p :: fs, o) | None => None end
      else None
  | [SendLen p] => Some ([], Some p)
  | _ => None
  end.
