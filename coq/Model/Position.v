(* Models of Position.send_with_context / read_with_context (types/basic.py) and of
   MultiBlockChangePacket.ChunkSectionPos / Record (block_change_packet.py): same masks,
   shifts and sign corrections, on Python's unbounded integers. *)
From Coq Require Import ZArith List Bool.
Import ListNotations.
Open Scope Z_scope.

Definition M26 : Z := 0x3FFFFFF.
Definition M12 : Z := 0xFFF.

(* later = context.protocol_later_eq(443): x | z | y, else x | y | z *)
Definition pos_word (later : bool) (x y z : Z) : Z :=
  if later
  then Z.lor (Z.lor (Z.shiftl (Z.land x M26) 38) (Z.shiftl (Z.land z M26) 12)) (Z.land y M12)
  else Z.lor (Z.lor (Z.shiftl (Z.land x M26) 38) (Z.shiftl (Z.land y M12) 26)) (Z.land z M26).

Definition sign_fix (bits v : Z) : Z := if v >=? 2 ^ (bits - 1) then v - 2 ^ bits else v.

Definition pos_unword (later : bool) (w : Z) : Z * Z * Z :=
  let x := Z.shiftr w 38 in
  let '(y, z) :=
    if later then (Z.land w M12, Z.land (Z.shiftr w 12) M26)
    else (Z.land (Z.shiftr w 26) M12, Z.land w M26) in
  (sign_fix 26 x, sign_fix 12 y, sign_fix 26 z).

(* ChunkSectionPos *)
Definition csp_word (x y z : Z) : Z :=
  Z.lor (Z.lor (Z.shiftl (Z.land x 0x3FFFFF) 42) (Z.shiftl (Z.land z 0x3FFFFF) 20)) (Z.land y 0xFFFFF).

Definition csp_unword (w : Z) : Z * Z * Z :=
  let y := if Z.land w 0x80000 =? 0 then Z.land w 0xFFFFF else Z.lor w (Z.lnot 0xFFFFF) in
  let v1 := Z.shiftr w 20 in
  let z := if Z.land v1 0x200000 =? 0 then Z.land v1 0x3FFFFF else Z.lor v1 (Z.lnot 0x3FFFFF) in
  let v2 := Z.shiftr v1 22 in
  let x := if Z.land v2 0x200000 =? 0 then v2 else Z.lor v2 (Z.lnot 0x3FFFFF) in
  (x, y, z).

(* Record, protocol >= 741: one VarLong *)
Definition rec_word (x y z sid : Z) : Z :=
  Z.lor (Z.lor (Z.lor (Z.shiftl sid 12) (Z.shiftl (Z.land x 15) 8)) (Z.shiftl (Z.land z 15) 4)) (Z.land y 15).
Definition rec_unword (v : Z) : Z * Z * Z * Z :=
  (Z.land (Z.shiftr v 8) 15, Z.land v 15, Z.land (Z.shiftr v 4) 15, Z.shiftr v 12).
(* Record, protocol < 741: horizontal position byte *)
Definition rec_hbyte (x z : Z) : Z := Z.lor (Z.shiftl x 4) (Z.land z 15).
Definition rec_unhbyte (h : Z) : Z * Z := (Z.shiftr h 4, Z.land h 15).
