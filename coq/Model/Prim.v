(* Models of the scalar wire types of minecraft/networking/types/basic.py.
   struct.pack('>h', v) etc. = big-endian two's complement with the range check that makes
   struct raise; struct.unpack on a short buffer raises struct.error. *)
From Coq Require Import ZArith List Bool.
From PyCraft Require Import Base.Res.
Import ListNotations.
Open Scope Z_scope.

(* k bytes of n, big endian (n taken modulo 256^k) *)
Fixpoint be_bytes (k : nat) (n : Z) : list Z :=
  match k with
  | O => []
  | S k' => be_bytes k' (n / 256) ++ [n mod 256]
  end.

(* value of a big-endian byte string, with an accumulator *)
Fixpoint be_value (acc : Z) (bs : list Z) : Z :=
  match bs with
  | [] => acc
  | b :: t => be_value (acc * 256 + b) t
  end.

(* take exactly k bytes *)
Fixpoint take (k : nat) (bs : list Z) : option (list Z * list Z) :=
  match k with
  | O => Some ([], bs)
  | S k' => match bs with
            | [] => None
            | b :: t => match take k' t with Some (h, r) => Some (b :: h, r) | None => None end
            end
  end.

Definition pow256 (k : nat) : Z := 256 ^ Z.of_nat k.

Definition int_lo (signed : bool) (k : nat) : Z := if signed then - (pow256 k / 2) else 0.
Definition int_hi (signed : bool) (k : nat) : Z := if signed then pow256 k / 2 else pow256 k.   (* exclusive *)

Definition enc_int (signed : bool) (k : nat) (v : Z) : res (list Z) :=
  if (int_lo signed k <=? v) && (v <? int_hi signed k) then Ok (be_bytes k (v mod pow256 k))
  else Err StructError.

Definition dec_int (signed : bool) (k : nat) (bs : list Z) : res (Z * list Z) :=
  match take k bs with
  | None => Err StructError
  | Some (h, rest) =>
    let u := be_value 0 h in
    Ok (if signed && (pow256 k / 2 <=? u) then u - pow256 k else u, rest)
  end.

(* Boolean: struct '?' *)
Definition enc_bool (b : bool) : list Z := [if b then 1 else 0].
Definition dec_bool (bs : list Z) : res (bool * list Z) :=
  match bs with
  | [] => Err StructError
  | b :: rest => Ok (negb (b =? 0), rest)
  end.
