(* Splitting one NBT document (as read by pynbt.NBTFile) off the head of a byte list.
   Library code on the Python side; executable stand-in validated by correspondence.
   NBT is outside C02's list of types; in the codec theorems the splitter is a parameter. *)
From Coq Require Import ZArith List Bool.
From PyCraft Require Import Model.Prim.
Import ListNotations.
Open Scope Z_scope.

Definition drop_n (n : Z) (bs : list Z) : option (list Z) :=
  if (n <? 0) || (Z.of_nat (length bs) <? n) then None else Some (skipn (Z.to_nat n) bs).

Definition u16 (bs : list Z) : option (Z * list Z) :=
  match bs with a :: b :: r => Some (a * 256 + b, r) | _ => None end.
Definition i32 (bs : list Z) : option (Z * list Z) :=
  match bs with
  | a :: b :: c :: d :: r => let u := ((a * 256 + b) * 256 + c) * 256 + d in
                             Some (if 2147483648 <=? u then u - 4294967296 else u, r)
  | _ => None
  end.

Definition obind {A B} (o : option A) (f : A -> option B) : option B := match o with Some a => f a | None => None end.

(* returns the remaining bytes after the payload of a tag of type [ty] *)
Fixpoint skip_payload (fuel : nat) (ty : Z) (bs : list Z) {struct fuel} : option (list Z) :=
  match fuel with
  | O => None
  | S f =>
    let skip_compound :=
      (fix comp (g : nat) (bs : list Z) {struct g} : option (list Z) :=
         match g with
         | O => None
         | S g' =>
           match bs with
           | [] => None
           | 0 :: r => Some r
           | t :: r => obind (u16 r) (fun p => obind (drop_n (fst p) (snd p)) (fun r2 =>
                       obind (skip_payload f t r2) (fun r3 => comp g' r3)))
           end
         end) in
    let skip_list :=
      (fix lst (g : nat) (cnt : Z) (t : Z) (bs : list Z) {struct g} : option (list Z) :=
         if cnt <=? 0 then Some bs
         else match g with
              | O => None
              | S g' => obind (skip_payload f t bs) (fun r => lst g' (cnt - 1) t r)
              end) in
    match ty with
    | 1 => drop_n 1 bs | 2 => drop_n 2 bs | 3 => drop_n 4 bs | 4 => drop_n 8 bs
    | 5 => drop_n 4 bs | 6 => drop_n 8 bs
    | 7 => obind (i32 bs) (fun p => drop_n (fst p) (snd p))
    | 8 => obind (u16 bs) (fun p => drop_n (fst p) (snd p))
    | 9 => match bs with
           | t :: r => obind (i32 r) (fun p => if t =? 0 then Some (snd p) else skip_list (S (length (snd p))) (fst p) t (snd p))
           | [] => None
           end
    | 10 => skip_compound (S (length bs)) bs
    | 11 => obind (i32 bs) (fun p => drop_n (4 * fst p) (snd p))
    | 12 => obind (i32 bs) (fun p => drop_n (8 * fst p) (snd p))
    | _ => None
    end
  end.

Definition nbt_split (bs : list Z) : option (list Z * list Z) :=
  match bs with
  | [] => None
  | t :: r =>
    obind (u16 r) (fun p => obind (drop_n (fst p) (snd p)) (fun r2 =>
    obind (skip_payload (S (length bs)) t r2) (fun rest =>
      let n := (length bs - length rest)%nat in Some (firstn n bs, rest))))
  end.
