(* Shapes of the reified per-version tables (data comes from Gen/Tables.v, regenerated from the
   source on every run) and the model of the decoder table built in PacketReactor.__init__. *)
From Coq Require Import ZArith List Bool.
Import ListNotations.
Open Scope Z_scope.

Inductive ftype :=
| TBool | TUByte | TByte | TShort | TUShort | TInt | TLong | TULong | TFloat | TDouble
| TVarInt | TVarLong | TString | TUUID | TAngle | TFixed (base : ftype) (bits : Z)
| TShortBytes | TVarBytes | TTrailing | TPosition | TNBT
| TArray (len elem : ftype) | TCustom (c : Z).

Definition defn := list (Z * ftype).          (* (field-name code, type) in order *)

(* a function of the chronological version index given by breakpoints (start index, value), ascending *)
Definition ladder (A : Type) := list (Z * A).
Definition ladder_get {A} (l : ladder A) (i : Z) (d : A) : A :=
  fold_left (fun acc e => if fst e <=? i then snd e else acc) l d.

Fixpoint assoc {A} (l : list (Z * A)) (k : Z) (d : A) : A :=
  match l with [] => d | (k', v) :: t => if k' =? k then v else assoc t k d end.

Fixpoint nodupb (l : list Z) : bool :=
  match l with [] => true | x :: t => negb (existsb (Z.eqb x) t) && nodupb t end.

Definition id_ok (o : option Z) : bool := match o with Some n => 0 <=? n | None => false end.
Fixpoint somes (l : list (option Z)) : list Z :=
  match l with [] => [] | Some n :: t => n :: somes t | None :: t => somes t end.

Section TableChecks.
  Variable members : Z -> Z -> list Z.         (* table, version index -> classes *)
  Variable id_of : Z -> Z -> option Z.         (* class, version index -> id *)

  (* C06 for one (version, table), ignoring the classes listed as known findings there *)
  Definition table_ok (skip : list Z) (tbl vi : Z) : bool :=
    let ms := filter (fun c => negb (existsb (Z.eqb c) skip)) (members tbl vi) in
    let ids := map (fun c => id_of c vi) ms in
    forallb id_ok ids && nodupb (somes ids).

  Definition all_tables_ok (skips : list (Z * Z * Z)) (tbls vis : list Z) : bool :=
    forallb (fun vi => forallb (fun tbl =>
      table_ok (map (fun s => snd s) (filter (fun s => (fst (fst s) =? vi) && (snd (fst s) =? tbl)) skips)) tbl vi) tbls) vis.
End TableChecks.

(* PacketReactor.__init__: {packet.get_id(context): packet for packet in get_packets(context)} -
   a dict built in the iteration order of a set: later entries overwrite earlier ones. *)
Definition build_table (id : Z -> Z) (order : list Z) : list (Z * Z) := map (fun c => (id c, c)) order.
Fixpoint lookup_last (d : list (Z * Z)) (k : Z) : option Z :=
  match d with
  | [] => None
  | (k', c) :: t => match lookup_last t k with Some c' => Some c' | None => if k' =? k then Some c else None end
  end.
