(* Model of minecraft/__init__.py:initglobals and of the comparison predicates in
   minecraft/utility.py and ConnectionContext (connection.py).
   Version ids are integers (the harness encodes the id string injectively); whether an id
   looks like a release ("\d+(\.\d+)+$") is an attribute supplied with the record. *)
From Coq Require Import ZArith List Bool.
From PyCraft Require Import Base.Res.
Import ListNotations.
Open Scope Z_scope.

Record vrec := { v_id : Z; v_proto : Z; v_supported : bool; v_release : bool }.

(* association lists with OrderedDict semantics: assignment keeps the first position, last value *)
Fixpoint od_set (d : list (Z * Z)) (k v : Z) : list (Z * Z) :=
  match d with
  | [] => [(k, v)]
  | (k', v') :: t => if k' =? k then (k, v) :: t else (k', v') :: od_set t k v
  end.

Fixpoint od_get (d : list (Z * Z)) (k : Z) : option Z :=
  match d with
  | [] => None
  | (k', v) :: t => if k' =? k then Some v else od_get t k
  end.

Definition memZ (x : Z) (l : list Z) : bool := existsb (Z.eqb x) l.

(* "if p not in L: L.append(p)" *)
Definition add_new (l : list Z) (p : Z) : list Z := if memZ p l then l else l ++ [p].

Record tables := {
  known_versions : list (Z * Z);       (* KNOWN_MINECRAFT_VERSIONS, id -> protocol *)
  known_protocols : list Z;            (* KNOWN_PROTOCOL_VERSIONS *)
  indices : list (Z * Z);              (* PROTOCOL_VERSION_INDICES, protocol -> index *)
  supported_versions : list (Z * Z);   (* SUPPORTED_MINECRAFT_VERSIONS *)
  supported_protocols : list Z;
  release_versions : list (Z * Z);
  release_protocols : list Z
}.

Definition empty_tables := {| known_versions := []; known_protocols := []; indices := [];
  supported_versions := []; supported_protocols := []; release_versions := []; release_protocols := [] |}.

(* first loop of initglobals: one iteration *)
Definition step_known (acc : list (Z*Z) * list Z * list (Z*Z) * list (Z*Z)) (r : vrec) :=
  let '(kv, kp, idx, sv) := acc in
  let kv' := od_set kv (v_id r) (v_proto r) in
  let '(kp', idx') :=
    if memZ (v_proto r) kp then (kp, idx)
    else (kp ++ [v_proto r], od_set idx (v_proto r) (Z.of_nat (length kp))) in
  let sv' := if v_supported r then od_set sv (v_id r) (v_proto r) else sv in
  (kv', kp', idx', sv').

(* second loop: over SUPPORTED_MINECRAFT_VERSIONS.items(); [is_rel] is the release-id test *)
Definition step_supported (is_rel : Z -> bool) (acc : list Z * list (Z*Z) * list Z) (kv : Z * Z) :=
  let '(sp, rv, rp) := acc in
  let '(vid, proto) := kv in
  let '(rv', rp') := if is_rel vid then (od_set rv vid proto, add_new rp proto) else (rv, rp) in
  (add_new sp proto, rv', rp').

Definition initglobals (use_known : bool) (is_rel : Z -> bool) (records : list vrec) (st : tables) : tables :=
  let '(kv, kp, idx, sv) :=
    if use_known then fold_left step_known records ([], [], [], [])
    else (known_versions st, known_protocols st, indices st, supported_versions st) in
  let '(sp, rv, rp) := fold_left (step_supported is_rel) sv ([], [], []) in
  {| known_versions := kv; known_protocols := kp; indices := idx; supported_versions := sv;
     supported_protocols := sp; release_versions := rv; release_protocols := rp |}.

Definition rel_of (records : list vrec) (vid : Z) : bool :=
  existsb (fun r => (v_id r =? vid) && v_release r) records.

(* utility.protocol_earlier / protocol_earlier_eq: dict lookups raise KeyError *)
Definition cmp_with (f : Z -> Z -> bool) (idx : list (Z * Z)) (p q : Z) : res bool :=
  match od_get idx p, od_get idx q with
  | Some i, Some j => Ok (f i j)
  | _, _ => Err KeyError
  end.
Definition protocol_earlier := cmp_with Z.ltb.
Definition protocol_earlier_eq := cmp_with Z.leb.
(* ConnectionContext methods for a context whose version is [pv] *)
Definition ctx_earlier idx pv other := protocol_earlier idx pv other.
Definition ctx_earlier_eq idx pv other := protocol_earlier_eq idx pv other.
Definition ctx_later idx pv other := protocol_earlier idx other pv.
Definition ctx_later_eq idx pv other := protocol_earlier_eq idx other pv.
(* "earlier(pv, end) and earlier_eq(start, pv)" with Python's short-circuit evaluation *)
Definition ctx_in_range idx pv start_pv end_pv : res bool :=
  match protocol_earlier idx pv end_pv with
  | Ok true => protocol_earlier_eq idx start_pv pv
  | Ok false => Ok false
  | Err e => Err e
  | OutOfFuel => OutOfFuel
  end.
