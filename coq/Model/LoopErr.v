(* One turn of NetworkingThread._run with respect to errors (connection.py):

     try: write up to 300 queued packets       except IOError: exc_info = sys.exc_info()   (held back)
     while ...: packet = read_packet(); react(packet)                                       (an exception from react propagates at once)
                if exc_info is not None and packet.packet_name == "disconnect": exc_info = None
     if exc_info is not None: raise it

   A write error that is not an IOError is not caught and ends the turn before anything is read.  Reacting to a disconnect
   packet ends the loop (login: by raising the login-failure error; play: disconnect() sets the interrupt flag). *)
From Coq Require Import ZArith List Bool.
Import ListNotations.
Open Scope Z_scope.

Record wfault := { wf_exn : Z; wf_is_ioerror : bool }.
(* a packet read in this turn: is it a disconnect packet, what does reacting to it raise, does reacting end the loop *)
Record rd := { rd_disconnect : bool; rd_raises : option Z; rd_ends_loop : bool }.
Inductive turn_end := TContinue | TInterrupted | TRaised (e : Z).

Fixpoint read_phase (held : option Z) (reads : list rd) : turn_end :=
  match reads with
  | [] => match held with Some e => TRaised e | None => TContinue end
  | r :: t =>
    match rd_raises r with
    | Some e => TRaised e                                     (* the reaction's own error, whatever was held back *)
    | None =>
      let held' := if rd_disconnect r then None else held in
      if rd_ends_loop r then match held' with Some e => TRaised e | None => TInterrupted end
      else read_phase held' t
    end
  end.

Definition turn (w : option wfault) (reads : list rd) : turn_end :=
  match w with
  | None => read_phase None reads
  | Some f => if wf_is_ioerror f then read_phase (Some (wf_exn f)) reads else TRaised (wf_exn f)
  end.

(* The same read phase, also counting the packets handed to _react (early listeners, reaction, ordinary listeners) in the turn. *)
Fixpoint read_phase_n (held : option Z) (reads : list rd) : turn_end * nat :=
  match reads with
  | [] => (match held with Some e => TRaised e | None => TContinue end, O)
  | r :: t =>
    match rd_raises r with
    | Some e => (TRaised e, 1%nat)
    | None =>
      let held' := if rd_disconnect r then None else held in
      if rd_ends_loop r then (match held' with Some e => TRaised e | None => TInterrupted end, 1%nat)
      else let (o, n) := read_phase_n held' t in (o, S n)
    end
  end.

Definition turn_n (w : option wfault) (reads : list rd) : turn_end * nat :=
  match w with
  | None => read_phase_n None reads
  | Some f => if wf_is_ioerror f then read_phase_n (Some (wf_exn f)) reads else (TRaised (wf_exn f), O)
  end.
