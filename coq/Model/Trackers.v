(* State trackers and helper value types: PlayerListItemPacket actions' apply (player_list_item_packet.py),
   MapPacket.apply_to_map (map_packet.py), PlayerPositionAndLookPacket.apply
   (player_position_and_look_packet.py), BitFieldEnum.name_from_value (types/enum.py), MutableRecord
   equality / hash and Vector arithmetic (types/utility.py), attribute aliases (utility.py). *)
From Coq Require Import ZArith List Bool.
Import ListNotations.
Open Scope Z_scope.

(* ---------- player list: a dict uuid -> item ---------- *)
Record item := { it_name : Z; it_props : Z; it_gamemode : Z; it_ping : Z; it_display : option Z }.
Inductive paction :=
| PAdd (u : Z) (it : item) | PGamemode (u g : Z) | PLatency (u p : Z) | PDisplay (u : Z) (d : option Z) | PRemove (u : Z).
Definition pdict := list (Z * item).                   (* insertion-ordered, keys distinct *)

Fixpoint dget (d : pdict) (u : Z) : option item :=
  match d with [] => None | (k, v) :: t => if k =? u then Some v else dget t u end.
Fixpoint dset (d : pdict) (u : Z) (v : item) : pdict :=       (* d[u] = v: replace in place, or append *)
  match d with [] => [(u, v)] | (k, w) :: t => if k =? u then (k, v) :: t else (k, w) :: dset t u v end.
Fixpoint ddel (d : pdict) (u : Z) : pdict :=
  match d with [] => [] | (k, w) :: t => if k =? u then t else (k, w) :: ddel t u end.

Definition papply (d : pdict) (a : paction) : pdict :=
  match a with
  | PAdd u it => dset d u it
  | PGamemode u g => match dget d u with
                     | Some p => dset d u {| it_name := it_name p; it_props := it_props p; it_gamemode := g; it_ping := it_ping p; it_display := it_display p |}
                     | None => d end
  | PLatency u q => match dget d u with
                    | Some p => dset d u {| it_name := it_name p; it_props := it_props p; it_gamemode := it_gamemode p; it_ping := q; it_display := it_display p |}
                    | None => d end
  | PDisplay u dn => match dget d u with
                     | Some p => dset d u {| it_name := it_name p; it_props := it_props p; it_gamemode := it_gamemode p; it_ping := it_ping p; it_display := dn |}
                     | None => d end
  | PRemove u => ddel d u
  end.

(* the prescribed replay, on abstract maps *)
Definition amap := Z -> option item.
Definition aapply (m : amap) (a : paction) : amap :=
  fun x =>
  match a with
  | PAdd u it => if x =? u then Some it else m x
  | PGamemode u g => if x =? u then option_map (fun p => {| it_name := it_name p; it_props := it_props p; it_gamemode := g; it_ping := it_ping p; it_display := it_display p |}) (m x) else m x
  | PLatency u q => if x =? u then option_map (fun p => {| it_name := it_name p; it_props := it_props p; it_gamemode := it_gamemode p; it_ping := q; it_display := it_display p |}) (m x) else m x
  | PDisplay u dn => if x =? u then option_map (fun p => {| it_name := it_name p; it_props := it_props p; it_gamemode := it_gamemode p; it_ping := it_ping p; it_display := dn |}) (m x) else m x
  | PRemove u => if x =? u then None else m x
  end.

(* ---------- map patching ---------- *)
Fixpoint lset {A} (l : list A) (i : nat) (v : A) : list A :=
  match l, i with
  | [], _ => []
  | _ :: t, O => v :: t
  | h :: t, S k => h :: lset t k v
  end.
(* for i in range(len(pixels)): map.pixels[offx + i % w + mapw * (offz + i // w)] = pixels[i] *)
Definition target (mapw offx offz w : nat) (i : nat) : nat := offx + Nat.modulo i w + mapw * (offz + Nat.div i w).
Fixpoint patch_upto (mapw offx offz w : nat) (px : list Z) (n : nat) (pix : list Z) : list Z :=
  match n with
  | O => pix
  | S k => lset (patch_upto mapw offx offz w px k pix) (target mapw offx offz w k) (nth k px 0)
  end.
Definition apply_to_map (mapw offx offz w : nat) (px pix : list Z) : list Z := patch_upto mapw offx offz w px (length px) pix.

(* ---------- position and look ---------- *)
Record plook := { px_ : Z; py_ : Z; pz_ : Z; pyaw : Z; ppitch : Z }.      (* exact numbers, scaled by a fixed power of two *)
Definition papply_pos (full_turn : Z) (flags : Z) (p t : plook) : plook :=
  let rel b := Z.testbit flags b in
  {| px_ := if rel 0 then px_ t + px_ p else px_ p;
     py_ := if rel 1 then py_ t + py_ p else py_ p;
     pz_ := if rel 2 then pz_ t + pz_ p else pz_ p;
     pyaw := (if rel 3 then pyaw t + pyaw p else pyaw p) mod full_turn;
     ppitch := (if rel 4 then ppitch t + ppitch p else ppitch p) mod full_turn |}.

(* ---------- BitFieldEnum.name_from_value ---------- *)
(* stable insertion sort by value, descending: sorted(..., reverse=True, key=value) keeps the original order of equal values *)
Fixpoint ins_desc (x : Z * Z) (l : list (Z * Z)) : list (Z * Z) :=
  match l with
  | [] => [x]
  | y :: t => if snd y <=? snd x then x :: y :: t else y :: ins_desc x t
  end.
Definition sort_desc (l : list (Z * Z)) : list (Z * Z) := fold_right (fun x acc => ins_desc x acc) [] l.
Fixpoint greedy (value : Z) (cands : list (Z * Z)) (names : list Z) (ret : Z) : list Z * Z :=
  match cands with
  | [] => (names, ret)
  | (n, v) :: t => if negb (Z.lor ret v =? ret) || (v =? value) then greedy value t (names ++ [n]) (Z.lor ret v) else greedy value t names ret
  end.
(* members: (name, value) in class-dict order; result: the names in the order printed, or None *)
Definition name_from_value (members : list (Z * Z)) (value : Z) : option (list Z) :=
  let cands := sort_desc (filter (fun m => Z.lor (snd m) value =? value) members) in
  let '(names, ret) := greedy value cands [] 0 in
  if ret =? value then Some (rev names) else None.
Definition parse_names (members : list (Z * Z)) (names : list Z) : Z :=
  fold_left (fun acc n => Z.lor acc (match find (fun m => fst m =? n) members with Some m => snd m | None => 0 end)) names 0.

(* ---------- MutableRecord, Vector, aliases ---------- *)
Record mrecord := { mr_type : Z; mr_slots : list Z }.          (* the type and the values of all slots, in order *)
Fixpoint zs_eqb (a b : list Z) : bool :=
  match a, b with [], [] => true | x :: a', y :: b' => (x =? y) && zs_eqb a' b' | _, _ => false end.
Definition mr_eq (a b : mrecord) : bool := (mr_type a =? mr_type b) && zs_eqb (mr_slots a) (mr_slots b).
Definition mr_hash (H : Z -> list Z -> Z) (a : mrecord) : Z := H (mr_type a) (mr_slots a).

Record vec := { v_type : Z; vx : Z; vy : Z; vz : Z }.
Definition vadd (a b : vec) : vec := {| v_type := v_type a; vx := vx a + vx b; vy := vy a + vy b; vz := vz a + vz b |}.
Definition vsub (a b : vec) : vec := {| v_type := v_type a; vx := vx a - vx b; vy := vy a - vy b; vz := vz a - vz b |}.
Definition vneg (a : vec) : vec := {| v_type := v_type a; vx := - vx a; vy := - vy a; vz := - vz a |}.
Definition vmul (a : vec) (k : Z) : vec := {| v_type := v_type a; vx := vx a * k; vy := vy a * k; vz := vz a * k |}.
Definition vfloordiv (a : vec) (k : Z) : vec := {| v_type := v_type a; vx := vx a / k; vy := vy a / k; vz := vz a / k |}.

(* an object's attributes; an alias redirects to another name, a multi-alias to several *)
Definition attrs := list (Z * Z).
Fixpoint aget (o : attrs) (n : Z) : option Z := match o with [] => None | (k, v) :: t => if k =? n then Some v else aget t n end.
Fixpoint aset (o : attrs) (n v : Z) : attrs := match o with [] => [(n, v)] | (k, w) :: t => if k =? n then (k, v) :: t else (k, w) :: aset t n v end.
Definition alias_get (target : Z) (o : attrs) := aget o target.
Definition alias_set (target : Z) (o : attrs) (v : Z) := aset o target v.
Fixpoint multi_set (names : list Z) (o : attrs) (vs : list Z) : attrs :=
  match names, vs with n :: ns, v :: vs' => multi_set ns (aset o n v) vs' | _, _ => o end.
Definition multi_get (names : list Z) (o : attrs) : list (option Z) := map (aget o) names.
