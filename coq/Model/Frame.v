(* Framing: Packet._write_buffer / Packet.write (packet.py) and PacketReactor.read_packet
   (connection.py) over a SEGMENTED byte stream: the list of segments is the sequence of results
   the socket's read() calls can give; read(n) returns at most n bytes and at most the current
   segment, and b'' only at end of stream. *)
From Coq Require Import ZArith List Bool.
From PyCraft Require Import Base.Res Model.VarInt.
Import ListNotations.
Open Scope Z_scope.

Definition stream := list (list Z).
Definition flat (s : stream) : list Z := concat s.
Definition nonempty_segs (s : stream) : Prop := Forall (fun seg => seg <> []) s.

(* one read(n) *)
Definition rd (n : nat) (s : stream) : list Z * stream :=
  match s with
  | [] => ([], [])
  | seg :: rest =>
      if (length seg <=? n)%nat then (seg, rest)
      else match n with O => ([], s) | _ => (firstn n seg, skipn n seg :: rest) end
  end.

(* VarInt.read on a stream: file_object.read(1) per byte *)
Fixpoint read_loop_s (maxb : Z) (fuel : nat) (number count : Z) (s : stream) : res (Z * stream) :=
  match fuel with
  | O => OutOfFuel
  | S f =>
    match rd 1 s with
    | (b :: _, s') =>
      let number' := Z.lor number (Z.shiftl (Z.land b 127) (7 * count)) in
      if Z.land b 128 =? 0 then Ok (number', s')
      else
        let count' := count + 1 in
        if count' >? maxb then Err ValueError
        else read_loop_s maxb f number' count' s'
    | ([], _) => Err EOFError
    end
  end.
Definition varint_read_s (maxb : Z) (s : stream) : res (Z * stream) :=
  read_loop_s maxb (Z.to_nat (maxb + 2)) 0 0 s.

(* the reassembly loop: while len(packet_data) < length: data = read(length - len); empty -> EOFError *)
Fixpoint read_exact (fuel need : nat) (acc : list Z) (s : stream) : res (list Z * stream) :=
  if (length acc <? need)%nat then
    match fuel with
    | O => OutOfFuel
    | S f => let '(c, s') := rd (need - length acc) s in
             match c with [] => Err EOFError | _ => read_exact f need (acc ++ c) s' end
    end
  else Ok (acc, s).

(* packet_data.send(stream.read(length)); then the loop *)
Definition read_body (need : nat) (s : stream) : res (list Z * stream) :=
  let '(c, s') := rd need s in read_exact (S need) need c s'.

Section Frame.
  Variable deflate : list Z -> list Z.
  Variable inflate : list Z -> option (list Z).
  (* compress this payload under this threshold?  impl: len(payload) > threshold != -1; the reader
     does not care, so the theorems hold for every decision function *)
  Variable decide : Z -> list Z -> bool.

  (* Packet.write: id, fields, then _write_buffer *)
  Definition write_frame (thr : option Z) (id : Z) (body : list Z) : res (list Z) :=
    bind (varint_send id) (fun idb =>
    let payload := idb ++ body in
    bind (match thr with
          | None => Ok payload
          | Some t => if decide t payload
                      then bind (varint_send (Z.of_nat (length payload))) (fun l => Ok (l ++ deflate payload))
                      else Ok (0 :: payload)
          end) (fun framed =>
    bind (varint_send (Z.of_nat (length framed))) (fun lb => Ok (lb ++ framed)))).

  Fixpoint write_all (thr : option Z) (ps : list (Z * list Z)) : res (list Z) :=
    match ps with
    | [] => Ok []
    | (id, body) :: t => bind (write_frame thr id body) (fun a => bind (write_all thr t) (fun b => Ok (a ++ b)))
    end.

  (* what read_packet does with a complete frame: optional data-length / inflate / size check, id *)
  Definition open_frame (comp : bool) (data : list Z) : res (Z * list Z) :=
    if comp then
      bind (varint_read 5 data) (fun p =>
      if fst p >? 0 then
        match inflate (snd p) with
        | Some d => if Z.of_nat (length d) =? fst p then varint_read 5 d else Err AssertionError
        | None => Err (OtherExn 3)
        end
      else varint_read 5 (snd p))
    else varint_read 5 data.

  (* read_packet (ready stream): length VarInt byte by byte, reassembly, open; the result is the
     packet id with the remaining payload, and the stream positioned after the frame *)
  Definition read_packet (comp : bool) (s : stream) : res ((Z * list Z) * stream) :=
    bind (varint_read_s 5 s) (fun p =>
    bind (read_body (Z.to_nat (fst p)) (snd p)) (fun q =>
    bind (open_frame comp (fst q)) (fun r => Ok (r, snd q)))).

  (* n packets in a row *)
  Fixpoint read_n (comp : bool) (n : nat) (s : stream) : res (list (Z * list Z) * stream) :=
    match n with
    | O => Ok ([], s)
    | S k => bind (read_packet comp s) (fun p => bind (read_n comp k (snd p)) (fun r => Ok (fst p :: fst r, snd r)))
    end.

  (* read until something goes wrong (end of stream): the packets delivered, and how it ended *)
  Fixpoint read_until_error (fuel : nat) (comp : bool) (s : stream) : list (Z * list Z) * res unit :=
    match fuel with
    | O => ([], OutOfFuel)
    | S f => match read_packet comp s with
             | Ok (p, s') => let '(l, e) := read_until_error f comp s' in (p :: l, e)
             | Err e => ([], Err e)
             | OutOfFuel => ([], OutOfFuel)
             end
    end.
End Frame.
