(* Listener dispatch: PacketListener.call_packet (packet_listener.py), Connection._react,
   Connection._write_packet and register_packet_listener (connection.py).
   Packet classes are numbers with an arbitrary subclass relation; a listener's callback may return,
   raise IgnorePacket, or raise another exception, as a function of the packet. *)
From Coq Require Import ZArith List Bool.
Import ListNotations.
Open Scope Z_scope.

Inductive beh := Return | Ignore | Raise (e : Z).
Record packet := { p_key : Z; p_cls : Z }.
Record listener := { l_id : Z; l_filter : list Z; l_beh : packet -> beh }.

Inductive event := Call (lid : Z) (pk : Z) | Reaction (pk : Z) | Written (pk : Z).
Inductive outcome := ODone | OIgnored | ORaised (e : Z).

Section Dispatch.
  Variable subclass : Z -> Z -> bool.             (* isinstance(packet, packet_type) on classes *)

  (* for packet_type in packets_to_listen: if isinstance: callback(packet); return True *)
  Definition matches (l : listener) (p : packet) : bool := existsb (subclass (p_cls p)) (l_filter l).
  Definition call_packet (l : listener) (p : packet) : option beh :=
    if matches l p then Some (l_beh l p) else None.

  (* for listener in listeners: listener.call_packet(packet) - an exception leaves the loop *)
  Fixpoint run_listeners (ls : list listener) (p : packet) : list event * outcome :=
    match ls with
    | [] => ([], ODone)
    | l :: t =>
      match call_packet l p with
      | None => run_listeners t p
      | Some Return => let '(log, o) := run_listeners t p in (Call (l_id l) (p_key p) :: log, o)
      | Some Ignore => ([Call (l_id l) (p_key p)], OIgnored)
      | Some (Raise e) => ([Call (l_id l) (p_key p)], ORaised e)
      end
    end.

  (* Connection._react: early listeners, reactor.react, ordinary listeners; IgnorePacket is swallowed *)
  Definition react_in (early late : list listener) (reaction : packet -> beh) (p : packet) : list event * outcome :=
    let '(l1, o1) := run_listeners early p in
    match o1 with
    | ODone =>
      match reaction p with
      | Return => let '(l2, o2) := run_listeners late p in (l1 ++ Reaction (p_key p) :: l2, o2)
      | Ignore => (l1 ++ [Reaction (p_key p)], OIgnored)
      | Raise e => (l1 ++ [Reaction (p_key p)], ORaised e)
      end
    | _ => (l1, o1)
    end.

  (* Connection._write_packet: early outgoing listeners, packet.write, outgoing listeners *)
  Definition write_out (early_out late_out : list listener) (write : packet -> beh) (p : packet) : list event * outcome :=
    let '(l1, o1) := run_listeners early_out p in
    match o1 with
    | ODone =>
      match write p with
      | Return => let '(l2, o2) := run_listeners late_out p in (l1 ++ Written (p_key p) :: l2, o2)
      | Ignore => (l1, OIgnored)
      | Raise e => (l1, ORaised e)
      end
    | _ => (l1, o1)
    end.

  (* a history of incoming packets: a raised exception ends the thread, IgnorePacket affects that packet only *)
  Fixpoint react_all (early late : list listener) (reaction : packet -> beh) (ps : list packet) : list event * outcome :=
    match ps with
    | [] => ([], ODone)
    | p :: t =>
      let '(l, o) := react_in early late reaction p in
      match o with
      | ORaised e => (l, ORaised e)
      | _ => let '(l', o') := react_all early late reaction t in (l ++ l', o')
      end
    end.

  (* the flush of the outgoing queue ("while self._pop_packet(): pass" in disconnect(), and the write phase of the loop):
     every queued packet goes through _write_packet in queue order; IgnorePacket from an outgoing listener affects that
     packet only, any other exception leaves the loop with the rest still queued *)
  Fixpoint flush_all (early_out late_out : list listener) (write : packet -> beh) (ps : list packet) : list event * outcome * list packet :=
    match ps with
    | [] => ([], ODone, [])
    | p :: t =>
      let '(l, o) := write_out early_out late_out write p in
      match o with
      | ORaised e => (l, ORaised e, t)
      | _ => let '(l', o', rest) := flush_all early_out late_out write t in (l ++ l', o', rest)
      end
    end.
End Dispatch.

(* register_packet_listener: the four target lists *)
Record registry := { r_late : list listener; r_early : list listener; r_out : list listener; r_early_out : list listener }.
Definition empty_registry : registry := {| r_late := []; r_early := []; r_out := []; r_early_out := [] |}.
Definition register (r : registry) (l : listener) (early outgoing : bool) : registry :=
  match early, outgoing with
  | false, false => {| r_late := r_late r ++ [l]; r_early := r_early r; r_out := r_out r; r_early_out := r_early_out r |}
  | true, false => {| r_late := r_late r; r_early := r_early r ++ [l]; r_out := r_out r; r_early_out := r_early_out r |}
  | false, true => {| r_late := r_late r; r_early := r_early r; r_out := r_out r ++ [l]; r_early_out := r_early_out r |}
  | true, true => {| r_late := r_late r; r_early := r_early r; r_out := r_out r; r_early_out := r_early_out r ++ [l] |}
  end.
Definition register_all (regs : list (listener * bool * bool)) : registry :=
  fold_left (fun r x => register r (fst (fst x)) (snd (fst x)) (snd x)) regs empty_registry.
