(* Packet layouts as small programs: a fixed field list (Packet.read / write_fields over a
   definition) is the special case without PCase / PRepeat; the six packet classes with hand-written
   read / write_fields are layouts whose continuation depends on an earlier control field (PCase)
   or that repeat a sub-layout a transmitted number of times (PRepeat). *)
From Coq Require Import ZArith List Bool.
From PyCraft Require Import Base.Res Model.Tables Model.Prim Model.VarInt Model.Utf8 Model.Position Model.FieldTypes.
Import ListNotations.
Open Scope Z_scope.

Inductive prog :=
| PEnd
| PTrail                                          (* a final TrailingByteArray field *)
| PFail (e : exn)                                 (* the code raises here (unknown action id, removed packet) *)
| PField (t : ftype) (k : prog)
| PCase (t : ftype) (k : Z -> prog)               (* a control field (bool / integer) selects what follows *)
| PRepeat (t : ftype) (body : prog) (k : prog).   (* count of type t, then [body] count times *)

Definition ctrl (v : value) : Z :=
  match v with VInt z => z | VBool true => 1 | VBool false => 0 | _ => 0 end.

Section ProgCodec.
  Variable c : cctx.
  Variable nbt_split : list Z -> option (list Z * list Z).

  Definition item_enc (f : list value -> res (list Z)) (it : value) : res (list Z) :=
    match it with VTup fs => f fs | _ => Err TypeError end.
  Definition item_dec (g : list Z -> res (list value * list Z)) (bs : list Z) : res (value * list Z) :=
    rbind (g bs) (fun r => Ok (VTup (fst r), snd r)).

  Fixpoint enc_prog (p : prog) (vs : list value) {struct p} : res (list Z) :=
    match p with
    | PEnd => match vs with [] => Ok [] | _ => Err TypeError end
    | PTrail => match vs with [VBytes b] => Ok b | _ => Err TypeError end
    | PFail e => Err e
    | PField t k =>
        match vs with
        | v :: vs' => rbind (enc c t v) (fun a => rbind (enc_prog k vs') (fun b => Ok (a ++ b)))
        | [] => Err TypeError
        end
    | PCase t k =>
        match vs with
        | v :: vs' => rbind (enc c t v) (fun a => rbind (enc_prog (k (ctrl v)) vs') (fun b => Ok (a ++ b)))
        | [] => Err TypeError
        end
    | PRepeat t body k =>
        match vs with
        | VList items :: vs' =>
            rbind (enc c t (VInt (Z.of_nat (length items)))) (fun l =>
            rbind (enc_list (item_enc (enc_prog body)) items) (fun b =>
            rbind (enc_prog k vs') (fun r => Ok (l ++ b ++ r))))
        | _ => Err TypeError
        end
    end.

  Fixpoint dec_prog (p : prog) (bs : list Z) {struct p} : res (list value * list Z) :=
    match p with
    | PEnd => Ok ([], bs)
    | PTrail => Ok ([VBytes bs], [])
    | PFail e => Err e
    | PField t k =>
        rbind (dec c nbt_split t bs) (fun q => rbind (dec_prog k (snd q)) (fun r => Ok (fst q :: fst r, snd r)))
    | PCase t k =>
        rbind (dec c nbt_split t bs) (fun q =>
        rbind (dec_prog (k (ctrl (fst q))) (snd q)) (fun r => Ok (fst q :: fst r, snd r)))
    | PRepeat t body k =>
        rbind (dec c nbt_split t bs) (fun q =>
        match fst q with
        | VInt n =>
            rbind (dec_loop (item_dec (dec_prog body)) (S (length (snd q))) n (snd q)) (fun r =>
            rbind (dec_prog k (snd r)) (fun r2 => Ok (VList (fst r) :: fst r2, snd r2)))
        | _ => Err TypeError
        end)
    end.
End ProgCodec.

(* Packet.read / write_fields over a definition is the straight-line program *)
Fixpoint prog_of_defn (d : defn) : prog :=
  match d with
  | [] => PEnd
  | [(_, TTrailing)] => PTrail
  | (_, t) :: d' => PField t (prog_of_defn d')
  end.
