(* Connection lifecycle: _check_connection, _start_network_thread, NetworkingThread.run (hand-over by
   join, slot cleared in finally), connect / status and disconnect (connection.py).  connect(), status()
   and disconnect() hold the connection's lock throughout, and the thread's slot updates are made under
   it, so each of them is one atomic action here; a schedule is any list of actions. *)
From Coq Require Import List Bool Arith.
From PyCraft Require Model.Conc.
Import ListNotations.

Inductive tstate := TCreated | TInLoop | TLeft | TFinished.
Record nthread := { nt_state : tstate; nt_interrupt : bool; nt_prev : option nat }.
Record conn := { ths : list nthread; cur : option nat; nxt : option nat; sock : bool; tcp_count : nat }.

Inductive action :=
| AConnect (tcp_ok : bool)      (* connect() / status(): the TCP connect succeeds or is refused *)
| ADisconnect                   (* disconnect(), immediate or not *)
| ABegin (t : nat)              (* thread t passes the join on its predecessor and enters the loop *)
| ALeave (t : nat)              (* thread t sees its interrupt flag and leaves the loop *)
| AFault (t : nat)              (* an exception ends thread t's loop: interrupt is set, handlers run next *)
| AFinally (t : nat).           (* the finally clause of run() *)
Inductive result := RNone | ROk | RInvalidState | RRefused.

Definition get (c : conn) (t : nat) : option nthread := nth_error (ths c) t.
Definition interrupted (c : conn) (t : nat) : bool := match get c t with Some th => nt_interrupt th | None => false end.

(* _check_connection: networking_thread is not None and not networking_thread.interrupt or new_networking_thread is not None *)
Definition active (c : conn) : bool :=
  match nxt c with
  | Some _ => true
  | None => match cur c with Some t => negb (interrupted c t) | None => false end
  end.

Notation upd := Conc.upd.
Definition set_thread (c : conn) (t : nat) (th : nthread) : conn :=
  {| ths := upd (ths c) t th; cur := cur c; nxt := nxt c; sock := sock c; tcp_count := tcp_count c |}.
Definition set_interrupt (c : conn) (t : nat) : conn :=
  match get c t with
  | Some th => set_thread c t {| nt_state := nt_state th; nt_interrupt := true; nt_prev := nt_prev th |}
  | None => c
  end.

Definition do_action (c : conn) (a : action) : conn * result :=
  match a with
  | AConnect ok =>
      if active c then (c, RInvalidState)
      else if negb ok then ({| ths := ths c; cur := cur c; nxt := nxt c; sock := false; tcp_count := tcp_count c |}, RRefused)
      else
        let n := length (ths c) in
        match cur c with
        | None => ({| ths := ths c ++ [{| nt_state := TCreated; nt_interrupt := false; nt_prev := None |}];
                      cur := Some n; nxt := None; sock := true; tcp_count := S (tcp_count c) |}, ROk)
        | Some p => ({| ths := ths c ++ [{| nt_state := TCreated; nt_interrupt := false; nt_prev := Some p |}];
                        cur := Some p; nxt := Some n; sock := true; tcp_count := S (tcp_count c) |}, ROk)
        end
  | ADisconnect =>
      let c1 := match nxt c with
                | Some t => set_interrupt c t
                | None => match cur c with Some t => set_interrupt c t | None => c end
                end in
      ({| ths := ths c1; cur := cur c1; nxt := nxt c1; sock := false; tcp_count := tcp_count c1 |}, ROk)
  | ABegin t =>
      match get c t with
      | Some th =>
        match nt_state th with
        | TCreated =>
          match nt_prev th with
          | None => (set_thread c t {| nt_state := TInLoop; nt_interrupt := nt_interrupt th; nt_prev := None |}, RNone)
          | Some p =>
            match get c p with
            | Some pth =>
              match nt_state pth with
              | TFinished =>
                  ({| ths := upd (ths c) t {| nt_state := TInLoop; nt_interrupt := nt_interrupt th; nt_prev := Some p |};
                      cur := Some t; nxt := None; sock := sock c; tcp_count := tcp_count c |}, RNone)
              | _ => (c, RNone)                          (* previous_thread.join() blocks *)
              end
            | None => (c, RNone)
            end
          end
        | _ => (c, RNone)
        end
      | None => (c, RNone)
      end
  | ALeave t =>
      match get c t with
      | Some th => match nt_state th with
                   | TInLoop => if nt_interrupt th then (set_thread c t {| nt_state := TLeft; nt_interrupt := true; nt_prev := nt_prev th |}, RNone) else (c, RNone)
                   | _ => (c, RNone) end
      | None => (c, RNone)
      end
  | AFault t =>
      match get c t with
      | Some th => match nt_state th with
                   | TInLoop => (set_thread c t {| nt_state := TLeft; nt_interrupt := true; nt_prev := nt_prev th |}, RNone)
                   | _ => (c, RNone) end
      | None => (c, RNone)
      end
  | AFinally t =>
      match get c t with
      | Some th => match nt_state th with
                   | TLeft => ({| ths := upd (ths c) t {| nt_state := TFinished; nt_interrupt := nt_interrupt th; nt_prev := nt_prev th |};
                                  cur := None; nxt := nxt c; sock := sock c; tcp_count := tcp_count c |}, RNone)
                   | _ => (c, RNone) end
      | None => (c, RNone)
      end
  end.

Definition init_conn : conn := {| ths := []; cur := None; nxt := None; sock := false; tcp_count := 0 |}.
Definition run_actions (acts : list action) (c : conn) : conn := fold_left (fun c a => fst (do_action c a)) acts c.
(* the results returned to the callers, in order *)
Fixpoint results (acts : list action) (c : conn) : list result :=
  match acts with [] => [] | a :: r => snd (do_action c a) :: results r (fst (do_action c a)) end.
