(* Model of encryption.minecraft_sha1_hash_digest / generate_verification_hash:
   int.from_bytes(digest, 'big', signed=True) then format(n, 'x'). *)
From Coq Require Import ZArith List Bool.
From PyCraft Require Import Base.Res Model.Prim Model.Utf8 Model.Sha1.
Import ListNotations.
Open Scope Z_scope.

Definition from_bytes_signed (bs : list Z) : Z :=
  let u := be_value 0 bs in
  match bs with
  | b :: _ => if 128 <=? b then u - pow256 (length bs) else u
  | [] => 0
  end.

(* character codes: '0'..'9' = 48..57, 'a'..'f' = 97..102, '-' = 45 *)
Definition hexchar (d : Z) : Z := if d <? 10 then 48 + d else 87 + d.
Fixpoint nibbles (bs : list Z) : list Z :=
  match bs with [] => [] | b :: t => (b / 16) :: (b mod 16) :: nibbles t end.
Fixpoint strip0 (ds : list Z) : list Z :=
  match ds with 0 :: t => strip0 t | _ => ds end.

(* format(n, 'x') for |n| < 256^len *)
Definition format_x (len : nat) (n : Z) : list Z :=
  let ds := strip0 (nibbles (be_bytes len (Z.abs n))) in
  (if n <? 0 then [45] else []) ++ (match ds with [] => [48] | _ => map hexchar ds end).

Definition mc_hex (digest : list Z) : list Z := format_x (length digest) (from_bytes_signed digest).

(* generate_verification_hash(server_id, shared_secret, public_key) *)
Definition verification_hash (server_id : list Z) (secret key : list Z) : res (list Z) :=
  match utf8_enc server_id with
  | Ok sid => Ok (mc_hex (sha1 (sid ++ secret ++ key)))
  | Err e => Err e
  | OutOfFuel => OutOfFuel
  end.
