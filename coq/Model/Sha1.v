(* SHA-1 (FIPS 180-4) over byte lists, executable; stands in for hashlib.sha1 (validated by the
   published login-hash vectors inside the kernel and by the correspondence check). *)
From Coq Require Import ZArith List Bool.
From PyCraft Require Import Model.Prim.
Import ListNotations.
Open Scope Z_scope.

Definition W32 : Z := 4294967296.
Definition add32 (a b : Z) : Z := (a + b) mod W32.
Definition rotl32 (n x : Z) : Z := Z.lor (Z.shiftl x n mod W32) (Z.shiftr x (32 - n)).
Definition not32 (x : Z) : Z := W32 - 1 - x.

Definition sha_pad (msg : list Z) : list Z :=
  let l := Z.of_nat (length msg) in
  let k := (55 - l) mod 64 in
  msg ++ [128] ++ repeat 0 (Z.to_nat k) ++ be_bytes 8 (8 * l).

Fixpoint words_of (n : nat) (bs : list Z) : list Z :=
  match n with
  | O => []
  | S n' => match bs with
            | a :: b :: c :: d :: t => (((a * 256 + b) * 256 + c) * 256 + d) :: words_of n' t
            | _ => []
            end
  end.

(* message schedule: w is kept reversed (most recent first) *)
Fixpoint extend (n : nat) (w : list Z) : list Z :=
  match n with
  | O => w
  | S n' =>
    let x := Z.lxor (Z.lxor (nth 2 w 0) (nth 7 w 0)) (Z.lxor (nth 13 w 0) (nth 15 w 0)) in
    extend n' (rotl32 1 x :: w)
  end.

Definition sha_f (t : nat) (b c d : Z) : Z :=
  if Nat.ltb t 20 then Z.lor (Z.land b c) (Z.land (not32 b) d)
  else if Nat.ltb t 40 then Z.lxor (Z.lxor b c) d
  else if Nat.ltb t 60 then Z.lor (Z.lor (Z.land b c) (Z.land b d)) (Z.land c d)
  else Z.lxor (Z.lxor b c) d.
Definition sha_k (t : nat) : Z :=
  if Nat.ltb t 20 then 0x5A827999 else if Nat.ltb t 40 then 0x6ED9EBA1
  else if Nat.ltb t 60 then 0x8F1BBCDC else 0xCA62C1D6.

Fixpoint rounds (t : nat) (ws : list Z) (st : Z * Z * Z * Z * Z) : Z * Z * Z * Z * Z :=
  match ws with
  | [] => st
  | w :: ws' =>
    let '(a, b, c, d, e) := st in
    let tmp := add32 (add32 (add32 (add32 (rotl32 5 a) (sha_f t b c d)) e) (sha_k t)) w in
    rounds (S t) ws' (tmp, a, rotl32 30 b, c, d)
  end.

Definition process_block (h : Z * Z * Z * Z * Z) (block : list Z) : Z * Z * Z * Z * Z :=
  let w := rev (extend 64 (rev (words_of 16 block))) in
  let '(a, b, c, d, e) := rounds 0 w h in
  let '(h0, h1, h2, h3, h4) := h in
  (add32 h0 a, add32 h1 b, add32 h2 c, add32 h3 d, add32 h4 e).

Fixpoint blocks (n : nat) (bs : list Z) (h : Z * Z * Z * Z * Z) : Z * Z * Z * Z * Z :=
  match n with
  | O => h
  | S n' => blocks n' (skipn 64 bs) (process_block h (firstn 64 bs))
  end.

Definition sha1 (msg : list Z) : list Z :=
  let p := sha_pad msg in
  let '(h0, h1, h2, h3, h4) :=
    blocks (Nat.div (length p) 64) p (0x67452301, 0xEFCDAB89, 0x98BADCFE, 0x10325476, 0xC3D2E1F0) in
  be_bytes 4 h0 ++ be_bytes 4 h1 ++ be_bytes 4 h2 ++ be_bytes 4 h3 ++ be_bytes 4 h4.
