(* Connection._handle_exception and NetworkingThread.run (connection.py).  Exceptions are numbers with
   an arbitrary isinstance relation to exception types; a handler returns or raises a new exception,
   and may start a new connection (connect() from inside the handler). *)
From Coq Require Import ZArith List Bool.
Import ListNotations.
Open Scope Z_scope.

Inductive hres := HReturn | HRaise (e : Z).
Record handler := { h_id : Z; h_types : list Z; h_beh : Z -> hres; h_reconnects : bool }.
Inductive final := FNone | FFalse | FFun (f : Z -> hres) (reconnects : bool).
Inductive rhook := RConsumed | RPass | RRaises (e : Z).     (* reactor.handle_exception: True / falsy / raises *)
Inductive call := HCall (hid : Z) (e : Z) (reconnects : bool) | FinalCall (e : Z) (reconnects : bool).
Definition call_reconnects (c : call) : bool := match c with HCall _ _ r => r | FinalCall _ r => r end.

Section Chain.
  Variable isinst : Z -> Z -> bool.

  (* if not exc_types or isinstance(exc, exc_types) *)
  Definition hmatches (h : handler) (e : Z) : bool :=
    match h_types h with [] => true | ts => existsb (isinst e) ts end.

  (* the for ... else loop with its mutable current exception, as iteration over a state
     (current exception, caught (= broke out), log, a handler reconnected) *)
  Record lstate := { ls_exc : Z; ls_caught : bool; ls_log : list call; ls_reconn : bool }.
  Definition loop_step (st : lstate) (h : handler) : lstate :=
    if ls_caught st then st
    else if hmatches h (ls_exc st) then
      match h_beh h (ls_exc st) with
      | HReturn => {| ls_exc := ls_exc st; ls_caught := true; ls_log := ls_log st ++ [HCall (h_id h) (ls_exc st) (h_reconnects h)];
                      ls_reconn := ls_reconn st || h_reconnects h |}
      | HRaise e' => {| ls_exc := e'; ls_caught := false; ls_log := ls_log st ++ [HCall (h_id h) (ls_exc st) (h_reconnects h)];
                        ls_reconn := ls_reconn st || h_reconnects h |}
      end
    else st.
  Definition handler_loop (hs : list handler) (e : Z) : lstate :=
    fold_left loop_step hs {| ls_exc := e; ls_caught := false; ls_log := []; ls_reconn := false |}.

  Record result := { r_log : list call; r_recorded : option Z; r_caught : bool; r_reraised : option Z;
                     r_disconnected : bool; r_consumed : bool }.

  Definition handle_exception (hook : rhook) (hs : list handler) (fin : final) (e : Z) : result :=
    match hook with
    | RConsumed => {| r_log := []; r_recorded := None; r_caught := false; r_reraised := None; r_disconnected := false; r_consumed := true |}
    | _ =>
      let e0 := match hook with RRaises e' => e' | _ => e end in
      let st := handler_loop hs e0 in
      let '(e1, log1, rc) :=
        match fin with
        | FFun f rcn => (match f (ls_exc st) with HReturn => ls_exc st | HRaise e' => e' end,
                         ls_log st ++ [FinalCall (ls_exc st) rcn], ls_reconn st || rcn)
        | _ => (ls_exc st, ls_log st, ls_reconn st)
        end in
      {| r_log := log1; r_recorded := Some e1; r_caught := ls_caught st;
         r_reraised := match fin with FNone => if ls_caught st then None else Some e1 | _ => None end;
         r_disconnected := negb rc; r_consumed := false |}
    end.

  (* NetworkingThread.run: what is true of the thread and the connection after _run raised e *)
  Record after := { a_interrupt : bool; a_slot_cleared : bool; a_result : result }.
  Definition thread_run_raising (hook : rhook) (hs : list handler) (fin : final) (e : Z) : after :=
    {| a_interrupt := true; a_slot_cleared := true; a_result := handle_exception hook hs fin e |}.

  (* register_exception_handler: early = insert at the front *)
  Definition register_handler (hs : list handler) (h : handler) (early : bool) : list handler :=
    if early then h :: hs else hs ++ [h].
End Chain.
