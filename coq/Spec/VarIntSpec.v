(* Independent specification of little-endian base-128 (LEB128) encodings. *)
From Coq Require Import ZArith List.
Import ListNotations.
Open Scope Z_scope.

(* the canonical encoding of a non-negative integer *)
Inductive canonical : Z -> list Z -> Prop :=
| canon_last n : 0 <= n < 128 -> canonical n [n]
| canon_more n bs : 128 <= n -> canonical (n / 128) bs -> canonical n ((n mod 128 + 128) :: bs).

(* the value denoted by a sequence of base-128 digits, least significant first *)
Fixpoint value_of (bs : list Z) : Z :=
  match bs with
  | [] => 0
  | b :: t => b mod 128 + 128 * value_of t
  end.

(* continuation bit *)
Definition cont (b : Z) : bool := negb ((b / 128) mod 2 =? 0).
