(* Python's  try: raise e / except T1 as e: h1 / except T2 as e: h2 ...  where an exception raised
   inside a handler is offered to the FOLLOWING clauses (the semantics register_exception_handler
   documents), written as a direct structural recursion, independently of the loop in the code. *)
From Coq Require Import ZArith List Bool.
From PyCraft Require Import Model.ExcChain.
Import ListNotations.
Open Scope Z_scope.

Section TE.
  Variable isinst : Z -> Z -> bool.
  (* calls made, resulting exception, caught? *)
  Fixpoint try_except (hs : list handler) (e : Z) : list call * Z * bool :=
    match hs with
    | [] => ([], e, false)
    | h :: t =>
      if hmatches isinst h e then
        match h_beh h e with
        | HReturn => ([HCall (h_id h) e (h_reconnects h)], e, true)
        | HRaise e' => let '(l, e'', c) := try_except t e' in (HCall (h_id h) e (h_reconnects h) :: l, e'', c)
        end
      else try_except t e
    end.
End TE.
