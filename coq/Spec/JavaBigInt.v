(* Specification: Java's new BigInteger(bytes).toString(16).
   The result is the unique string s with: parse s = two's-complement value of the bytes;
   digits are lower-case hexadecimal; no leading zero digit (except the single digit "0");
   a minus sign exactly when the value is negative. *)
From Coq Require Import ZArith List Bool.
Import ListNotations.
Open Scope Z_scope.

(* two's-complement big-endian value: sum b_i * 256^(len-1-i), minus 256^len when the top bit is set *)
Fixpoint unsigned_value (bs : list Z) : Z :=
  match bs with [] => 0 | b :: t => b * 256 ^ Z.of_nat (length t) + unsigned_value t end.
Definition twos_value (bs : list Z) : Z :=
  match bs with
  | b :: _ => if 128 <=? b then unsigned_value bs - 256 ^ Z.of_nat (length bs) else unsigned_value bs
  | [] => 0
  end.

Definition digit_val (c : Z) : option Z :=
  if (48 <=? c) && (c <=? 57) then Some (c - 48)
  else if (97 <=? c) && (c <=? 102) then Some (c - 87) else None.    (* lower case only *)

Fixpoint parse_digits (acc : Z) (s : list Z) : option Z :=
  match s with
  | [] => Some acc
  | c :: t => match digit_val c with Some d => parse_digits (acc * 16 + d) t | None => None end
  end.

Definition is_neg (s : list Z) : bool := match s with c :: _ => c =? 45 | [] => false end.    (* '-' *)
Definition body (s : list Z) : list Z := if is_neg s then tl s else s.

Definition parse_signed_hex (s : list Z) : option Z :=
  match body s with
  | [] => None
  | _ => if is_neg s then option_map Z.opp (parse_digits 0 (body s)) else parse_digits 0 (body s)
  end.

(* canonical form: at least one digit, no leading zero digit unless the number is the single digit 0,
   and no "-0" *)
Definition canonical_hex (s : list Z) : Prop :=
  body s <> [] /\ (hd 0 (body s) <> 48 \/ body s = [48]) /\ (is_neg s = true -> body s <> [48]).
