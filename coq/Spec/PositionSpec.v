(* Arithmetic specification of the packed positions (independent of the bit twiddling). *)
From Coq Require Import ZArith.
Open Scope Z_scope.

(* 1.14+ : x (26) | z (26) | y (12);  up to 1.13.2 : x (26) | y (12) | z (26) *)
Definition pos_spec (later : bool) (x y z : Z) : Z :=
  if later then (x mod 2^26) * 2^38 + (z mod 2^26) * 2^12 + y mod 2^12
  else (x mod 2^26) * 2^38 + (y mod 2^12) * 2^26 + z mod 2^26.

Definition csp_spec (x y z : Z) : Z := (x mod 2^22) * 2^42 + (z mod 2^22) * 2^20 + y mod 2^20.
Definition rec_spec (x y z sid : Z) : Z := sid * 4096 + (x mod 16) * 256 + (z mod 16) * 16 + y mod 16.
