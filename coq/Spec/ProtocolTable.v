(* C07's reference: packet ids and byte layouts of the packets a client needs in order to connect,
   stay connected and chat, per release protocol number, typed in from the published protocol
   documentation (wiki.vg "Protocol" and its per-version history pages).  It shares nothing with
   pyCraft: it is indexed by the numeric protocol number of a release, not by pyCraft's version
   index, and mentions no pyCraft definition.  Field kinds reuse the [ftype] vocabulary. *)
From Coq Require Import ZArith List Bool.
From PyCraft Require Import Model.Tables.
Import ListNotations.
Open Scope Z_scope.

(* the releases of the README's "Supported Minecraft versions": 1.8 .. 1.18.1 *)
Definition spec_releases : list Z :=
  [47; 107; 108; 109; 110; 210; 315; 316; 335; 338; 340; 393; 401; 404; 477; 480; 485; 490; 498;
   573; 575; 578; 735; 736; 751; 753; 754; 755; 756; 757].

(* core packets: (number, table) with tables numbered 0 cb.handshake 1 cb.status 2 cb.login 3 cb.play
   4 sb.handshake 5 sb.status 6 sb.login 7 sb.play *)
Definition P_handshake := 0.      Definition P_status_request := 1.  Definition P_status_response := 2.
Definition P_ping := 3.           Definition P_pong := 4.            Definition P_login_start := 5.
Definition P_login_success := 6.  Definition P_login_disconnect := 7. Definition P_set_compression := 8.
Definition P_encryption_request := 9. Definition P_encryption_response := 10.
Definition P_keep_alive_cb := 11. Definition P_keep_alive_sb := 12.  Definition P_join_game := 13.
Definition P_chat_cb := 14.       Definition P_chat_sb := 15.        Definition P_position_look_cb := 16.
Definition P_position_look_sb := 17. Definition P_teleport_confirm := 18. Definition P_disconnect := 19.
Definition core_packets : list Z := [0;1;2;3;4;5;6;7;8;9;10;11;12;13;14;15;16;17;18;19].

Definition spec_table (p : Z) : Z :=
  match p with
  | 0 => 4 | 1 => 5 | 2 => 1 | 3 => 5 | 4 => 1 | 5 => 6 | 6 => 2 | 7 => 2 | 8 => 2 | 9 => 2 | 10 => 6
  | 11 => 3 | 12 => 7 | 13 => 3 | 14 => 3 | 15 => 7 | 16 => 3 | 17 => 7 | 18 => 7 | _ => 3
  end.

(* does the packet exist in that release? (teleport confirm was introduced with 1.9) *)
Definition spec_exists (p v : Z) : bool := if p =? 18 then 107 <=? v else true.

Definition spec_id (p v : Z) : Z :=
  match p with
  | 0 => 0 | 1 => 0 | 2 => 0 | 3 => 1 | 4 => 1          (* handshake, status *)
  | 5 => 0 | 6 => 2 | 7 => 0 | 8 => 3 | 9 => 1 | 10 => 1 (* login *)
  | 11 => (* keep alive, clientbound *)
      if v <? 107 then 0 else if v <? 393 then 31 else if v <? 477 then 33 else if v <? 573 then 32
      else if v <? 735 then 33 else if v <? 751 then 32 else if v <? 755 then 31 else 33
  | 12 => (* keep alive, serverbound *)
      if v <? 107 then 0 else if v <? 335 then 11 else if v <? 338 then 12 else if v <? 393 then 11
      else if v <? 477 then 14 else if v <? 735 then 15 else if v <? 755 then 16 else 15
  | 13 => (* join game *)
      if v <? 107 then 1 else if v <? 393 then 35 else if v <? 573 then 37 else if v <? 735 then 38
      else if v <? 751 then 37 else if v <? 755 then 36 else 38
  | 14 => (* chat message, clientbound *)
      if v <? 107 then 2 else if v <? 393 then 15 else if v <? 573 then 14 else if v <? 735 then 15
      else if v <? 755 then 14 else 15
  | 15 => (* chat message, serverbound *)
      if v <? 107 then 1 else if v <? 335 then 2 else if v <? 338 then 3 else if v <? 477 then 2 else 3
  | 16 => (* player position and look, clientbound *)
      if v <? 107 then 8 else if v <? 338 then 46 else if v <? 393 then 47 else if v <? 477 then 50
      else if v <? 573 then 53 else if v <? 735 then 54 else if v <? 751 then 53 else if v <? 755 then 52 else 56
  | 17 => (* player position and rotation, serverbound *)
      if v <? 107 then 6 else if v <? 335 then 13 else if v <? 338 then 15 else if v <? 393 then 14
      else if v <? 477 then 17 else if v <? 735 then 18 else if v <? 755 then 19 else 18
  | 18 => 0
  | _ => (* disconnect (play) *)
      if v <? 107 then 64 else if v <? 393 then 26 else if v <? 477 then 27 else if v <? 573 then 26
      else if v <? 735 then 27 else if v <? 751 then 26 else if v <? 755 then 25 else 26
  end.

Definition spec_layout (p v : Z) : list ftype :=
  match p with
  | 0 => [TVarInt; TString; TUShort; TVarInt]
  | 1 => []
  | 2 => [TString]
  | 3 => [TLong]
  | 4 => [TLong]
  | 5 => [TString]
  | 6 => if v <? 735 then [TString; TString] else [TUUID; TString]
  | 7 => [TString]
  | 8 => [TVarInt]
  | 9 => [TString; TVarBytes; TVarBytes]
  | 10 => [TVarBytes; TVarBytes]
  | 11 | 12 => if v <? 340 then [TVarInt] else [TLong]
  | 13 =>
      if v <? 108 then [TInt; TUByte; TByte; TUByte; TUByte; TString; TBool]
      else if v <? 477 then [TInt; TUByte; TInt; TUByte; TUByte; TString; TBool]
      else if v <? 573 then [TInt; TUByte; TInt; TUByte; TString; TVarInt; TBool]
      else if v <? 735 then [TInt; TUByte; TInt; TLong; TUByte; TString; TVarInt; TBool; TBool]
      else if v <? 751 then [TInt; TUByte; TByte; TArray TVarInt TString; TNBT; TString; TString; TLong; TUByte; TVarInt;
                             TBool; TBool; TBool; TBool]
      else if v <? 757 then [TInt; TBool; TUByte; TByte; TArray TVarInt TString; TNBT; TNBT; TString; TLong; TVarInt; TVarInt;
                             TBool; TBool; TBool; TBool]
      else [TInt; TBool; TUByte; TByte; TArray TVarInt TString; TNBT; TNBT; TString; TLong; TVarInt; TVarInt; TVarInt;
            TBool; TBool; TBool; TBool]
  | 14 => if v <? 735 then [TString; TByte] else [TString; TByte; TUUID]
  | 15 => [TString]
  | 16 => if v <? 107 then [TDouble; TDouble; TDouble; TFloat; TFloat; TByte]
          else if v <? 755 then [TDouble; TDouble; TDouble; TFloat; TFloat; TByte; TVarInt]
          else [TDouble; TDouble; TDouble; TFloat; TFloat; TByte; TVarInt; TBool]
  | 17 => [TDouble; TDouble; TDouble; TFloat; TFloat; TBool]
  | 18 => [TVarInt]
  | _ => [TString]
  end.

(* two field kinds put the same bytes on the wire for the same 8-bit pattern *)
Fixpoint ft_eqb (a b : ftype) : bool :=
  match a, b with
  | TBool, TBool | TUByte, TUByte | TByte, TByte | TShort, TShort | TUShort, TUShort | TInt, TInt | TLong, TLong
  | TULong, TULong | TFloat, TFloat | TDouble, TDouble | TVarInt, TVarInt | TVarLong, TVarLong | TString, TString
  | TUUID, TUUID | TAngle, TAngle | TShortBytes, TShortBytes | TVarBytes, TVarBytes | TTrailing, TTrailing
  | TPosition, TPosition | TNBT, TNBT => true
  | TFixed x n, TFixed y m => ft_eqb x y && (n =? m)
  | TArray l e, TArray l' e' => ft_eqb l l' && ft_eqb e e'
  | TCustom x, TCustom y => x =? y
  | _, _ => false
  end.
Definition wire_compat (a b : ftype) : bool :=
  ft_eqb a b || match a, b with TByte, TUByte | TUByte, TByte => true | _, _ => false end.
Fixpoint layout_compat (d : list ftype) (s : list ftype) : bool :=
  match d, s with
  | [], [] => true
  | a :: d', b :: s' => wire_compat a b && layout_compat d' s'
  | _, _ => false
  end.
