(* Independent specification: order-preserving duplicate-free projections. *)
From Coq Require Import ZArith List Bool.
Import ListNotations.
Open Scope Z_scope.

(* keep the first occurrence of every element, in order *)
(* first_occ (x :: t) = x :: first_occ (t without x); recursion on an explicit size bound *)
Fixpoint first_occ_f (n : nat) (l : list Z) : list Z :=
  match n with
  | O => []
  | S n' => match l with
            | [] => []
            | x :: t => x :: first_occ_f n' (filter (fun y => negb (y =? x)) t)
            end
  end.
Definition first_occ (l : list Z) : list Z := first_occ_f (length l) l.

(* association list: first position of each key, value of the last assignment *)
Fixpoint last_val (k : Z) (v : Z) (l : list (Z * Z)) : Z :=
  match l with
  | [] => v
  | (k', v') :: t => if k' =? k then last_val k v' t else last_val k v t
  end.

(* position of the first occurrence *)
Fixpoint index_of (x : Z) (l : list Z) : option Z :=
  match l with
  | [] => None
  | y :: t => if y =? x then Some 0 else option_map Z.succ (index_of x t)
  end.
