(* Conversion of Python's bit twiddling on unbounded integers into + * / mod. *)
From Coq Require Import ZArith Lia Bool.
Open Scope Z_scope.

Lemma land_ones_mod a n : 0 <= n -> Z.land a (Z.ones n) = a mod 2 ^ n.
Proof. intro H. apply Z.land_ones; exact H. Qed.

Lemma land_127 a : Z.land a 127 = a mod 128.
Proof. change 127 with (Z.ones 7). rewrite Z.land_ones by lia. reflexivity. Qed.
Lemma land_255 a : Z.land a 255 = a mod 256.
Proof. change 255 with (Z.ones 8). rewrite Z.land_ones by lia. reflexivity. Qed.
Lemma land_15 a : Z.land a 15 = a mod 16.
Proof. change 15 with (Z.ones 4). rewrite Z.land_ones by lia. reflexivity. Qed.

Lemma shiftr_div a n : 0 <= n -> Z.shiftr a n = a / 2 ^ n.
Proof. intro H. apply Z.shiftr_div_pow2; exact H. Qed.
Lemma shiftl_mul a n : 0 <= n -> Z.shiftl a n = a * 2 ^ n.
Proof. intro H. apply Z.shiftl_mul_pow2; exact H. Qed.

(* bit k of a, as a test *)
Lemma land_pow2_zero a k : 0 <= k -> (Z.land a (2 ^ k) =? 0) = negb (Z.testbit a k).
Proof.
  intro Hk. destruct (Z.testbit a k) eqn:Hb; cbn [negb].
  - apply Z.eqb_neq. intro H.
    assert (Z.testbit (Z.land a (2 ^ k)) k = false) as Hf by (rewrite H; apply Z.bits_0).
    rewrite Z.land_spec, Hb, Z.pow2_bits_true in Hf by lia. discriminate.
  - apply Z.eqb_eq. apply Z.bits_inj'. intros n Hn.
    rewrite Z.land_spec, Z.bits_0.
    destruct (Z.eq_dec n k) as [->|Hne].
    + rewrite Hb. reflexivity.
    + rewrite Z.pow2_bits_false by lia. apply andb_false_r.
Qed.

Lemma testbit_div_mod a k : 0 <= k -> Z.testbit a k = negb ((a / 2 ^ k) mod 2 =? 0).
Proof.
  intro Hk. pose proof (Z.testbit_spec' a k Hk) as H.
  destruct (Z.testbit a k); cbn [Z.b2z] in H; rewrite <- H; reflexivity.
Qed.

Lemma land_128_zero a : (Z.land a 128 =? 0) = ((a / 128) mod 2 =? 0).
Proof.
  change 128 with (2 ^ 7) at 1. rewrite land_pow2_zero by lia.
  rewrite testbit_div_mod by lia. rewrite negb_involutive. reflexivity.
Qed.

(* disjoint or is addition *)
Lemma lor_disjoint_add a b k : 0 <= k -> 0 <= a < 2 ^ k -> Z.lor a (Z.shiftl b k) = a + b * 2 ^ k.
Proof.
  intros Hk Ha.
  assert (Z.land a (Z.shiftl b k) = 0) as Hdisj.
  { apply Z.bits_inj'. intros n Hn. rewrite Z.land_spec, Z.bits_0.
    destruct (Z_lt_dec n k) as [Hlt|Hge].
    - rewrite Z.shiftl_spec_low by lia. apply andb_false_r.
    - destruct (Z.eq_dec a 0) as [->|Hnz]. { rewrite Z.bits_0. reflexivity. }
      rewrite (Z.bits_above_log2 a n); [reflexivity | lia |].
      apply Z.log2_lt_pow2; [lia|].
      apply Z.lt_le_trans with (2 ^ k); [lia|]. apply Z.pow_le_mono_r; lia. }
  rewrite <- Z.shiftl_mul_pow2 by lia.
  rewrite <- Z.lxor_lor by exact Hdisj.
  symmetry. apply Z.add_nocarry_lxor. exact Hdisj.
Qed.

Lemma lor_small_128 a : 0 <= a < 128 -> Z.lor a 128 = a + 128.
Proof.
  intro Ha. change 128 with (Z.shiftl 1 7) at 1.
  rewrite lor_disjoint_add by lia. lia.
Qed.

Lemma lor_0_r' a : Z.lor a 0 = a. Proof. apply Z.lor_0_r. Qed.
