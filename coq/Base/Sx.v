(* Generic marshalling type between the OCaml driver and the extracted model.
   The driver only parses and prints [sx]; all conversion to model types is Gallina. *)
From Coq Require Import ZArith List.
From PyCraft Require Import Base.Res.
Import ListNotations.

Inductive sx := I (z : Z) | L (l : list sx).

Definition sx_z (s : sx) : Z := match s with I z => z | L _ => 0%Z end.
Definition sx_list (s : sx) : list sx := match s with I _ => [] | L l => l end.
Definition sx_zs (s : sx) : list Z := map sx_z (sx_list s).
Definition sx_nth (s : sx) (n : nat) : sx := nth n (sx_list s) (L []).
Definition sx_bool (s : sx) : bool := negb (Z.eqb (sx_z s) 0).
Definition of_zs (l : list Z) : sx := L (map I l).
Definition of_bool (b : bool) : sx := I (if b then 1 else 0)%Z.
Definition of_nat (n : nat) : sx := I (Z.of_nat n).

(* results are printed as (0 value) | (1 exn_code) | (2) *)
Definition of_res {A} (f : A -> sx) (r : res A) : sx :=
  match r with
  | Ok a => L [I 0%Z; f a]
  | Err e => L [I 1%Z; I (exn_code e)]
  | OutOfFuel => L [I 2%Z]
  end.
Definition of_opt {A} (f : A -> sx) (o : option A) : sx :=
  match o with Some a => L [f a] | None => L [] end.
