(* Results of model functions: a value, a Python exception kind, or fuel exhaustion
   (the observable stand-in for "does not terminate"). *)
From Coq Require Import ZArith List.
Import ListNotations.

Inductive exn :=
| EOFError | ValueError | StructError | TypeError | AssertionError
| UnicodeError | KeyError | IOError | InvalidState | VersionMismatch | LoginDisconnect
| OtherExn (tag : Z).

Inductive res (A : Type) :=
| Ok (a : A)
| Err (e : exn)
| OutOfFuel.
Arguments Ok {A} a.
Arguments Err {A} e.
Arguments OutOfFuel {A}.

Definition bind {A B} (r : res A) (f : A -> res B) : res B :=
  match r with Ok a => f a | Err e => Err e | OutOfFuel => OutOfFuel end.
Notation "'do' x <- r ; k" := (bind r (fun x => k)) (at level 200, x pattern, r at level 100, k at level 200).

Definition exn_code (e : exn) : Z :=
  match e with
  | EOFError => 1 | ValueError => 2 | StructError => 3 | TypeError => 4 | AssertionError => 5
  | UnicodeError => 6 | KeyError => 7 | IOError => 8 | InvalidState => 9 | VersionMismatch => 10
  | LoginDisconnect => 11 | OtherExn t => 100 + t
  end%Z.

Definition byte := Z.
Definition is_byte (b : Z) : bool := ((0 <=? b) && (b <? 256))%Z%bool.
Definition wf_bytes (bs : list Z) : bool := forallb is_byte bs.
