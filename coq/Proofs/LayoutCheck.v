(* Boolean sweep over the per-version Position layout (reified by probing the encoder) and its meaning. *)
From Coq Require Import ZArith List Bool Lia.
Import ListNotations.
Open Scope Z_scope.

Fixpoint monotone (l : list Z) : bool :=
  match l with
  | a :: ((b :: _) as t) => (a <=? b) && monotone t
  | _ => true
  end.

Fixpoint check_from (i : Z) (i_old i_new : Z) (l : list Z) : bool :=
  match l with
  | [] => true
  | v :: t => ((v =? 0) || (v =? 1)) && (if i <=? i_old then v =? 0 else true) && (if i_new <=? i then v =? 1 else true)
              && check_from (i + 1) i_old i_new t
  end.

Definition layout_ok (lay : list Z) (i_old i_new : Z) : bool := monotone lay && check_from 0 i_old i_new lay.

Lemma check_from_spec l : forall i i_old i_new, check_from i i_old i_new l = true ->
  forall n v, nth_error l n = Some v ->
    (v = 0 \/ v = 1) /\ (i + Z.of_nat n <= i_old -> v = 0) /\ (i_new <= i + Z.of_nat n -> v = 1).
Proof.
  induction l as [|a t IH]; intros i i_old i_new H n v Hn; [destruct n; discriminate|].
  cbn [check_from] in H. apply andb_true_iff in H. destruct H as [H Ht].
  apply andb_true_iff in H. destruct H as [H Hnew]. apply andb_true_iff in H. destruct H as [H01 Hold].
  destruct n as [|n]; cbn [nth_error] in Hn.
  - inversion Hn; subst. rewrite Z.add_0_r. repeat split.
    + apply orb_true_iff in H01. destruct H01 as [E|E]; apply Z.eqb_eq in E; auto.
    + intro Hi. apply Z.leb_le in Hi. rewrite Hi in Hold. apply Z.eqb_eq. exact Hold.
    + intro Hi. apply Z.leb_le in Hi. rewrite Hi in Hnew. apply Z.eqb_eq. exact Hnew.
  - specialize (IH (i + 1) i_old i_new Ht n v Hn). rewrite Nat2Z.inj_succ.
    replace (i + Z.succ (Z.of_nat n)) with (i + 1 + Z.of_nat n) by lia. exact IH.
Qed.

(* non-decreasing 0/1 sequence: once the new layout is used it stays in use (a single switch-over) *)
Lemma monotone_spec l : monotone l = true -> forall n m a b, (n <= m)%nat -> nth_error l n = Some a -> nth_error l m = Some b -> a <= b.
Proof.
  induction l as [|x t IH]; intros H n m a b Hnm Ha Hb; [destruct n; discriminate|].
  assert (monotone t = true) as Ht.
  { destruct t as [|y t']; [reflexivity|]. cbn [monotone] in H. apply andb_true_iff in H. tauto. }
  assert (forall k c, nth_error t k = Some c -> x <= c) as Hhead.
  { clear Ha Hb Hnm n m a b. destruct t as [|y t']; [intros k c Hk; destruct k; discriminate|].
    cbn [monotone] in H. apply andb_true_iff in H. destruct H as [Hxy _]. apply Z.leb_le in Hxy.
    intros k c Hk. destruct k as [|k]; cbn [nth_error] in Hk.
    - inversion Hk; subst. exact Hxy.
    - pose proof (IH Ht 0%nat (S k) y c ltac:(lia) eq_refl Hk). lia. }
  destruct n as [|n], m as [|m]; cbn [nth_error] in Ha, Hb.
  - inversion Ha; inversion Hb; subst. lia.
  - inversion Ha; subst. eapply Hhead; eassumption.
  - lia.
  - eapply (IH Ht n m); try eassumption. lia.
Qed.

Theorem layout_ok_spec lay i_old i_new : layout_ok lay i_old i_new = true ->
  (forall n v, nth_error lay n = Some v ->
     (v = 0 \/ v = 1) /\ (Z.of_nat n <= i_old -> v = 0) /\ (i_new <= Z.of_nat n -> v = 1))
  /\ (forall n m a b, (n <= m)%nat -> nth_error lay n = Some a -> nth_error lay m = Some b -> a <= b).
Proof.
  unfold layout_ok. rewrite andb_true_iff. intros [Hm Hc]. split.
  - intros n v Hn. exact (check_from_spec lay 0 i_old i_new Hc n v Hn).
  - exact (monotone_spec lay Hm).
Qed.
