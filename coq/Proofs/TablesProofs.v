From Coq Require Import ZArith List Bool Lia Permutation.
From PyCraft Require Import Model.Tables.
Import ListNotations.
Open Scope Z_scope.

Lemma nodupb_NoDup l : nodupb l = true <-> NoDup l.
Proof.
  induction l as [|x t IH]; cbn [nodupb].
  - split; [constructor|reflexivity].
  - rewrite andb_true_iff, negb_true_iff, IH. split.
    + intros [Hx Ht]. constructor; [|assumption]. intro Hin.
      assert (existsb (Z.eqb x) t = true) as E; [|congruence].
      apply existsb_exists. exists x. split; [assumption|apply Z.eqb_refl].
    + intro H. inversion H as [|? ? Hx Ht]; subst. split; [|assumption].
      destruct (existsb (Z.eqb x) t) eqn:E; [|reflexivity]. exfalso. apply Hx.
      apply existsb_exists in E. destruct E as (y & Hy & He). apply Z.eqb_eq in He. subst. assumption.
Qed.

Lemma lookup_last_notin id order k : ~ In k (map id order) -> lookup_last (build_table id order) k = None.
Proof.
  induction order as [|c t IH]; cbn [build_table map lookup_last]; intro H; [reflexivity|].
  fold (build_table id t). rewrite IH by (intro; apply H; right; assumption).
  destruct (id c =? k) eqn:E; [|reflexivity]. apply Z.eqb_eq in E. exfalso. apply H. left. assumption.
Qed.

Lemma lookup_last_in id order c :
  NoDup (map id order) -> In c order -> lookup_last (build_table id order) (id c) = Some c.
Proof.
  induction order as [|c0 t IH]; cbn [build_table map lookup_last In]; intros Hnd Hin; [contradiction|].
  fold (build_table id t). inversion Hnd as [|? ? Hx Ht]; subst.
  destruct Hin as [->|Hin].
  - rewrite lookup_last_notin by assumption. rewrite Z.eqb_refl. reflexivity.
  - rewrite IH by assumption. reflexivity.
Qed.

(* the decoder chosen for an id does not depend on the iteration order of the member set *)
Theorem decoder_choice id (ms order : list Z) :
  NoDup (map id ms) -> Permutation ms order ->
  (forall c, In c ms -> lookup_last (build_table id order) (id c) = Some c)
  /\ (forall k, ~ In k (map id ms) -> lookup_last (build_table id order) k = None).
Proof.
  intros Hnd Hp. assert (NoDup (map id order)) as Hnd'.
  { eapply Permutation_NoDup; [apply Permutation_map; exact Hp|exact Hnd]. }
  split.
  - intros c Hc. apply lookup_last_in; [assumption|]. eapply Permutation_in; eassumption.
  - intros k Hk. apply lookup_last_notin. intro H. apply Hk.
    eapply Permutation_in; [apply Permutation_map; apply Permutation_sym; exact Hp|exact H].
Qed.

(* lifting the boolean sweep *)
Lemma all_tables_ok_spec members id_of skips tbls vis :
  all_tables_ok members id_of skips tbls vis = true ->
  forall vi tbl, In vi vis -> In tbl tbls ->
    table_ok members id_of (map (fun s => snd s) (filter (fun s => (fst (fst s) =? vi) && (snd (fst s) =? tbl)) skips)) tbl vi = true.
Proof.
  unfold all_tables_ok. intros H vi tbl Hvi Htbl.
  rewrite forallb_forall in H. specialize (H vi Hvi). rewrite forallb_forall in H. exact (H tbl Htbl).
Qed.

Lemma somes_all_ok ids : forallb id_ok ids = true -> map Some (somes ids) = ids.
Proof.
  induction ids as [|[n|] t IH]; cbn [forallb id_ok somes map]; intro H; [reflexivity| |discriminate].
  apply andb_true_iff in H. destruct H as [_ H]. rewrite IH by assumption. reflexivity.
Qed.

Lemma filter_true {A} (l : list A) : filter (fun _ => true) l = l.
Proof. induction l as [|a l IH]; cbn [filter]; [reflexivity|]. rewrite IH. reflexivity. Qed.

(* what table_ok means: every member (outside the skip list) has a non-negative id and ids are pairwise distinct *)
Lemma table_ok_spec members id_of tbl vi :
  table_ok members id_of [] tbl vi = true ->
  (forall c, In c (members tbl vi) -> exists n, id_of c vi = Some n /\ 0 <= n)
  /\ NoDup (map (fun c => id_of c vi) (members tbl vi)).
Proof.
  unfold table_ok. cbn [existsb negb]. rewrite andb_true_iff. intros [Hok Hnd].
  rewrite filter_true in *. split.
  - intros c Hc. rewrite forallb_forall in Hok. specialize (Hok (id_of c vi) (in_map (fun c => id_of c vi) _ _ Hc)).
    destruct (id_of c vi) as [n|]; [|discriminate]. exists n. split; [reflexivity|]. apply Z.leb_le. exact Hok.
  - apply nodupb_NoDup in Hnd. rewrite <- (somes_all_ok _ Hok).
    apply FinFun.Injective_map_NoDup; [|assumption]. intros a b Hab. inversion Hab. reflexivity.
Qed.
