From Coq Require Import ZArith List Bool Lia.
From PyCraft Require Import Model.Negotiate.
Import ListNotations.
Open Scope Z_scope.

Section NP.
  Variable e : env.

  Lemma latest_single p : latest e [p] = Some p.  Proof. reflexivity. Qed.
  Lemma single_one p : single [p] = true.  Proof. reflexivity. Qed.

  Lemma latest_in : forall l x, latest e l = Some x -> In x l.
  Proof.
    induction l as [|y t IH]; intros x H; [discriminate|]. cbn [latest] in H. destruct (latest e t) as [z|] eqn:E.
    - destruct (e_index e y <? e_index e z); inversion H; subst; [right; apply IH; reflexivity|left; reflexivity].
    - inversion H. left. reflexivity.
  Qed.
  Lemma latest_max : forall l x, latest e l = Some x -> forall y, In y l -> e_index e y <= e_index e x.
  Proof.
    induction l as [|a t IH]; intros x H y Hy; [contradiction|]. cbn [latest] in H. destruct (latest e t) as [z|] eqn:E.
    - destruct (e_index e a <? e_index e z) eqn:Elt; inversion H; subst.
      + apply Z.ltb_lt in Elt. destruct Hy as [->|Hy]; [lia|exact (IH x eq_refl y Hy)].
      + apply Z.ltb_ge in Elt. destruct Hy as [->|Hy]; [lia|]. pose proof (IH z eq_refl y Hy). lia.
    - inversion H; subst. destruct Hy as [->|Hy]; [lia|]. destruct t; [contradiction|]. cbn in E. destruct (latest e t); [destruct (_ <? _)|]; discriminate.
  Qed.
  Lemma latest_some l : l <> [] -> exists x, latest e l = Some x.
  Proof. destruct l as [|a t]; [congruence|]. intros _. cbn. destruct (latest e t); [destruct (_ <? _)|]; eexists; reflexivity. Qed.

  (* single allowed version: exactly one connection, a login handshake with that version, no status query *)
  Theorem single_version_no_status fuel allowed default beh lt :
    single allowed = true -> latest e allowed = Some lt ->
    connect fuel e allowed default beh = ([{| t_pv := lt; t_next := 2; t_follow := FLoginStart |}], Login lt).
  Proof. intros Hs Hl. destruct fuel; cbn [connect]; rewrite Hl, Hs; reflexivity. Qed.

  Section Multi.
    Variables (allowed : list Z) (default lt : Z) (fuel : nat).
    Hypothesis Hmulti : single allowed = false.
    Hypothesis Hlt : latest e allowed = Some lt.
    Let st := {| t_pv := lt; t_next := 1; t_follow := FRequest |}.
    Let login p := {| t_pv := p; t_next := 2; t_follow := FLoginStart |}.

    (* the server's version is allowed: second connection logs in with exactly that version *)
    Theorem proto_allowed n : memZ n allowed = true ->
      connect (S fuel) e allowed default (Proto n) = ([st; login n], Login n).
    Proof.
      intro Hn. cbn [connect]. rewrite Hlt, Hmulti, Hn. rewrite (single_version_no_status fuel [n] default (Proto n) n eq_refl eq_refl). reflexivity.
    Qed.
    (* not allowed: version mismatch naming the server's version, flagged supported iff it is supported; no login *)
    Theorem proto_not_allowed n : memZ n allowed = false ->
      connect (S fuel) e allowed default (Proto n) = ([st], Mismatch n (memZ n (e_supported e))).
    Proof. intro Hn. cbn [connect]. rewrite Hlt, Hmulti, Hn. reflexivity. Qed.
    (* no version in the reply, or the server closes: fall back to the default version *)
    Theorem fallback beh : beh = NoVersion \/ beh = NoProtocolKey \/ beh = Closed ->
      connect (S fuel) e allowed default beh = ([st; login default], Login default).
    Proof.
      intros [->|[->| ->]]; cbn [connect]; rewrite Hlt, Hmulti;
        rewrite (single_version_no_status fuel [default] default _ default eq_refl eq_refl); reflexivity.
    Qed.
    Theorem empty_object_invalid : connect (S fuel) e allowed default EmptyObject = ([st], InvalidStatus).
    Proof. cbn [connect]. rewrite Hlt, Hmulti. reflexivity. Qed.
    (* the default is used in no other case *)
    Theorem default_only_on_fallback beh :
      forall cs pv, connect (S fuel) e allowed default beh = (cs, Login pv) ->
      (exists n, beh = Proto n /\ pv = n /\ memZ n allowed = true) \/ ((beh = NoVersion \/ beh = NoProtocolKey \/ beh = Closed) /\ pv = default).
    Proof.
      intros cs pv H. destruct beh as [ | | | |n].
      - rewrite fallback in H by tauto. inversion H. subst. right. split; [tauto|reflexivity].
      - rewrite empty_object_invalid in H. discriminate.
      - rewrite fallback in H by tauto. inversion H. subst. right. split; [tauto|reflexivity].
      - rewrite fallback in H by tauto. inversion H. subst. right. split; [tauto|reflexivity].
      - destruct (memZ n allowed) eqn:En.
        + rewrite proto_allowed in H by exact En. inversion H. subst. left. exists pv. repeat split; exact En.
        + rewrite proto_not_allowed in H by exact En. discriminate.
    Qed.
  End Multi.

  (* every handshake carries next_state 2 exactly on login connections, which are followed by a login
     start; status connections carry next_state 1 and a request *)
  Theorem handshake_next_state : forall fuel allowed default beh cs o, connect fuel e allowed default beh = (cs, o) ->
    Forall (fun c => (t_next c = 2 /\ t_follow c = FLoginStart) \/ (t_next c = 1 /\ t_follow c = FRequest)) cs.
  Proof.
    assert (forall c, (t_next c = 2 /\ t_follow c = FLoginStart) \/ (t_next c = 1 /\ t_follow c = FRequest) ->
                      forall cs, Forall (fun c => (t_next c = 2 /\ t_follow c = FLoginStart) \/ (t_next c = 1 /\ t_follow c = FRequest)) cs ->
                      Forall (fun c => (t_next c = 2 /\ t_follow c = FLoginStart) \/ (t_next c = 1 /\ t_follow c = FRequest)) (c :: cs)) as Hcons
      by (intros; constructor; assumption).
    induction fuel as [|f IH]; intros allowed default beh cs o H; cbn [connect] in H; destruct (latest e allowed) as [lt|].
    - destruct (single allowed); inversion H; subst.
      + apply Hcons; [left; split; reflexivity|constructor].
      + apply Hcons; [right; split; reflexivity|constructor].
    - inversion H; subst. constructor.
    - destruct (single allowed).
      + inversion H; subst. apply Hcons; [left; split; reflexivity|constructor].
      + destruct beh as [ | | | |n].
        * destruct (connect f e [default] default Closed) as [cs' o'] eqn:E. inversion H; subst. apply Hcons; [right; split; reflexivity|exact (IH _ _ _ _ _ E)].
        * inversion H; subst. apply Hcons; [right; split; reflexivity|constructor].
        * destruct (connect f e [default] default NoVersion) as [cs' o'] eqn:E. inversion H; subst. apply Hcons; [right; split; reflexivity|exact (IH _ _ _ _ _ E)].
        * destruct (connect f e [default] default NoProtocolKey) as [cs' o'] eqn:E. inversion H; subst. apply Hcons; [right; split; reflexivity|exact (IH _ _ _ _ _ E)].
        * destruct (memZ n allowed).
          -- destruct (connect f e [n] default (Proto n)) as [cs' o'] eqn:E. inversion H; subst. apply Hcons; [right; split; reflexivity|exact (IH _ _ _ _ _ E)].
          -- inversion H; subst. apply Hcons; [right; split; reflexivity|constructor].
    - inversion H; subst. constructor.
  Qed.

  (* construction refuses anything that does not resolve to a supported protocol *)
  Theorem construct_refuses allowed initial vs v : allowed = Some vs -> In v vs -> proto_version e v = None -> construct e allowed initial = None.
  Proof.
    intros -> Hin Hv. unfold construct. assert (map_opt (proto_version e) vs = None) as ->; [|reflexivity].
    induction vs as [|a t IH]; [contradiction|]. cbn [map_opt]. destruct Hin as [->|Hin]; [rewrite Hv; reflexivity|].
    rewrite (IH Hin). destruct (proto_version e a); reflexivity.
  Qed.
  Theorem construct_refuses_initial allowed v : proto_version e v = None -> construct e allowed (Some v) = None.
  Proof. intro Hv. unfold construct. destruct (match allowed with Some vs => _ | None => _ end); [|reflexivity]. destruct (latest e l); [rewrite Hv|]; reflexivity. Qed.
  Theorem construct_ok allowed initial al d : construct e allowed initial = Some (al, d) ->
    Forall (fun p => memZ p (e_supported e) = true) (match allowed with Some _ => al | None => [] end) /\ (initial <> None -> memZ d (e_supported e) = true).
  Proof.
    unfold construct. intro H. split.
    - destruct allowed as [vs|]; [|constructor].
      destruct (map_opt (proto_version e) vs) as [al'|] eqn:Em; [|discriminate].
      assert (al' = al) as <-. { destruct (latest e al'); [|discriminate]. destruct initial as [v|]; [destruct (proto_version e v)|]; inversion H; reflexivity. }
      clear H. revert al' Em. induction vs as [|a t IH]; intros al' Em; cbn [map_opt] in Em; [inversion Em; constructor|].
      destruct (proto_version e a) as [p|] eqn:Ep; [|discriminate]. destruct (map_opt (proto_version e) t) as [r|]; [|discriminate]. inversion Em; subst.
      constructor; [|apply IH; reflexivity]. unfold proto_version in Ep. destruct (match a with VName _ => _ | VNum _ => _ | VOther => _ end) as [q|]; [|discriminate].
      destruct (memZ q (e_supported e)) eqn:Eq; inversion Ep; subst; exact Eq.
    - intro Hi. destruct initial as [v|]; [|congruence]. destruct (match allowed with Some vs => _ | None => _ end); [|discriminate]. destruct (latest e l); [|discriminate].
      destruct (proto_version e v) as [p|] eqn:Ep; [|discriminate]. inversion H; subst. unfold proto_version in Ep.
      destruct (match v with VName _ => _ | VNum _ => _ | VOther => _ end) as [q|]; [|discriminate]. destruct (memZ q (e_supported e)) eqn:Eq; inversion Ep; subst; exact Eq.
  Qed.
End NP.

(* plain status query: the handler gets the parsed object exactly once; a ping is written iff latency was
   requested; then the connection is closed and the exit callback runs once; the reported latency is
   now - echoed, hence non-negative for an echoing server under a monotone clock *)
Theorem status_handler_once pv do_ping obj echo t0 t1 :
  length (filter (fun ev => match ev with SStatusHandled _ => true | _ => false end) (status_query pv do_ping obj echo t0 t1)) = 1%nat /\
  length (filter (fun ev => match ev with SExit => true | _ => false end) (status_query pv do_ping obj echo t0 t1)) = 1%nat /\
  length (filter (fun ev => match ev with SDisconnect => true | _ => false end) (status_query pv do_ping obj echo t0 t1)) = 1%nat /\
  (existsb (fun ev => match ev with SPingSent _ => true | _ => false end) (status_query pv do_ping obj echo t0 t1) = do_ping).
Proof. destruct do_ping; cbn; repeat split; reflexivity. Qed.
Theorem status_latency_nonneg pv obj echo t0 t1 : (forall t, echo t = t) -> t0 <= t1 ->
  In (SPingHandled (t1 - echo t0)) (status_query pv true obj echo t0 t1) /\ 0 <= t1 - echo t0.
Proof. intros He Hm. split; [cbn; tauto|rewrite He; lia]. Qed.
