From Coq Require Import ZArith List Bool Lia.
From PyCraft Require Import Base.Res Model.Versions Spec.VersionsSpec.
Import ListNotations.
Open Scope Z_scope.

(* ---------- membership / add_new / first_occ ---------- *)

Lemma memZ_In x l : memZ x l = true <-> In x l.
Proof.
  unfold memZ. rewrite existsb_exists. split.
  - intros (y & Hy & He). apply Z.eqb_eq in He. subst. assumption.
  - intro H. exists x. split; [assumption|apply Z.eqb_refl].
Qed.

Lemma memZ_false x l : memZ x l = false <-> ~ In x l.
Proof.
  rewrite <- memZ_In. destruct (memZ x l); split; intro H.
  - discriminate.
  - exfalso. apply H. reflexivity.
  - discriminate.
  - reflexivity.
Qed.

Definition notin (acc : list Z) (y : Z) : bool := negb (memZ y acc).

Lemma length_filter_le {A} (f : A -> bool) l : (length (filter f l) <= length l)%nat.
Proof. induction l as [|a l IH]; cbn; [lia|]. destruct (f a); cbn; lia. Qed.

Lemma first_occ_f_enough n : forall m l, (length l <= n)%nat -> (length l <= m)%nat -> first_occ_f n l = first_occ_f m l.
Proof.
  induction n as [|n IH]; intros m l Hn Hm.
  - destruct l; [|cbn in Hn; lia]. destruct m; reflexivity.
  - destruct l as [|x t]; [destruct m; reflexivity|].
    destruct m as [|m]; [cbn in Hm; lia|]. cbn [first_occ_f]. f_equal.
    cbn [length] in Hn, Hm. pose proof (length_filter_le (fun y => negb (y =? x)) t).
    apply IH; lia.
Qed.

Lemma first_occ_nil : first_occ [] = [].
Proof. reflexivity. Qed.
Lemma first_occ_cons x t : first_occ (x :: t) = x :: first_occ (filter (fun y => negb (y =? x)) t).
Proof.
  unfold first_occ. cbn [length first_occ_f]. f_equal.
  pose proof (length_filter_le (fun y => negb (y =? x)) t). apply first_occ_f_enough; lia.
Qed.

Lemma filter_filter {A} (f g : A -> bool) l : filter f (filter g l) = filter (fun x => g x && f x) l.
Proof. induction l as [|a l IH]; cbn; [reflexivity|]. destruct (g a); cbn; [destruct (f a); cbn; rewrite IH; reflexivity|exact IH]. Qed.

Lemma filter_ext' {A} (f g : A -> bool) l : (forall x, f x = g x) -> filter f l = filter g l.
Proof. intro H. induction l as [|a l IH]; cbn; [reflexivity|]. rewrite H, IH. reflexivity. Qed.

Lemma memZ_app x a b : memZ x (a ++ b) = memZ x a || memZ x b.
Proof. unfold memZ. apply existsb_app. Qed.

Lemma fold_add_new l : forall acc,
  fold_left add_new l acc = acc ++ first_occ (filter (notin acc) l).
Proof.
  induction l as [|x t IH]; intro acc; cbn [fold_left filter].
  - rewrite first_occ_nil, app_nil_r. reflexivity.
  - rewrite IH. unfold add_new, notin at 2. destruct (memZ x acc) eqn:Hm; cbn [negb].
    + reflexivity.
    + rewrite first_occ_cons. rewrite <- app_assoc. cbn [app]. f_equal. f_equal. f_equal.
      rewrite filter_filter. apply filter_ext'. intro y. unfold notin.
      rewrite memZ_app. cbn [memZ existsb]. rewrite orb_false_r, negb_orb.
      rewrite (Z.eqb_sym y x). reflexivity.
Qed.

Lemma fold_add_new_nil l : fold_left add_new l [] = first_occ l.
Proof.
  rewrite fold_add_new. cbn [app]. f_equal.
  induction l as [|x t IH]; cbn; [reflexivity|]. rewrite IH. reflexivity.
Qed.

Lemma In_filter_neq x y t : In y (filter (fun z => negb (z =? x)) t) <-> In y t /\ y <> x.
Proof. rewrite filter_In. rewrite negb_true_iff, Z.eqb_neq. tauto. Qed.

(* well-founded-style induction for first_occ: on the length *)
Lemma first_occ_props_aux n : forall l, (length l <= n)%nat ->
  NoDup (first_occ l) /\ (forall y, In y (first_occ l) <-> In y l).
Proof.
  induction n as [|n IH]; intros l Hl.
  - destruct l; [|cbn in Hl; lia]. cbn. split; [constructor|tauto].
  - destruct l as [|x t]; [cbn; split; [constructor|tauto]|].
    rewrite first_occ_cons. cbn [length] in Hl.
    destruct (IH (filter (fun y => negb (y =? x)) t)) as [Hnd Hin].
    { pose proof (length_filter_le (fun y => negb (y =? x)) t). lia. }
    split.
    + constructor; [|assumption]. rewrite Hin, In_filter_neq. tauto.
    + intro y. cbn [In]. rewrite Hin, In_filter_neq.
      destruct (Z.eq_dec x y); [subst; tauto|]. split; [intros [?|[? ?]]; [tauto|tauto]|intros [?|?]; [tauto|right; split; [assumption|congruence]]].
Qed.

Lemma first_occ_NoDup l : NoDup (first_occ l).
Proof. apply (first_occ_props_aux (length l) l). lia. Qed.
Lemma first_occ_In l y : In y (first_occ l) <-> In y l.
Proof. apply (first_occ_props_aux (length l) l). lia. Qed.

(* ---------- index lists ---------- *)

Fixpoint index_list (l : list Z) (n : Z) : list (Z * Z) :=
  match l with [] => [] | x :: t => (x, n) :: index_list t (n + 1) end.

Lemma od_set_new d k v : od_get d k = None -> od_set d k v = d ++ [(k, v)].
Proof.
  induction d as [|[k' v'] t IH]; cbn; intro H; [reflexivity|].
  destruct (k' =? k); [discriminate|]. rewrite IH by assumption. reflexivity.
Qed.

Lemma od_get_index_list l : forall n x, od_get (index_list l n) x = option_map (Z.add n) (index_of x l).
Proof.
  induction l as [|y t IH]; intros n x; cbn; [reflexivity|].
  destruct (y =? x); cbn; [f_equal; lia|].
  rewrite IH. destruct (index_of x t); cbn; [f_equal; lia|reflexivity].
Qed.

Lemma index_of_None x l : index_of x l = None <-> ~ In x l.
Proof.
  induction l as [|y t IH]; cbn; [tauto|].
  destruct (y =? x) eqn:E.
  - apply Z.eqb_eq in E. subst. split; [discriminate|tauto].
  - apply Z.eqb_neq in E. destruct (index_of x t); cbn in *; split; intro H; try discriminate; try tauto.
    + exfalso. destruct IH as [_ IH]. assert (Some z = None) by (apply IH; tauto). discriminate.
Qed.

Lemma index_list_app l1 : forall l2 n, index_list (l1 ++ l2) n = index_list l1 n ++ index_list l2 (n + Z.of_nat (length l1)).
Proof.
  induction l1 as [|x t IH]; intros l2 n; cbn [app index_list length].
  - f_equal. cbn. lia.
  - rewrite IH. f_equal. f_equal. f_equal. rewrite Nat2Z.inj_succ. lia.
Qed.

Lemma index_of_range x l i : index_of x l = Some i -> 0 <= i < Z.of_nat (length l).
Proof.
  revert i. induction l as [|y t IH]; intros i; cbn [index_of length]; [discriminate|].
  rewrite Nat2Z.inj_succ. destruct (y =? x).
  - intro H. inversion H. lia.
  - destruct (index_of x t) as [j|]; cbn; [|discriminate]. intro H. inversion H. specialize (IH j eq_refl). lia.
Qed.

Lemma index_of_inj l x y i : index_of x l = Some i -> index_of y l = Some i -> x = y.
Proof.
  revert i. induction l as [|z t IH]; intros i; cbn; [discriminate|].
  destruct (z =? x) eqn:Ex; destruct (z =? y) eqn:Ey.
  - apply Z.eqb_eq in Ex, Ey. congruence.
  - intro H; inversion H; subst. destruct (index_of y t) as [j|] eqn:E; cbn; [|discriminate].
    intro H'. inversion H'. pose proof (index_of_range _ _ _ E). lia.
  - destruct (index_of x t) as [j|] eqn:E; cbn; [|discriminate].
    intros H H'. inversion H; inversion H'; subst. pose proof (index_of_range _ _ _ E). lia.
  - destruct (index_of x t) as [j|] eqn:E; destruct (index_of y t) as [j'|] eqn:E'; cbn; try discriminate.
    intros H H'. inversion H; inversion H'; subst. apply (IH j); [reflexivity|f_equal; lia].
Qed.

(* ---------- the first loop ---------- *)

Definition pairs_of (records : list vrec) : list (Z * Z) := map (fun r => (v_id r, v_proto r)) records.
Definition od_fold (l : list (Z * Z)) (acc : list (Z * Z)) := fold_left (fun d kv => od_set d (fst kv) (snd kv)) l acc.

Lemma step_known_components records : forall kv kp idx sv,
  idx = index_list kp 0 ->
  fold_left step_known records (kv, kp, idx, sv) =
  (od_fold (pairs_of records) kv,
   fold_left add_new (map v_proto records) kp,
   index_list (fold_left add_new (map v_proto records) kp) 0,
   od_fold (pairs_of (filter v_supported records)) sv).
Proof.
  induction records as [|r t IH]; intros kv kp idx sv Hidx; cbn [fold_left map pairs_of filter od_fold].
  - subst. reflexivity.
  - unfold step_known at 2. unfold add_new at 2 4.
    destruct (memZ (v_proto r) kp) eqn:Hm.
    + rewrite IH by assumption. unfold pairs_of, od_fold. destruct (v_supported r); reflexivity.
    + rewrite IH.
      * unfold pairs_of, od_fold. destruct (v_supported r); reflexivity.
      * subst idx. rewrite od_set_new.
        -- rewrite index_list_app. cbn [index_list]. f_equal.
        -- rewrite od_get_index_list. apply memZ_false in Hm. apply index_of_None in Hm. rewrite Hm. reflexivity.
Qed.

Lemma od_keys_set d k v : map fst (od_set d k v) = add_new (map fst d) k.
Proof.
  unfold add_new. induction d as [|[k' v'] t IH]; cbn [od_set map fst]; [reflexivity|].
  cbn [memZ existsb]. rewrite (Z.eqb_sym k k'). destruct (k' =? k) eqn:E; cbn [orb map fst].
  - apply Z.eqb_eq in E. subst. reflexivity.
  - rewrite IH. fold (memZ k (map fst t)). destruct (memZ k (map fst t)); reflexivity.
Qed.

Lemma od_fold_keys l : forall acc, map fst (od_fold l acc) = fold_left add_new (map fst l) (map fst acc).
Proof.
  induction l as [|[k v] t IH]; intro acc; cbn [od_fold fold_left map fst snd]; [reflexivity|].
  fold (od_fold t (od_set acc k v)). rewrite IH, od_keys_set. reflexivity.
Qed.

Lemma od_get_set d k v k' : od_get (od_set d k v) k' = if k =? k' then Some v else od_get d k'.
Proof.
  induction d as [|[k0 v0] t IH]; cbn [od_set od_get].
  - reflexivity.
  - destruct (k0 =? k) eqn:E; cbn [od_get].
    + apply Z.eqb_eq in E. subst. destruct (k =? k'); reflexivity.
    + destruct (k0 =? k') eqn:E'; [|exact IH].
      apply Z.eqb_eq in E'. subst. rewrite Z.eqb_sym, E. reflexivity.
Qed.

(* value of the last assignment to k in l (None if never assigned) *)
Fixpoint last_assigned (l : list (Z * Z)) (k : Z) (dflt : option Z) : option Z :=
  match l with
  | [] => dflt
  | (k', v) :: t => last_assigned t k (if k' =? k then Some v else dflt)
  end.

Lemma od_fold_get l : forall acc k, od_get (od_fold l acc) k = last_assigned l k (od_get acc k).
Proof.
  induction l as [|[k0 v0] t IH]; intros acc k; cbn [od_fold fold_left last_assigned fst snd]; [reflexivity|].
  fold (od_fold t (od_set acc k0 v0)). rewrite IH, od_get_set. reflexivity.
Qed.

(* ---------- what initglobals(use_known_records=True) computes ---------- *)

Definition sv_of records := od_fold (pairs_of (filter v_supported records)) [].

Lemma initglobals_known is_rel records st :
  let t := initglobals true is_rel records st in
  known_versions t = od_fold (pairs_of records) []
  /\ known_protocols t = first_occ (map v_proto records)
  /\ indices t = index_list (first_occ (map v_proto records)) 0
  /\ supported_versions t = sv_of records.
Proof.
  unfold initglobals. rewrite (step_known_components records [] [] [] [] eq_refl).
  rewrite fold_add_new_nil.
  destruct (fold_left (step_supported is_rel) _ _) as [[sp rv] rp]. cbn. repeat split; reflexivity.
Qed.

(* the result does not depend on the previous state: re-initialising is idempotent *)
Lemma initglobals_known_indep is_rel records st st' :
  initglobals true is_rel records st = initglobals true is_rel records st'.
Proof. reflexivity. Qed.

Theorem initglobals_idempotent is_rel records st :
  initglobals true is_rel records (initglobals true is_rel records st) = initglobals true is_rel records st.
Proof. reflexivity. Qed.

Theorem initglobals_legacy_idempotent is_rel records records' st :
  initglobals false is_rel records' (initglobals false is_rel records st) = initglobals false is_rel records st.
Proof.
  unfold initglobals.
  destruct (fold_left (step_supported is_rel) (supported_versions st) ([], [], [])) as [[sp rv] rp] eqn:E.
  cbn [known_versions known_protocols indices supported_versions]. rewrite E. reflexivity.
Qed.

(* legacy mode leaves the index map and the known tables as they were *)
Theorem initglobals_legacy_keeps is_rel records st :
  let t := initglobals false is_rel records st in
  indices t = indices st /\ known_protocols t = known_protocols st /\ known_versions t = known_versions st
  /\ supported_versions t = supported_versions st.
Proof.
  unfold initglobals.
  destruct (fold_left (step_supported is_rel) (supported_versions st) ([], [], [])) as [[sp rv] rp].
  cbn. repeat split; reflexivity.
Qed.

(* second loop *)
Lemma step_supported_components is_rel sv : forall sp rv rp,
  fold_left (step_supported is_rel) sv (sp, rv, rp) =
  (fold_left add_new (map snd sv) sp,
   od_fold (filter (fun kv => is_rel (fst kv)) sv) rv,
   fold_left add_new (map snd (filter (fun kv => is_rel (fst kv)) sv)) rp).
Proof.
  induction sv as [|[k v] t IH]; intros sp rv rp; cbn [fold_left map snd filter fst]; [reflexivity|].
  unfold step_supported at 2. destruct (is_rel k); rewrite IH; reflexivity.
Qed.

Lemma initglobals_supported use is_rel records st :
  let t := initglobals use is_rel records st in
  supported_protocols t = first_occ (map snd (supported_versions t))
  /\ release_versions t = od_fold (filter (fun kv => is_rel (fst kv)) (supported_versions t)) []
  /\ release_protocols t = first_occ (map snd (filter (fun kv => is_rel (fst kv)) (supported_versions t))).
Proof.
  unfold initglobals.
  destruct (if use then _ else _) as [[[kv kp] idx] sv].
  rewrite step_supported_components, !fold_add_new_nil. cbn. repeat split; reflexivity.
Qed.

(* ---------- order ---------- *)

Lemma indices_lookup is_rel records st p :
  od_get (indices (initglobals true is_rel records st)) p = index_of p (first_occ (map v_proto records)).
Proof.
  destruct (initglobals_known is_rel records st) as (_ & _ & -> & _).
  rewrite od_get_index_list. destruct (index_of p _); cbn; [f_equal; lia|reflexivity].
Qed.

Theorem indices_injective is_rel records st p q i :
  let idx := indices (initglobals true is_rel records st) in
  od_get idx p = Some i -> od_get idx q = Some i -> p = q.
Proof. cbn zeta. rewrite !indices_lookup. apply index_of_inj. Qed.

Theorem known_iff_indexed is_rel records st p :
  In p (known_protocols (initglobals true is_rel records st)) <->
  exists i, od_get (indices (initglobals true is_rel records st)) p = Some i.
Proof.
  rewrite indices_lookup. destruct (initglobals_known is_rel records st) as (_ & -> & _ & _).
  destruct (index_of p (first_occ (map v_proto records))) as [i|] eqn:E.
  - split; [intros _; exists i; reflexivity|intros _].
    destruct (in_dec Z.eq_dec p (first_occ (map v_proto records))) as [|Hn]; [assumption|].
    apply index_of_None in Hn. congruence.
  - apply index_of_None in E. split; [tauto|intros [i Hi]; discriminate].
Qed.

Section Order.
  Variable idx : list (Z * Z).
  Hypothesis idx_inj : forall p q i, od_get idx p = Some i -> od_get idx q = Some i -> p = q.
  Definition known p := exists i, od_get idx p = Some i.

  Lemma earlier_irrefl p : known p -> protocol_earlier idx p p = Ok false.
  Proof. intros [i Hi]. unfold protocol_earlier, cmp_with. rewrite Hi, Z.ltb_irrefl. reflexivity. Qed.

  Lemma earlier_trans p q r : protocol_earlier idx p q = Ok true -> protocol_earlier idx q r = Ok true ->
    protocol_earlier idx p r = Ok true.
  Proof.
    unfold protocol_earlier, cmp_with.
    destruct (od_get idx p), (od_get idx q), (od_get idx r); try discriminate.
    intros H1 H2. injection H1 as H1. injection H2 as H2. apply Z.ltb_lt in H1, H2. f_equal. apply Z.ltb_lt. lia.
  Qed.

  Lemma earlier_trichotomy p q : known p -> known q ->
    (protocol_earlier idx p q = Ok true /\ p <> q /\ protocol_earlier idx q p = Ok false)
    \/ (p = q /\ protocol_earlier idx p q = Ok false /\ protocol_earlier idx q p = Ok false)
    \/ (protocol_earlier idx q p = Ok true /\ p <> q /\ protocol_earlier idx p q = Ok false).
  Proof.
    intros [i Hi] [j Hj]. unfold protocol_earlier, cmp_with. rewrite Hi, Hj.
    destruct (Z.lt_trichotomy i j) as [Hlt|[Heq|Hgt]].
    - left. repeat split; [f_equal; apply Z.ltb_lt; lia| |f_equal; apply Z.ltb_ge; lia].
      intro; subst. rewrite Hi in Hj. inversion Hj. lia.
    - right. left. subst j. split; [apply (idx_inj p q i); assumption|]. rewrite Z.ltb_irrefl. split; reflexivity.
    - right. right. repeat split; [f_equal; apply Z.ltb_lt; lia| |f_equal; apply Z.ltb_ge; lia].
      intro; subst. rewrite Hi in Hj. inversion Hj. lia.
  Qed.

  Lemma earlier_eq_iff p q : known p -> known q ->
    (protocol_earlier_eq idx p q = Ok true <-> protocol_earlier idx p q = Ok true \/ p = q).
  Proof.
    intros [i Hi] [j Hj]. unfold protocol_earlier_eq, protocol_earlier, cmp_with. rewrite Hi, Hj.
    split.
    - intro H. injection H as H'. apply Z.leb_le in H'.
      destruct (Z.eq_dec i j) as [->|Hne]; [right; apply (idx_inj p q j); assumption|].
      left. f_equal. apply Z.ltb_lt. lia.
    - intros [H|H].
      + injection H as H'. apply Z.ltb_lt in H'. f_equal. apply Z.leb_le. lia.
      + subst. rewrite Hi in Hj. inversion Hj. f_equal. apply Z.leb_refl.
  Qed.

  Lemma later_is_flipped pv other :
    ctx_later idx pv other = protocol_earlier idx other pv /\ ctx_later_eq idx pv other = protocol_earlier_eq idx other pv
    /\ ctx_earlier idx pv other = protocol_earlier idx pv other /\ ctx_earlier_eq idx pv other = protocol_earlier_eq idx pv other.
  Proof. repeat split; reflexivity. Qed.

  Lemma in_range_iff pv a b : known pv -> known a -> known b ->
    (ctx_in_range idx pv a b = Ok true <-> ctx_later_eq idx pv a = Ok true /\ ctx_earlier idx pv b = Ok true).
  Proof.
    intros [i Hi] [ia Ha] [ib Hb].
    unfold ctx_in_range, ctx_later_eq, ctx_earlier, protocol_earlier, protocol_earlier_eq, cmp_with.
    rewrite Hi, Ha, Hb. destruct (i <? ib); [tauto|]. split; [discriminate|intros [_ H]; discriminate].
  Qed.

  Lemma in_range_total pv a b : known pv -> known a -> known b -> exists r, ctx_in_range idx pv a b = Ok r.
  Proof.
    intros [i Hi] [ia Ha] [ib Hb].
    unfold ctx_in_range, protocol_earlier, protocol_earlier_eq, cmp_with.
    rewrite Hi, Ha, Hb. destruct (i <? ib); eexists; reflexivity.
  Qed.

  Lemma unknown_keyerror p q : od_get idx p = None \/ od_get idx q = None ->
    protocol_earlier idx p q = Err KeyError /\ protocol_earlier_eq idx p q = Err KeyError.
  Proof.
    unfold protocol_earlier, protocol_earlier_eq, cmp_with.
    intros [H|H]; rewrite H; destruct (od_get idx p), (od_get idx q); split; reflexivity.
  Qed.
End Order.

(* ---------- extension at run time ---------- *)

Lemma index_of_app_l x l1 l2 i : index_of x l1 = Some i -> index_of x (l1 ++ l2) = Some i.
Proof.
  revert i. induction l1 as [|y t IH]; intros i; cbn; [discriminate|].
  destruct (y =? x); [tauto|]. destruct (index_of x t) as [j|]; cbn; [|discriminate].
  intro H. inversion H. rewrite (IH j eq_refl). reflexivity.
Qed.


Lemma first_occ_app l1 l2 : first_occ (l1 ++ l2) = first_occ l1 ++ first_occ (filter (notin (first_occ l1)) l2).
Proof.
  rewrite <- (fold_add_new_nil (l1 ++ l2)), fold_left_app, fold_add_new_nil, fold_add_new. reflexivity.
Qed.

(* appending records never changes the index of a protocol that was already known:
   the relative order of the old versions is preserved *)
Theorem extension_preserves_indices is_rel records extra st p i :
  od_get (indices (initglobals true is_rel records st)) p = Some i ->
  od_get (indices (initglobals true is_rel (records ++ extra) st)) p = Some i.
Proof.
  rewrite !indices_lookup, map_app, first_occ_app. apply index_of_app_l.
Qed.

(* ---------- bundled statements used by Properties/C08.v ---------- *)

Theorem projections is_rel records st :
  let T := initglobals true is_rel records st in
  known_protocols T = first_occ (map v_proto records)
  /\ map fst (known_versions T) = first_occ (map v_id records)
  /\ (forall k, od_get (known_versions T) k = last_assigned (pairs_of records) k None)
  /\ map fst (supported_versions T) = first_occ (map v_id (filter v_supported records))
  /\ (forall k, od_get (supported_versions T) k = last_assigned (pairs_of (filter v_supported records)) k None)
  /\ supported_protocols T = first_occ (map snd (supported_versions T))
  /\ release_versions T = od_fold (filter (fun kv => is_rel (fst kv)) (supported_versions T)) []
  /\ release_protocols T = first_occ (map snd (filter (fun kv => is_rel (fst kv)) (supported_versions T))).
Proof.
  cbn zeta.
  destruct (initglobals_known is_rel records st) as (Hkv & Hkp & _ & Hsv).
  destruct (initglobals_supported true is_rel records st) as (Hsp & Hrv & Hrp).
  assert (forall rs, map fst (pairs_of rs) = map v_id rs) as Hfst.
  { intro rs. unfold pairs_of. rewrite map_map. reflexivity. }
  repeat split.
  - exact Hkp.
  - rewrite Hkv, od_fold_keys, Hfst. apply fold_add_new_nil.
  - intro k. rewrite Hkv, od_fold_get. reflexivity.
  - rewrite Hsv. unfold sv_of. rewrite od_fold_keys, Hfst. apply fold_add_new_nil.
  - intro k. rewrite Hsv. unfold sv_of. rewrite od_fold_get. reflexivity.
  - exact Hsp.
  - exact Hrv.
  - exact Hrp.
Qed.

Theorem legacy is_rel st recs' :
  let t := initglobals false is_rel recs' st in
  indices t = indices st /\ known_protocols t = known_protocols st /\ known_versions t = known_versions st
  /\ supported_versions t = supported_versions st
  /\ supported_protocols t = first_occ (map snd (supported_versions t))
  /\ initglobals false is_rel recs' t = t.
Proof.
  cbn zeta. destruct (initglobals_legacy_keeps is_rel recs' st) as (H1 & H2 & H3 & H4).
  destruct (initglobals_supported false is_rel recs' st) as (Hsp & _ & _).
  repeat split; try assumption. apply initglobals_legacy_idempotent.
Qed.

(* ---------- finite check: numeric order of ordinary protocol numbers ---------- *)
Definition nonpre (pre p : Z) : bool := p <? pre.
Definition numeric_ok (pre : Z) (idx : list (Z * Z)) (ps : list Z) : bool :=
  forallb (fun p => forallb (fun q =>
    match protocol_earlier idx p q with Ok b => Bool.eqb b (p <? q) | _ => false end)
    (filter (nonpre pre) ps)) (filter (nonpre pre) ps).

Lemma numeric_ok_spec pre idx ps : numeric_ok pre idx ps = true ->
  forall p q, In p ps -> In q ps -> nonpre pre p = true -> nonpre pre q = true ->
  protocol_earlier idx p q = Ok (p <? q).
Proof.
  intros H p q Hp Hq Np Nq. unfold numeric_ok in H. rewrite forallb_forall in H.
  specialize (H p ltac:(apply filter_In; split; assumption)). rewrite forallb_forall in H.
  specialize (H q ltac:(apply filter_In; split; assumption)).
  destruct (protocol_earlier idx p q) as [b| |]; try discriminate.
  apply Bool.eqb_prop in H. subst. reflexivity.
Qed.
