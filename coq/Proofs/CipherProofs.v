From Coq Require Import ZArith List Bool Lia.
From PyCraft Require Import Model.Prim Proofs.PrimProofs Model.Aes Model.Cfb8 Model.Rsa Model.Frame Proofs.FrameProofs.
Import ListNotations.
Open Scope Z_scope.

Section CFB8P.
  Variable E : list Z -> list Z.

  Lemma lxor_cancel p k : Z.lxor (Z.lxor p k) k = p.
  Proof. rewrite Z.lxor_assoc, Z.lxor_nilpotent, Z.lxor_0_r. reflexivity. Qed.

  (* decryption inverts encryption, for every plaintext and register, and both sides end in the same state *)
  Theorem dec_enc_stream : forall ps sr, dec_stream E sr (fst (enc_stream E sr ps)) = (ps, snd (enc_stream E sr ps)).
  Proof.
    induction ps as [|p t IH]; intro sr; [reflexivity|].
    cbn [enc_stream]. destruct (enc_stream E (shift sr (Z.lxor p (keystream_byte E sr))) t) as [cs sr'] eqn:Ee.
    cbn [fst snd dec_stream]. specialize (IH (shift sr (Z.lxor p (keystream_byte E sr)))). rewrite Ee in IH. cbn [fst snd] in IH.
    rewrite IH, lxor_cancel. reflexivity.
  Qed.
  Theorem enc_dec_stream : forall cs sr, enc_stream E sr (fst (dec_stream E sr cs)) = (cs, snd (dec_stream E sr cs)).
  Proof.
    induction cs as [|c t IH]; intro sr; [reflexivity|].
    cbn [dec_stream]. destruct (dec_stream E (shift sr c) t) as [ps sr'] eqn:Ed.
    cbn [fst snd enc_stream]. rewrite lxor_cancel. specialize (IH (shift sr c)). rewrite Ed in IH. cbn [fst snd] in IH.
    rewrite IH. reflexivity.
  Qed.

  (* one continuous stream: splitting the data across calls changes nothing *)
  Lemma enc_stream_app : forall a b sr,
    enc_stream E sr (a ++ b) = (fst (enc_stream E sr a) ++ fst (enc_stream E (snd (enc_stream E sr a)) b),
                                snd (enc_stream E (snd (enc_stream E sr a)) b)).
  Proof.
    induction a as [|x a IH]; intros b sr.
    - cbn. destruct (enc_stream E sr b); reflexivity.
    - cbn [app enc_stream]. rewrite IH.
      destruct (enc_stream E (shift sr (Z.lxor x (keystream_byte E sr))) a) as [cs sr']. reflexivity.
  Qed.
  Lemma dec_stream_app : forall a b sr,
    dec_stream E sr (a ++ b) = (fst (dec_stream E sr a) ++ fst (dec_stream E (snd (dec_stream E sr a)) b),
                                snd (dec_stream E (snd (dec_stream E sr a)) b)).
  Proof.
    induction a as [|x a IH]; intros b sr.
    - cbn. destruct (dec_stream E sr b); reflexivity.
    - cbn [app dec_stream]. rewrite IH. destruct (dec_stream E (shift sr x) a) as [ps sr']. reflexivity.
  Qed.

  Theorem enc_chunking : forall chunks sr,
    concat (fst (enc_chunks E sr chunks)) = fst (enc_stream E sr (concat chunks)) /\
    snd (enc_chunks E sr chunks) = snd (enc_stream E sr (concat chunks)).
  Proof.
    induction chunks as [|ch t IH]; intro sr; [split; reflexivity|].
    cbn [enc_chunks concat]. rewrite enc_stream_app. destruct (enc_stream E sr ch) as [c sr1]. cbn [fst snd].
    destruct (IH sr1) as [H1 H2]. destruct (enc_chunks E sr1 t) as [cs sr2]. cbn [fst snd concat] in *. rewrite H1, H2. split; reflexivity.
  Qed.
  Theorem dec_chunking : forall chunks sr,
    concat (fst (dec_chunks E sr chunks)) = fst (dec_stream E sr (concat chunks)) /\
    snd (dec_chunks E sr chunks) = snd (dec_stream E sr (concat chunks)).
  Proof.
    induction chunks as [|ch t IH]; intro sr; [split; reflexivity|].
    cbn [dec_chunks concat]. rewrite dec_stream_app. destruct (dec_stream E sr ch) as [c sr1]. cbn [fst snd].
    destruct (IH sr1) as [H1 H2]. destruct (dec_chunks E sr1 t) as [cs sr2]. cbn [fst snd concat] in *. rewrite H1, H2. split; reflexivity.
  Qed.

  (* any partition into send() calls on one side and any partition into read() results on the other:
     the receiver's plaintext is the sender's plaintext *)
  Theorem cfb8_end_to_end : forall sr sends recvs,
    concat recvs = concat (fst (enc_chunks E sr sends)) ->
    concat (fst (dec_chunks E sr recvs)) = concat sends.
  Proof.
    intros sr sends recvs H. rewrite (proj1 (dec_chunking recvs sr)), H, (proj1 (enc_chunking sends sr)).
    rewrite dec_enc_stream. reflexivity.
  Qed.

  Lemma enc_stream_length : forall ps sr, length (fst (enc_stream E sr ps)) = length ps.
  Proof. induction ps as [|p t IH]; intro sr; [reflexivity|]. cbn [enc_stream]. specialize (IH (shift sr (Z.lxor p (keystream_byte E sr)))).
         destruct (enc_stream E (shift sr (Z.lxor p (keystream_byte E sr))) t). cbn [fst length] in *. lia. Qed.
  Lemma dec_stream_length : forall cs sr, length (fst (dec_stream E sr cs)) = length cs.
  Proof. induction cs as [|c t IH]; intro sr; [reflexivity|]. cbn [dec_stream]. specialize (IH (shift sr c)).
         destruct (dec_stream E (shift sr c) t). cbn [fst length] in *. lia. Qed.

  (* EncryptedFileObjectWrapper.read(n) = decrypt(actual.read(n)): reading through the wrapper is
     reading the stream whose segments are the decrypted segments (state carried in order) *)
  Definition dec_view (sr : list Z) (s : stream) : stream := fst (dec_chunks E sr s).

  Lemma dec_view_nonempty : forall s sr, nonempty_segs s -> nonempty_segs (dec_view sr s).
  Proof.
    unfold dec_view. induction s as [|seg t IH]; intros sr H; [constructor|]. inversion H; subst.
    cbn [dec_chunks]. pose proof (dec_stream_length seg sr) as Hl. destruct (dec_stream E sr seg) as [p sr1].
    specialize (IH sr1 ltac:(assumption)). destruct (dec_chunks E sr1 t) as [ps sr2]. cbn [fst] in *.
    constructor; [|exact IH]. intro Hp. subst p. cbn in Hl. destruct seg; [congruence|discriminate].
  Qed.

  Theorem rd_dec_view n s sr : nonempty_segs s ->
    rd n (dec_view sr s) =
      (fst (dec_stream E sr (fst (rd n s))), dec_view (snd (dec_stream E sr (fst (rd n s)))) (snd (rd n s))).
  Proof.
    intro Hne. unfold dec_view. destruct s as [|seg t]; [reflexivity|]. inversion Hne; subst.
    cbn [dec_chunks rd]. pose proof (dec_stream_length seg sr) as Hl.
    destruct (dec_stream E sr seg) as [p sr1] eqn:Ed. destruct (dec_chunks E sr1 t) as [ps sr2] eqn:Ec. cbn [fst snd rd] in *.
    rewrite Hl. destruct (length seg <=? n)%nat eqn:El.
    - cbn [fst snd]. rewrite Ed. cbn [fst snd]. rewrite Ec. reflexivity.
    - destruct n as [|n'].
      + cbn [fst snd dec_stream dec_chunks]. rewrite Ed, Ec. reflexivity.
      + cbn [fst snd]. rewrite <- (firstn_skipn (S n') seg) in Ed. rewrite dec_stream_app in Ed.
        destruct (dec_stream E sr (firstn (S n') seg)) as [p1 srm] eqn:E1. cbn [fst snd] in Ed.
        destruct (dec_stream E srm (skipn (S n') seg)) as [p2 sre] eqn:E2. cbn [fst snd] in Ed. inversion Ed; subst p sr1.
        cbn [dec_chunks fst snd]. rewrite E2, Ec. cbn [fst]. f_equal.
        * pose proof (dec_stream_length (firstn (S n') seg) sr) as Hl1. rewrite E1 in Hl1. cbn [fst] in Hl1.
          rewrite firstn_app. rewrite firstn_length in Hl1. apply Nat.leb_gt in El.
          replace (S n' - length p1)%nat with O by lia. rewrite firstn_O, app_nil_r. apply firstn_all2. lia.
        * pose proof (dec_stream_length (firstn (S n') seg) sr) as Hl1. rewrite E1 in Hl1. cbn [fst] in Hl1.
          rewrite firstn_length in Hl1. apply Nat.leb_gt in El. f_equal.
          rewrite skipn_app. rewrite (@skipn_all2 _ _ p1) by lia. cbn [app]. replace (S n' - length p1)%nat with O by lia. reflexivity.
  Qed.
End CFB8P.

(* ---------- PKCS#1 v1.5 ---------- *)
Lemma strip_ps_ok : forall ps n m, Forall (fun b => b <> 0) ps -> (8 <= n + length ps)%nat -> strip_ps n (ps ++ 0 :: m) = Some m.
Proof.
  induction ps as [|b ps IH]; intros n m Hnz Hlen.
  - cbn [app strip_ps Z.eqb]. cbn [length] in Hlen. assert ((8 <=? n)%nat = true) as -> by (apply Nat.leb_le; lia). reflexivity.
  - inversion Hnz; subst. cbn [app strip_ps]. destruct (b =? 0) eqn:E; [apply Z.eqb_eq in E; congruence|].
    apply IH; [assumption|cbn [length] in Hlen; lia].
Qed.

Theorem pkcs1_unpad_pad ps m : Forall (fun b => b <> 0) ps -> (8 <= length ps)%nat -> pkcs1_unpad (pkcs1_pad ps m) = Some m.
Proof. intros Hnz Hlen. unfold pkcs1_pad, pkcs1_unpad. cbn [app]. apply strip_ps_ok; [exact Hnz|lia]. Qed.

Lemma i2osp_os2ip : forall em, Forall (fun b => 0 <= b < 256) em -> i2osp (length em) (os2ip em) = em.
Proof.
  unfold i2osp, os2ip. induction em as [|b em IH] using rev_ind; intro H; [reflexivity|].
  apply Forall_app in H. destruct H as [Hem Hb]. inversion Hb; subst.
  rewrite app_length, Nat.add_comm. cbn [length Nat.add be_bytes]. rewrite be_value_app. cbn [be_value].
  replace ((be_value 0 em * 256 + b) / 256) with (be_value 0 em).
  2:{ symmetry. rewrite Z.div_add_l by lia. rewrite Z.div_small by lia. lia. }
  replace ((be_value 0 em * 256 + b) mod 256) with b.
  2:{ symmetry. rewrite Z.add_comm. rewrite Z.mod_add by lia. apply Z.mod_small. lia. }
  rewrite IH by exact Hem. reflexivity.
Qed.

(* with an RSA primitive that the key holder can invert on blocks below the modulus, the key holder
   recovers exactly the message *)
Section RSA.
  Variables (rsa_enc rsa_dec : Z -> Z) (modulus : Z).
  Hypothesis rsa_inverse : forall x, 0 <= x < modulus -> rsa_dec (rsa_enc x) = x.
  Definition encrypt_block (ps m : list Z) : Z := rsa_enc (os2ip (pkcs1_pad ps m)).
  Definition decrypt_block (k : nat) (c : Z) : option (list Z) := pkcs1_unpad (i2osp k (rsa_dec c)).
  Theorem key_holder_recovers ps m :
    Forall (fun b => 0 < b < 256) ps -> (8 <= length ps)%nat -> Forall (fun b => 0 <= b < 256) m ->
    0 <= os2ip (pkcs1_pad ps m) < modulus ->
    decrypt_block (length (pkcs1_pad ps m)) (encrypt_block ps m) = Some m.
  Proof.
    intros Hnz Hlen Hm Hlt. unfold decrypt_block, encrypt_block. rewrite rsa_inverse by exact Hlt.
    rewrite i2osp_os2ip.
    - apply pkcs1_unpad_pad; [|exact Hlen]. eapply Forall_impl; [|exact Hnz]. cbn. intros a Ha. lia.
    - unfold pkcs1_pad. repeat (apply Forall_app; split); try (repeat constructor; lia); try assumption.
      eapply Forall_impl; [|exact Hnz]. cbn. intros a Ha. lia.
  Qed.
End RSA.
