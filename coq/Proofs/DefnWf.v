(* A decidable well-formedness check for reified definitions, and the proof that every well-formed
   type has wire-representable values (so the round-trip theorems are not vacuous for it). *)
From Coq Require Import ZArith List Bool Lia.
From PyCraft Require Import Base.Res Model.Tables Model.Prim Model.VarInt Model.Utf8 Model.Position Model.SignedHex Model.FieldTypes Model.Prog.
From PyCraft Require Import Proofs.FieldTypesProofs Proofs.ProgProofs.
Import ListNotations.
Open Scope Z_scope.

Fixpoint wf_type (t : ftype) : bool :=
  match t with
  | TFixed b n => int_type b && (0 <=? n)
  | TArray l e => int_type l && wf_type e
  | TTrailing => false                         (* only as the last field of a definition *)
  | TCustom cid => (0 <=? cid) && (cid <=? 4)
  | _ => true
  end.
Fixpoint nbt_free (t : ftype) : bool :=
  match t with TNBT => false | TArray _ e => nbt_free e | _ => true end.

Fixpoint wf_defn (d : defn) : bool :=
  match d with
  | [] => true
  | [(_, TTrailing)] => true
  | (_, t) :: d' => wf_type t && wf_defn d'
  end.

Definition zero_uuid : list Z := [0;0;0;0;0;0;0;0;0;0;0;0;0;0;0;0].

Section Inh.
  Variable c : cctx.
  Variable nbt_split : list Z -> option (list Z * list Z).

  Lemma int_zero t : int_type t = true -> int_range t 0.
  Proof. destruct t; try discriminate; intros _; cbn; lia. Qed.

  Theorem wf_inhabited : forall t, wf_type t = true -> nbt_free t = true -> exists v, in_dom c nbt_split t v.
  Proof.
    induction t as [ | | | | | | | | | | | | | | |base IHbase n| | | | | |lt IHl et IHe|cid]; intros Hw Hn;
      try discriminate;
      try (exists (VInt 0); cbn; lia).
    - exists (VBool false). exact I.
    - exists (VStr []). cbn. split; [reflexivity|]. intros b Hb. inversion Hb. cbn. lia.
    - exists (VStr (uuid_text zero_uuid)). exists zero_uuid. split; [reflexivity|]. split; [|reflexivity].
      unfold zero_uuid. repeat constructor; lia.
    - exists (VQ 0 0). cbn. lia.
    - cbn [wf_type] in Hw. apply andb_true_iff in Hw. destruct Hw as [Hb _].
      exists (VQ 0 0). cbn [in_dom]. split; [exact Hb|]. unfold fixed_int. cbn [Z.mul]. rewrite Z.quot_0_l.
      + apply int_zero. exact Hb.
      + cbn. lia.
    - exists (VBytes []). cbn. lia.
    - exists (VBytes []). cbn. lia.
    - exists (VTup [VInt 0; VInt 0; VInt 0]). cbn. lia.
    - cbn [wf_type] in Hw. apply andb_true_iff in Hw. destruct Hw as [Hl _].
      exists (VList []). cbn [in_dom length]. split; [exact Hl|]. split; [apply int_zero; exact Hl|constructor].
    - cbn [wf_type] in Hw. apply andb_true_iff in Hw. destruct Hw as [H0 H4]. apply Z.leb_le in H0. apply Z.leb_le in H4.
      assert (cid = 0 \/ cid = 1 \/ cid = 2 \/ cid = 3 \/ cid = 4) as [->|[->|[->|[->| ->]]]] by lia.
      + exists (VTup [VInt 0; VInt 0; VInt 0]). cbn. lia.
      + exists (VTup [VInt 0; VInt 0; VInt 0]). cbn. lia.
      + exists (VTup [VInt 0; VInt 0; VInt 0; VInt 0]). cbn. destruct (c_rec_new c); lia.
      + exists (VTup [VQ 0 0; VQ 0 0; VQ 0 0]). cbn. lia.
      + exists (VInt 0). cbn. destruct (c_pitch_float c); lia.
  Qed.
End Inh.
