From Coq Require Import ZArith List Bool Lia.
From PyCraft Require Import Model.ExcChain Spec.TryExcept.
Import ListNotations.
Open Scope Z_scope.

Section P.
  Variable isinst : Z -> Z -> bool.

  Lemma loop_caught_stable hs : forall st, ls_caught st = true -> fold_left (loop_step isinst) hs st = st.
  Proof. induction hs as [|h t IH]; intros st H; [reflexivity|]. cbn [fold_left]. unfold loop_step at 2. rewrite H. apply IH. exact H. Qed.

  Lemma loop_general hs : forall st, ls_caught st = false ->
    let '(l, e', c) := try_except isinst hs (ls_exc st) in
    let st' := fold_left (loop_step isinst) hs st in
    ls_log st' = ls_log st ++ l /\ ls_exc st' = e' /\ ls_caught st' = c.
  Proof.
    induction hs as [|h t IH]; intros st Hc.
    - cbn. rewrite app_nil_r. repeat split; try reflexivity; exact Hc.
    - cbn [try_except fold_left].
      destruct (hmatches isinst h (ls_exc st)) eqn:Hm.
      + destruct (h_beh h (ls_exc st)) as [|e1] eqn:Hb.
        * assert (loop_step isinst st h = {| ls_exc := ls_exc st; ls_caught := true; ls_log := ls_log st ++ [HCall (h_id h) (ls_exc st) (h_reconnects h)];
                      ls_reconn := ls_reconn st || h_reconnects h |}) as -> by (unfold loop_step; rewrite Hc, Hm, Hb; reflexivity).
          rewrite loop_caught_stable by reflexivity. cbn. repeat split; reflexivity.
        * assert (loop_step isinst st h = {| ls_exc := e1; ls_caught := false; ls_log := ls_log st ++ [HCall (h_id h) (ls_exc st) (h_reconnects h)];
                      ls_reconn := ls_reconn st || h_reconnects h |}) as -> by (unfold loop_step; rewrite Hc, Hm, Hb; reflexivity).
          specialize (IH {| ls_exc := e1; ls_caught := false; ls_log := ls_log st ++ [HCall (h_id h) (ls_exc st) (h_reconnects h)];
                            ls_reconn := ls_reconn st || h_reconnects h |} eq_refl).
          cbn [ls_exc ls_log] in IH. destruct (try_except isinst t e1) as [[l e''] c]. destruct IH as (H1 & H2 & H3).
          rewrite H1, <- app_assoc. repeat split; assumption.
      + assert (loop_step isinst st h = st) as -> by (unfold loop_step; rewrite Hc, Hm; reflexivity). apply IH. exact Hc.
  Qed.

  (* the loop in the code is Python's try/except chain *)
  Theorem chain_is_try_except hs e :
    let st := handler_loop isinst hs e in (ls_log st, ls_exc st, ls_caught st) = try_except isinst hs e.
  Proof.
    cbn zeta. unfold handler_loop. pose proof (loop_general hs {| ls_exc := e; ls_caught := false; ls_log := []; ls_reconn := false |} eq_refl) as H.
    cbn [ls_exc ls_log] in H. destruct (try_except isinst hs e) as [[l e'] c]. destruct H as (H1 & H2 & H3). cbn in H1. rewrite H1, H2, H3. reflexivity.
  Qed.

  (* the first registered handler whose types match receives the exception *)
  Theorem first_match_receives hs e : forall pre h post, hs = pre ++ h :: post ->
    Forall (fun g => hmatches isinst g e = false) pre -> hmatches isinst h e = true ->
    exists rest, fst (fst (try_except isinst hs e)) = HCall (h_id h) e (h_reconnects h) :: rest.
  Proof.
    intros pre h post -> Hpre Hm. induction Hpre as [|g pre Hg _ IH].
    - cbn [app try_except]. rewrite Hm. destruct (h_beh h e); [eexists; reflexivity|].
      destruct (try_except isinst post e0) as [[l e''] c]. eexists; reflexivity.
    - cbn [app try_except]. rewrite Hg. exact IH.
  Qed.

  (* unless the reactor's own hook consumed the exception (the documented status fallback), the final
     handler, when it is a function, is called exactly once, last, with the exception the chain produced *)
  Theorem final_always_runs hook hs f rc e : hook <> RConsumed ->
    let e0 := match hook with RRaises e' => e' | _ => e end in
    r_log (handle_exception isinst hook hs (FFun f rc) e) = ls_log (handler_loop isinst hs e0) ++ [FinalCall (ls_exc (handler_loop isinst hs e0)) rc].
  Proof. intro H. destruct hook; [congruence| |]; reflexivity. Qed.

  (* the connection records the last exception: the chain's, or the one the final handler raised *)
  Theorem recorded hook hs fin e : hook <> RConsumed ->
    let e0 := match hook with RRaises e' => e' | _ => e end in
    let ec := ls_exc (handler_loop isinst hs e0) in
    r_recorded (handle_exception isinst hook hs fin e) =
      Some (match fin with FFun f _ => match f ec with HReturn => ec | HRaise e' => e' end | _ => ec end).
  Proof. intro H. destruct hook; [congruence| |]; destruct fin; reflexivity. Qed.

  (* re-raised from the thread iff nothing caught it, no final handler is configured, and the reactor
     did not consume it *)
  Theorem reraise_iff hook hs fin e :
    r_reraised (handle_exception isinst hook hs fin e) <> None <->
    fin = FNone /\ r_caught (handle_exception isinst hook hs fin e) = false /\ hook <> RConsumed.
  Proof.
    destruct hook; cbn [handle_exception r_reraised r_caught].
    - split; [congruence|]. intros (_ & _ & H). congruence.
    - destruct fin; cbn [r_reraised r_caught]; try (split; [congruence|intros (H & _); discriminate]).
      destruct (ls_caught (handler_loop isinst hs e)); split; try congruence; intros; try (repeat split; congruence). destruct H as (_ & H & _). discriminate.
    - destruct fin; cbn [r_reraised r_caught]; try (split; [congruence|intros (H & _); discriminate]).
      destruct (ls_caught (handler_loop isinst hs e0)); split; try congruence; intros; try (repeat split; congruence). destruct H as (_ & H & _). discriminate.
  Qed.

  (* the thread ends (interrupt set, slot cleared - so connect() passes the activity check again) and
     the connection is closed unless a handler that ran (the final one included) has started a new one *)
  Lemma reconn_inv hs : forall st, ls_reconn st = existsb call_reconnects (ls_log st) ->
    ls_reconn (fold_left (loop_step isinst) hs st) = existsb call_reconnects (ls_log (fold_left (loop_step isinst) hs st)).
  Proof.
    induction hs as [|h t IH]; intros st H; [exact H|]. cbn [fold_left]. apply IH. unfold loop_step.
    destruct (ls_caught st); [exact H|]. destruct (hmatches isinst h (ls_exc st)); [|exact H].
    destruct (h_beh h (ls_exc st)); cbn [ls_reconn ls_log]; rewrite existsb_app, H; cbn [existsb call_reconnects]; rewrite orb_false_r; reflexivity.
  Qed.

  Theorem thread_ends_and_closes hook hs fin e : hook <> RConsumed ->
    let a := thread_run_raising isinst hook hs fin e in
    a_interrupt a = true /\ a_slot_cleared a = true /\
    r_disconnected (a_result a) = negb (existsb call_reconnects (r_log (a_result a))).
  Proof.
    intro H. cbn zeta. split; [reflexivity|]. split; [reflexivity|]. unfold thread_run_raising. cbn [a_result].
    assert (forall e0, ls_reconn (handler_loop isinst hs e0) = existsb call_reconnects (ls_log (handler_loop isinst hs e0))) as Hinv
      by (intro e0; apply reconn_inv; reflexivity).
    destruct hook; [congruence| |]; cbn [handle_exception]; destruct fin; cbn [r_disconnected r_log];
      rewrite ?existsb_app, Hinv; cbn [existsb call_reconnects]; rewrite ?orb_false_r; reflexivity.
  Qed.

  Theorem register_early hs h : register_handler hs h true = h :: hs /\ register_handler hs h false = hs ++ [h].
  Proof. split; reflexivity. Qed.
End P.
