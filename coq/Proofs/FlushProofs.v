(* The flush of the outgoing queue: a packet vetoed by an outgoing listener (IgnorePacket) is skipped, everything queued
   behind it is still written, in queue order, once each. *)
From Coq Require Import ZArith List Bool Lia.
From PyCraft Require Import Model.Dispatch.
Import ListNotations.
Open Scope Z_scope.

Section Flush.
  Variable subclass : Z -> Z -> bool.
  Variables early_out late_out : list listener.
  Variable write : packet -> beh.

  Definition written_keys (l : list event) : list Z :=
    flat_map (fun e => match e with Written k => [k] | _ => [] end) l.

  (* the packet passes its early outgoing listeners and its write succeeds *)
  Definition goes_out (p : packet) : bool :=
    match snd (run_listeners subclass early_out p) with
    | ODone => match write p with Return => true | _ => false end
    | _ => false
    end.

  (* no exception other than IgnorePacket anywhere on the way of p *)
  Definition no_raise (p : packet) : Prop :=
    forall e, snd (write_out subclass early_out late_out write p) <> ORaised e.

  Lemma written_keys_app a b : written_keys (a ++ b) = written_keys a ++ written_keys b.
  Proof. unfold written_keys. apply flat_map_app. Qed.

  Lemma run_listeners_no_written ls p : written_keys (fst (run_listeners subclass ls p)) = [].
  Proof.
    induction ls as [|l t IH]; cbn [run_listeners]; [reflexivity|].
    destruct (call_packet subclass l p) as [[| |e]|]; cbn; try reflexivity; try exact IH.
    destruct (run_listeners subclass t p) as [log o]. cbn in *. exact IH.
  Qed.

  Lemma write_out_written p :
    written_keys (fst (write_out subclass early_out late_out write p)) = if goes_out p then [p_key p] else [].
  Proof.
    unfold write_out, goes_out.
    pose proof (run_listeners_no_written early_out p) as H1.
    destruct (run_listeners subclass early_out p) as [l1 o1]. cbn [fst snd] in *.
    destruct o1; try exact H1.
    destruct (write p); try exact H1.
    pose proof (run_listeners_no_written late_out p) as H2.
    destruct (run_listeners subclass late_out p) as [l2 o2]. cbn [fst snd] in *.
    rewrite written_keys_app, H1.
    change (written_keys (Written (p_key p) :: l2)) with (p_key p :: written_keys l2). rewrite H2. reflexivity.
  Qed.

  (* every packet of the queue that is not vetoed is on the wire, in queue order, once; the queue is empty afterwards *)
  Theorem flush_skips_only_vetoed ps :
    Forall no_raise ps ->
    let '(log, o, rest) := flush_all subclass early_out late_out write ps in
    written_keys log = map p_key (filter goes_out ps) /\ rest = [] /\ (forall e, o <> ORaised e).
  Proof.
    induction ps as [|p t IH]; intros HF; cbn [flush_all].
    - repeat split; intros e; discriminate.
    - inversion HF as [|? ? Hp Ht]; subst.
      specialize (IH Ht).
      pose proof (write_out_written p) as Hw. unfold no_raise in Hp.
      destruct (write_out subclass early_out late_out write p) as [l o]. cbn [fst snd] in *.
      destruct (flush_all subclass early_out late_out write t) as [[l' o'] rest].
      destruct IH as (IH1 & IH2 & IH3).
      destruct o as [| |e]; [| |exfalso; exact (Hp e eq_refl)];
        (split; [rewrite written_keys_app, Hw, IH1; cbn [filter]; destruct (goes_out p); reflexivity | split; assumption]).
  Qed.

  (* an exception other than IgnorePacket stops the flush there: what was written is what preceded it, the rest stays queued *)
  Theorem flush_stops_at_raise pre p post e :
    Forall no_raise pre ->
    snd (write_out subclass early_out late_out write p) = ORaised e ->
    let '(log, o, rest) := flush_all subclass early_out late_out write (pre ++ p :: post) in
    o = ORaised e /\ rest = post /\
    written_keys log = map p_key (filter goes_out pre) ++ (if goes_out p then [p_key p] else []).
  Proof.
    induction pre as [|q t IH]; intros HF Hr; cbn [app flush_all].
    - pose proof (write_out_written p) as Hw.
      destruct (write_out subclass early_out late_out write p) as [l o]. cbn [fst snd] in *. subst o.
      repeat split. exact Hw.
    - inversion HF as [|? ? Hq Ht]; subst. specialize (IH Ht Hr).
      pose proof (write_out_written q) as Hw. unfold no_raise in Hq.
      destruct (write_out subclass early_out late_out write q) as [l o]. cbn [fst snd] in *.
      destruct (flush_all subclass early_out late_out write (t ++ p :: post)) as [[l' o'] rest].
      destruct IH as (IH1 & IH2 & IH3).
      destruct o as [| |e']; [| |exfalso; exact (Hq e' eq_refl)];
        (split; [assumption | split; [assumption |
          rewrite written_keys_app, Hw, IH3; cbn [filter map]; destruct (goes_out q); reflexivity]]).
  Qed.
End Flush.
