From Coq Require Import ZArith List Bool Lia.
From PyCraft Require Import Base.Res Model.Tables Model.Prim Model.FieldTypes Spec.ProtocolTable Proofs.PrimProofs.
Import ListNotations.
Open Scope Z_scope.

Lemma ft_eqb_eq : forall a b, ft_eqb a b = true -> a = b.
Proof.
  induction a as [ | | | | | | | | | | | | | | |x IHx n| | | | | |l IHl e IHe|c]; intros b H; destruct b; try discriminate; try reflexivity;
    cbn [ft_eqb] in H.
  - apply andb_true_iff in H. destruct H as [H1 H2]. apply Z.eqb_eq in H2. rewrite (IHx _ H1), H2. reflexivity.
  - apply andb_true_iff in H. destruct H as [H1 H2]. rewrite (IHl _ H1), (IHe _ H2). reflexivity.
  - apply Z.eqb_eq in H. rewrite H. reflexivity.
Qed.

(* how a value is re-read when a one-byte field is declared with the other signedness *)
Definition byte_view (a b : ftype) (v : value) : value :=
  match a, b, v with
  | TByte, TUByte, VInt z => VInt (z mod 256)
  | TUByte, TByte, VInt z => VInt (if 128 <=? z then z - 256 else z)
  | _, _, _ => v
  end.

(* wire-compatible kinds put the same bytes on the wire: identical kinds trivially; a signed and an
   unsigned byte for values that agree modulo 256 *)
Theorem compat_same_bytes c a b v bs :
  wire_compat a b = true -> enc c a v = Ok bs -> enc c b (byte_view a b v) = Ok bs.
Proof.
  unfold wire_compat. intros H He. apply orb_true_iff in H. destruct H as [H|H].
  - apply ft_eqb_eq in H. subst b. destruct a; exact He.
  - destruct a; try discriminate; destruct b; try discriminate.
    + (* UByte declared, Byte in the table *)
      destruct v; cbn [enc enc_scalar_int as_int rbind bind byte_view] in *; try discriminate.
      unfold enc_int in *. cbn [int_lo int_hi] in *. unfold pow256 in *. cbn in He |- *.
      destruct ((0 <=? z) && (z <? 256)) eqn:E; [|discriminate].
      apply andb_true_iff in E. destruct E as [E1 E2]. apply Z.leb_le in E1. apply Z.ltb_lt in E2.
      destruct (128 <=? z) eqn:E3.
      * apply Z.leb_le in E3. replace ((-128 <=? z - 256) && (z - 256 <? 128)) with true.
        2:{ symmetry. apply andb_true_iff. split; [apply Z.leb_le|apply Z.ltb_lt]; lia. }
        assert ((z - 256) mod 256 = z mod 256) as -> by (replace (z - 256) with (z + (-1) * 256) by lia; apply Z.mod_add; lia).
        exact He.
      * apply Z.leb_gt in E3. replace ((-128 <=? z) && (z <? 128)) with true.
        2:{ symmetry. apply andb_true_iff. split; [apply Z.leb_le|apply Z.ltb_lt]; lia. }
        exact He.
    + (* Byte declared, UByte in the table *)
      destruct v; cbn [enc enc_scalar_int as_int rbind bind byte_view] in *; try discriminate.
      unfold enc_int in *. cbn [int_lo int_hi] in *. unfold pow256 in *. cbn in He |- *.
      destruct ((-128 <=? z) && (z <? 128)) eqn:E; [|discriminate].
      pose proof (Z.mod_pos_bound z 256 ltac:(lia)) as Hm.
      replace ((0 <=? z mod 256) && (z mod 256 <? 256)) with true.
      2:{ symmetry. apply andb_true_iff. split; [apply Z.leb_le|apply Z.ltb_lt]; lia. }
      rewrite Z.mod_mod by lia. exact He.
Qed.

Fixpoint views (d s : list ftype) (vs : list value) : list value :=
  match d, s, vs with
  | a :: d', b :: s', v :: vs' => byte_view a b v :: views d' s' vs'
  | _, _, _ => vs
  end.

Definition unnamed (l : list ftype) : defn := map (fun t => (0, t)) l.

(* whole payloads: a definition whose kinds are wire-compatible with the published layout writes the
   bytes the published layout prescribes (field names play no part) *)
Theorem layout_same_bytes c : forall (d : defn) (s : list ftype) vs bs,
  layout_compat (map snd d) s = true -> encode_fields c d vs = Ok bs ->
  encode_fields c (unnamed s) (views (map snd d) s vs) = Ok bs.
Proof.
  induction d as [|[n a] d IH]; intros s vs bs Hc He; destruct s as [|b s]; try discriminate.
  - destruct vs; [exact He|discriminate].
  - cbn [map snd layout_compat] in Hc. apply andb_true_iff in Hc. destruct Hc as [Hab Hds].
    destruct vs as [|v vs]; [discriminate|]. cbn [encode_fields] in He.
    destruct (enc c a v) as [x| |] eqn:Ex; cbn [rbind bind] in He; try discriminate.
    destruct (encode_fields c d vs) as [y| |] eqn:Ey; cbn [rbind bind] in He; try discriminate.
    cbn [unnamed map views encode_fields snd]. rewrite (compat_same_bytes c a b v x Hab Ex). cbn [rbind bind].
    fold (unnamed s). rewrite (IH s vs y Hds Ey). cbn [rbind bind]. exact He.
Qed.
