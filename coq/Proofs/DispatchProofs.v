From Coq Require Import ZArith List Bool Lia.
From PyCraft Require Import Model.Dispatch.
Import ListNotations.
Open Scope Z_scope.

Section DP.
  Variable subclass : Z -> Z -> bool.

  (* ---- the documented order, as a specification: the candidates in order, cut right after the
     first one that does not return normally ---- *)
  Fixpoint cut (cands : list (event * beh)) : list event * outcome :=
    match cands with
    | [] => ([], ODone)
    | (ev, Return) :: t => let '(l, o) := cut t in (ev :: l, o)
    | (ev, Ignore) :: _ => ([ev], OIgnored)
    | (ev, Raise e) :: _ => ([ev], ORaised e)
    end.

  Definition cands (ls : list listener) (p : packet) : list (event * beh) :=
    map (fun l => (Call (l_id l) (p_key p), l_beh l p)) (filter (fun l => matches subclass l p) ls).

  Lemma cut_app a b : cut (a ++ b) = match cut a with (l, ODone) => let '(l', o) := cut b in (l ++ l', o) | r => r end.
  Proof.
    induction a as [|[ev bh] a IH]; cbn [app cut].
    - destruct (cut b); reflexivity.
    - destruct bh; try reflexivity. rewrite IH. destruct (cut a) as [l o]. destruct o; try reflexivity.
      destruct (cut b). reflexivity.
  Qed.

  Lemma run_listeners_spec ls p : run_listeners subclass ls p = cut (cands ls p).
  Proof.
    induction ls as [|l t IH]; [reflexivity|]. unfold cands in *. cbn [run_listeners filter]. unfold call_packet.
    destruct (matches subclass l p); [|exact IH]. cbn [map cut]. destruct (l_beh l p); try reflexivity. rewrite IH. reflexivity.
  Qed.

  (* incoming: early listeners matching, in registration order; then the reaction; then ordinary
     listeners matching, in registration order; truncated right after the first that signals ignore
     (or raises) *)
  Theorem react_in_spec early late reaction p :
    react_in subclass early late reaction p =
    cut (cands early p ++ (Reaction (p_key p), reaction p) :: cands late p).
  Proof.
    unfold react_in. rewrite cut_app, !run_listeners_spec. destruct (cut (cands early p)) as [l1 o1].
    destruct o1; try reflexivity. cbn [cut]. destruct (reaction p); try reflexivity.
    destruct (cut (cands late p)). reflexivity.
  Qed.

  (* outgoing: early outgoing listeners, then the write, then outgoing listeners; an early ignore
     suppresses the write and everything after it; a late ignore only later late listeners *)
  Definition strip_write (r : list event * outcome) : list event * outcome := r.
  Theorem write_out_spec early_out late_out p :
    write_out subclass early_out late_out (fun _ => Return) p =
    cut (cands early_out p ++ (Written (p_key p), Return) :: cands late_out p).
  Proof.
    unfold write_out. rewrite cut_app, !run_listeners_spec. destruct (cut (cands early_out p)) as [l1 o1].
    destruct o1; try reflexivity. cbn [cut]. destruct (cut (cands late_out p)). reflexivity.
  Qed.

  Lemma cut_prefix : forall c, exists rest, map fst c = fst (cut c) ++ rest.
  Proof.
    induction c as [|[ev bh] c (rest & IH)]; [exists []; reflexivity|]. cbn [cut map fst].
    destruct bh; [|exists (map fst c); reflexivity..]. destruct (cut c) as [l o]. cbn [fst] in *. exists rest. rewrite IH. reflexivity.
  Qed.

  Lemma cut_done_all : forall c, snd (cut c) = ODone -> fst (cut c) = map fst c /\ Forall (fun x => snd x = Return) c.
  Proof.
    induction c as [|[ev bh] c IH]; cbn [cut]; intro H; [split; [reflexivity|constructor]|].
    destruct bh; try discriminate. destruct (cut c) as [l o] eqn:E. cbn [fst snd] in *. destruct (IH H) as [H1 H2].
    split; [cbn; rewrite H1; reflexivity|constructor; [reflexivity|exact H2]].
  Qed.

  (* a suppressed write: if an early outgoing listener ignores, nothing is written *)
  Theorem early_ignore_suppresses_write early_out late_out p :
    snd (run_listeners subclass early_out p) <> ODone ->
    forall pk, ~ In (Written pk) (fst (write_out subclass early_out late_out (fun _ => Return) p)).
  Proof.
    intros H pk. unfold write_out. destruct (run_listeners subclass early_out p) as [l1 o1] eqn:E. cbn [snd] in H.
    destruct o1; [congruence| |]; cbn [fst]; intro Hin;
      rewrite run_listeners_spec in E; pose proof (cut_prefix (cands early_out p)) as (rest & Hp); rewrite E in Hp; cbn [fst] in Hp;
      assert (In (Written pk) (map fst (cands early_out p))) as Hm by (rewrite Hp; apply in_or_app; left; exact Hin);
      unfold cands in Hm; rewrite map_map in Hm; apply in_map_iff in Hm; destruct Hm as (l & Hl & _); discriminate.
  Qed.

  (* a failed write (the socket raises e): the early outgoing listeners that ran are all that happened - nothing is
     recorded as written, no ordinary outgoing listener is called, and e reaches the caller *)
  Theorem failed_write early_out late_out write p e :
    write p = Raise e -> snd (run_listeners subclass early_out p) = ODone ->
    write_out subclass early_out late_out write p = (fst (run_listeners subclass early_out p), ORaised e).
  Proof.
    intros Hw Hd. unfold write_out. destruct (run_listeners subclass early_out p) as [l1 o1]. cbn [fst snd] in *. subst o1. rewrite Hw. reflexivity.
  Qed.

  Theorem failed_write_not_announced early_out late_out write p e :
    write p = Raise e ->
    (forall pk, ~ In (Written pk) (fst (write_out subclass early_out late_out write p))) /\
    (forall l, In l late_out -> ~ In (l_id l) (map l_id early_out) ->
               ~ In (Call (l_id l) (p_key p)) (fst (write_out subclass early_out late_out write p))).
  Proof.
    intro Hw.
    assert (Hsub : forall ev, In ev (fst (write_out subclass early_out late_out write p)) -> In ev (map fst (cands early_out p))).
    { intros ev. unfold write_out. destruct (run_listeners subclass early_out p) as [l1 o1] eqn:E.
      rewrite run_listeners_spec in E. pose proof (cut_prefix (cands early_out p)) as (rest & Hp). rewrite E in Hp. cbn [fst] in Hp.
      intro Hin. rewrite Hp. apply in_or_app. left.
      destruct o1; [rewrite Hw in Hin|..]; exact Hin. }
    split.
    - intros pk Hin. apply Hsub in Hin. unfold cands in Hin. rewrite map_map in Hin. apply in_map_iff in Hin. destruct Hin as (l & Hl & _). discriminate.
    - intros l _ Hid Hin. apply Hsub in Hin. unfold cands in Hin. rewrite map_map in Hin. apply in_map_iff in Hin.
      destruct Hin as (l' & Hl' & Hf). cbn [fst] in Hl'. injection Hl' as Hl'. apply filter_In in Hf. destruct Hf as [Hf _].
      apply Hid. rewrite <- Hl'. apply in_map. exact Hf.
  Qed.

  (* each listener is called at most once per packet (distinct listeners have distinct ids) *)
  Lemma NoDup_prefix {A} (a b : list A) : NoDup (a ++ b) -> NoDup a.
  Proof. induction a as [|x a IH]; intro H; [constructor|]. inversion H; subst. constructor; [intro Hi; apply H2; apply in_or_app; left; exact Hi|apply IH; exact H3]. Qed.

  Lemma filter_map_NoDup {A} (f : A -> Z) (g : A -> bool) l : NoDup (map f l) -> NoDup (map f (filter g l)).
  Proof.
    induction l as [|x l IH]; intro H; [constructor|]. inversion H; subst. cbn [filter]. destruct (g x); [|exact (IH H3)].
    cbn [map]. constructor; [|exact (IH H3)]. intro Hi. apply H2. apply in_map_iff in Hi. destruct Hi as (y & Hy & Hin).
    apply filter_In in Hin. apply in_map_iff. exists y. tauto.
  Qed.

  Theorem at_most_once early late reaction p :
    NoDup (map l_id (early ++ late)) -> NoDup (fst (react_in subclass early late reaction p)).
  Proof.
    intro Hnd. rewrite react_in_spec.
    pose proof (cut_prefix (cands early p ++ (Reaction (p_key p), reaction p) :: cands late p)) as (rest & Hp).
    apply (NoDup_prefix _ rest). rewrite <- Hp. rewrite map_app. cbn [map fst]. unfold cands. rewrite !map_map. cbn [fst].
    (* events are injective images of listener ids, plus the single Reaction *)
    assert (NoDup (map l_id (filter (fun l => matches subclass l p) early) ++ map l_id (filter (fun l => matches subclass l p) late))) as Hids.
    { rewrite <- map_app, <- filter_app. apply filter_map_NoDup. exact Hnd. }
    set (E := filter (fun l => matches subclass l p) early) in *. set (L := filter (fun l => matches subclass l p) late) in *.
    clearbody E L. clear - Hids.
    induction E as [|x E IH]; cbn [map app] in *.
    - constructor.
      + intro Hi. apply in_map_iff in Hi. destruct Hi as (y & Hy & _). discriminate.
      + clear - Hids. induction L as [|y L IH]; [constructor|]. cbn [map] in *. inversion Hids; subst. constructor; [|exact (IH H2)].
        intro Hi. apply H1. apply in_map_iff in Hi. destruct Hi as (z & Hz & Hin). inversion Hz. apply in_map_iff. exists z. split; [congruence|exact Hin].
    - inversion Hids; subst. constructor; [|exact (IH H2)]. intro Hi. apply in_app_or in Hi. destruct Hi as [Hi|[Hi|Hi]].
      + apply H1. apply in_or_app. left. apply in_map_iff in Hi. destruct Hi as (z & Hz & Hin). inversion Hz. apply in_map_iff. exists z. split; [congruence|exact Hin].
      + discriminate.
      + apply H1. apply in_or_app. right. apply in_map_iff in Hi. destruct Hi as (z & Hz & Hin). inversion Hz. apply in_map_iff. exists z. split; [congruence|exact Hin].
  Qed.

  (* when no stage signals anything, a listener is called iff its filter contains a superclass *)
  Theorem called_iff early late reaction p l :
    snd (react_in subclass early late reaction p) = ODone -> In l (early ++ late) ->
    (In (Call (l_id l) (p_key p)) (fst (react_in subclass early late reaction p)) <->
     exists l', In l' (early ++ late) /\ l_id l' = l_id l /\ matches subclass l' p = true).
  Proof.
    intros Hd Hin. rewrite react_in_spec in *. destruct (cut_done_all _ Hd) as [Hall _]. rewrite Hall.
    rewrite map_app. cbn [map fst]. unfold cands. rewrite !map_map. cbn [fst]. split.
    - intro H. apply in_app_or in H. destruct H as [H|[H|H]]; try discriminate;
        apply in_map_iff in H; destruct H as (l' & Hl' & Hf); apply filter_In in Hf; destruct Hf as [Hm Hf]; inversion Hl';
        exists l'; (split; [apply in_or_app; tauto|split; [congruence|assumption]]).
    - intros (l' & Hl' & Hid & Hm). apply in_app_or in Hl'. destruct Hl' as [Hl'|Hl'].
      + apply in_or_app. left. apply in_map_iff. exists l'. split; [rewrite Hid; reflexivity|apply filter_In; tauto].
      + apply in_or_app. right. right. apply in_map_iff. exists l'. split; [rewrite Hid; reflexivity|apply filter_In; tauto].
  Qed.

  (* histories: logs concatenate; an ignore affects that packet only *)
  Theorem react_all_concat early late reaction ps :
    (forall p, In p ps -> forall e, snd (react_in subclass early late reaction p) <> ORaised e) ->
    fst (react_all subclass early late reaction ps) = flat_map (fun p => fst (react_in subclass early late reaction p)) ps.
  Proof.
    induction ps as [|p t IH]; intro H; [reflexivity|]. cbn [react_all flat_map].
    destruct (react_in subclass early late reaction p) as [l o] eqn:E.
    assert (forall e, o <> ORaised e) as Ho by (intro e; specialize (H p (or_introl eq_refl) e); rewrite E in H; exact H).
    specialize (IH (fun q Hq => H q (or_intror Hq))).
    destruct o; [| |exfalso; exact (Ho e eq_refl)]; destruct (react_all subclass early late reaction t); cbn [fst] in *; rewrite IH; reflexivity.
  Qed.
End DP.

(* registration keeps registration order within each of the four classes *)
Theorem register_order regs :
  let sel (e o : bool) := map (fun x => fst (fst x)) (filter (fun x => Bool.eqb (snd (fst x)) e && Bool.eqb (snd x) o) regs) in
  r_late (register_all regs) = sel false false /\ r_early (register_all regs) = sel true false /\
  r_out (register_all regs) = sel false true /\ r_early_out (register_all regs) = sel true true.
Proof.
  unfold register_all. cbn zeta.
  assert (forall regs r,
    let sel (e o : bool) := map (fun x => fst (fst x)) (filter (fun x : listener * bool * bool => Bool.eqb (snd (fst x)) e && Bool.eqb (snd x) o) regs) in
    let r' := fold_left (fun r x => register r (fst (fst x)) (snd (fst x)) (snd x)) regs r in
    r_late r' = r_late r ++ sel false false /\ r_early r' = r_early r ++ sel true false /\
    r_out r' = r_out r ++ sel false true /\ r_early_out r' = r_early_out r ++ sel true true) as H.
  { clear. induction regs as [|[[l e] o] t IH]; intro r; cbn zeta.
    - cbn. rewrite !app_nil_r. tauto.
    - cbn [fold_left fst snd]. specialize (IH (register r l e o)). cbn zeta in IH. destruct IH as (H1 & H2 & H3 & H4).
      rewrite H1, H2, H3, H4. cbn [filter fst snd]. destruct e, o; cbn [register r_late r_early r_out r_early_out Bool.eqb andb map fst];
        rewrite <- ?app_assoc; cbn [app]; tauto. }
  specialize (H regs empty_registry). cbn zeta in H. cbn [empty_registry r_late r_early r_out r_early_out app] in H. exact H.
Qed.
