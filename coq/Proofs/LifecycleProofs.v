From Coq Require Import List Bool Arith Lia.
From PyCraft Require Import Model.Lifecycle.
From PyCraft Require Proofs.ConcProofs.
Import ListNotations.

Definition in_loop (s : tstate) : bool := match s with TInLoop | TLeft => true | _ => false end.

Record Inv (c : conn) : Prop := {
  i_loop : forall t th, get c t = Some th -> in_loop (nt_state th) = true -> cur c = Some t;
  i_created : forall t th, get c t = Some th -> nt_state th = TCreated ->
              (nt_prev th = None /\ cur c = Some t) \/ (exists p, nt_prev th = Some p /\ nxt c = Some t);
  i_nxt : forall t, nxt c = Some t -> exists th p pth, get c t = Some th /\ nt_state th = TCreated /\ nt_prev th = Some p /\ get c p = Some pth /\
              ((cur c = Some p /\ nt_state pth <> TFinished) \/ (cur c = None /\ nt_state pth = TFinished));
  i_cur : forall t, cur c = Some t -> exists th, get c t = Some th /\ nt_state th <> TFinished
}.

Lemma get_upd_same c t th v : get c t = Some th -> nth_error (Conc.upd (ths c) t v) t = Some v.
Proof. apply ConcProofs.nth_upd_same. Qed.
Lemma get_upd_other c t v u : u <> t -> nth_error (Conc.upd (ths c) t v) u = nth_error (ths c) u.
Proof. apply ConcProofs.nth_upd_other. Qed.

Lemma get_app_old c x t th : get c t = Some th -> nth_error (ths c ++ [x]) t = Some th.
Proof. intro H. unfold get in H. rewrite nth_error_app1; [exact H|]. apply nth_error_Some. congruence. Qed.
Lemma get_app_cases (l : list nthread) x t th : nth_error (l ++ [x]) t = Some th -> (nth_error l t = Some th) \/ (t = length l /\ th = x).
Proof.
  intro H. destruct (lt_dec t (length l)) as [Hl|Hl].
  - left. rewrite nth_error_app1 in H by exact Hl. exact H.
  - right. rewrite nth_error_app2 in H by lia. destruct (t - length l) as [|k] eqn:E.
    + cbn in H. inversion H. split; [lia|reflexivity].
    + cbn in H. destruct k; discriminate.
Qed.

Theorem Inv_init : Inv init_conn.
Proof. constructor; intros; try discriminate; unfold get in *; cbn in *; destruct t; discriminate. Qed.

Lemma get_set_thread c t v u th : get c t = Some th ->
  get (set_thread c t v) u = if Nat.eqb u t then Some v else get c u.
Proof.
  intro H. unfold get, set_thread. cbn [ths]. destruct (Nat.eqb u t) eqn:E.
  - apply Nat.eqb_eq in E. subst. exact (get_upd_same c t th v H).
  - apply Nat.eqb_neq in E. exact (get_upd_other c t v u E).
Qed.

(* a thread whose state and predecessor are unchanged (only its interrupt flag may differ) *)
Definition same_shape (a b : nthread) : Prop := nt_state a = nt_state b /\ nt_prev a = nt_prev b.

Lemma Inv_reshape c c' : Inv c -> cur c' = cur c -> nxt c' = nxt c ->
  (forall t, match get c t, get c' t with Some a, Some b => same_shape a b | None, None => True | _, _ => False end) -> Inv c'.
Proof.
  intros HI Hc Hn Hs. constructor.
  - intros t th H Hl. specialize (Hs t). rewrite H in Hs. destruct (get c t) as [a|] eqn:E; [|contradiction]. destruct Hs as [S1 S2].
    rewrite Hc. apply (i_loop c HI t a E). rewrite S1. exact Hl.
  - intros t th H Hcr. specialize (Hs t). rewrite H in Hs. destruct (get c t) as [a|] eqn:E; [|contradiction]. destruct Hs as [S1 S2].
    rewrite Hc, Hn, <- S2. apply (i_created c HI t a E). rewrite S1. exact Hcr.
  - intros t H. rewrite Hn in H. destruct (i_nxt c HI t H) as (th & p & pth & G & S & P & Gp & D).
    pose proof (Hs t) as Ht. rewrite G in Ht. destruct (get c' t) as [b|] eqn:Eb; [|contradiction]. destruct Ht as [T1 T2].
    pose proof (Hs p) as Hp. rewrite Gp in Hp. destruct (get c' p) as [pb|] eqn:Ep; [|contradiction]. destruct Hp as [P1 P2].
    exists b, p, pb. rewrite Hc, <- T1, <- T2, <- P1. repeat split; assumption.
  - intros t H. rewrite Hc in H. destruct (i_cur c HI t H) as (th & G & S). pose proof (Hs t) as Ht. rewrite G in Ht.
    destruct (get c' t) as [b|] eqn:Eb; [|contradiction]. destruct Ht as [T1 _]. exists b. split; [reflexivity|]. rewrite <- T1. exact S.
Qed.

Lemma set_interrupt_shape c t : forall u, match get c u, get (set_interrupt c t) u with Some a, Some b => same_shape a b | None, None => True | _, _ => False end.
Proof.
  intro u. unfold set_interrupt. destruct (get c t) as [th|] eqn:E.
  - rewrite (get_set_thread c t _ u th E). destruct (Nat.eqb u t) eqn:Eu.
    + apply Nat.eqb_eq in Eu. subst. rewrite E. split; reflexivity.
    + destruct (get c u); [split; reflexivity|exact I].
  - destruct (get c u); [split; reflexivity|exact I].
Qed.


(* a thread inside the loop leaves it (interrupt seen, or an exception): still "alive", interrupt set *)
Lemma Inv_reshape_loop c t th : Inv c -> get c t = Some th -> nt_state th = TInLoop ->
  Inv (set_thread c t {| nt_state := TLeft; nt_interrupt := true; nt_prev := nt_prev th |}).
Proof.
  intros HI G S.
  assert (forall u, get (set_thread c t {| nt_state := TLeft; nt_interrupt := true; nt_prev := nt_prev th |}) u =
                    if Nat.eqb u t then Some {| nt_state := TLeft; nt_interrupt := true; nt_prev := nt_prev th |} else get c u) as Hg
    by (intro u; apply (get_set_thread c t _ u th G)).
  assert (cur c = Some t) as Hc by (apply (i_loop c HI t th G); rewrite S; reflexivity).
  constructor; cbn [set_thread cur nxt].
  - intros u thu H Hl. rewrite Hg in H. destruct (Nat.eqb u t) eqn:E; [apply Nat.eqb_eq in E; subst; exact Hc|exact (i_loop c HI u thu H Hl)].
  - intros u thu H Hcr. rewrite Hg in H. destruct (Nat.eqb u t) eqn:E; [inversion H; subst thu; discriminate|exact (i_created c HI u thu H Hcr)].
  - intros u H. destruct (i_nxt c HI u H) as (thu & p & pth & Gu & Su & Pu & Gp & D).
    assert (u <> t) as Hne by (intro; subst; rewrite G in Gu; inversion Gu; subst; congruence).
    exists thu. exists p. destruct (Nat.eq_dec p t) as [->|Hpt].
    + exists {| nt_state := TLeft; nt_interrupt := true; nt_prev := nt_prev th |}. rewrite !Hg. rewrite Nat.eqb_refl. apply Nat.eqb_neq in Hne. rewrite Hne.
      repeat split; try assumption. rewrite G in Gp. inversion Gp; subst pth. destruct D as [[D1 D2]|[D1 D2]]; [left; split; [exact D1|discriminate]|congruence].
    + exists pth. rewrite !Hg. apply Nat.eqb_neq in Hne. apply Nat.eqb_neq in Hpt. rewrite Hne, Hpt. repeat split; assumption.
  - intros u H. destruct (i_cur c HI u H) as (thu & Gu & Su). rewrite Hg. destruct (Nat.eqb u t) eqn:E; [eexists; split; [reflexivity|discriminate]|exists thu; split; assumption].
Qed.

Theorem Inv_action c a : Inv c -> Inv (fst (do_action c a)).
Proof.
  intro HI. destruct a as [ok| |t|t|t|t]; cbn [do_action].
  - (* connect *)
    destruct (active c) eqn:Ea; [exact HI|]. destruct ok; cbn [negb fst].
    2:{ apply (Inv_reshape c); try reflexivity; [exact HI|]. intro t. unfold get. cbn [ths]. destruct (nth_error (ths c) t); [split; reflexivity|exact I]. }
    assert (nxt c = None) as Hn by (unfold active in Ea; destruct (nxt c); [discriminate|reflexivity]).
    destruct (cur c) as [p|] eqn:Ec; cbn [fst].
    + (* a predecessor exists (interrupted): the new thread waits for it *)
      destruct (i_cur c HI p Ec) as (pth & Gp & Sp).
      constructor; unfold get; cbn [ths cur nxt].
      * intros t th H Hl. apply get_app_cases in H. destruct H as [H|[-> ->]]; [rewrite <- Ec; exact (i_loop c HI t th H Hl)|discriminate].
      * intros t th H Hcr. apply get_app_cases in H. destruct H as [H|[-> ->]].
        -- destruct (i_created c HI t th H Hcr) as [[A B]|(q & A & B)]; [left; rewrite <- Ec; tauto|congruence].
        -- right. exists p. split; reflexivity.
      * intros t H. inversion H; subst t. exists {| nt_state := TCreated; nt_interrupt := false; nt_prev := Some p |}, p, pth.
        rewrite nth_error_app2 by lia. rewrite Nat.sub_diag. cbn [nth_error nt_state nt_prev]. repeat split. { exact (get_app_old c _ p pth Gp). } left. split; [reflexivity|exact Sp].
      * intros t H. inversion H; subst t. exists pth. split; [exact (get_app_old c _ p pth Gp)|exact Sp].
    + constructor; unfold get; cbn [ths cur nxt].
      * intros t th H Hl. apply get_app_cases in H. destruct H as [H|[-> ->]]; [|discriminate]. pose proof (i_loop c HI t th H Hl). congruence.
      * intros t th H Hcr. apply get_app_cases in H. destruct H as [H|[-> ->]].
        -- destruct (i_created c HI t th H Hcr) as [[A B]|(q & A & B)]; congruence.
        -- left. split; reflexivity.
      * discriminate.
      * intros t H. inversion H; subst t. eexists. rewrite nth_error_app2 by lia. rewrite Nat.sub_diag. cbn [nth_error]. split; [reflexivity|discriminate].
  - (* disconnect *)
    cbn [fst]. set (c1 := match nxt c with Some t => set_interrupt c t | None => match cur c with Some t => set_interrupt c t | None => c end end).
    assert (cur c1 = cur c /\ nxt c1 = nxt c /\ forall u, match get c u, get c1 u with Some a, Some b => same_shape a b | None, None => True | _, _ => False end) as (A & B & S).
    { unfold c1. destruct (nxt c) as [t|] eqn:En; [|destruct (cur c) as [t|] eqn:Ec].
      - split; [|split]; [| |apply set_interrupt_shape]; unfold set_interrupt; destruct (get c t); cbn [set_thread cur nxt]; congruence.
      - split; [|split]; [| |apply set_interrupt_shape]; unfold set_interrupt; destruct (get c t); cbn [set_thread cur nxt]; congruence.
      - split; [congruence|]. split; [congruence|]. intro u. destruct (get c u); [split; reflexivity|exact I]. }
    apply (Inv_reshape c); [exact HI|exact A|exact B|]. intro u. specialize (S u). unfold get in *. cbn [ths]. exact S.
  - (* begin *)
    destruct (get c t) as [th|] eqn:G; [|exact HI]. destruct (nt_state th) eqn:S; try exact HI. destruct (nt_prev th) as [p|] eqn:P.
    + destruct (get c p) as [pth|] eqn:Gp; [|exact HI]. destruct (nt_state pth) eqn:Sp; try exact HI. cbn [fst].
      destruct (i_created c HI t th G S) as [[A _]|(q & A & Hnx)]; [congruence|].
      destruct (i_nxt c HI t Hnx) as (th0 & p0 & pth0 & G0 & _ & P0 & Gp0 & D). rewrite G in G0. inversion G0; subst th0. rewrite P in P0. inversion P0; subst p0.
      rewrite Gp in Gp0. inversion Gp0; subst pth0. destruct D as [[_ D]|[Dc _]]; [congruence|].
      assert (forall u thu, nth_error (Conc.upd (ths c) t {| nt_state := TInLoop; nt_interrupt := nt_interrupt th; nt_prev := Some p |}) u = Some thu ->
                (u = t /\ nt_state thu = TInLoop) \/ (u <> t /\ get c u = Some thu)) as Hcases.
      { intros u thu H. destruct (Nat.eq_dec u t) as [->|Hne]; [rewrite (get_upd_same c t th _ G) in H; inversion H; left; split; reflexivity|].
        rewrite get_upd_other in H by exact Hne. right. split; assumption. }
      constructor; unfold get; cbn [ths cur nxt].
      * intros u thu H Hl. destruct (Hcases u thu H) as [[-> _]|[Hne Hu]]; [reflexivity|]. pose proof (i_loop c HI u thu Hu Hl). congruence.
      * intros u thu H Hcr. destruct (Hcases u thu H) as [[-> Hs]|[Hne Hu]]; [congruence|].
        destruct (i_created c HI u thu Hu Hcr) as [[_ B]|(q' & _ & B)]; congruence.
      * discriminate.
      * intros u H. inversion H; subst u. eexists. split; [exact (get_upd_same c t th _ G)|discriminate].
    + cbn [fst]. destruct (i_created c HI t th G S) as [[_ Hc]|(q & A & _)]; [|congruence].
      assert (forall u, get (set_thread c t {| nt_state := TInLoop; nt_interrupt := nt_interrupt th; nt_prev := None |}) u =
                        if Nat.eqb u t then Some {| nt_state := TInLoop; nt_interrupt := nt_interrupt th; nt_prev := None |} else get c u) as Hg
        by (intro u; apply (get_set_thread c t _ u th G)).
      constructor; cbn [set_thread cur nxt].
      * intros u thu H Hl. rewrite Hg in H. destruct (Nat.eqb u t) eqn:E; [apply Nat.eqb_eq in E; subst; exact Hc|exact (i_loop c HI u thu H Hl)].
      * intros u thu H Hcr. rewrite Hg in H. destruct (Nat.eqb u t) eqn:E; [inversion H; subst thu; discriminate|exact (i_created c HI u thu H Hcr)].
      * intros u H. destruct (i_nxt c HI u H) as (thu & p & pth & Gu & Su & Pu & Gp & D).
        assert (u <> t) as Hne by (intro; subst; rewrite G in Gu; inversion Gu; subst; congruence).
        exists thu. exists p. destruct (Nat.eq_dec p t) as [->|Hpt].
        -- exists {| nt_state := TInLoop; nt_interrupt := nt_interrupt th; nt_prev := None |}. rewrite !Hg. rewrite Nat.eqb_refl. apply Nat.eqb_neq in Hne. rewrite Hne.
           repeat split; try assumption. rewrite G in Gp. inversion Gp; subst pth. destruct D as [[D1 D2]|[D1 D2]]; [left; split; [exact D1|discriminate]|congruence].
        -- exists pth. rewrite !Hg. apply Nat.eqb_neq in Hne. apply Nat.eqb_neq in Hpt. rewrite Hne, Hpt. repeat split; assumption.
      * intros u H. destruct (i_cur c HI u H) as (thu & Gu & Su). rewrite Hg. destruct (Nat.eqb u t) eqn:E; [eexists; split; [reflexivity|discriminate]|exists thu; split; assumption].
  - (* leave *)
    destruct (get c t) as [th|] eqn:G; [|exact HI]. destruct (nt_state th) eqn:S; try exact HI. destruct (nt_interrupt th); [|exact HI]. cbn [fst].
    apply (Inv_reshape_loop c t th); assumption.
  - (* fault *)
    destruct (get c t) as [th|] eqn:G; [|exact HI]. destruct (nt_state th) eqn:S; try exact HI. cbn [fst].
    apply (Inv_reshape_loop c t th); assumption.
  - (* finally *)
    destruct (get c t) as [th|] eqn:G; [|exact HI]. destruct (nt_state th) eqn:S; try exact HI. cbn [fst].
    assert (cur c = Some t) as Hc by (apply (i_loop c HI t th G); rewrite S; reflexivity).
    assert (forall u thu, nth_error (Conc.upd (ths c) t {| nt_state := TFinished; nt_interrupt := nt_interrupt th; nt_prev := nt_prev th |}) u = Some thu ->
              (u = t /\ nt_state thu = TFinished) \/ (u <> t /\ get c u = Some thu)) as Hcases.
    { intros u thu H. destruct (Nat.eq_dec u t) as [->|Hne]; [rewrite (get_upd_same c t th _ G) in H; inversion H; left; split; reflexivity|].
      rewrite get_upd_other in H by exact Hne. right. split; assumption. }
    constructor; unfold get; cbn [ths cur nxt].
    + intros u thu H Hl. destruct (Hcases u thu H) as [[-> Hs]|[Hne Hu]]; [rewrite Hs in Hl; discriminate|]. pose proof (i_loop c HI u thu Hu Hl). congruence.
    + intros u thu H Hcr. destruct (Hcases u thu H) as [[-> Hs]|[Hne Hu]]; [congruence|].
      destruct (i_created c HI u thu Hu Hcr) as [[_ B]|(q & A & B)]; [congruence|]. right. exists q. split; assumption.
    + intros u H. destruct (i_nxt c HI u H) as (thu & p & pth & Gu & Su & Pu & Gp & D).
      assert (u <> t) as Hne by (intro; subst; rewrite G in Gu; inversion Gu; subst; congruence).
      exists thu, p. destruct D as [[D1 D2]|[D1 _]]; [|congruence]. assert (p = t) as -> by congruence.
      exists {| nt_state := TFinished; nt_interrupt := nt_interrupt th; nt_prev := nt_prev th |}.
      rewrite get_upd_other by exact Hne. rewrite (get_upd_same c t th _ G). repeat split; try assumption. right. split; reflexivity.
    + discriminate.
Qed.

(* a thread that has entered the loop has a finished predecessor: the successor enters only after its
   predecessor has left (and run its finally clause); predecessors are earlier threads *)
Definition Inv2 (c : conn) : Prop :=
  forall t th p, get c t = Some th -> nt_prev th = Some p ->
    p < t /\ exists pth, get c p = Some pth /\ (nt_state th <> TCreated -> nt_state pth = TFinished).

Lemma Inv2_upd c c' t th v : Inv2 c -> get c t = Some th -> ths c' = Conc.upd (ths c) t v -> nt_prev v = nt_prev th ->
  (nt_state th = TFinished -> nt_state v = TFinished) ->
  (nt_state v <> TCreated -> nt_state th <> TCreated \/ (forall p, nt_prev th = Some p -> exists pth, get c p = Some pth /\ nt_state pth = TFinished)) ->
  Inv2 c'.
Proof.
  intros H2 G Hths Hp Hfin Hbeg u thu p Gu Pu.
  assert (forall w, get c' w = if Nat.eqb w t then Some v else get c w) as Hg.
  { intro w. unfold get. rewrite Hths. destruct (Nat.eqb w t) eqn:E; [apply Nat.eqb_eq in E; subst; exact (get_upd_same c t th v G)|apply Nat.eqb_neq in E; exact (get_upd_other c t v w E)]. }
  rewrite Hg in Gu. destruct (Nat.eqb u t) eqn:Eu.
  - apply Nat.eqb_eq in Eu. subst u. inversion Gu; subst thu. rewrite Hp in Pu.
    destruct (H2 t th p G Pu) as (Hlt & pth & Gp & Hf). split; [exact Hlt|].
    assert (p <> t) as Hne by lia. exists pth. rewrite Hg. apply Nat.eqb_neq in Hne. rewrite Hne. split; [exact Gp|].
    intro Sv. destruct (Hbeg Sv) as [Hs|Hs]; [exact (Hf Hs)|]. destruct (Hs p Pu) as (pth' & Gp' & Sf). rewrite Gp in Gp'. inversion Gp'; subst. exact Sf.
  - destruct (H2 u thu p Gu Pu) as (Hlt & pth & Gp & Hf). split; [exact Hlt|]. rewrite Hg. destruct (Nat.eqb p t) eqn:Ep.
    + apply Nat.eqb_eq in Ep. subst p. exists v. split; [reflexivity|]. intro Su. rewrite G in Gp. inversion Gp; subst pth. apply Hfin. exact (Hf Su).
    + exists pth. split; assumption.
Qed.

Theorem Inv2_action c a : Inv c -> Inv2 c -> Inv2 (fst (do_action c a)).
Proof.
  intros HI H2. destruct a as [ok| |t|t|t|t]; cbn [do_action].
  - destruct (active c); [exact H2|]. destruct ok; cbn [negb fst]; [|exact H2].
    assert (forall x c', ths c' = ths c ++ [{| nt_state := TCreated; nt_interrupt := false; nt_prev := x |}] ->
              (forall p, x = Some p -> exists pth, get c p = Some pth) -> Inv2 c') as Happ.
    { intros x c' Hths Hx u thu p Gu Pu. unfold get in *. rewrite Hths in *. apply get_app_cases in Gu. destruct Gu as [Gu|[-> ->]].
      - destruct (H2 u thu p Gu Pu) as (Hlt & pth & Gp & Hf). split; [exact Hlt|]. exists pth. split; [exact (get_app_old c _ p pth Gp)|exact Hf].
      - cbn [nt_prev] in Pu. destruct (Hx p Pu) as (pth & Gp). split; [apply nth_error_Some; unfold get in Gp; congruence|].
        exists pth. split; [exact (get_app_old c _ p pth Gp)|]. cbn. congruence. }
    destruct (cur c) as [q|] eqn:Ec; cbn [fst]; eapply Happ; try reflexivity.
    + intros p Hp. inversion Hp; subst p. destruct (i_cur c HI q Ec) as (pth & Gp & _). exists pth. exact Gp.
    + discriminate.
  - cbn [fst]. assert (forall t c0, Inv2 c0 -> Inv2 (set_interrupt c0 t)) as Hsi.
    { intros t c0 H0. unfold set_interrupt. destruct (get c0 t) as [th|] eqn:G; [|exact H0].
      eapply (Inv2_upd c0 _ t th _ H0 G); [reflexivity|reflexivity|tauto|]. intro Sv. left. exact Sv. }
    assert (Inv2 (match nxt c with Some t => set_interrupt c t | None => match cur c with Some t => set_interrupt c t | None => c end end)) as H3
      by (destruct (nxt c); [apply Hsi; exact H2|destruct (cur c); [apply Hsi; exact H2|exact H2]]).
    intros u thu p Gu Pu. exact (H3 u thu p Gu Pu).
  - destruct (get c t) as [th|] eqn:G; [|exact H2]. destruct (nt_state th) eqn:S; try exact H2. destruct (nt_prev th) as [p|] eqn:P.
    + destruct (get c p) as [pth|] eqn:Gp; [|exact H2]. destruct (nt_state pth) eqn:Sp; try exact H2. cbn [fst].
      eapply (Inv2_upd c _ t th _ H2 G); [reflexivity|cbn; congruence|congruence|].
      intros _. right. intros p0 Hp0. rewrite P in Hp0. inversion Hp0; subst p0. exists pth. split; assumption.
    + cbn [fst]. eapply (Inv2_upd c _ t th _ H2 G); [reflexivity|cbn; congruence|congruence|]. intros _. right. intros p0 Hp0. congruence.
  - destruct (get c t) as [th|] eqn:G; [|exact H2]. destruct (nt_state th) eqn:S; try exact H2. destruct (nt_interrupt th); [|exact H2]. cbn [fst].
    eapply (Inv2_upd c _ t th _ H2 G); [reflexivity|reflexivity|congruence|]. intros _. left. congruence.
  - destruct (get c t) as [th|] eqn:G; [|exact H2]. destruct (nt_state th) eqn:S; try exact H2. cbn [fst].
    eapply (Inv2_upd c _ t th _ H2 G); [reflexivity|reflexivity|congruence|]. intros _. left. congruence.
  - destruct (get c t) as [th|] eqn:G; [|exact H2]. destruct (nt_state th) eqn:S; try exact H2. cbn [fst].
    eapply (Inv2_upd c _ t th _ H2 G); [reflexivity|reflexivity|reflexivity|]. intros _. left. congruence.
Qed.

Theorem Inv_reachable : forall acts, Inv (run_actions acts init_conn) /\ Inv2 (run_actions acts init_conn).
Proof.
  intro acts. unfold run_actions. assert (Inv init_conn /\ Inv2 init_conn) as H0.
  { split; [exact Inv_init|]. intros t th p G. unfold get in G. cbn in G. destruct t; discriminate. }
  revert H0. generalize init_conn. induction acts as [|a r IH]; intros c [H1 H2]; [split; assumption|].
  cbn [fold_left]. apply IH. split; [apply Inv_action; exact H1|apply Inv2_action; assumption].
Qed.

(* ---------- the property ---------- *)
(* at most one networking thread is inside the read/write loop (or between the loop and its finally clause) *)
Theorem one_active_thread acts t1 th1 t2 th2 :
  get (run_actions acts init_conn) t1 = Some th1 -> get (run_actions acts init_conn) t2 = Some th2 ->
  in_loop (nt_state th1) = true -> in_loop (nt_state th2) = true -> t1 = t2.
Proof.
  intros G1 G2 L1 L2. destruct (Inv_reachable acts) as [HI _].
  pose proof (i_loop _ HI t1 th1 G1 L1). pose proof (i_loop _ HI t2 th2 G2 L2). congruence.
Qed.

(* a successor has entered the loop only after its predecessor finished *)
Theorem successor_after_predecessor acts t th p :
  get (run_actions acts init_conn) t = Some th -> nt_prev th = Some p -> nt_state th <> TCreated ->
  exists pth, get (run_actions acts init_conn) p = Some pth /\ nt_state pth = TFinished.
Proof.
  intros G P S. destruct (Inv_reachable acts) as [_ H2]. destruct (H2 t th p G P) as (_ & pth & Gp & Hf). exists pth. split; [exact Gp|exact (Hf S)].
Qed.

(* connect() / status() on an active connection: InvalidState, nothing changes *)
Theorem refusal c ok : active c = true -> do_action c (AConnect ok) = (c, RInvalidState).
Proof. intro H. cbn [do_action]. rewrite H. reflexivity. Qed.

(* after the last thread has finished - by server disconnect, user disconnect or error - or after a refused
   TCP connect, the connection is not active and connect() is accepted *)
Theorem reusable acts : let c := run_actions acts init_conn in
  (forall t th, get c t = Some th -> nt_state th = TFinished) -> active c = false /\ snd (do_action c (AConnect true)) = ROk.
Proof.
  cbn zeta. intro Hall. destruct (Inv_reachable acts) as [HI _]. set (c := run_actions acts init_conn) in *.
  assert (active c = false) as Ha.
  { unfold active. destruct (nxt c) as [t|] eqn:En.
    - destruct (i_nxt c HI t En) as (th & p & pth & G & S & _). rewrite (Hall t th G) in S. discriminate.
    - destruct (cur c) as [t|] eqn:Ec; [|reflexivity]. destruct (i_cur c HI t Ec) as (th & G & S). rewrite (Hall t th G) in S. congruence. }
  split; [exact Ha|]. cbn [do_action]. rewrite Ha. cbn [negb]. destruct (cur c); reflexivity.
Qed.
Theorem refused_connect_keeps_reusable c : active c = false ->
  let c' := fst (do_action c (AConnect false)) in snd (do_action c (AConnect false)) = RRefused /\ active c' = false /\ ths c' = ths c.
Proof. intro H. cbn [do_action]. rewrite H. cbn. repeat split. unfold active in *. cbn. exact H. Qed.

(* disconnect() returns normally in every state and leaves the thread that would run next interrupted *)
Theorem disconnect_total c : snd (do_action c ADisconnect) = ROk.
Proof. reflexivity. Qed.
Theorem disconnect_interrupts c t th : Inv c -> get c t = Some th ->
  (nxt c = Some t \/ (nxt c = None /\ cur c = Some t)) ->
  interrupted (fst (do_action c ADisconnect)) t = true /\ active (fst (do_action c ADisconnect)) = (match nxt c with Some _ => true | None => false end).
Proof.
  intros HI G H. cbn [do_action fst]. unfold interrupted, active, get. cbn [ths nxt cur].
  destruct H as [Hn|[Hn Hc]]; rewrite Hn; [|rewrite Hc]; unfold set_interrupt; rewrite G; cbn [set_thread ths nxt cur]; rewrite ?Hn, ?Hc;
    rewrite (get_upd_same c t th _ G); cbn [nt_interrupt]; split; try reflexivity.
  unfold interrupted, get. cbn [ths]. rewrite (get_upd_same c t th _ G). reflexivity.
Qed.
