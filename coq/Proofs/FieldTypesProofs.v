From Coq Require Import ZArith List Bool Lia.
From PyCraft Require Import Base.Res Model.Tables Model.Prim Model.VarInt Model.Utf8 Model.Position Model.SignedHex Model.FieldTypes.
From PyCraft Require Import Spec.VarIntSpec Proofs.PrimProofs Proofs.VarIntProofs Proofs.Utf8Proofs Proofs.PositionProofs.
Import ListNotations.
Open Scope Z_scope.

Section RT.
  Variable c : cctx.
  Variable nbt_split : list Z -> option (list Z * list Z).

  (* what decoding an encoding returns: the value itself, except for the lossy types *)
  Fixpoint canon (t : ftype) (v : value) {struct t} : value :=
    match t, v with
    | TAngle, VQ num k => VQ (45 * angle_byte num k) 5
    | TFixed _ n, VQ num k => VQ (fixed_int num k n) n
    | TArray _ e, VList vs => VList (map (canon e) vs)
    | TCustom 3, VTup [VQ a ka; VQ b kb; VQ d kd] => VTup [VQ (fixed_int a ka 3) 3; VQ (fixed_int b kb 3) 3; VQ (fixed_int d kd 3) 3]
    | _, _ => v
    end.

  (* round trip with exact consumption, and totality of the encoder, in one statement *)
  Definition RT (t : ftype) (v : value) : Prop :=
    exists bs, enc c t v = Ok bs /\ bs <> [] /\ forall rest, dec c nbt_split t (bs ++ rest) = Ok (canon t v, rest).

  Definition int_type (t : ftype) : bool :=
    match t with TUByte | TByte | TShort | TUShort | TInt | TLong | TULong | TVarInt | TVarLong => true | _ => false end.

  Definition int_range (t : ftype) (z : Z) : Prop :=
    match t with
    | TUByte => 0 <= z < 256 | TByte => -128 <= z < 128 | TShort => -32768 <= z < 32768 | TUShort => 0 <= z < 65536
    | TInt => -2147483648 <= z < 2147483648 | TLong => -9223372036854775808 <= z < 9223372036854775808
    | TULong => 0 <= z < 18446744073709551616
    | TVarInt => 0 <= z < 128 ^ 6 | TVarLong => 0 <= z < 128 ^ 11
    | _ => False
    end.

  Definition in_dom_custom (cid : Z) (v : value) : Prop :=
    if cid =? 0 then match v with VTup [VInt x; VInt y; VInt z] => -128 <= x < 128 /\ -128 <= y < 128 /\ -128 <= z < 128 | _ => False end
    else if cid =? 1 then match v with VTup [VInt x; VInt y; VInt z] => - 2^21 <= x < 2^21 /\ - 2^19 <= y < 2^19 /\ - 2^21 <= z < 2^21 | _ => False end
    else if cid =? 2 then match v with VTup [VInt x; VInt y; VInt z; VInt sid] =>
        0 <= x < 16 /\ 0 <= z < 16 /\
        (if c_rec_new c then 0 <= y < 16 /\ 0 <= sid < 2 ^ 52 else 0 <= y < 256 /\ 0 <= sid < 128 ^ 6) | _ => False end
    else if cid =? 3 then match v with VTup [VQ a ka; VQ b kb; VQ d kd] =>
        int_range TInt (fixed_int a ka 3) /\ int_range TInt (fixed_int b kb 3) /\ int_range TInt (fixed_int d kd 3) | _ => False end
    else if cid =? 4 then match v with VInt z => if c_pitch_float c then 0 <= z < 2 ^ 32 else -128 <= z < 128 | _ => False end
    else False.

  Fixpoint in_dom (t : ftype) (v : value) {struct t} : Prop :=
    match t, v with
    | TBool, VBool _ => True
    | TFloat, VInt z => 0 <= z < 2 ^ 32
    | TDouble, VInt z => 0 <= z < 2 ^ 64
    | TString, VStr cps => forallb is_scalar cps = true /\ (forall b, utf8_enc cps = Ok b -> Z.of_nat (length b) < 128 ^ 6)
    | TAngle, VQ num k => 0 <= k
    | TFixed base n, VQ num k => int_type base = true /\ int_range base (fixed_int num k n)
    | TShortBytes, VBytes b => Z.of_nat (length b) < 32768
    | TVarBytes, VBytes b => Z.of_nat (length b) < 128 ^ 6
    | TPosition, VTup [VInt x; VInt y; VInt z] => - 2^25 <= x < 2^25 /\ - 2^11 <= y < 2^11 /\ - 2^25 <= z < 2^25
    | TArray l e, VList vs => int_type l = true /\ int_range l (Z.of_nat (length vs)) /\ Forall (in_dom e) vs
    | TCustom cid, v => in_dom_custom cid v
    | TNBT, VBytes b => b <> [] /\ forall rest, nbt_split (b ++ rest) = Some (b, rest)
    | TUUID, VStr s => exists b, length b = 16%nat /\ Forall (fun x => 0 <= x < 256) b /\ s = uuid_text b
    | TUByte, VInt z | TByte, VInt z | TShort, VInt z | TUShort, VInt z | TInt, VInt z | TLong, VInt z
    | TULong, VInt z | TVarInt, VInt z | TVarLong, VInt z => int_range t z
    | _, _ => False
    end.

  (* ---- scalar integers ---- *)
  Lemma rt_scalar signed k z :
    (0 < k)%nat -> int_lo signed k <= z < int_hi signed k ->
    exists bs, enc_scalar_int signed k (VInt z) = Ok bs /\ bs <> [] /\
      forall rest, dec_scalar_int signed k (bs ++ rest) = Ok (VInt z, rest).
  Proof.
    intros Hk Hz. destruct (enc_int_total signed k z Hz) as (bs & Hbs).
    exists bs. unfold enc_scalar_int, dec_scalar_int. cbn [as_int rbind bind]. split; [exact Hbs|]. split.
    - pose proof (enc_int_spec _ _ _ _ Hbs) as (Hl & _). destruct bs; [cbn in Hl; lia|discriminate].
    - intro rest. rewrite (dec_enc_int signed k z bs rest Hk Hbs). reflexivity.
  Qed.

  Lemma rt_varint maxb z :
    0 <= maxb -> 0 <= z < 128 ^ (maxb + 1) ->
    exists bs, varint_send z = Ok bs /\ bs <> [] /\ forall rest, varint_read maxb (bs ++ rest) = Ok (z, rest).
  Proof.
    intros Hm Hz. destruct (send_canonical z ltac:(lia)) as (bs & Hs & Hc). exists bs. split; [exact Hs|]. split.
    - pose proof (canonical_nonempty _ _ Hc). destruct bs; [cbn in *; lia|discriminate].
    - intro rest. apply roundtrip; assumption.
  Qed.

  Lemma rt_int_type t z : int_type t = true -> int_range t z -> RT t (VInt z).
  Proof.
    intros Ht Hz. unfold RT.
    destruct t; try discriminate; cbn [int_range] in Hz; cbn [enc dec canon].
    - apply (rt_scalar false 1); [lia|]. cbn. lia.
    - apply (rt_scalar true 1); [lia|]. cbn. lia.
    - apply (rt_scalar true 2); [lia|]. cbn. lia.
    - apply (rt_scalar false 2); [lia|]. cbn. lia.
    - apply (rt_scalar true 4); [lia|]. cbn. lia.
    - apply (rt_scalar true 8); [lia|]. cbn. lia.
    - apply (rt_scalar false 8); [lia|]. cbn. lia.
    - destruct (rt_varint 5 z ltac:(lia) Hz) as (bs & Hs & Hne & Hr). exists bs. cbn [as_int rbind bind].
      split; [exact Hs|]. split; [exact Hne|]. intro rest. rewrite Hr. reflexivity.
    - destruct (rt_varint 10 z ltac:(lia) Hz) as (bs & Hs & Hne & Hr). exists bs. cbn [as_int rbind bind].
      split; [exact Hs|]. split; [exact Hne|]. intro rest. rewrite Hr. reflexivity.
  Qed.

  Lemma canon_int t z : int_type t = true -> canon t (VInt z) = VInt z.
  Proof. destruct t; try discriminate; reflexivity. Qed.

  Lemma take_z_app e (b rest : list Z) : take_z e (Z.of_nat (length b)) (b ++ rest) = Ok (b, rest).
  Proof.
    unfold take_z, take_res. destruct (Z.of_nat (length b) <? 0) eqn:E1; [lia|].
    rewrite app_length, Nat2Z.inj_add.
    destruct (Z.of_nat (length b) + Z.of_nat (length rest) <? Z.of_nat (length b)) eqn:E2; [lia|].
    rewrite Nat2Z.id, take_app by reflexivity. reflexivity.
  Qed.

  (* ---- UUID ---- *)
  Lemma unhex_hexchar d : 0 <= d < 16 -> unhex (hexchar d) = Some d.
  Proof.
    intro Hd. unfold hexchar, unhex. destruct (d <? 10) eqn:E.
    - apply Z.ltb_lt in E. replace ((48 <=? 48 + d) && (48 + d <=? 57)) with true; [f_equal; lia|].
      symmetry. apply andb_true_iff. split; apply Z.leb_le; lia.
    - apply Z.ltb_ge in E. replace ((48 <=? 87 + d) && (87 + d <=? 57)) with false.
      2:{ symmetry. apply andb_false_iff. right. apply Z.leb_gt. lia. }
      replace ((97 <=? 87 + d) && (87 + d <=? 102)) with true; [f_equal; lia|].
      symmetry. apply andb_true_iff. split; apply Z.leb_le; lia.
  Qed.

  Lemma unhex_pairs_hex2 b t : 0 <= b < 256 ->
    unhex_pairs (hexchar (b / 16) :: hexchar (b mod 16) :: t) = option_map (cons b) (unhex_pairs t).
  Proof.
    intro Hb. cbn [unhex_pairs].
    rewrite !unhex_hexchar.
    - destruct (unhex_pairs t); cbn [option_map]; [|reflexivity]. f_equal. f_equal.
      pose proof (Z.div_mod b 16 ltac:(lia)). lia.
    - apply Z.mod_pos_bound. lia.
    - split; [apply Z.div_pos; lia|apply Z.div_lt_upper_bound; lia].
  Qed.

  Lemma uuid_parse_text b : length b = 16%nat -> Forall (fun x => 0 <= x < 256) b -> uuid_parse (uuid_text b) = Some b.
  Proof.
    intros Hl Hwf.
    do 16 (destruct b as [|?b b]; [discriminate Hl|]). destruct b; [|discriminate Hl].
    repeat match goal with H : Forall _ (_ :: _) |- _ => inversion H; clear H; subst end.
    unfold uuid_text, hex2. cbn [app]. unfold uuid_parse. cbn [Z.eqb Pos.eqb andb].
    rewrite !unhex_pairs_hex2 by assumption. reflexivity.
  Qed.

  Lemma uuid_text_nonempty b : length b = 16%nat -> uuid_text b <> [] /\ b <> [].
  Proof.
    intro Hl. do 16 (destruct b as [|?b b]; [discriminate Hl|]). destruct b; [|discriminate Hl].
    split; discriminate.
  Qed.

  (* ---- arrays ---- *)
  Lemma rt_list e vs :
    Forall (RT e) vs ->
    exists body, enc_list (enc c e) vs = Ok body /\ (length vs <= length body)%nat /\
      forall rest fuel, (length vs <= fuel)%nat ->
        dec_loop (dec c nbt_split e) fuel (Z.of_nat (length vs)) (body ++ rest) = Ok (map (canon e) vs, rest).
  Proof.
    induction 1 as [|v vs (bs & Hbs & Hne & Hrt) _ (body & Hbody & Hlen & Hloop)].
    - exists []. split; [reflexivity|]. split; [cbn; lia|]. intros rest fuel _. destruct fuel; reflexivity.
    - exists (bs ++ body). cbn [enc_list]. rewrite Hbs, Hbody. cbn [rbind bind]. split; [reflexivity|]. split.
      + rewrite app_length. cbn [length]. destruct bs; [congruence|cbn [length]; lia].
      + intros rest fuel Hf. cbn [length] in Hf. destruct fuel as [|g]; [lia|].
        cbn [dec_loop length]. rewrite Nat2Z.inj_succ.
        destruct (Z.succ (Z.of_nat (length vs)) <=? 0) eqn:E; [lia|].
        rewrite <- app_assoc, Hrt. cbn [rbind bind fst snd].
        replace (Z.succ (Z.of_nat (length vs)) - 1) with (Z.of_nat (length vs)) by lia.
        rewrite Hloop by lia. reflexivity.
  Qed.

  (* ---- the general statement ---- *)
  Theorem rt_all : forall t v, in_dom t v -> RT t v.
  Proof.
    induction t as [ | | | | | | | | | | | | | | |base IHbase n| | | | | |lt IHl et IHe|cid]; intros v Hd.
    - (* TBool *) destruct v; try contradiction. exists (enc_bool b). split; [reflexivity|]. split; [discriminate|].
      intro rest. cbn [dec]. rewrite dec_enc_bool. reflexivity.
    - destruct v; try contradiction. apply rt_int_type; [reflexivity|exact Hd].
    - destruct v; try contradiction. apply rt_int_type; [reflexivity|exact Hd].
    - destruct v; try contradiction. apply rt_int_type; [reflexivity|exact Hd].
    - destruct v; try contradiction. apply rt_int_type; [reflexivity|exact Hd].
    - destruct v; try contradiction. apply rt_int_type; [reflexivity|exact Hd].
    - destruct v; try contradiction. apply rt_int_type; [reflexivity|exact Hd].
    - destruct v; try contradiction. apply rt_int_type; [reflexivity|exact Hd].
    - (* TFloat *) destruct v; try contradiction. cbn [in_dom] in Hd. unfold RT. cbn [enc dec canon].
      apply (rt_scalar false 4); [lia|]. cbn. lia.
    - (* TDouble *) destruct v; try contradiction. cbn [in_dom] in Hd. unfold RT. cbn [enc dec canon].
      apply (rt_scalar false 8); [lia|]. cbn. lia.
    - destruct v; try contradiction. apply rt_int_type; [reflexivity|exact Hd].
    - destruct v; try contradiction. apply rt_int_type; [reflexivity|exact Hd].
    - (* TString *) destruct v as [| |cps| | | |]; try contradiction. destruct Hd as [Hsc Hlen].
      destruct (utf8_enc_ok cps Hsc) as (b & Hb). specialize (Hlen b Hb).
      destruct (rt_varint 5 (Z.of_nat (length b)) ltac:(lia) ltac:(lia)) as (l & Hl & Hlne & Hlr).
      exists (l ++ b). cbn [enc]. rewrite Hb. cbn [rbind bind]. rewrite Hl. cbn [rbind bind].
      split; [reflexivity|]. split; [destruct l; [congruence|discriminate]|].
      intro rest. cbn [dec canon]. rewrite <- app_assoc, Hlr. cbn [rbind bind fst snd].
      rewrite take_z_app. cbn [rbind bind fst snd]. rewrite (utf8_roundtrip cps b Hb). reflexivity.
    - (* TUUID *) destruct v as [| |s| | | |]; try contradiction. destruct Hd as (b & Hl & Hwf & ->).
      exists b. cbn [enc]. rewrite uuid_parse_text by assumption. split; [reflexivity|].
      split; [apply uuid_text_nonempty; assumption|].
      intro rest. cbn [dec canon]. unfold take_res. rewrite take_app by assumption. reflexivity.
    - (* TAngle *) destruct v as [| | | |num k| |]; try contradiction.
      assert (0 <= angle_byte num k < 256) as Hb by (unfold angle_byte; apply Z.mod_pos_bound; lia).
      destruct (enc_int_total false 1 (angle_byte num k) ltac:(cbn; lia)) as (bs & Hbs).
      exists bs. cbn [enc]. split; [exact Hbs|]. split.
      + pose proof (enc_int_spec _ _ _ _ Hbs) as (Hl & _). destruct bs; [cbn in Hl; lia|discriminate].
      + intro rest. cbn [dec canon]. rewrite (dec_enc_int false 1 _ bs rest ltac:(lia) Hbs). reflexivity.
    - (* TFixed *) destruct v as [| | | |num k| |]; try contradiction. destruct Hd as [Hit Hr].
      destruct (rt_int_type base (fixed_int num k n) Hit Hr) as (bs & Hbs & Hne & Hrt).
      exists bs. cbn [enc]. split; [exact Hbs|]. split; [exact Hne|].
      intro rest. cbn [dec canon]. rewrite Hrt. cbn [rbind bind fst snd]. rewrite canon_int by assumption. reflexivity.
    - (* TShortBytes *) destruct v as [| | |b| | |]; try contradiction. cbn [in_dom] in Hd.
      destruct (enc_int_total true 2 (Z.of_nat (length b)) ltac:(cbn; lia)) as (l & Hl).
      exists (l ++ b). cbn [enc]. rewrite Hl. cbn [rbind bind]. split; [reflexivity|]. split.
      + pose proof (enc_int_spec _ _ _ _ Hl) as (Hll & _). destruct l; [cbn in Hll; lia|discriminate].
      + intro rest. cbn [dec canon]. rewrite <- app_assoc. rewrite (dec_enc_int true 2 _ l (b ++ rest) ltac:(lia) Hl).
        cbn [rbind bind fst snd]. rewrite take_z_app. reflexivity.
    - (* TVarBytes *) destruct v as [| | |b| | |]; try contradiction. cbn [in_dom] in Hd.
      destruct (rt_varint 5 (Z.of_nat (length b)) ltac:(lia) ltac:(lia)) as (l & Hl & Hlne & Hlr).
      exists (l ++ b). cbn [enc]. cbn [rbind bind]. rewrite Hl. cbn [rbind bind]. split; [reflexivity|].
      split; [destruct l; [congruence|discriminate]|].
      intro rest. cbn [dec canon]. rewrite <- app_assoc, Hlr. cbn [rbind bind fst snd]. rewrite take_z_app. reflexivity.
    - (* TTrailing *) destruct v; contradiction.
    - (* TPosition *) destruct v as [| | | | | |vs]; try contradiction.
      destruct vs as [|[| x| | | | |] [|[| y| | | | |] [|[| z| | | | |] [|]]]]; try contradiction.
      destruct Hd as (Hx & Hy & Hz).
      pose proof (pos_word_range (c_pos_zy c) x y z) as Hw.
      destruct (enc_int_total false 8 (pos_word (c_pos_zy c) x y z) ltac:(cbn; cbn in Hw; lia)) as (bs & Hbs).
      exists bs. cbn [enc]. split; [exact Hbs|]. split.
      + pose proof (enc_int_spec _ _ _ _ Hbs) as (Hl & _). destruct bs; [cbn in Hl; lia|discriminate].
      + intro rest. cbn [dec canon]. rewrite (dec_enc_int false 8 _ bs rest ltac:(lia) Hbs). cbn [rbind bind fst snd].
        rewrite pos_roundtrip by assumption. reflexivity.
    - (* TNBT *) destruct v as [| | |b| | |]; try contradiction. destruct Hd as [Hne Hsp].
      exists b. split; [reflexivity|]. split; [exact Hne|]. intro rest. cbn [dec canon]. rewrite Hsp. reflexivity.
    - (* TArray *) destruct v as [| | | | |vs|]; try contradiction. destruct Hd as (Hit & Hr & Hall).
      destruct (rt_int_type lt (Z.of_nat (length vs)) Hit Hr) as (l & Hl & Hlne & Hlr).
      assert (Forall (RT et) vs) as Hrts.
      { clear - IHe Hall. induction Hall; constructor; auto. }
      destruct (rt_list et vs Hrts) as (body & Hbody & Hlen & Hloop).
      exists (l ++ body). cbn [enc]. rewrite Hl. cbn [rbind bind]. rewrite Hbody. cbn [rbind bind].
      split; [reflexivity|]. split; [destruct l; [congruence|discriminate]|].
      intro rest. cbn [dec canon]. rewrite <- app_assoc, Hlr. cbn [rbind bind fst snd].
      rewrite canon_int by assumption. rewrite Hloop.
      + reflexivity.
      + rewrite app_length. lia.
    - (* TCustom *) cbn [in_dom] in Hd. unfold in_dom_custom in Hd.
      destruct (cid =? 0) eqn:E0.
      { apply Z.eqb_eq in E0. subst cid.
        destruct v as [| | | | | |vs]; try contradiction.
        destruct vs as [|[| x| | | | |] [|[| y| | | | |] [|[| z| | | | |] [|]]]]; try contradiction.
        destruct Hd as (Hx & Hy & Hz).
        destruct (rt_scalar true 1 x ltac:(lia) ltac:(cbn; lia)) as (bx & Hbx & Hnx & Hrx).
        destruct (rt_scalar true 1 y ltac:(lia) ltac:(cbn; lia)) as (by_ & Hby & Hny & Hry).
        destruct (rt_scalar true 1 z ltac:(lia) ltac:(cbn; lia)) as (bz & Hbz & Hnz & Hrz).
        exists (bx ++ by_ ++ bz). cbn [enc enc_custom enc3]. rewrite Hbx, Hby, Hbz. cbn [rbind bind].
        split; [reflexivity|]. split; [destruct bx; [congruence|discriminate]|].
        intro rest. cbn [dec dec_custom canon]. unfold dec_scalar_int in *.
        rewrite <- !app_assoc.
        specialize (Hrx (by_ ++ bz ++ rest)). specialize (Hry (bz ++ rest)). specialize (Hrz rest).
        destruct (dec_int true 1 (bx ++ by_ ++ bz ++ rest)) as [[x' r1]| |]; cbn [rbind bind fst snd] in Hrx; try discriminate.
        inversion Hrx; subst. cbn [rbind bind fst snd].
        destruct (dec_int true 1 (by_ ++ bz ++ rest)) as [[y' r2]| |]; cbn [rbind bind fst snd] in Hry; try discriminate.
        inversion Hry; subst. cbn [rbind bind fst snd].
        destruct (dec_int true 1 (bz ++ rest)) as [[z' r3]| |]; cbn [rbind bind fst snd] in Hrz; try discriminate.
        inversion Hrz; subst. reflexivity. }
      destruct (cid =? 1) eqn:E1.
      { apply Z.eqb_eq in E1. subst cid.
        destruct v as [| | | | | |vs]; try contradiction.
        destruct vs as [|[| x| | | | |] [|[| y| | | | |] [|[| z| | | | |] [|]]]]; try contradiction.
        destruct Hd as (Hx & Hy & Hz).
        pose proof (csp_word_range x y z) as Hw.
        destruct (enc_int_total false 8 (csp_word x y z) ltac:(cbn; cbn in Hw; lia)) as (bs & Hbs).
        exists bs. cbn [enc enc_custom]. split; [exact Hbs|]. split.
        - pose proof (enc_int_spec _ _ _ _ Hbs) as (Hl & _). destruct bs; [cbn in Hl; lia|discriminate].
        - intro rest. cbn [dec dec_custom canon]. rewrite (dec_enc_int false 8 _ bs rest ltac:(lia) Hbs). cbn [rbind bind fst snd].
          rewrite csp_roundtrip by assumption. reflexivity. }
      destruct (cid =? 2) eqn:E2.
      { apply Z.eqb_eq in E2. subst cid.
        destruct v as [| | | | | |vs]; try contradiction.
        destruct vs as [|[| x| | | | |] [|[| y| | | | |] [|[| z| | | | |] [|[| sid| | | | |] [|]]]]]; try contradiction.
        destruct Hd as (Hx & Hz & Hys). unfold RT. cbn [enc enc_custom dec dec_custom canon].
        destruct (c_rec_new c) eqn:Enew.
        - destruct Hys as [Hy Hs].
          destruct (rec_roundtrip x y z sid Hx Hy Hz ltac:(lia)) as [Hrt Hnn].
          assert (rec_word x y z sid < 128 ^ (10 + 1)) as Hlt.
          { rewrite rec_word_spec by lia. unfold Spec.PositionSpec.rec_spec.
            pose proof (Z.mod_pos_bound x 16 ltac:(lia)). pose proof (Z.mod_pos_bound y 16 ltac:(lia)).
            pose proof (Z.mod_pos_bound z 16 ltac:(lia)). change (128 ^ (10 + 1)) with 151115727451828646838272. lia. }
          destruct (rt_varint 10 (rec_word x y z sid) ltac:(lia) ltac:(lia)) as (bs & Hbs & Hne & Hr).
          exists bs. split; [exact Hbs|]. split; [exact Hne|]. intro rest. rewrite Hr. cbn [rbind bind fst snd].
          rewrite Hrt. reflexivity.
        - destruct Hys as [Hy Hs].
          destruct (rec_hbyte_roundtrip x z Hx Hz) as [Hrt Hhb].
          destruct (rt_scalar false 1 (rec_hbyte x z) ltac:(lia) ltac:(cbn; lia)) as (bh & Hbh & Hnh & Hrh).
          destruct (rt_scalar false 1 y ltac:(lia) ltac:(cbn; lia)) as (by_ & Hby & Hny & Hry).
          destruct (rt_varint 5 sid ltac:(lia) ltac:(lia)) as (bsid & Hbs & Hns & Hrs).
          unfold enc_scalar_int, dec_scalar_int in *. cbn [as_int rbind bind] in Hbh, Hby.
          exists (bh ++ by_ ++ bsid). rewrite Hbh, Hby, Hbs. cbn [rbind bind]. split; [reflexivity|].
          split; [destruct bh; [congruence|discriminate]|].
          intro rest. rewrite <- !app_assoc.
          specialize (Hrh (by_ ++ bsid ++ rest)). specialize (Hry (bsid ++ rest)).
          destruct (dec_int false 1 (bh ++ by_ ++ bsid ++ rest)) as [[h' r1]| |]; cbn [rbind bind fst snd] in Hrh; try discriminate.
          inversion Hrh; subst. cbn [rbind bind fst snd].
          destruct (dec_int false 1 (by_ ++ bsid ++ rest)) as [[y' r2]| |]; cbn [rbind bind fst snd] in Hry; try discriminate.
          inversion Hry; subst. cbn [rbind bind fst snd]. rewrite Hrs. cbn [rbind bind fst snd].
          rewrite Hrt. reflexivity. }
      destruct (cid =? 3) eqn:E3.
      { apply Z.eqb_eq in E3. subst cid.
        destruct v as [| | | | | |vs]; try contradiction.
        destruct vs as [|[| | | |a ka| |] [|[| | | |b kb| |] [|[| | | |d kd| |] [|]]]]; try contradiction.
        destruct Hd as (Ha & Hb & Hdd). cbn [int_range] in Ha, Hb, Hdd.
        destruct (enc_int_total true 4 (fixed_int a ka 3) ltac:(cbn; lia)) as (ba & Hba).
        destruct (enc_int_total true 4 (fixed_int b kb 3) ltac:(cbn; lia)) as (bb & Hbb).
        destruct (enc_int_total true 4 (fixed_int d kd 3) ltac:(cbn; lia)) as (bd & Hbd).
        exists (ba ++ bb ++ bd). cbn [enc enc_custom enc3]. rewrite Hba, Hbb, Hbd. cbn [rbind bind].
        split; [reflexivity|]. split.
        - pose proof (enc_int_spec _ _ _ _ Hba) as (Hl & _). destruct ba; [cbn in Hl; lia|discriminate].
        - intro rest. cbn [dec dec_custom canon]. rewrite <- !app_assoc.
          rewrite (dec_enc_int true 4 _ ba (bb ++ bd ++ rest) ltac:(lia) Hba). cbn [rbind bind fst snd].
          rewrite (dec_enc_int true 4 _ bb (bd ++ rest) ltac:(lia) Hbb). cbn [rbind bind fst snd].
          rewrite (dec_enc_int true 4 _ bd rest ltac:(lia) Hbd). reflexivity. }
      destruct (cid =? 4) eqn:E4; [|contradiction].
      apply Z.eqb_eq in E4. subst cid. destruct v as [|z| | | | |]; try contradiction.
      unfold RT. cbn [enc enc_custom dec dec_custom canon]. destruct (c_pitch_float c).
      + apply (rt_scalar false 4); [lia|]. cbn. lia.
      + apply (rt_scalar true 1); [lia|]. cbn. lia.
  Qed.

  (* ================= strict prefixes of an encoding never decode ================= *)

  Definition sprefix (p bs : list Z) : Prop := exists q, q <> [] /\ bs = p ++ q.

  Lemma sprefix_length p bs : sprefix p bs -> (length p < length bs)%nat.
  Proof. intros (q & Hq & ->). rewrite app_length. destruct q; [congruence|cbn; lia]. Qed.

  Lemma sprefix_app a b p : sprefix p (a ++ b) -> sprefix p a \/ exists p', p = a ++ p' /\ sprefix p' b.
  Proof.
    intros (q & Hq & H). symmetry in H. apply app_eq_app in H. destruct H as (l & [[-> ->]|[-> ->]]).
    - right. exists l. split; [reflexivity|]. exists q. split; [assumption|reflexivity].
    - destruct l as [|x l].
      + right. exists []. rewrite !app_nil_r. split; [reflexivity|]. exists b. cbn in *. split; [assumption|reflexivity].
      + left. exists (x :: l). split; [discriminate|reflexivity].
  Qed.

  (* the self-delimiting library types C02 lists: everything except the trailing array, NBT
     (delegated to pynbt) and the nested packet-specific types (C05) *)
  Fixpoint self_delim (t : ftype) : bool :=
    match t with
    | TTrailing | TNBT | TCustom _ => false
    | TFixed b _ => self_delim b
    | TArray l e => self_delim l && self_delim e
    | _ => true
    end.

  Definition PE (t : ftype) (v : value) : Prop :=
    forall bs, enc c t v = Ok bs -> forall p, sprefix p bs -> exists e, dec c nbt_split t p = Err e.

  Lemma pe_int signed k z bs p :
    enc_int signed k z = Ok bs -> sprefix p bs -> dec_int signed k p = Err StructError.
  Proof.
    intros Hb Hp. pose proof (enc_int_spec _ _ _ _ Hb) as (Hl & _). apply sprefix_length in Hp.
    apply dec_int_prefix. lia.
  Qed.

  Lemma pe_scalar signed k z bs p :
    enc_scalar_int signed k (VInt z) = Ok bs -> sprefix p bs -> exists e, dec_scalar_int signed k p = Err e.
  Proof.
    unfold enc_scalar_int, dec_scalar_int. cbn [as_int rbind bind]. intros Hb Hp.
    rewrite (pe_int _ _ _ _ _ Hb Hp). eexists. reflexivity.
  Qed.

  Lemma pe_varint maxb z bs p :
    0 <= maxb -> 0 <= z < 128 ^ (maxb + 1) -> varint_send z = Ok bs -> sprefix p bs -> varint_read maxb p = Err EOFError.
  Proof.
    intros Hm Hz Hs (q & Hq & Hbs).
    destruct (send_canonical z ltac:(lia)) as (bs' & Hs' & Hc). rewrite Hs in Hs'. inversion Hs'; subst bs'.
    destruct (canonical_shape _ _ Hc) as (pre & b & Hsh & Hpre & Hb & _ & _).
    pose proof (canonical_length_iff _ _ Hc (Z.to_nat (maxb + 1)) ltac:(lia)) as Hiff.
    rewrite Z2Nat.id in Hiff by lia. destruct Hz as [_ Hz]. apply Hiff in Hz.
    (* p is a prefix of pre *)
    assert (exists r, pre = p ++ r) as (r & Hr).
    { rewrite Hsh in Hbs. destruct (exists_last Hq) as (q' & x & ->).
      rewrite app_assoc in Hbs. apply app_inj_tail in Hbs. destruct Hbs as [Hbs _]. exists q'. exact Hbs. }
    subst pre. apply read_eof; [lia| |].
    - apply Forall_app in Hpre. tauto.
    - rewrite Hsh, !app_length in Hz. cbn [length] in Hz. lia.
  Qed.

  Lemma take_z_short e (n : Z) (p : list Z) : Z.of_nat (length p) < n -> take_z e n p = Err e.
  Proof.
    intro H. unfold take_z. destruct (n <? 0) eqn:E1; [lia|].
    destruct (Z.of_nat (length p) <? n) eqn:E2; [reflexivity|lia].
  Qed.

  Lemma pe_int_type t z : int_type t = true -> int_range t z -> PE t (VInt z).
  Proof.
    intros Ht Hz bs Hb p Hp. destruct t; try discriminate; cbn [enc dec] in *;
      try (eapply pe_scalar; eassumption).
    - cbn [as_int rbind bind] in Hb. rewrite (pe_varint 5 z bs p ltac:(lia) Hz Hb Hp). eexists; reflexivity.
    - cbn [as_int rbind bind] in Hb. rewrite (pe_varint 10 z bs p ltac:(lia) Hz Hb Hp). eexists; reflexivity.
  Qed.

  (* a length-prefixed payload: prefix l, payload b, payload read with take_z *)
  Lemma pe_list e vs :
    Forall (fun v => RT e v /\ PE e v) vs ->
    forall body, enc_list (enc c e) vs = Ok body -> forall p, sprefix p body ->
    forall fuel, (length p < fuel)%nat ->
    exists er, dec_loop (dec c nbt_split e) fuel (Z.of_nat (length vs)) p = Err er.
  Proof.
    induction 1 as [|v vs [(bs & Hbs & Hne & Hrt) Hpe] _ IH]; intros body Hbody p Hp fuel Hf.
    - cbn in Hbody. inversion Hbody; subst. destruct Hp as (q & Hq & Hnil). destruct p; destruct q; try discriminate. congruence.
    - cbn [enc_list] in Hbody. rewrite Hbs in Hbody. cbn [rbind bind] in Hbody.
      destruct (enc_list (enc c e) vs) as [rest_b| |] eqn:Erest; cbn [rbind bind] in Hbody; try discriminate.
      inversion Hbody; subst body. clear Hbody.
      destruct fuel as [|g]; [lia|]. cbn [dec_loop length]. rewrite Nat2Z.inj_succ.
      destruct (Z.succ (Z.of_nat (length vs)) <=? 0) eqn:E; [lia|].
      apply sprefix_app in Hp. destruct Hp as [Hp|(p' & -> & Hp')].
      + destruct (Hpe bs Hbs p Hp) as (er & Her). rewrite Her. eexists; reflexivity.
      + rewrite Hrt. cbn [rbind bind fst snd].
        replace (Z.succ (Z.of_nat (length vs)) - 1) with (Z.of_nat (length vs)) by lia.
        rewrite app_length in Hf. destruct bs as [|b0 bs]; [congruence|]. cbn [length] in Hf.
        destruct (IH rest_b eq_refl p' Hp' g ltac:(lia)) as (er & Her). rewrite Her. eexists; reflexivity.
  Qed.

  Lemma enc3_split f a b d bs : enc3 f [a; b; d] = Ok bs ->
    exists x y z, f a = Ok x /\ f b = Ok y /\ f d = Ok z /\ bs = x ++ y ++ z.
  Proof.
    cbn [enc3]. destruct (f a) as [x| |]; cbn [rbind bind]; try discriminate.
    destruct (f b) as [y| |]; cbn [rbind bind]; try discriminate.
    destruct (f d) as [z| |]; cbn [rbind bind]; try discriminate.
    intro H. inversion H. exists x, y, z. repeat split; reflexivity.
  Qed.

  Theorem pe_all : forall t v, self_delim t = true -> in_dom t v -> PE t v.
  Proof.
    induction t as [ | | | | | | | | | | | | | | |base IHbase n| | | | | |lt IHl et IHe|cid]; intros v Hsd Hd.
    - (* TBool *) destruct v; try contradiction. intros bs Hb p Hp. cbn [enc] in Hb. inversion Hb; subst.
      apply sprefix_length in Hp. destruct p; [|cbn in Hp; lia]. cbn. eexists; reflexivity.
    - destruct v; try contradiction. apply pe_int_type; [reflexivity|exact Hd].
    - destruct v; try contradiction. apply pe_int_type; [reflexivity|exact Hd].
    - destruct v; try contradiction. apply pe_int_type; [reflexivity|exact Hd].
    - destruct v; try contradiction. apply pe_int_type; [reflexivity|exact Hd].
    - destruct v; try contradiction. apply pe_int_type; [reflexivity|exact Hd].
    - destruct v; try contradiction. apply pe_int_type; [reflexivity|exact Hd].
    - destruct v; try contradiction. apply pe_int_type; [reflexivity|exact Hd].
    - destruct v; try contradiction. intros bs Hb p Hp. cbn [enc dec] in *. eapply pe_scalar; eassumption.
    - destruct v; try contradiction. intros bs Hb p Hp. cbn [enc dec] in *. eapply pe_scalar; eassumption.
    - destruct v; try contradiction. apply pe_int_type; [reflexivity|exact Hd].
    - destruct v; try contradiction. apply pe_int_type; [reflexivity|exact Hd].
    - (* TString *) destruct v as [| |cps| | | |]; try contradiction. destruct Hd as [Hsc Hlen].
      intros bs Hb p Hp. cbn [enc] in Hb.
      destruct (utf8_enc cps) as [b| |] eqn:Eb; cbn [rbind bind] in Hb; try discriminate.
      specialize (Hlen b eq_refl).
      destruct (varint_send (Z.of_nat (length b))) as [l| |] eqn:El; cbn [rbind bind] in Hb; try discriminate.
      inversion Hb; subst bs. cbn [dec].
      apply sprefix_app in Hp. destruct Hp as [Hp|(p' & -> & Hp')].
      + rewrite (pe_varint 5 (Z.of_nat (length b)) l p ltac:(lia) ltac:(lia) El Hp). eexists; reflexivity.
      + destruct (rt_varint 5 (Z.of_nat (length b)) ltac:(lia) ltac:(lia)) as (l' & Hl' & _ & Hr).
        rewrite El in Hl'. inversion Hl'; subst l'. rewrite Hr. cbn [rbind bind fst snd].
        apply sprefix_length in Hp'. rewrite take_z_short by lia. eexists; reflexivity.
    - (* TUUID *) destruct v as [| |s| | | |]; try contradiction. destruct Hd as (b & Hl & Hwf & ->).
      intros bs Hb p Hp. cbn [enc] in Hb. rewrite uuid_parse_text in Hb by assumption. inversion Hb; subst bs.
      apply sprefix_length in Hp. cbn [dec]. unfold take_res. rewrite take_short by lia. eexists; reflexivity.
    - (* TAngle *) destruct v as [| | | |num k| |]; try contradiction. intros bs Hb p Hp. cbn [enc dec] in *.
      rewrite (pe_int _ _ _ _ _ Hb Hp). eexists; reflexivity.
    - (* TFixed *) destruct v as [| | | |num k| |]; try contradiction. destruct Hd as [Hit Hr].
      intros bs Hb p Hp. cbn [enc dec] in *.
      destruct (pe_int_type base _ Hit Hr bs Hb p Hp) as (e & He). rewrite He. eexists; reflexivity.
    - (* TShortBytes *) destruct v as [| | |b| | |]; try contradiction. cbn [in_dom] in Hd.
      intros bs Hb p Hp. cbn [enc] in Hb.
      destruct (enc_int true 2 (Z.of_nat (length b))) as [l| |] eqn:El; cbn [rbind bind] in Hb; try discriminate.
      inversion Hb; subst bs. cbn [dec].
      apply sprefix_app in Hp. destruct Hp as [Hp|(p' & -> & Hp')].
      + rewrite (pe_int _ _ _ _ _ El Hp). eexists; reflexivity.
      + rewrite (dec_enc_int true 2 _ l p' ltac:(lia) El). cbn [rbind bind fst snd].
        apply sprefix_length in Hp'. rewrite take_z_short by lia. eexists; reflexivity.
    - (* TVarBytes *) destruct v as [| | |b| | |]; try contradiction. cbn [in_dom] in Hd.
      intros bs Hb p Hp. cbn [enc] in Hb.
      destruct (varint_send (Z.of_nat (length b))) as [l| |] eqn:El; cbn [rbind bind] in Hb; try discriminate.
      inversion Hb; subst bs. cbn [dec].
      apply sprefix_app in Hp. destruct Hp as [Hp|(p' & -> & Hp')].
      + rewrite (pe_varint 5 (Z.of_nat (length b)) l p ltac:(lia) ltac:(lia) El Hp). eexists; reflexivity.
      + destruct (rt_varint 5 (Z.of_nat (length b)) ltac:(lia) ltac:(lia)) as (l' & Hl' & _ & Hr).
        rewrite El in Hl'. inversion Hl'; subst l'. rewrite Hr. cbn [rbind bind fst snd].
        apply sprefix_length in Hp'. rewrite take_z_short by lia. eexists; reflexivity.
    - destruct v; contradiction.
    - (* TPosition *) destruct v as [| | | | | |vs]; try contradiction.
      destruct vs as [|[| x| | | | |] [|[| y| | | | |] [|[| z| | | | |] [|]]]]; try contradiction.
      intros bs Hb p Hp. cbn [enc dec] in *. rewrite (pe_int _ _ _ _ _ Hb Hp). eexists; reflexivity.
    - (* TNBT: not self-delimiting in the sense of C02 (delegated to the NBT library); excluded *)
      discriminate Hsd.
    - (* TArray *) destruct v as [| | | | |vs|]; try contradiction. destruct Hd as (Hit & Hr & Hall).
      intros bs Hb p Hp. cbn [enc] in Hb.
      destruct (enc c lt (VInt (Z.of_nat (length vs)))) as [l| |] eqn:El; cbn [rbind bind] in Hb; try discriminate.
      destruct (enc_list (enc c et) vs) as [body| |] eqn:Ebody; cbn [rbind bind] in Hb; try discriminate.
      inversion Hb; subst bs. cbn [dec].
      apply sprefix_app in Hp. destruct Hp as [Hp|(p' & -> & Hp')].
      + destruct (pe_int_type lt _ Hit Hr l El p Hp) as (e & He). rewrite He. eexists; reflexivity.
      + destruct (rt_int_type lt _ Hit Hr) as (l' & Hl' & _ & Hrt). rewrite El in Hl'. inversion Hl'; subst l'.
        rewrite Hrt. cbn [rbind bind fst snd]. rewrite canon_int by assumption.
        assert (Forall (fun v => RT et v /\ PE et v) vs) as Hboth.
        { cbn [self_delim] in Hsd. apply andb_true_iff in Hsd. destruct Hsd as [_ Hse].
          clear - IHe Hall Hse. induction Hall; constructor; auto. split; [apply rt_all; assumption|apply IHe; assumption]. }
        destruct (pe_list et vs Hboth body Ebody p' Hp' (S (length p')) ltac:(lia)) as (er & Her).
        rewrite Her. eexists; reflexivity.
    - (* TCustom *) discriminate Hsd.
  Qed.
End RT.
