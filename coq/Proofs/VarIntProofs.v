From Coq Require Import ZArith List Lia Bool.
From PyCraft Require Import Base.Res Base.BitLemmas Model.VarInt Spec.VarIntSpec.
Import ListNotations.
Open Scope Z_scope.

Lemma cont_land b : (Z.land b 128 =? 0) = negb (cont b).
Proof. unfold cont. rewrite negb_involutive. apply land_128_zero. Qed.

Lemma value_of_nonneg bs : 0 <= value_of bs.
Proof.
  induction bs as [|b t IH]; cbn [value_of]; [lia|].
  pose proof (Z.mod_pos_bound b 128). lia.
Qed.

Lemma value_of_bound bs : value_of bs < 128 ^ Z.of_nat (length bs).
Proof.
  induction bs as [|b t IH]; cbn [value_of length]; [cbn; lia|].
  rewrite Nat2Z.inj_succ, Z.pow_succ_r by lia.
  pose proof (Z.mod_pos_bound b 128). lia.
Qed.

Lemma value_of_app pre post :
  value_of (pre ++ post) = value_of pre + 128 ^ Z.of_nat (length pre) * value_of post.
Proof.
  induction pre as [|b t IH]; cbn [value_of app length].
  - change (Z.of_nat 0) with 0. rewrite Z.pow_0_r. lia.
  - rewrite IH, Nat2Z.inj_succ, Z.pow_succ_r by lia. ring.
Qed.

Lemma pow128 c : 0 <= c -> 2 ^ (7 * c) = 128 ^ c.
Proof. intro H. rewrite Z.pow_mul_r by lia. reflexivity. Qed.

(* ---- read ---- *)

Lemma read_step_number number count b :
  0 <= count -> 0 <= number < 128 ^ count ->
  Z.lor number (Z.shiftl (Z.land b 127) (7 * count)) = number + (b mod 128) * 128 ^ count.
Proof.
  intros Hc Hn. rewrite land_127. rewrite lor_disjoint_add by (rewrite ?pow128; lia).
  rewrite pow128 by lia. reflexivity.
Qed.

Lemma read_loop_ok maxb pre : forall fuel number count b rest,
  0 <= count -> 0 <= number < 128 ^ count ->
  Forall (fun x => cont x = true) pre -> cont b = false ->
  count + Z.of_nat (length pre) <= maxb ->
  (length pre < fuel)%nat ->
  read_loop maxb fuel number count (pre ++ b :: rest)
  = Ok (number + 128 ^ count * value_of (pre ++ [b]), rest).
Proof.
  induction pre as [|p pre IH]; intros fuel number count b rest Hc Hn Hpre Hb Hlen Hfuel.
  - destruct fuel as [|f]; [cbn in Hfuel; lia|].
    cbn [app read_loop value_of]. rewrite cont_land, Hb. cbn [negb].
    rewrite read_step_number by assumption. f_equal. f_equal. ring.
  - destruct fuel as [|f]; [cbn in Hfuel; lia|].
    inversion Hpre as [|? ? Hp Hpre']; subst.
    cbn [app read_loop]. rewrite cont_land, Hp. cbn [negb].
    cbn [length] in Hlen, Hfuel. rewrite Nat2Z.inj_succ in Hlen.
    destruct (count + 1 >? maxb) eqn:Hgt; [lia|].
    rewrite read_step_number by assumption.
    pose proof (Z.mod_pos_bound p 128).
    assert (128 ^ (count + 1) = 128 * 128 ^ count) as Hpow by (rewrite Z.pow_add_r by lia; lia).
    rewrite IH; try assumption; try lia.
    + f_equal. f_equal. cbn [app value_of]. rewrite Hpow. ring.
    + rewrite Hpow. nia.
Qed.

Lemma read_loop_eof maxb pre : forall fuel number count,
  Forall (fun x => cont x = true) pre ->
  count + Z.of_nat (length pre) <= maxb ->
  (length pre < fuel)%nat ->
  read_loop maxb fuel number count pre = Err EOFError.
Proof.
  induction pre as [|p pre IH]; intros fuel number count Hpre Hlen Hfuel.
  - destruct fuel; [cbn in Hfuel; lia|]. reflexivity.
  - destruct fuel as [|f]; [cbn in Hfuel; lia|].
    inversion Hpre as [|? ? Hp Hpre']; subst.
    cbn [read_loop]. rewrite cont_land, Hp. cbn [negb].
    cbn [length] in Hlen, Hfuel. rewrite Nat2Z.inj_succ in Hlen.
    destruct (count + 1 >? maxb) eqn:Hgt; [lia|].
    apply IH; try assumption; lia.
Qed.

Lemma read_loop_toolong maxb pre : forall fuel number count rest,
  Forall (fun x => cont x = true) pre ->
  count + Z.of_nat (length pre) = maxb + 1 ->
  (length pre <= fuel)%nat -> (0 < length pre)%nat ->
  read_loop maxb fuel number count (pre ++ rest) = Err ValueError.
Proof.
  induction pre as [|p pre IH]; intros fuel number count rest Hpre Hlen Hfuel Hpos.
  - cbn in Hpos; lia.
  - destruct fuel as [|f]; [cbn in Hfuel; lia|].
    inversion Hpre as [|? ? Hp Hpre']; subst.
    cbn [app read_loop]. rewrite cont_land, Hp. cbn [negb].
    cbn [length] in Hlen, Hfuel. rewrite Nat2Z.inj_succ in Hlen.
    destruct (count + 1 >? maxb) eqn:Hgt; [reflexivity|].
    apply IH; try assumption; try lia.
Qed.

Theorem read_ok maxb pre b rest :
  0 <= maxb -> Forall (fun x => cont x = true) pre -> cont b = false ->
  Z.of_nat (length pre) <= maxb ->
  varint_read maxb (pre ++ b :: rest) = Ok (value_of (pre ++ [b]), rest).
Proof.
  intros Hm Hpre Hb Hlen. unfold varint_read.
  rewrite read_loop_ok by (first [assumption | lia | (cbn; lia)]).
  f_equal. f_equal. lia.
Qed.

Theorem read_eof maxb pre :
  0 <= maxb -> Forall (fun x => cont x = true) pre -> Z.of_nat (length pre) <= maxb ->
  varint_read maxb pre = Err EOFError.
Proof. intros. unfold varint_read. apply read_loop_eof; try assumption; lia. Qed.

Theorem read_toolong maxb pre rest :
  0 <= maxb -> Forall (fun x => cont x = true) pre -> Z.of_nat (length pre) = maxb + 1 ->
  varint_read maxb (pre ++ rest) = Err ValueError.
Proof. intros. unfold varint_read. apply read_loop_toolong; try assumption; lia. Qed.

(* every byte string falls in exactly one of the three cases *)
Lemma split_cont (bs : list Z) :
  (exists pre b rest, bs = pre ++ b :: rest /\ Forall (fun x => cont x = true) pre /\ cont b = false)
  \/ Forall (fun x => cont x = true) bs.
Proof.
  induction bs as [|b t IH].
  - right. constructor.
  - destruct (cont b) eqn:Hb.
    + destruct IH as [(pre & b' & rest & -> & Hpre & Hb')|Hall].
      * left. exists (b :: pre), b', rest. repeat split; try assumption. constructor; assumption.
      * right. constructor; assumption.
    + left. exists [], b, t. repeat split; try assumption. constructor.
Qed.

Lemma Forall_firstn {A} (P : A -> Prop) n l : Forall P l -> Forall P (firstn n l).
Proof. revert n; induction l as [|a l IH]; intros [|n] H; cbn; try constructor; inversion H; subst; auto. Qed.

(* Totality, the byte bound and non-negativity in one statement:
   the result is determined by the first (maxb+1) bytes at most, is never OutOfFuel,
   and a returned number is non-negative with [rest] the suffix right after the terminator. *)
Theorem read_bounded maxb bs :
  0 <= maxb ->
  (exists pre b rest, bs = pre ++ b :: rest /\ Z.of_nat (length pre) <= maxb /\
      varint_read maxb bs = Ok (value_of (pre ++ [b]), rest) /\ 0 <= value_of (pre ++ [b]))
  \/ varint_read maxb bs = Err EOFError
  \/ (exists pre rest, bs = pre ++ rest /\ Z.of_nat (length pre) = maxb + 1 /\
      forall rest', varint_read maxb (pre ++ rest') = Err ValueError).
Proof.
  intro Hm.
  destruct (split_cont bs) as [(pre & b & rest & -> & Hpre & Hb)|Hall].
  - destruct (Z_le_dec (Z.of_nat (length pre)) maxb) as [Hle|Hgt].
    + left. exists pre, b, rest. repeat split; try assumption.
      * apply read_ok; assumption.
      * apply value_of_nonneg.
    + right. right. exists (firstn (Z.to_nat (maxb + 1)) pre), (skipn (Z.to_nat (maxb + 1)) pre ++ b :: rest).
      split. { rewrite app_assoc, firstn_skipn. reflexivity. }
      assert (Z.of_nat (length (firstn (Z.to_nat (maxb + 1)) pre)) = maxb + 1) as Hl.
      { rewrite firstn_length. lia. }
      split; [exact Hl|]. intro rest'. apply read_toolong; try assumption. apply Forall_firstn; assumption.
  - destruct (Z_le_dec (Z.of_nat (length bs)) maxb) as [Hle|Hgt].
    + right. left. apply read_eof; assumption.
    + right. right. exists (firstn (Z.to_nat (maxb + 1)) bs), (skipn (Z.to_nat (maxb + 1)) bs).
      split. { rewrite firstn_skipn. reflexivity. }
      assert (Z.of_nat (length (firstn (Z.to_nat (maxb + 1)) bs)) = maxb + 1) as Hl.
      { rewrite firstn_length. lia. }
      split; [exact Hl|]. intro rest'. apply read_toolong; try assumption. apply Forall_firstn; assumption.
Qed.

(* ---- send ---- *)

Lemma send_loop_canonical : forall fuel v,
  0 <= v < 128 ^ Z.of_nat fuel -> (0 < fuel)%nat ->
  exists bs, send_loop fuel v = Ok bs /\ canonical v bs.
Proof.
  induction fuel as [|f IH]; intros v Hv Hf; [lia|].
  cbn [send_loop]. rewrite land_127, shiftr_div by lia. change (2 ^ 7) with 128.
  pose proof (Z.mod_pos_bound v 128) as Hmod.
  destruct (v / 128 =? 0) eqn:Hz.
  - apply Z.eqb_eq in Hz. rewrite Hz. cbn [Z.gtb Z.compare].
    rewrite Z.lor_0_r.
    assert (v < 128) as Hlt by (apply Z.div_small_iff in Hz; lia).
    rewrite Z.mod_small by lia.
    exists [v]. split; [reflexivity|]. constructor. lia.
  - apply Z.eqb_neq in Hz.
    assert (0 < v / 128) as Hpos by (pose proof (Z.div_pos v 128); lia).
    assert (128 <= v) as Hge. { destruct (Z_lt_dec v 128) as [Hs|]; [|lia]. rewrite Z.div_small in Hz; lia. }
    destruct (v / 128 >? 0) eqn:Hg; [|lia].
    rewrite lor_small_128 by lia.
    rewrite Nat2Z.inj_succ, Z.pow_succ_r in Hv by lia.
    destruct (IH (v / 128)) as (bs & -> & Hc).
    + split; [lia|]. apply Z.div_lt_upper_bound; lia.
    + destruct f; [|lia]. cbn in Hv. lia.
    + exists ((v mod 128 + 128) :: bs). split; [reflexivity|]. constructor; assumption.
Qed.

Lemma send_fuel_enough v : 0 <= v -> v < 128 ^ Z.of_nat (send_fuel v).
Proof.
  intro Hv. unfold send_fuel. rewrite Nat2Z.inj_succ, Z2Nat.id.
  2:{ pose proof (Z.log2_nonneg v). pose proof (Z.div_pos (Z.log2 v) 7). lia. }
  destruct (Z.eq_dec v 0) as [->|Hnz]. { cbn. lia. }
  pose proof (Z.log2_spec v ltac:(lia)) as [_ Hup].
  eapply Z.lt_le_trans; [exact Hup|].
  rewrite <- pow128.
  2:{ pose proof (Z.log2_nonneg v). pose proof (Z.div_pos (Z.log2 v) 7). lia. }
  apply Z.pow_le_mono_r; [lia|].
  pose proof (Z.log2_nonneg v). pose proof (Z.div_mod (Z.log2 v) 7 ltac:(lia)).
  pose proof (Z.mod_pos_bound (Z.log2 v) 7). lia.
Qed.

Theorem send_canonical v : 0 <= v -> exists bs, varint_send v = Ok bs /\ canonical v bs.
Proof.
  intro Hv. unfold varint_send. destruct (v <? 0) eqn:Hn; [lia|].
  apply send_loop_canonical.
  - split; [lia|]. apply send_fuel_enough; lia.
  - unfold send_fuel. lia.
Qed.

Theorem send_negative v : v < 0 -> varint_send v = Err ValueError.
Proof. intro Hv. unfold varint_send. destruct (v <? 0) eqn:Hn; [reflexivity|lia]. Qed.

(* ---- facts about the canonical form ---- *)

Lemma canonical_unique n bs : canonical n bs -> forall bs', canonical n bs' -> bs = bs'.
Proof.
  induction 1 as [n Hn|n bs Hn Hc IH]; intros bs' H'; inversion H'; subst; try lia; try reflexivity.
  f_equal. apply IH. assumption.
Qed.

Lemma canonical_shape n bs : canonical n bs ->
  exists pre b, bs = pre ++ [b] /\ Forall (fun x => cont x = true) pre /\ cont b = false
                /\ value_of bs = n /\ Forall (fun x => 0 <= x < 256) bs.
Proof.
  induction 1 as [n Hn|n bs Hn Hc (pre & b & -> & Hpre & Hb & Hval & Hwf)].
  - exists [], n. cbn [app value_of]. repeat split.
    + constructor.
    + unfold cont. rewrite Z.div_small by lia. reflexivity.
    + rewrite Z.mod_small by lia. lia.
    + constructor; [lia|constructor].
  - pose proof (Z.mod_pos_bound n 128) as Hm.
    exists ((n mod 128 + 128) :: pre), b. cbn [app value_of]. repeat split.
    + constructor; [|assumption]. unfold cont.
      replace ((n mod 128 + 128) / 128) with 1; [reflexivity|].
      apply Z.div_unique with (n mod 128); lia.
    + assumption.
    + rewrite Hval. rewrite <- Z.add_mod_idemp_r, Z.mod_same, Z.add_0_r, Z.mod_mod by lia.
      pose proof (Z.div_mod n 128). lia.
    + constructor; [lia|assumption].
Qed.

(* length of the canonical form: k bytes suffice iff n < 128^k *)
Lemma canonical_nonempty n bs : canonical n bs -> (0 < length bs)%nat.
Proof. destruct 1; cbn; lia. Qed.

Lemma canonical_length_iff n bs : canonical n bs ->
  forall k, (1 <= k)%nat -> ((length bs <= k)%nat <-> n < 128 ^ Z.of_nat k).
Proof.
  induction 1 as [n Hn|n bs Hn Hc IH]; intros k Hk.
  - cbn [length]. split; intro; [|lia].
    apply Z.lt_le_trans with (128 ^ 1); [lia|]. apply Z.pow_le_mono_r; lia.
  - cbn [length]. pose proof (canonical_nonempty _ _ Hc) as Hne.
    destruct k as [|[|k]]; [lia| |].
    + split; intro; [lia|]. cbn in *. lia.
    + specialize (IH (S k) ltac:(lia)).
      rewrite (Nat2Z.inj_succ (S k)), Z.pow_succ_r by lia.
      split; intro Hx.
      * assert (n / 128 < 128 ^ Z.of_nat (S k)) as Hd by (apply IH; lia).
        pose proof (Z.div_mod n 128). pose proof (Z.mod_pos_bound n 128). lia.
      * assert (length bs <= S k)%nat; [|lia]. apply IH.
        apply Z.div_lt_upper_bound; lia.
Qed.

(* ---- round trip ---- *)

Theorem roundtrip maxb n bs rest :
  0 <= maxb -> 0 <= n < 128 ^ (maxb + 1) -> varint_send n = Ok bs ->
  varint_read maxb (bs ++ rest) = Ok (n, rest).
Proof.
  intros Hm Hn Hs.
  destruct (send_canonical n ltac:(lia)) as (bs' & Hs' & Hc). rewrite Hs in Hs'. inversion Hs'; subst bs'.
  destruct (canonical_shape _ _ Hc) as (pre & b & -> & Hpre & Hb & Hval & _).
  rewrite <- app_assoc. cbn [app].
  rewrite read_ok; try assumption.
  - rewrite Hval. reflexivity.
  - pose proof (canonical_length_iff _ _ Hc (Z.to_nat (maxb + 1)) ltac:(lia)) as Hiff.
    rewrite Z2Nat.id in Hiff by lia. destruct Hn as [_ Hn]. apply Hiff in Hn. rewrite app_length in Hn. cbn [length] in Hn. lia.
Qed.

Theorem roundtrip_toolong maxb n bs rest :
  0 <= maxb -> 128 ^ (maxb + 1) <= n -> varint_send n = Ok bs ->
  varint_read maxb (bs ++ rest) = Err ValueError.
Proof.
  intros Hm Hn Hs.
  assert (0 <= n) as Hn0 by (pose proof (Z.pow_pos_nonneg 128 (maxb + 1)); lia).
  destruct (send_canonical n Hn0) as (bs' & Hs' & Hc). rewrite Hs in Hs'. inversion Hs'; subst bs'.
  destruct (canonical_shape _ _ Hc) as (pre & b & -> & Hpre & Hb & Hval & _).
  pose proof (canonical_length_iff _ _ Hc (Z.to_nat (maxb + 1)) ltac:(lia)) as Hiff.
  rewrite Z2Nat.id in Hiff by lia. rewrite app_length in Hiff. cbn [length] in Hiff.
  assert (Z.to_nat (maxb + 1) <= length pre)%nat as Hlong by lia.
  rewrite <- app_assoc.
  rewrite <- (firstn_skipn (Z.to_nat (maxb + 1)) pre), <- app_assoc.
  apply read_toolong; try assumption.
  - apply Forall_firstn; assumption.
  - rewrite firstn_length. lia.
Qed.

(* ---- size ---- *)
Theorem size_correct n bs :
  0 <= n < 2 ^ 84 -> varint_send n = Ok bs -> varint_size n = Ok (Z.of_nat (length bs)).
Proof.
  intros Hn Hs. destruct (send_canonical n ltac:(lia)) as (bs' & Hs' & Hc).
  rewrite Hs in Hs'. inversion Hs'; subst bs'.
  pose proof (canonical_nonempty _ _ Hc) as Hne.
  pose proof (canonical_length_iff _ _ Hc 1%nat ltac:(lia)) as H1. change (128 ^ Z.of_nat 1) with 128 in H1.
  pose proof (canonical_length_iff _ _ Hc 2%nat ltac:(lia)) as H2. change (128 ^ Z.of_nat 2) with 16384 in H2.
  pose proof (canonical_length_iff _ _ Hc 3%nat ltac:(lia)) as H3. change (128 ^ Z.of_nat 3) with 2097152 in H3.
  pose proof (canonical_length_iff _ _ Hc 4%nat ltac:(lia)) as H4. change (128 ^ Z.of_nat 4) with 268435456 in H4.
  pose proof (canonical_length_iff _ _ Hc 5%nat ltac:(lia)) as H5. change (128 ^ Z.of_nat 5) with 34359738368 in H5.
  pose proof (canonical_length_iff _ _ Hc 6%nat ltac:(lia)) as H6. change (128 ^ Z.of_nat 6) with 4398046511104 in H6.
  pose proof (canonical_length_iff _ _ Hc 7%nat ltac:(lia)) as H7. change (128 ^ Z.of_nat 7) with 562949953421312 in H7.
  pose proof (canonical_length_iff _ _ Hc 8%nat ltac:(lia)) as H8. change (128 ^ Z.of_nat 8) with 72057594037927936 in H8.
  pose proof (canonical_length_iff _ _ Hc 9%nat ltac:(lia)) as H9. change (128 ^ Z.of_nat 9) with 9223372036854775808 in H9.
  pose proof (canonical_length_iff _ _ Hc 10%nat ltac:(lia)) as H10. change (128 ^ Z.of_nat 10) with 1180591620717411303424 in H10.
  pose proof (canonical_length_iff _ _ Hc 11%nat ltac:(lia)) as H11. change (128 ^ Z.of_nat 11) with 151115727451828646838272 in H11.
  pose proof (canonical_length_iff _ _ Hc 12%nat ltac:(lia)) as H12. change (128 ^ Z.of_nat 12) with 19342813113834066795298816 in H12.
  change (2 ^ 84) with 19342813113834066795298816 in Hn.
  unfold varint_size, size_table.
  change (2 ^ 7) with 128.
  change (2 ^ 14) with 16384.
  change (2 ^ 21) with 2097152.
  change (2 ^ 28) with 268435456.
  change (2 ^ 35) with 34359738368.
  change (2 ^ 42) with 4398046511104.
  change (2 ^ 49) with 562949953421312.
  change (2 ^ 56) with 72057594037927936.
  change (2 ^ 63) with 9223372036854775808.
  change (2 ^ 70) with 1180591620717411303424.
  change (2 ^ 77) with 151115727451828646838272.
  change (2 ^ 84) with 19342813113834066795298816.
  cbn [size_scan].
  destruct (n <? 128) eqn:E1; [f_equal; lia|].
  destruct (n <? 16384) eqn:E2; [f_equal; lia|].
  destruct (n <? 2097152) eqn:E3; [f_equal; lia|].
  destruct (n <? 268435456) eqn:E4; [f_equal; lia|].
  destruct (n <? 34359738368) eqn:E5; [f_equal; lia|].
  destruct (n <? 4398046511104) eqn:E6; [f_equal; lia|].
  destruct (n <? 562949953421312) eqn:E7; [f_equal; lia|].
  destruct (n <? 72057594037927936) eqn:E8; [f_equal; lia|].
  destruct (n <? 9223372036854775808) eqn:E9; [f_equal; lia|].
  destruct (n <? 1180591620717411303424) eqn:E10; [f_equal; lia|].
  destruct (n <? 151115727451828646838272) eqn:E11; [f_equal; lia|].
  destruct (n <? 19342813113834066795298816) eqn:E12; [f_equal; lia|].
  lia.
Qed.

Theorem size_toolarge n : 2 ^ 84 <= n -> varint_size n = Err ValueError.
Proof.
  intro Hn.
  change (2 ^ 84) with 19342813113834066795298816 in Hn.
  unfold varint_size, size_table.
  change (2 ^ 7) with 128.
  change (2 ^ 14) with 16384.
  change (2 ^ 21) with 2097152.
  change (2 ^ 28) with 268435456.
  change (2 ^ 35) with 34359738368.
  change (2 ^ 42) with 4398046511104.
  change (2 ^ 49) with 562949953421312.
  change (2 ^ 56) with 72057594037927936.
  change (2 ^ 63) with 9223372036854775808.
  change (2 ^ 70) with 1180591620717411303424.
  change (2 ^ 77) with 151115727451828646838272.
  change (2 ^ 84) with 19342813113834066795298816.
  cbn [size_scan].
  destruct (n <? 128) eqn:E1; [lia|].
  destruct (n <? 16384) eqn:E2; [lia|].
  destruct (n <? 2097152) eqn:E3; [lia|].
  destruct (n <? 268435456) eqn:E4; [lia|].
  destruct (n <? 34359738368) eqn:E5; [lia|].
  destruct (n <? 4398046511104) eqn:E6; [lia|].
  destruct (n <? 562949953421312) eqn:E7; [lia|].
  destruct (n <? 72057594037927936) eqn:E8; [lia|].
  destruct (n <? 9223372036854775808) eqn:E9; [lia|].
  destruct (n <? 1180591620717411303424) eqn:E10; [lia|].
  destruct (n <? 151115727451828646838272) eqn:E11; [lia|].
  destruct (n <? 19342813113834066795298816) eqn:E12; [lia|].
  reflexivity.
Qed.

(* Why VarInt.send must reject negatives (finding 4, repaired): the bare loop never ends. *)
Lemma send_loop_minus_one_diverges fuel : send_loop fuel (-1) = OutOfFuel.
Proof. induction fuel as [|f IH]; [reflexivity|]. cbn [send_loop]. change (Z.shiftr (-1) 7) with (-1). cbn [Z.eqb]. rewrite IH. reflexivity. Qed.

Lemma send_ok_bytes v bs : varint_send v = Ok bs -> wf_bytes bs = true.
Proof.
  intro Hs. destruct (Z_lt_dec v 0) as [Hneg|Hpos].
  - rewrite send_negative in Hs by assumption. discriminate.
  - destruct (send_canonical v ltac:(lia)) as (bs' & Hs' & Hc). rewrite Hs in Hs'. inversion Hs'; subst bs'.
    destruct (canonical_shape _ _ Hc) as (_ & _ & _ & _ & _ & _ & Hwf).
    unfold wf_bytes. apply forallb_forall. intros x Hx. rewrite Forall_forall in Hwf. specialize (Hwf x Hx).
    unfold is_byte. apply andb_true_iff. split; [apply Z.leb_le|apply Z.ltb_lt]; lia.
Qed.

(* ---- the encoding is injective and prefix-free (what lets a length-prefixed stream be cut unambiguously) ---- *)

Lemma send_ok_nonneg v bs : varint_send v = Ok bs -> 0 <= v.
Proof.
  intros Hs. destruct (Z_lt_le_dec v 0) as [Hneg | Hpos]; [| exact Hpos].
  rewrite (send_negative v Hneg) in Hs. discriminate.
Qed.

Lemma below_pow128 n : 0 <= n -> n < 128 ^ (n + 1).
Proof.
  intros Hn. pose proof (Z.pow_gt_lin_r 128 (n + 1) ltac:(lia) ltac:(lia)). lia.
Qed.

Theorem send_prefix_free a b x y :
  varint_send a = Ok x -> varint_send b = Ok (x ++ y) -> y = [] /\ a = b.
Proof.
  intros Ha Hb.
  pose proof (send_ok_nonneg _ _ Ha) as Ha0. pose proof (send_ok_nonneg _ _ Hb) as Hb0.
  set (m := Z.max a b).
  assert (Hm : 0 <= m) by (unfold m; lia).
  assert (Ham : 0 <= a < 128 ^ (m + 1)).
  { split; [exact Ha0|]. apply Z.lt_le_trans with (128 ^ (a + 1)); [apply below_pow128; exact Ha0|].
    apply Z.pow_le_mono_r; unfold m; lia. }
  assert (Hbm : 0 <= b < 128 ^ (m + 1)).
  { split; [exact Hb0|]. apply Z.lt_le_trans with (128 ^ (b + 1)); [apply below_pow128; exact Hb0|].
    apply Z.pow_le_mono_r; unfold m; lia. }
  pose proof (roundtrip m a x y Hm Ham Ha) as R1.
  pose proof (roundtrip m b (x ++ y) [] Hm Hbm Hb) as R2.
  rewrite app_nil_r in R2. rewrite R1 in R2. inversion R2. split; reflexivity.
Qed.

Theorem send_injective a b bs : varint_send a = Ok bs -> varint_send b = Ok bs -> a = b.
Proof.
  intros Ha Hb. rewrite <- (app_nil_r bs) in Hb.
  destruct (send_prefix_free a b bs [] Ha Hb) as [_ E]. exact E.
Qed.
