From Coq Require Import ZArith List Bool Lia.
From PyCraft Require Import Base.Res Model.Prim.
Import ListNotations.
Open Scope Z_scope.

Lemma pow256_S k : pow256 (S k) = 256 * pow256 k.
Proof. unfold pow256. rewrite Nat2Z.inj_succ, Z.pow_succ_r by lia. reflexivity. Qed.
Lemma pow256_pos k : 0 < pow256 k.
Proof. unfold pow256. apply Z.pow_pos_nonneg; lia. Qed.

Lemma be_bytes_length k : forall n, length (be_bytes k n) = k.
Proof. induction k as [|k IH]; intro n; cbn [be_bytes]; [reflexivity|]. rewrite app_length, IH. cbn. lia. Qed.

Lemma be_bytes_wf k : forall n, Forall (fun b => 0 <= b < 256) (be_bytes k n).
Proof.
  induction k as [|k IH]; intro n; cbn [be_bytes]; [constructor|].
  apply Forall_app. split; [apply IH|]. constructor; [|constructor]. apply Z.mod_pos_bound. lia.
Qed.

Lemma take_app k : forall h rest, length h = k -> take k (h ++ rest) = Some (h, rest).
Proof.
  induction k as [|k IH]; intros h rest Hl.
  - destruct h; [reflexivity|discriminate].
  - destruct h as [|b h]; [discriminate|]. cbn [app take]. rewrite IH by (cbn in Hl; lia). reflexivity.
Qed.

Lemma take_short k : forall bs, (length bs < k)%nat -> take k bs = None.
Proof.
  induction k as [|k IH]; intros bs Hl; [lia|].
  destruct bs as [|b t]; [reflexivity|]. cbn [take]. rewrite IH by (cbn in Hl; lia). reflexivity.
Qed.

Lemma be_value_app acc a b : be_value acc (a ++ b) = be_value (be_value acc a) b.
Proof. revert acc. induction a as [|x a IH]; intro acc; cbn [app be_value]; [reflexivity|apply IH]. Qed.

Lemma be_value_bytes k : forall n acc, 0 <= n < pow256 k -> be_value acc (be_bytes k n) = acc * pow256 k + n.
Proof.
  induction k as [|k IH]; intros n acc Hn.
  - unfold pow256 in *. cbn in *. lia.
  - cbn [be_bytes]. rewrite be_value_app. rewrite pow256_S in *.
    rewrite IH.
    + cbn [be_value]. pose proof (Z.div_mod n 256 ltac:(lia)). lia.
    + split; [apply Z.div_pos; lia|]. apply Z.div_lt_upper_bound; lia.
Qed.

(* the bytes are the arithmetic big-endian digits: sum b_i * 256^(k-1-i) = v mod 256^k *)
Theorem enc_int_spec signed k v bs :
  enc_int signed k v = Ok bs ->
  length bs = k /\ Forall (fun b => 0 <= b < 256) bs /\ be_value 0 bs = v mod pow256 k
  /\ int_lo signed k <= v < int_hi signed k.
Proof.
  unfold enc_int. destruct ((int_lo signed k <=? v) && (v <? int_hi signed k)) eqn:E; [|discriminate].
  intro H. inversion H; subst. apply andb_true_iff in E. destruct E as [E1 E2].
  apply Z.leb_le in E1. apply Z.ltb_lt in E2.
  repeat split; try assumption.
  - apply be_bytes_length.
  - apply be_bytes_wf.
  - rewrite be_value_bytes; [lia|]. apply Z.mod_pos_bound. apply pow256_pos.
Qed.

Theorem enc_int_total signed k v :
  int_lo signed k <= v < int_hi signed k -> exists bs, enc_int signed k v = Ok bs.
Proof.
  intros [H1 H2]. unfold enc_int.
  apply Z.leb_le in H1. apply Z.ltb_lt in H2. rewrite H1, H2. eexists. reflexivity.
Qed.

Theorem enc_int_out_of_range signed k v :
  ~ (int_lo signed k <= v < int_hi signed k) -> enc_int signed k v = Err StructError.
Proof.
  intro H. unfold enc_int.
  destruct (int_lo signed k <=? v) eqn:E1; destruct (v <? int_hi signed k) eqn:E2; cbn [andb]; try reflexivity.
  apply Z.leb_le in E1. apply Z.ltb_lt in E2. lia.
Qed.

Lemma pow256_even k : (0 < k)%nat -> pow256 k = 2 * (pow256 k / 2).
Proof.
  destruct k as [|k]; [lia|]. intros _. rewrite pow256_S.
  replace (256 * pow256 k) with (2 * (128 * pow256 k)) by lia.
  rewrite Z.mul_comm, Z.div_mul by lia. lia.
Qed.

Theorem dec_enc_int signed k v bs rest :
  (0 < k)%nat -> enc_int signed k v = Ok bs -> dec_int signed k (bs ++ rest) = Ok (v, rest).
Proof.
  intros Hk H. pose proof (enc_int_spec _ _ _ _ H) as (Hl & _ & Hv & Hr).
  unfold dec_int. rewrite take_app by assumption. rewrite Hv. f_equal. f_equal.
  pose proof (pow256_pos k) as Hp. pose proof (pow256_even k Hk) as He.
  unfold int_lo, int_hi in Hr. destruct signed; cbn [andb].
  - destruct (Z_lt_dec v 0) as [Hneg|Hpos].
    + assert (v mod pow256 k = v + pow256 k) as ->.
      { symmetry. apply Z.mod_unique with (-1); lia. }
      destruct (pow256 k / 2 <=? v + pow256 k) eqn:E; [lia|]. apply Z.leb_gt in E. lia.
    + rewrite Z.mod_small by lia.
      destruct (pow256 k / 2 <=? v) eqn:E; [|reflexivity]. apply Z.leb_le in E. lia.
  - rewrite Z.mod_small by lia. reflexivity.
Qed.

Theorem dec_int_prefix signed k bs :
  (length bs < k)%nat -> dec_int signed k bs = Err StructError.
Proof. intro H. unfold dec_int. rewrite take_short by assumption. reflexivity. Qed.

Theorem dec_enc_bool b rest : dec_bool (enc_bool b ++ rest) = Ok (b, rest).
Proof. destruct b; reflexivity. Qed.
