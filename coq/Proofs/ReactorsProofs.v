From Coq Require Import ZArith List Bool Lia.
From PyCraft Require Import Model.Reactors.
Import ListNotations.
Open Scope Z_scope.

Lemma filter_len {A} (f : A -> bool) l : (length (filter f l) <= length l)%nat.
Proof. induction l as [|x l IH]; [apply le_n|]. cbn [filter]. destruct (f x); cbn [length]; lia. Qed.

Section RP.
  Variable rsa : list Z -> list Z -> list Z.
  Variable secret : list Z.
  Variable vhash : list Z -> list Z -> list Z -> list Z.
  Variable has_token : bool.
  Variable f107 : bool.

  Notation sess := (sess).
  Notation do_step := (do_step rsa secret vhash has_token f107).
  Notation react_login := (react_login rsa secret vhash has_token).
  Notation react_play := (react_play f107).
  Notation respond_play := (respond_play f107).

  Definition pkts (w : list wev) : list outpkt := map w_pkt w.
  Definition is_forced (o : outpkt) : bool := match o with OEncResp _ _ => true | _ => false end.
  Definition queued_only (l : list outpkt) : list outpkt := filter (fun o => negb (is_forced o)) l.

  (* ---------- specification: what must be answered, in order, for a history of server packets ---------- *)
  Fixpoint spec_queued (play : bool) (ps : list inpkt) : list outpkt :=
    match ps with
    | [] => []
    | p :: t =>
      if play then match p with
                   | IPlayDisconnect => []
                   | _ => respond_play p ++ spec_queued true t
                   end
      else match p with
           | IPlugin mid => OPluginResp mid :: spec_queued false t
           | ISuccess => spec_queued true t
           | ILoginDisconnect _ => []
           | _ => spec_queued false t
           end
    end.

  (* ---------- flush ---------- *)
  Lemma flush_spec : forall n s,
    let s' := flush n s in
    pkts (s_wire s') ++ s_queue s' = pkts (s_wire s) ++ s_queue s /\
    s_play s' = s_play s /\ s_comp s' = s_comp s /\ s_enc s' = s_enc s /\ s_joins s' = s_joins s /\
    s_spawned s' = s_spawned s /\ s_end s' = s_end s /\ s_exits s' = s_exits s /\
    exists new, s_wire s' = s_wire s ++ new /\ Forall (fun e => w_comp e = s_comp s /\ w_enc e = s_enc s) new /\
                pkts new ++ s_queue s' = s_queue s.
  Proof.
    induction n as [|k IH]; intro s; cbn zeta.
    - cbn [flush]. repeat split; try reflexivity. exists []. rewrite app_nil_r. repeat split; auto.
    - cbn [flush]. destruct (s_queue s) as [|o q] eqn:Eq.
      + repeat split; try reflexivity; [rewrite Eq; reflexivity|]. exists []. rewrite app_nil_r, Eq. repeat split; auto.
      + specialize (IH (upd_wire s (s_wire s ++ [emit s o]) q)). cbn zeta in IH. cbn [upd_wire s_wire s_queue s_play s_comp s_enc s_joins s_spawned s_end s_exits] in IH.
        destruct IH as (H1 & H2 & H3 & H4 & H5 & H6 & H7 & H8 & new & Hn1 & Hn2 & Hn3).
        repeat split; try assumption.
        * rewrite H1. unfold pkts. rewrite map_app, <- app_assoc. reflexivity.
        * exists (emit s o :: new). rewrite Hn1, <- app_assoc. split; [reflexivity|]. split; [constructor; [split; reflexivity|exact Hn2]|]. cbn [pkts map emit w_pkt]. unfold pkts in Hn3. cbn [app]. rewrite Hn3. reflexivity.
  Qed.

  Lemma queued_only_app a b : queued_only (a ++ b) = queued_only a ++ queued_only b.
  Proof. unfold queued_only. apply filter_app. Qed.

  Definition q_clean (s : sess) : Prop := queued_only (s_queue s) = s_queue s.

  Lemma q_clean_flush n s : q_clean s -> q_clean (flush n s).
  Proof.
    revert s. induction n as [|k IH]; intros s H; [exact H|]. cbn [flush]. destruct (s_queue s) as [|o q] eqn:Eq; [exact H|].
    apply IH. unfold q_clean in *. cbn [upd_wire s_queue]. rewrite Eq in H. unfold queued_only in *. cbn [filter] in H.
    destruct (negb (is_forced o)); [inversion H as [H1]; rewrite H1; exact H1|].
    exfalso. assert (length (filter (fun o0 => negb (is_forced o0)) q) <= length q)%nat as Hl by apply filter_len.
    rewrite H in Hl. cbn in Hl. lia.
  Qed.

  Lemma do_step_running s st : s_end s = None ->
    do_step s st = match st with SRecv p => if s_play s then react_play s p else react_login s p | SFlush n => flush n s end.
  Proof. intro H. unfold Reactors.do_step. rewrite H. reflexivity. Qed.
  Lemma do_step_ended s st e : s_end s = Some e -> do_step s st = s.
  Proof. intro H. unfold Reactors.do_step. rewrite H. reflexivity. Qed.
  Lemma stuck s e : s_end s = Some e -> forall l, fold_left do_step l s = s.
  Proof. intros H l. induction l as [|x l IHl]; [reflexivity|]. cbn [fold_left]. rewrite (do_step_ended s x e H). exact IHl. Qed.

  (* ---------- the response invariant, for every schedule from every running state ---------- *)
  Theorem responses_inv : forall sched s, s_end s = None -> q_clean s ->
    let s' := fold_left do_step sched s in
    queued_only (pkts (s_wire s')) ++ s_queue s' =
      queued_only (pkts (s_wire s)) ++ s_queue s ++ spec_queued (s_play s) (received sched) /\ q_clean s'.
  Proof.
    induction sched as [|st sched IH]; intros s Hend Hq; cbn zeta.
    - cbn. rewrite app_nil_r. split; [reflexivity|exact Hq].
    - cbn [fold_left]. rewrite (do_step_running s st Hend). destruct st as [p|n].
      + cbn [received flat_map app]. destruct (s_play s) eqn:Ep.
        * (* play *)
          destruct p; cbn [react_play];
          try (specialize (IH s Hend Hq); cbn zeta in IH; rewrite Ep in IH; cbn [spec_queued respond_play app]; exact IH).
          -- (* set compression *)
             match goal with |- context [fold_left _ sched ?S] => specialize (IH S eq_refl Hq) end.
             cbn zeta in IH. cbn [s_wire s_queue s_play] in IH. cbn [spec_queued respond_play app]. exact IH.
          -- (* keep alive *)
             match goal with |- context [fold_left _ sched ?S] => assert (q_clean S) as Hq' end.
             { unfold q_clean in *. cbn [upd_wire s_queue respond_play]. rewrite queued_only_app, Hq. reflexivity. }
             match goal with |- context [fold_left _ sched ?S] => specialize (IH S Hend Hq') end.
             cbn zeta in IH. cbn [upd_wire s_wire s_queue s_play] in IH. rewrite Ep in IH. cbn [spec_queued]. destruct IH as [IH1 IH2]. split; [|exact IH2].
             rewrite IH1, <- !app_assoc. reflexivity.
          -- (* position and look *)
             match goal with |- context [fold_left _ sched ?S] => assert (q_clean S) as Hq' end.
             { unfold q_clean in *. cbn [s_queue respond_play]. rewrite queued_only_app, Hq. destruct f107; reflexivity. }
             match goal with |- context [fold_left _ sched ?S] => specialize (IH S eq_refl Hq') end.
             cbn zeta in IH. cbn [s_wire s_queue s_play] in IH. cbn [spec_queued]. destruct IH as [IH1 IH2]. split; [|exact IH2].
             rewrite IH1, <- !app_assoc. reflexivity.
          -- (* disconnect: everything queued is flushed, then the thread has ended and later steps are ignored *)
             cbn [spec_queued]. rewrite app_nil_r.
             pose proof (flush_spec (length (s_queue s)) s) as HF. cbn zeta in HF.
             destruct HF as (H1 & _ & _ & _ & _ & _ & _ & _ & new & Hn1 & _ & Hn3).
             match goal with |- context [fold_left _ sched ?S] => rewrite (stuck S _ eq_refl) end. cbn [s_wire s_queue]. split; [|apply q_clean_flush; exact Hq].
             pose proof (q_clean_flush (length (s_queue s)) s Hq) as Hq2. unfold q_clean in Hq2.
             rewrite <- Hq2, <- queued_only_app, H1, queued_only_app, Hq. reflexivity.
        * (* login *)
          destruct p; cbn [react_login];
          try (specialize (IH s Hend Hq); cbn zeta in IH; rewrite Ep in IH; cbn [spec_queued]; exact IH).
          -- (* encryption request: the forced response is on the wire at once; it is not a queued packet *)
             match goal with |- context [fold_left _ sched ?S] => specialize (IH S eq_refl Hq) end.
             cbn zeta in IH. cbn [s_wire s_queue s_play] in IH. cbn [spec_queued]. destruct IH as [IH1 IH2]. split; [|exact IH2].
             rewrite IH1. unfold pkts. rewrite map_app, queued_only_app. cbn [map emit w_pkt queued_only filter is_forced negb]. rewrite app_nil_r. reflexivity.
          -- match goal with |- context [fold_left _ sched ?S] => specialize (IH S eq_refl Hq) end.
             cbn zeta in IH. cbn [s_wire s_queue s_play] in IH. cbn [spec_queued]. exact IH.
          -- (* plugin request *)
             match goal with |- context [fold_left _ sched ?S] => assert (q_clean S) as Hq' end.
             { unfold q_clean, enqueue in *. cbn [upd_wire s_queue]. rewrite queued_only_app, Hq. reflexivity. }
             match goal with |- context [fold_left _ sched ?S] => specialize (IH S Hend Hq') end.
             cbn zeta in IH. unfold enqueue in IH. cbn [upd_wire s_wire s_queue s_play] in IH. rewrite Ep in IH. cbn [spec_queued].
             destruct IH as [IH1 IH2]. split; [|exact IH2]. unfold enqueue. rewrite IH1, <- !app_assoc. reflexivity.
          -- (* success *)
             match goal with |- context [fold_left _ sched ?S] => specialize (IH S eq_refl Hq) end.
             cbn zeta in IH. cbn [s_wire s_queue s_play] in IH. cbn [spec_queued]. exact IH.
          -- (* login disconnect: the thread ends with an error *)
             cbn [spec_queued]. rewrite app_nil_r.
             match goal with |- context [fold_left _ sched ?S] => rewrite (stuck S _ eq_refl) end. cbn [s_wire s_queue]. split; [reflexivity|exact Hq].
      + cbn [received flat_map app]. pose proof (flush_spec n s) as HF. cbn zeta in HF.
        destruct HF as (H1 & H2 & _ & _ & _ & _ & H7 & _ & _).
        specialize (IH (flush n s) ltac:(rewrite H7; exact Hend) (q_clean_flush n s Hq)). cbn zeta in IH. rewrite H2 in IH.
        destruct IH as [IH1 IH2]. split; [|exact IH2]. rewrite IH1.
        pose proof (q_clean_flush n s Hq) as Hq2. unfold q_clean in Hq2.
        rewrite app_assoc. rewrite <- Hq2 at 1. rewrite <- queued_only_app, H1, queued_only_app, Hq, <- app_assoc. reflexivity.
  Qed.

  (* ---------- flags carried by what is written ---------- *)
  Definition is_setcomp (p : inpkt) : bool := match p with ISetComp _ => true | _ => false end.
  Definition is_encreq (p : inpkt) : bool := match p with IEncReq _ _ _ => true | _ => false end.

  (* as long as no further set-compression / encryption request arrives, every frame written carries the
     threshold and the cipher in force - whatever the schedule *)
  Theorem flags_stable : forall sched s, s_end s = None ->
    existsb is_setcomp (received sched) = false -> existsb is_encreq (received sched) = false ->
    let s' := fold_left do_step sched s in
    s_comp s' = s_comp s /\ s_enc s' = s_enc s /\
    exists new, s_wire s' = s_wire s ++ new /\ Forall (fun e => w_comp e = s_comp s /\ w_enc e = s_enc s) new.
  Proof.
    induction sched as [|st sched IH]; intros s Hend Hc He; cbn zeta.
    - repeat split. exists []. rewrite app_nil_r. split; [reflexivity|constructor].
    - cbn [fold_left]. rewrite (do_step_running s st Hend). destruct st as [p|n].
      + cbn [received flat_map app existsb] in Hc, He. apply orb_false_iff in Hc. apply orb_false_iff in He. destruct Hc as [Hc1 Hc2]. destruct He as [He1 He2].
        assert (forall S, s_comp S = s_comp s -> s_enc S = s_enc s -> s_wire S = s_wire s -> s_end S = None ->
                 s_comp (fold_left do_step sched S) = s_comp s /\ s_enc (fold_left do_step sched S) = s_enc s /\
                 exists new, s_wire (fold_left do_step sched S) = s_wire s ++ new /\ Forall (fun e => w_comp e = s_comp s /\ w_enc e = s_enc s) new) as Hsame.
        { intros S H1 H2 H3 H4. destruct (IH S H4 Hc2 He2) as (A & B & new & C & D). rewrite H1 in A, D. rewrite H2 in B, D. rewrite H3 in C.
          repeat split; try assumption. exists new. split; assumption. }
        destruct (s_play s); destruct p; cbn [react_play react_login is_setcomp is_encreq] in *; try discriminate;
          try (apply Hsame; try reflexivity; exact Hend); try (apply Hsame; reflexivity).
        * (* play disconnect *)
          pose proof (flush_spec (length (s_queue s)) s) as HF. cbn zeta in HF. destruct HF as (_ & _ & H3 & H4 & _ & _ & _ & _ & new & Hn1 & Hn2 & _).
          match goal with |- context [fold_left _ sched ?S] => rewrite (stuck S _ eq_refl) end. cbn [s_comp s_enc s_wire].
          repeat split; try assumption. exists new. split; assumption.
        * (* login disconnect *)
          match goal with |- context [fold_left _ sched ?S] => rewrite (stuck S _ eq_refl) end. cbn [s_comp s_enc s_wire].
          repeat split. exists []. rewrite app_nil_r. split; [reflexivity|constructor].
      + cbn [received flat_map app] in Hc, He.
        pose proof (flush_spec n s) as HF. cbn zeta in HF. destruct HF as (_ & _ & H3 & H4 & _ & _ & H7 & _ & new & Hn1 & Hn2 & _).
        destruct (IH (flush n s) ltac:(rewrite H7; exact Hend) Hc He) as (A & B & new2 & C & D).
        rewrite H3 in A, D. rewrite H4 in B, D. repeat split; try assumption. exists (new ++ new2). rewrite C, Hn1, <- app_assoc. split; [reflexivity|].
        apply Forall_app. split; assumption.
  Qed.

  (* the encryption request: the response (secret and token encrypted to the server's key) is written at
     once, under the cipher state in force BEFORE the switch (plaintext for the first request); the
     session join, when due, is made before it is written; from then on the cipher is the secret's *)
  Theorem encryption_step s sid key token : s_end s = None -> s_play s = false ->
    let s' := do_step s (SRecv (IEncReq sid key token)) in
    s_wire s' = s_wire s ++ [{| w_pkt := OEncResp (rsa key secret) (rsa key token); w_comp := s_comp s; w_enc := s_enc s |}] /\
    s_enc s' = Some secret /\ s_comp s' = s_comp s /\ s_queue s' = s_queue s /\ s_end s' = None /\ s_play s' = false /\
    s_joins s' = (if negb (zs_eq sid minus_one) && has_token then s_joins s ++ [(vhash sid secret key, length (s_wire s))] else s_joins s).
  Proof. intros He Hp. cbn zeta. rewrite (do_step_running s _ He), Hp. cbn [react_login]. repeat split; reflexivity. Qed.

  Theorem set_compression_step s t : s_end s = None ->
    let s' := do_step s (SRecv (ISetComp t)) in s_comp s' = Some t /\ s_wire s' = s_wire s /\ s_queue s' = s_queue s /\ s_enc s' = s_enc s /\ s_end s' = None.
  Proof. intro He. cbn zeta. rewrite (do_step_running s _ He). destruct (s_play s); cbn; repeat split; reflexivity. Qed.

  Theorem success_step s : s_end s = None -> s_play s = false ->
    let s' := do_step s (SRecv ISuccess) in s_play s' = true /\ s_end s' = None /\ s_wire s' = s_wire s /\ s_queue s' = s_queue s.
  Proof. intros He Hp. cbn zeta. rewrite (do_step_running s _ He), Hp. cbn. repeat split; reflexivity. Qed.

  (* a disconnect packet during login always ends the thread with an error carrying the server's message,
     or the version for the two 'outdated' messages - never a normal exit *)
  Theorem login_disconnect_step s msg : s_end s = None -> s_play s = false ->
    s_end (do_step s (SRecv (ILoginDisconnect msg))) =
      Some (match outdated_ver msg with Some v => EVersionMismatch v | None => ELoginDisconnect msg end).
  Proof. intros He Hp. rewrite (do_step_running s _ He), Hp. reflexivity. Qed.

  (* a disconnect packet in play: everything queued is sent, the thread ends normally, the exit callback runs once more *)
  Theorem play_disconnect_step s : s_end s = None -> s_play s = true ->
    let s' := do_step s (SRecv IPlayDisconnect) in
    s_queue s' = [] /\ pkts (s_wire s') = pkts (s_wire s) ++ s_queue s /\ s_end s' = Some ENormalExit /\ s_exits s' = S (s_exits s).
  Proof.
    intros He Hp. cbn zeta. rewrite (do_step_running s _ He), Hp. cbn [react_play s_queue s_wire s_end s_exits].
    pose proof (flush_spec (length (s_queue s)) s) as HF. cbn zeta in HF. destruct HF as (H1 & _ & _ & _ & _ & _ & _ & H8 & new & Hn1 & _ & Hn3).
    assert (s_queue (flush (length (s_queue s)) s) = []) as Hq.
    { apply (f_equal (@length outpkt)) in Hn3. rewrite app_length in Hn3. unfold pkts in Hn3. rewrite map_length in Hn3.
      assert (forall n S, length (s_queue (flush n S)) = (length (s_queue S) - n)%nat) as Hlen.
      { induction n as [|k IHk]; intro S; cbn [flush]; [lia|]. destruct (s_queue S) as [|o q] eqn:E; [rewrite E; reflexivity|]. rewrite IHk. cbn [upd_wire s_queue length]. lia. }
      specialize (Hlen (length (s_queue s)) s). rewrite Nat.sub_diag in Hlen. destruct (s_queue (flush (length (s_queue s)) s)); [reflexivity|discriminate]. }
    rewrite Hq in *. rewrite app_nil_r in H1. rewrite H8. repeat split; try reflexivity. exact H1.
  Qed.

  (* the client counts as spawned as soon as, and only if, a position packet has been processed *)
  Definition is_poslook (p : inpkt) : bool := match p with IPosLook _ _ => true | _ => false end.
  Theorem spawned_iff : forall sched s, s_end s = None -> s_play s = true ->
    existsb (fun p => match p with IPlayDisconnect => true | _ => false end) (received sched) = false ->
    s_spawned (fold_left do_step sched s) = s_spawned s || existsb is_poslook (received sched).
  Proof.
    induction sched as [|st sched IH]; intros s He Hp Hd; [cbn; rewrite orb_false_r; reflexivity|].
    cbn [fold_left]. rewrite (do_step_running s st He), Hp. destruct st as [p|n].
    - cbn [received flat_map app existsb] in *. apply orb_false_iff in Hd. destruct Hd as [Hd1 Hd2].
      destruct p; try discriminate; cbn [react_play is_poslook orb];
        try (rewrite IH by (try assumption; reflexivity); cbn [s_spawned upd_wire]; reflexivity).
      rewrite IH by (try assumption; reflexivity). cbn [s_spawned]. rewrite orb_true_r. reflexivity.
    - cbn [received flat_map app] in *. pose proof (flush_spec n s) as HF. cbn zeta in HF. destruct HF as (_ & H2 & _ & _ & _ & H6 & H7 & _).
      rewrite IH; [rewrite H6; reflexivity|rewrite H7; exact He|rewrite H2; exact Hp|exact Hd].
  Qed.
  (* ---------- a login on a used object is the login of a fresh object ---------- *)
  Definition shift_joins (k : nat) (js : list (list Z * nat)) : list (list Z * nat) := map (fun j => (fst j, (k + snd j)%nat)) js.
  Definition Sim (w0 : list wev) (j0 : list (list Z * nat)) (e0 : nat) (a b : sess) : Prop :=
    s_play a = s_play b /\ s_comp a = s_comp b /\ s_enc a = s_enc b /\ s_queue a = s_queue b /\
    s_spawned a = s_spawned b /\ s_end a = s_end b /\ s_wire a = w0 ++ s_wire b /\
    s_joins a = j0 ++ shift_joins (length w0) (s_joins b) /\ s_exits a = (e0 + s_exits b)%nat.

  Lemma sim_flush w0 j0 e0 : forall n a b, Sim w0 j0 e0 a b -> Sim w0 j0 e0 (flush n a) (flush n b).
  Proof.
    induction n as [|k IH]; intros a b H; [exact H|]. cbn [flush].
    pose proof H as (Hp & Hc & He & Hq & Hs & Hn & Hw & Hj & Hx). rewrite Hq. destruct (s_queue b) as [|o q] eqn:Eq; [exact H|].
    apply IH. unfold Sim, upd_wire, emit. cbn [s_play s_comp s_enc s_queue s_spawned s_end s_wire s_joins s_exits].
    rewrite Hc, He, Hw, <- app_assoc. repeat split; assumption.
  Qed.

  Lemma sim_step w0 j0 e0 a b st : Sim w0 j0 e0 a b -> Sim w0 j0 e0 (do_step a st) (do_step b st).
  Proof.
    intro H. pose proof H as (Hp & Hc & He & Hq & Hs & Hn & Hw & Hj & Hx).
    unfold Reactors.do_step. rewrite Hn. destruct (s_end b) eqn:En; [exact H|].
    destruct st as [p|n]; [|apply sim_flush; exact H].
    rewrite Hp. destruct (s_play b) eqn:Eb.
    - (* play *)
      destruct p; try exact H; unfold Reactors.react_play, Sim, upd_wire;
        cbn [s_play s_comp s_enc s_queue s_spawned s_end s_wire s_joins s_exits].
      + rewrite He, Hq, Hs, Hw, Hj, Hx. repeat split; reflexivity.
      + rewrite Hc, He, Hq, Hs, Hw, Hj, Hx, En. repeat split; try reflexivity; congruence.
      + rewrite Hc, He, Hq, Hw, Hj, Hx. repeat split; reflexivity.
      + pose proof (sim_flush w0 j0 e0 (length (s_queue b)) a b H) as (Fp & Fc & Fe & Fq & Fs & Fn & Fw & Fj & Fx).
        rewrite Hq, Fc, Fe, Fq, Fs, Fw, Fj, Fx. repeat split; try reflexivity. lia.
    - (* login *)
      destruct p; try exact H; unfold Reactors.react_login, Sim, enqueue, upd_wire, emit;
        cbn [s_play s_comp s_enc s_queue s_spawned s_end s_wire s_joins s_exits].
      + (* IEncReq *)
        rewrite Hc, He, Hq, Hs, Hw, Hj, Hx, <- app_assoc. repeat split; try reflexivity.
        destruct (negb (zs_eq sid minus_one) && has_token); [|reflexivity].
        unfold shift_joins. rewrite map_app, <- app_assoc. cbn [map fst snd]. rewrite app_length. reflexivity.
      + rewrite He, Hq, Hs, Hw, Hj, Hx. repeat split; reflexivity.
      + rewrite Hc, He, Hq, Hs, Hw, Hj, Hx, En. repeat split; try reflexivity; congruence.
      + rewrite Hc, He, Hq, Hs, Hw, Hj, Hx. repeat split; reflexivity.
      + rewrite Hc, He, Hq, Hs, Hw, Hj, Hx. repeat split; reflexivity.
  Qed.

  Lemma sim_run w0 j0 e0 : forall sched a b, Sim w0 j0 e0 a b -> Sim w0 j0 e0 (fold_left do_step sched a) (fold_left do_step sched b).
  Proof. induction sched as [|st t IH]; intros a b H; [exact H|]. cbn [fold_left]. apply IH, sim_step, H. Qed.

  (* whatever the object went through before (any state s: compression on, a cipher installed, packets queued, the play
     state, a recorded error), after connect() every schedule of reads and flushes produces exactly what it produces on a
     fresh object: same frames with the same compression / cipher state (appended to the earlier history), same joins
     (positions shifted by the history), same final state *)
  Theorem relogin_is_fresh : forall s sched,
    let a := fold_left do_step sched (reconnect s) in
    let b := run_session rsa secret vhash has_token f107 sched in
    s_wire a = s_wire s ++ s_wire b /\ s_joins a = s_joins s ++ shift_joins (length (s_wire s)) (s_joins b) /\
    s_play a = s_play b /\ s_comp a = s_comp b /\ s_enc a = s_enc b /\ s_queue a = s_queue b /\
    s_spawned a = s_spawned b /\ s_end a = s_end b /\ s_exits a = (s_exits s + s_exits b)%nat.
  Proof.
    intros s sched. cbn zeta. unfold run_session.
    assert (H0 : Sim (s_wire s) (s_joins s) (s_exits s) (reconnect s) (init)).
    { unfold Sim, reconnect, init. cbn. rewrite !app_nil_r. repeat split; try reflexivity. lia. }
    pose proof (sim_run _ _ _ sched _ _ H0) as (Hp & Hc & He & Hq & Hs & Hn & Hw & Hj & Hx).
    repeat split; assumption.
  Qed.
End RP.
