From Coq Require Import ZArith List Bool Lia.
From PyCraft Require Import Base.Res Model.VarInt Model.Frame Model.Cfb8 Proofs.FrameProofs Proofs.CipherProofs.
Import ListNotations.
Open Scope Z_scope.

Section Enc.
  Variable deflate : list Z -> list Z.
  Variable inflate : list Z -> option (list Z).
  Hypothesis inflate_deflate : forall x, inflate (deflate x) = Some x.
  Variable decide : Z -> list Z -> bool.
  Variable E : list Z -> list Z.

  Lemma flat_dec_view sr s : flat (dec_view E sr s) = fst (dec_stream E sr (flat s)).
  Proof. unfold dec_view, flat. apply (proj1 (dec_chunking E s sr)). Qed.

  (* the encrypted stream: the writer's send() calls [sends] (any partition of the plaintext), the
     reader's read() results [s] (any partition of the ciphertext) *)
  Theorem encrypted_roundtrip thr ps fs sr sends rest s :
    frames deflate decide thr ps fs -> concat sends = concat fs ++ rest ->
    nonempty_segs s -> flat s = concat (fst (enc_chunks E sr sends)) ->
    exists s', read_n inflate (comp_of thr) (length ps) (dec_view E sr s) = Ok (ps, s') /\ flat s' = rest /\ nonempty_segs s'.
  Proof.
    intros Hf Hsends Hne Hs.
    apply (stream_roundtrip deflate inflate inflate_deflate decide thr ps fs Hf rest (dec_view E sr s)).
    - apply dec_view_nonempty. exact Hne.
    - rewrite flat_dec_view, Hs, (proj1 (enc_chunking E sends sr)), dec_enc_stream. exact Hsends.
  Qed.

  Theorem encrypted_truncated thr ps fs sr k s fuel :
    frames deflate decide thr ps fs -> nonempty_segs s ->
    flat s = fst (enc_stream E sr (firstn k (concat fs))) -> (length ps < fuel)%nat ->
    read_until_error inflate fuel (comp_of thr) (dec_view E sr s) = (firstn (complete k fs) ps, Err EOFError).
  Proof.
    intros Hf Hne Hs Hfu.
    apply (stream_truncated deflate inflate inflate_deflate decide thr ps fs Hf k (dec_view E sr s) fuel).
    - apply dec_view_nonempty. exact Hne.
    - rewrite flat_dec_view, Hs, dec_enc_stream. reflexivity.
    - exact Hfu.
  Qed.
End Enc.
