From Coq Require Import ZArith List Bool Lia.
From PyCraft Require Import Base.Res Model.VarInt Spec.VarIntSpec Proofs.VarIntProofs Model.Frame.
Import ListNotations.
Open Scope Z_scope.

(* ---------- one read() in the flat view ---------- *)
Lemma rd_spec n s c s' : nonempty_segs s -> rd n s = (c, s') ->
  flat s = c ++ flat s' /\ (length c <= n)%nat /\ nonempty_segs s' /\ ((0 < n)%nat -> flat s <> [] -> c <> []).
Proof.
  intros Hne H. destruct s as [|seg rest]; cbn [rd] in H.
  - inversion H; subst. repeat split; [cbn; lia|constructor|intros _ Hf; exact Hf].
  - inversion Hne as [|? ? Hseg Hrest]; subst.
    destruct (length seg <=? n)%nat eqn:E.
    + inversion H; subst. apply Nat.leb_le in E. repeat split; try assumption. intros _ _. exact Hseg.
    + apply Nat.leb_gt in E. destruct n as [|n'].
      * inversion H; subst. repeat split; try assumption; [cbn; lia|intros Hn; lia].
      * apply pair_equal_spec in H. destruct H as [<- <-]. unfold flat. cbn [concat]. rewrite app_assoc, firstn_skipn. split; [reflexivity|].
        split; [rewrite firstn_length; lia|]. split.
        -- constructor; [|assumption]. intro Hs. apply (f_equal (@length Z)) in Hs. rewrite skipn_length in Hs. cbn in Hs. lia.
        -- intros _ _ Hf. apply (f_equal (@length Z)) in Hf. rewrite firstn_length in Hf. cbn [length] in Hf. lia.
Qed.

Lemma nonempty_flat_nil s : nonempty_segs s -> flat s = [] -> s = [].
Proof.
  intros Hne Hf. destruct s as [|seg rest]; [reflexivity|]. inversion Hne; subst.
  unfold flat in Hf. cbn in Hf. apply app_eq_nil in Hf. tauto.
Qed.

Lemma rd1_cons s b rest : nonempty_segs s -> flat s = b :: rest ->
  exists s', rd 1 s = ([b], s') /\ flat s' = rest /\ nonempty_segs s'.
Proof.
  intros Hne Hf. destruct (rd 1 s) as [c s'] eqn:E.
  destruct (rd_spec 1 s c s' Hne E) as (Hfl & Hlen & Hne' & Hnz).
  assert (c <> []) as Hc by (apply Hnz; [lia|rewrite Hf; discriminate]).
  destruct c as [|x [|y c]]; [congruence| |cbn in Hlen; lia].
  rewrite Hf in Hfl. cbn in Hfl. inversion Hfl; subst. exists s'. repeat split; assumption.
Qed.

Lemma rd1_nil s : nonempty_segs s -> flat s = [] -> rd 1 s = ([], []).
Proof. intros Hne Hf. rewrite (nonempty_flat_nil s Hne Hf). reflexivity. Qed.

(* ---------- VarInt.read on a stream = VarInt.read on the flat view ---------- *)
Definition lift_s (r : res (Z * list Z)) (r' : res (Z * stream)) : Prop :=
  match r with
  | Ok (v, rest) => exists s', r' = Ok (v, s') /\ flat s' = rest /\ nonempty_segs s'
  | Err e => r' = Err e
  | OutOfFuel => r' = OutOfFuel
  end.

Lemma read_loop_s_flat maxb : forall fuel number count s, nonempty_segs s ->
  lift_s (read_loop maxb fuel number count (flat s)) (read_loop_s maxb fuel number count s).
Proof.
  induction fuel as [|f IH]; intros number count s Hne; [reflexivity|].
  cbn [read_loop read_loop_s]. destruct (flat s) as [|b rest] eqn:Ef.
  - rewrite (rd1_nil s Hne Ef). reflexivity.
  - destruct (rd1_cons s b rest Hne Ef) as (s' & Hr & Hf' & Hne'). rewrite Hr.
    destruct (Z.land b 128 =? 0).
    + exists s'. repeat split; assumption.
    + destruct (count + 1 >? maxb); [reflexivity|]. rewrite <- Hf'. apply IH. exact Hne'.
Qed.

Lemma varint_read_s_flat maxb s : nonempty_segs s -> lift_s (varint_read maxb (flat s)) (varint_read_s maxb s).
Proof. intro H. apply read_loop_s_flat. exact H. Qed.

(* ---------- the reassembly loop ---------- *)
Lemma read_exact_ok : forall fuel need acc s, nonempty_segs s ->
  (need <= length acc + length (flat s))%nat -> (need <= length acc + fuel)%nat -> (length acc <= need)%nat ->
  exists s', read_exact fuel need acc s = Ok (acc ++ firstn (need - length acc) (flat s), s')
          /\ flat s' = skipn (need - length acc) (flat s) /\ nonempty_segs s'.
Proof.
  induction fuel as [|f IH]; intros need acc s Hne Hav Hfu Hle.
  - cbn [read_exact]. assert (length acc = need) as He by lia.
    destruct (length acc <? need)%nat eqn:E; [apply Nat.ltb_lt in E; lia|].
    exists s. rewrite He, Nat.sub_diag. cbn. rewrite app_nil_r. repeat split; try reflexivity; assumption.
  - cbn [read_exact]. destruct (length acc <? need)%nat eqn:E.
    + apply Nat.ltb_lt in E. destruct (rd (need - length acc) s) as [c s1] eqn:Er.
      destruct (rd_spec _ s c s1 Hne Er) as (Hfl & Hlen & Hne1 & Hnz).
      assert (c <> []) as Hc.
      { apply Hnz; [lia|]. intro Hf. rewrite Hf in Hav. cbn in Hav. lia. }
      destruct c as [|c0 c']; [congruence|].
      assert (length (flat s) = length (c0 :: c') + length (flat s1))%nat as Hl by (rewrite Hfl, app_length; reflexivity).
      destruct (IH need (acc ++ c0 :: c') s1 Hne1) as (s' & Hre & Hf' & Hne').
      * rewrite app_length. lia.
      * rewrite app_length. cbn [length] in *. lia.
      * rewrite app_length. lia.
      * exists s'. rewrite Hre. rewrite app_length in *. split; [|split; [|exact Hne']].
        -- f_equal. rewrite <- app_assoc. f_equal. rewrite Hfl.
           replace (need - length acc)%nat with (length (c0 :: c') + (need - (length acc + length (c0 :: c'))))%nat by lia.
           rewrite firstn_app_2. reflexivity.
        -- rewrite Hf', Hfl.
           replace (need - length acc)%nat with (length (c0 :: c') + (need - (length acc + length (c0 :: c'))))%nat by lia.
           rewrite skipn_app. rewrite (@skipn_all2 _ _ (c0 :: c')) by lia. cbn [app].
           replace (length (c0 :: c') + (need - (length acc + length (c0 :: c'))) - length (c0 :: c'))%nat
             with (need - (length acc + length (c0 :: c')))%nat by lia. reflexivity.
    + apply Nat.ltb_ge in E. assert (length acc = need) as He by lia.
      exists s. rewrite He, Nat.sub_diag. cbn. rewrite app_nil_r. repeat split; try reflexivity; assumption.
Qed.

Lemma read_exact_eof : forall fuel need acc s, nonempty_segs s ->
  (length acc + length (flat s) < need)%nat -> (need <= length acc + fuel)%nat ->
  read_exact fuel need acc s = Err EOFError.
Proof.
  induction fuel as [|f IH]; intros need acc s Hne Hav Hfu; [lia|].
  cbn [read_exact]. destruct (length acc <? need)%nat eqn:E; [|apply Nat.ltb_ge in E; lia].
  destruct (rd (need - length acc) s) as [c s1] eqn:Er.
  destruct (rd_spec _ s c s1 Hne Er) as (Hfl & Hlen & Hne1 & Hnz).
  destruct c as [|c0 c']; [reflexivity|].
  assert (length (flat s) = length (c0 :: c') + length (flat s1))%nat as Hl by (rewrite Hfl, app_length; reflexivity).
  apply IH; [exact Hne1| |]; rewrite app_length; cbn [length] in *; lia.
Qed.

Lemma read_body_ok need s : nonempty_segs s -> (need <= length (flat s))%nat ->
  exists s', read_body need s = Ok (firstn need (flat s), s') /\ flat s' = skipn need (flat s) /\ nonempty_segs s'.
Proof.
  intros Hne Hav. unfold read_body. destruct (rd need s) as [c s1] eqn:Er.
  destruct (rd_spec _ s c s1 Hne Er) as (Hfl & Hlen & Hne1 & _).
  assert (length (flat s) = length c + length (flat s1))%nat as Hl by (rewrite Hfl, app_length; reflexivity).
  destruct (read_exact_ok (S need) need c s1 Hne1 ltac:(lia) ltac:(lia) Hlen) as (s' & Hre & Hf' & Hne').
  exists s'. rewrite Hre. split; [|split; [|exact Hne']].
  - f_equal. f_equal. rewrite Hfl.
    replace need with (length c + (need - length c))%nat at 2 by lia. rewrite firstn_app_2. reflexivity.
  - rewrite Hf', Hfl. replace need with (length c + (need - length c))%nat at 2 by lia.
    rewrite skipn_app. rewrite (@skipn_all2 _ _ c) by lia. cbn [app]. replace (length c + (need - length c) - length c)%nat with (need - length c)%nat by lia.
    reflexivity.
Qed.

Lemma read_body_eof need s : nonempty_segs s -> (length (flat s) < need)%nat -> read_body need s = Err EOFError.
Proof.
  intros Hne Hav. unfold read_body. destruct (rd need s) as [c s1] eqn:Er.
  destruct (rd_spec _ s c s1 Hne Er) as (Hfl & Hlen & Hne1 & _).
  assert (length (flat s) = length c + length (flat s1))%nat as Hl by (rewrite Hfl, app_length; reflexivity).
  apply read_exact_eof; [exact Hne1|lia|lia].
Qed.

(* ================= frames ================= *)
From PyCraft Require Import Proofs.FieldTypesProofs.

Definition B : Z := 128 ^ 6.                 (* what the reader's VarInt (5 + 1 bytes) can carry *)
Definition comp_of (thr : option Z) : bool := match thr with Some _ => true | None => false end.

Lemma varint_rt z : 0 <= z < B -> exists bs, varint_send z = Ok bs /\ bs <> [] /\ (length bs <= 6)%nat /\
  (forall rest, varint_read 5 (bs ++ rest) = Ok (z, rest)) /\
  (forall p, sprefix p bs -> varint_read 5 p = Err EOFError).
Proof.
  intro Hz. destruct (rt_varint 5 z ltac:(lia) Hz) as (bs & Hs & Hne & Hr).
  exists bs. repeat split; try assumption.
  - destruct (send_canonical z ltac:(lia)) as (bs' & Hs' & Hc). rewrite Hs in Hs'. inversion Hs'; subst bs'.
    apply (canonical_length_iff _ _ Hc 6%nat ltac:(lia)). exact (proj2 Hz).
  - intros p Hp. exact (pe_varint (fun _ => None) 5 z bs p ltac:(lia) Hz Hs Hp).
Qed.

Lemma bind_ok {A C} (r : res A) (f : A -> res C) y : bind r f = Ok y -> exists x, r = Ok x /\ f x = Ok y.
Proof. destruct r as [x| |]; cbn [bind]; intro H; try discriminate. exists x. split; [reflexivity|exact H]. Qed.

Section FrameRT.
  Variable deflate : list Z -> list Z.
  Variable inflate : list Z -> option (list Z).
  Hypothesis inflate_deflate : forall x, inflate (deflate x) = Some x.
  Variable decide : Z -> list Z -> bool.

  (* a packet the reader can take back: id and sizes within what a VarInt length prefix can carry *)
  Definition wf_packet (p : Z * list Z) : Prop := 0 <= fst p < B /\ Z.of_nat (length (snd p)) + 6 < B.

  (* a written frame is: length prefix, then a body that open_frame maps back to (id, payload) *)
  Lemma write_frame_shape thr id body fr :
    wf_packet (id, body) -> write_frame deflate decide thr id body = Ok fr ->
    exists lb framed, fr = lb ++ framed /\ varint_send (Z.of_nat (length framed)) = Ok lb /\
      open_frame inflate (comp_of thr) framed = Ok (id, body).
  Proof.
    intros [Hid Hlen] H. cbn [fst snd] in *. unfold write_frame in H.
    destruct (varint_rt id Hid) as (idb & Hidb & Hidne & Hidl & Hidr & _). rewrite Hidb in H. cbn [bind] in H.
    apply bind_ok in H. destruct H as (framed & Hfr & H). apply bind_ok in H. destruct H as (lb & Hlb & H).
    injection H as <-. exists lb, framed. split; [reflexivity|]. split; [exact Hlb|].
    destruct thr as [t|]; cbn [comp_of open_frame].
    - destruct (decide t (idb ++ body)) eqn:Ed.
      + apply bind_ok in Hfr. destruct Hfr as (l & El & Hfr). injection Hfr as <-.
        assert (0 <= Z.of_nat (length (idb ++ body)) < B) as Hpl by (rewrite app_length; lia).
        destruct (varint_rt _ Hpl) as (l2 & Hl2 & _ & _ & Hl2r & _). rewrite El in Hl2. inversion Hl2; subst l2.
        rewrite Hl2r. cbn [bind fst snd].
        assert (Z.of_nat (length (idb ++ body)) >? 0 = true) as ->.
        { apply Z.gtb_lt. rewrite app_length. destruct idb; [congruence|cbn [length]; lia]. }
        rewrite inflate_deflate, Z.eqb_refl. apply Hidr.
      + injection Hfr as <-. change (0 :: idb ++ body) with ([0] ++ idb ++ body).
        assert (varint_read 5 ([0] ++ idb ++ body) = Ok (0, idb ++ body)) as -> by reflexivity.
        cbn [bind fst snd]. apply Hidr.
    - injection Hfr as <-. apply Hidr.
  Qed.

  (* reading one frame from ANY segmentation of (frame ++ rest): the packet, and the cursor exactly at rest *)
  Lemma read_packet_frame thr id body fr rest s :
    wf_packet (id, body) -> Z.of_nat (length fr) < B -> write_frame deflate decide thr id body = Ok fr ->
    nonempty_segs s -> flat s = fr ++ rest ->
    exists s', read_packet inflate (comp_of thr) s = Ok ((id, body), s') /\ flat s' = rest /\ nonempty_segs s'.
  Proof.
    intros Hwf Hfl Hw Hne Hs. destruct (write_frame_shape thr id body fr Hwf Hw) as (lb & framed & -> & Hlb & Hopen).
    assert (0 <= Z.of_nat (length framed) < B) as Hfr by (rewrite app_length in Hfl; lia).
    destruct (varint_rt _ Hfr) as (lb' & Hlb' & _ & _ & Hlr & _). rewrite Hlb in Hlb'. inversion Hlb'; subst lb'.
    unfold read_packet. pose proof (varint_read_s_flat 5 s Hne) as Hl. rewrite Hs, <- app_assoc, Hlr in Hl.
    destruct Hl as (s1 & -> & Hf1 & Hne1). cbn [bind fst snd]. rewrite Nat2Z.id.
    destruct (read_body_ok (length framed) s1 Hne1) as (s2 & -> & Hf2 & Hne2).
    { rewrite Hf1, app_length. lia. }
    cbn [bind fst snd]. rewrite Hf1, firstn_app, Nat.sub_diag, firstn_all, firstn_O, app_nil_r. rewrite Hopen. cbn [bind].
    exists s2. split; [reflexivity|]. split; [|exact Hne2].
    rewrite Hf2, Hf1, skipn_app, skipn_all, Nat.sub_diag. reflexivity.
  Qed.

  (* a stream that ends strictly inside a frame (or before its first byte): EOFError, whatever the segmentation *)
  Lemma read_packet_truncated thr id body fr p s :
    wf_packet (id, body) -> Z.of_nat (length fr) < B -> write_frame deflate decide thr id body = Ok fr ->
    sprefix p fr -> nonempty_segs s -> flat s = p ->
    read_packet inflate (comp_of thr) s = Err EOFError.
  Proof.
    intros Hwf Hfl Hw Hp Hne Hs. destruct (write_frame_shape thr id body fr Hwf Hw) as (lb & framed & -> & Hlb & _).
    assert (0 <= Z.of_nat (length framed) < B) as Hfr by (rewrite app_length in Hfl; lia).
    destruct (varint_rt _ Hfr) as (lb' & Hlb' & _ & _ & Hlr & Hlp). rewrite Hlb in Hlb'. inversion Hlb'; subst lb'.
    unfold read_packet. pose proof (varint_read_s_flat 5 s Hne) as Hl. rewrite Hs in Hl.
    apply sprefix_app in Hp. destruct Hp as [Hp|(p' & -> & Hp')].
    - rewrite (Hlp p Hp) in Hl. cbn [lift_s] in Hl. rewrite Hl. reflexivity.
    - rewrite Hlr in Hl. destruct Hl as (s1 & -> & Hf1 & Hne1). cbn [bind fst snd]. rewrite Nat2Z.id.
      rewrite read_body_eof; [reflexivity|exact Hne1|]. rewrite Hf1. apply (sprefix_length (fun _ => None)). exact Hp'.
  Qed.

  Definition frames (thr : option Z) (ps : list (Z * list Z)) (fs : list (list Z)) : Prop :=
    Forall2 (fun p f => wf_packet p /\ Z.of_nat (length f) < B /\ write_frame deflate decide thr (fst p) (snd p) = Ok f) ps fs.

  Lemma write_all_frames thr : forall ps fs, frames thr ps fs -> write_all deflate decide thr ps = Ok (concat fs).
  Proof.
    induction 1 as [|[id body] f ps fs (_ & _ & Hw) _ IH]; [reflexivity|].
    cbn [write_all concat fst snd] in *. rewrite Hw. cbn [bind]. rewrite IH. reflexivity.
  Qed.

  (* C01: every segmentation of the byte stream of a packet sequence (followed by anything) reads back as
     exactly that sequence, with the cursor exactly behind the last frame *)
  Theorem stream_roundtrip thr : forall ps fs, frames thr ps fs -> forall rest s,
    nonempty_segs s -> flat s = concat fs ++ rest ->
    exists s', read_n inflate (comp_of thr) (length ps) s = Ok (ps, s') /\ flat s' = rest /\ nonempty_segs s'.
  Proof.
    induction 1 as [|[id body] f ps fs (Hwf & Hfl & Hw) _ IH]; intros rest s Hne Hs.
    - exists s. repeat split; assumption.
    - cbn [concat] in Hs. rewrite <- app_assoc in Hs. cbn [fst snd] in Hw.
      destruct (read_packet_frame thr id body f _ s Hwf Hfl Hw Hne Hs) as (s1 & Hr & Hf1 & Hne1).
      destruct (IH rest s1 Hne1 Hf1) as (s' & Hrn & Hf' & Hne').
      exists s'. cbn [length read_n]. rewrite Hr. cbn [bind fst snd]. rewrite Hrn. cbn [bind fst snd].
      repeat split; assumption.
  Qed.

  (* how many whole frames fit in the first k bytes *)
  Fixpoint complete (k : nat) (fs : list (list Z)) : nat :=
    match fs with
    | [] => O
    | f :: t => if (length f <=? k)%nat then S (complete (k - length f) t) else O
    end.

  (* C15 / C01: the stream stops after k bytes: exactly the frames wholly contained in the prefix are
     delivered, then EOFError - for every segmentation, with fuel one more than the number of frames
     (never OutOfFuel) *)
  Theorem stream_truncated thr : forall ps fs, frames thr ps fs -> forall k s fuel,
    nonempty_segs s -> flat s = firstn k (concat fs) -> (length ps < fuel)%nat ->
    read_until_error inflate fuel (comp_of thr) s = (firstn (complete k fs) ps, Err EOFError).
  Proof.
    induction 1 as [|[id body] f ps fs (Hwf & Hfl & Hw) _ IH]; intros k s fuel Hne Hs Hfu.
    - destruct fuel as [|g]; [cbn in Hfu; lia|]. cbn [concat] in Hs. rewrite firstn_nil in Hs.
      rewrite (nonempty_flat_nil s Hne Hs). reflexivity.
    - destruct fuel as [|g]; [cbn in Hfu; lia|]. cbn [length] in Hfu. cbn [fst snd] in Hw.
      cbn [concat] in Hs. rewrite firstn_app in Hs. cbn [complete read_until_error].
      destruct (length f <=? k)%nat eqn:E.
      + apply Nat.leb_le in E. rewrite firstn_all2 in Hs by lia.
        destruct (read_packet_frame thr id body f _ s Hwf Hfl Hw Hne Hs) as (s1 & -> & Hf1 & Hne1).
        rewrite (IH (k - length f)%nat s1 g Hne1 Hf1 ltac:(lia)). reflexivity.
      + apply Nat.leb_gt in E. replace (k - length f)%nat with O in Hs by lia. rewrite firstn_O, app_nil_r in Hs.
        rewrite (read_packet_truncated thr id body f (firstn k f) s Hwf Hfl Hw); [reflexivity| |exact Hne|exact Hs].
        exists (skipn k f). split; [|symmetry; apply firstn_skipn].
        intro Hn. apply (f_equal (@length Z)) in Hn. rewrite skipn_length in Hn. cbn in Hn. lia.
  Qed.

  (* a frame whose id no decoder knows is consumed whole: same cursor as for any other id (the model
     returns (id, payload) for every id; the known/unknown split happens after the frame is complete) *)
End FrameRT.
