From Coq Require Import ZArith List Bool Arith Lia.
From PyCraft Require Import Model.Conc.
Import ListNotations.

(* ---------- lists with one updated position ---------- *)
Lemma upd_length {A} (l : list A) t v : length (upd l t v) = length l.
Proof.
  unfold upd. rewrite app_length, firstn_length. destruct (skipn t l) as [|x r] eqn:E.
  - cbn. assert (length l <= t) as H. { destruct (le_lt_dec (length l) t); [assumption|]. apply (f_equal (@length A)) in E. rewrite skipn_length in E. cbn in E. lia. } lia.
  - cbn [length]. apply (f_equal (@length A)) in E. rewrite skipn_length in E. cbn in E. lia.
Qed.
Lemma nth_upd_same {A} (l : list A) t v th : nth_error l t = Some th -> nth_error (upd l t v) t = Some v.
Proof.
  intro H. unfold upd. assert (t < length l) as Hl by (apply nth_error_Some; congruence).
  destruct (skipn t l) as [|x r] eqn:E; [apply (f_equal (@length A)) in E; rewrite skipn_length in E; cbn in E; lia|].
  rewrite nth_error_app2 by (rewrite firstn_length; lia). rewrite firstn_length. replace (t - Nat.min t (length l)) with 0 by lia. reflexivity.
Qed.
Lemma nth_upd_other {A} (l : list A) t v u : u <> t -> nth_error (upd l t v) u = nth_error l u.
Proof.
  intro Hne. unfold upd. destruct (lt_dec u t) as [Hlt|Hge].
  - destruct (le_lt_dec (length l) u) as [Hlen|Hlen].
    + rewrite (proj2 (nth_error_None l u)) by lia. apply nth_error_None. rewrite app_length, firstn_length. rewrite skipn_all2 by lia. cbn. lia.
    + rewrite nth_error_app1 by (rewrite firstn_length; lia). transitivity (nth_error (firstn t l ++ skipn t l) u); [|rewrite firstn_skipn; reflexivity].
      rewrite nth_error_app1 by (rewrite firstn_length; lia). reflexivity.
  - assert (t < u) as Hgt by lia. destruct (skipn t l) as [|x r] eqn:E.
    + assert (length l <= t) as Hl. { destruct (le_lt_dec (length l) t); [assumption|]. apply (f_equal (@length A)) in E. rewrite skipn_length in E. cbn in E. lia. }
      rewrite app_nil_r, firstn_all2 by lia. reflexivity.
    + assert (t < length l) as Hl by (apply (f_equal (@length A)) in E; rewrite skipn_length in E; cbn in E; lia).
      rewrite nth_error_app2 by (rewrite firstn_length; lia). rewrite firstn_length. replace (Nat.min t (length l)) with t by lia.
      transitivity (nth_error (firstn t l ++ skipn t l) u); [|rewrite firstn_skipn; reflexivity].
      rewrite nth_error_app2 by (rewrite firstn_length; lia). rewrite firstn_length. replace (Nat.min t (length l)) with t by lia.
      rewrite E. destruct (u - t) as [|k] eqn:Ek; [lia|]. reflexivity.
Qed.

Definition cnt (x : Z) (l : list Z) : nat := count_occ Z.eq_dec l x.
Lemma cnt_app x a b : cnt x (a ++ b) = cnt x a + cnt x b.
Proof. apply count_occ_app. Qed.
Lemma cnt_cons x y l : cnt x (y :: l) = (if Z.eq_dec y x then 1 else 0) + cnt x l.
Proof. unfold cnt. cbn [count_occ]. destruct (Z.eq_dec y x); reflexivity. Qed.
Lemma cnt_nil x : cnt x [] = 0.  Proof. reflexivity. Qed.
Lemma cnt_flat_upd {A} (f : A -> list Z) x (l : list A) t v th : nth_error l t = Some th ->
  cnt x (flat_map f (upd l t v)) + cnt x (f th) = cnt x (flat_map f l) + cnt x (f v).
Proof.
  intro H. unfold upd. assert (t < length l) as Hl by (apply nth_error_Some; congruence).
  pose proof (firstn_skipn t l) as Hs. destruct (skipn t l) as [|y r] eqn:E; [apply (f_equal (@length A)) in E; rewrite skipn_length in E; cbn in E; lia|].
  assert (y = th) as ->. { rewrite <- Hs in H. rewrite nth_error_app2 in H by (rewrite firstn_length; lia). rewrite firstn_length in H. replace (t - Nat.min t (length l)) with 0 in H by lia. cbn in H. congruence. }
  assert (flat_map f l = flat_map f (firstn t l ++ th :: r)) as -> by (rewrite Hs; reflexivity).
  rewrite !flat_map_app. cbn [flat_map]. rewrite !cnt_app. lia.
Qed.

(* ---------- the invariant ---------- *)
Definition holds (c : pc) : bool := match c with Hold _ | Popped _ _ | Len _ _ => true | _ => false end.
Definition owed (c : pc) : option pkt := match c with Len p _ => Some p | _ => None end.
Definition infl (c : pc) : list pkt := match c with Popped p _ | Len p _ => if snd p then [p] else [] | _ => [] end.
Definition holder_pc (s : st) : pc :=
  match lock s with Some t => match nth_error (threads s) t with Some th => th_pc th | None => Idle end | None => Idle end.

(* whole (length, payload) pairs, plus at most one open pair *)
Inductive wf_wire : list wevent -> list pkt -> option pkt -> Prop :=
| wf_nil : wf_wire [] [] None
| wf_len w fs p : wf_wire w fs None -> wf_wire (w ++ [SendLen p]) fs (Some p)
| wf_body w fs p : wf_wire w fs (Some p) -> wf_wire (w ++ [SendBody p]) (fs ++ [p]) None.

Definition op_ids (o : op) : list Z := match o with OQueue x | OForce x => [x] | ODisconnect _ => [] end.
Definition th_prog_ids (th : thread) : list Z := flat_map op_ids (th_ops th).
Definition th_held_ids (th : thread) : list Z := match th_pc th with Popped p _ | Len p _ => [fst p] | _ => [] end.
Definition prog_ids (ths : list thread) : list Z := flat_map th_prog_ids ths.
Definition held_ids (ths : list thread) : list Z := flat_map th_held_ids ths.

Record Inv (cnt0 : Z -> nat) (s : st) : Prop := {
  inv_lock1 : forall t th, nth_error (threads s) t = Some th -> holds (th_pc th) = true -> lock s = Some t;
  inv_lock2 : forall t, lock s = Some t -> exists th, nth_error (threads s) t = Some th /\ holds (th_pc th) = true;
  inv_wire : exists fs, wf_wire (wire s) fs (owed (holder_pc s)) /\ filter snd fs ++ infl (holder_pc s) = popped s
             /\ (forall x, cnt x (prog_ids (threads s)) + cnt x (map fst (queue s)) + cnt x (held_ids (threads s)) + cnt x (map fst fs) <= cnt0 x)
             /\ (forall n, closed_at s = Some (n, true) -> firstn n (qlog s) = filter snd fs);
  inv_q : qlog s = popped s ++ queue s;
  inv_closed : sock_open s = false -> interrupt s = true /\ infl (holder_pc s) = [] /\ owed (holder_pc s) = None /\ closed_at s <> None;
  inv_open : sock_open s = true -> closed_at s = None;
  inv_closed_len : forall n fl, closed_at s = Some (n, fl) -> n <= length (qlog s);
  inv_qtag : Forall (fun p => snd p = true) (queue s)
}.

Lemma nth_with_thread s t th' u : forall th, nth_error (threads s) t = Some th ->
  nth_error (threads (with_thread s t th')) u = if Nat.eqb u t then Some th' else nth_error (threads s) u.
Proof.
  intros th H. cbn [with_thread threads]. destruct (Nat.eqb u t) eqn:E.
  - apply Nat.eqb_eq in E. subst. exact (nth_upd_same _ _ _ _ H).
  - apply Nat.eqb_neq in E. apply nth_upd_other. exact E.
Qed.

Lemma wf_wire_inv_none w fs : wf_wire w fs None -> True.  Proof. trivial. Qed.

Lemma filter_snd_app (a b : list pkt) : filter snd (a ++ b) = filter snd a ++ filter snd b.
Proof. apply filter_app. Qed.

(* ---------- frame lemmas: what a step of thread t does to the derived notions ---------- *)
Section Frame.
  Variable s : st.
  Variable t : nat.
  Variable th th' : thread.
  Hypothesis Hth : nth_error (threads s) t = Some th.

  Lemma ids_after x (X : st) : threads X = threads s ->
    cnt x (prog_ids (threads (with_thread X t th'))) + cnt x (th_prog_ids th) = cnt x (prog_ids (threads s)) + cnt x (th_prog_ids th') /\
    cnt x (held_ids (threads (with_thread X t th'))) + cnt x (th_held_ids th) = cnt x (held_ids (threads s)) + cnt x (th_held_ids th').
  Proof.
    intro HX. cbn [with_thread threads]. rewrite HX. split; apply cnt_flat_upd; exact Hth.
  Qed.

  (* the lock discipline after thread t moved to th' and the lock became l' *)
  Lemma lock_after (X : st) (cnt0 : Z -> nat) l' : Inv cnt0 s -> threads X = threads s ->
    (holds (th_pc th') = true -> l' = Some t) ->
    (l' = Some t -> holds (th_pc th') = true) ->
    (forall u, u <> t -> l' = Some u -> lock s = Some u) ->
    (forall u, u <> t -> lock s = Some u -> l' = Some u) ->
    let s' := with_thread (set_lock X l') t th' in
    (forall u thu, nth_error (threads s') u = Some thu -> holds (th_pc thu) = true -> lock s' = Some u) /\
    (forall u, lock s' = Some u -> exists thu, nth_error (threads s') u = Some thu /\ holds (th_pc thu) = true).
  Proof.
    intros HI HX H1 H2 H3 H4. cbn zeta. split.
    - intros u thu Hu Hh. cbn [with_thread set_lock lock threads] in *. rewrite HX in Hu.
      destruct (Nat.eq_dec u t) as [->|Hne].
      + rewrite (nth_upd_same _ _ _ _ Hth) in Hu. inversion Hu; subst. apply H1. exact Hh.
      + rewrite nth_upd_other in Hu by exact Hne. apply H4; [exact Hne|]. exact (inv_lock1 _ _ HI u thu Hu Hh).
    - intros u Hu. cbn [with_thread set_lock lock threads] in *. rewrite HX.
      destruct (Nat.eq_dec u t) as [->|Hne].
      + exists th'. split; [exact (nth_upd_same _ _ _ _ Hth)|apply H2; exact Hu].
      + rewrite nth_upd_other by exact Hne. apply (inv_lock2 _ _ HI). apply H3; assumption.
  Qed.

  Lemma holder_after_self (X : st) : threads X = threads s ->
    holder_pc (with_thread (set_lock X (Some t)) t th') = th_pc th'.
  Proof. intro HX. unfold holder_pc. cbn [with_thread set_lock lock threads]. rewrite HX, (nth_upd_same _ _ _ _ Hth). reflexivity. Qed.
  Lemma holder_after_none (X : st) : holder_pc (with_thread (set_lock X None) t th') = Idle.
  Proof. reflexivity. Qed.
  Lemma holder_after_other (X : st) u : threads X = threads s -> u <> t ->
    holder_pc (with_thread (set_lock X (Some u)) t th') = match nth_error (threads s) u with Some thu => th_pc thu | None => Idle end.
  Proof. intros HX Hne. unfold holder_pc. cbn [with_thread set_lock lock threads]. rewrite HX, nth_upd_other by exact Hne. reflexivity. Qed.
End Frame.

Lemma holder_unchanged s t th th' (X : st) cnt0 : Inv cnt0 s -> nth_error (threads s) t = Some th -> holds (th_pc th) = false ->
  threads X = threads s -> lock X = lock s -> holder_pc (with_thread X t th') = holder_pc s.
Proof.
  intros HI Hth Hh HX HL. unfold holder_pc. cbn [with_thread lock threads]. rewrite HL, HX. destruct (lock s) as [u|] eqn:El; [|reflexivity].
  destruct (Nat.eq_dec u t) as [->|Hne].
  - destruct (inv_lock2 _ _ HI t El) as (th0 & H0 & Hh0). rewrite Hth in H0. inversion H0; subst. congruence.
  - rewrite nth_upd_other by exact Hne. reflexivity.
Qed.

Lemma not_holder_lock s t th cnt0 : Inv cnt0 s -> nth_error (threads s) t = Some th -> holds (th_pc th) = false -> lock s <> Some t.
Proof. intros HI Hth Hh El. destruct (inv_lock2 _ _ HI t El) as (th0 & H0 & Hh0). rewrite Hth in H0. inversion H0; subst. congruence. Qed.

Lemma holder_is s t th cnt0 : Inv cnt0 s -> nth_error (threads s) t = Some th -> holds (th_pc th) = true -> lock s = Some t /\ holder_pc s = th_pc th.
Proof. intros HI Hth Hh. pose proof (inv_lock1 _ _ HI t th Hth Hh) as El. split; [exact El|]. unfold holder_pc. rewrite El, Hth. reflexivity. Qed.

(* A: a thread that does not hold the lock makes a local move (finishes, or appends to the queue) *)
Lemma Inv_local cnt0 s t th th' (ps : list pkt) :
  Inv cnt0 s -> nth_error (threads s) t = Some th -> holds (th_pc th) = false -> holds (th_pc th') = false ->
  th_held_ids th = [] -> th_held_ids th' = [] -> th_prog_ids th = map fst ps ++ th_prog_ids th' -> Forall (fun p => snd p = true) ps ->
  Inv cnt0 (with_thread {| threads := threads s; lock := lock s; queue := queue s ++ ps; wire := wire s; interrupt := interrupt s;
                           sock_open := sock_open s; qlog := qlog s ++ ps; popped := popped s; closed_at := closed_at s |} t th').
Proof.
  intros HI Hth Hh Hh' Hheld Hheld' Hids Hps.
  set (X := {| threads := threads s; lock := lock s; queue := queue s ++ ps; wire := wire s; interrupt := interrupt s;
               sock_open := sock_open s; qlog := qlog s ++ ps; popped := popped s; closed_at := closed_at s |}).
  assert (holder_pc (with_thread X t th') = holder_pc s) as Hhp by (apply (holder_unchanged s t th th' X cnt0); auto).
  pose proof (not_holder_lock s t th cnt0 HI Hth Hh) as Hnl.
  destruct (lock_after s t th th' Hth X cnt0 (lock s) HI eq_refl) as [L1 L2]; try congruence; try (intros; assumption).
  constructor.
  - exact L1.
  - exact L2.
  - destruct (inv_wire _ _ HI) as (fs & Hw & Hp & Hc & Hcl). exists fs. rewrite Hhp. cbn [with_thread wire popped queue closed_at qlog X].
    split; [exact Hw|]. split; [exact Hp|]. split.
    + intro x. destruct (ids_after s t th th' Hth x X eq_refl) as [E1 E2]. specialize (Hc x).
      rewrite Hheld, Hheld' in E2. rewrite Hids, cnt_app in E1. rewrite map_app, cnt_app. cbn [with_thread threads X] in E1, E2 |- *. unfold pkt in *. lia.
    + intros n Hn. rewrite <- (Hcl n Hn). pose proof (inv_closed_len _ _ HI n true Hn). rewrite firstn_app. replace (n - length (qlog s)) with 0 by lia. rewrite firstn_O, app_nil_r. reflexivity.
  - cbn [with_thread qlog popped queue X]. rewrite (inv_q _ _ HI), app_assoc. reflexivity.
  - rewrite Hhp. exact (inv_closed _ _ HI).
  - exact (inv_open _ _ HI).
  - intros n fl Hn. cbn [with_thread qlog closed_at X] in *. pose proof (inv_closed_len _ _ HI n fl Hn). rewrite app_length. lia.
  - cbn [with_thread queue X]. apply Forall_app. split; [exact (inv_qtag _ _ HI)|exact Hps].
Qed.

(* B: an idle thread takes the free lock *)
Lemma Inv_acquire cnt0 s t th th' :
  Inv cnt0 s -> nth_error (threads s) t = Some th -> holds (th_pc th) = false -> lock s = None ->
  holds (th_pc th') = true -> owed (th_pc th') = None -> infl (th_pc th') = [] ->
  th_held_ids th = [] -> th_prog_ids th = th_held_ids th' ++ th_prog_ids th' ->
  Inv cnt0 (with_thread (set_lock s (Some t)) t th').
Proof.
  intros HI Hth Hh Hl Hh' Ho Hi Hheld Hids.
  assert (holder_pc s = Idle) as Hhs by (unfold holder_pc; rewrite Hl; reflexivity).
  pose proof (holder_after_self s t th th' Hth s eq_refl) as Hhp.
  destruct (lock_after s t th th' Hth s cnt0 (Some t) HI eq_refl) as [L1 L2]; try congruence; try (intros; assumption).
  constructor.
  - exact L1.
  - exact L2.
  - destruct (inv_wire _ _ HI) as (fs & Hw & Hp & Hc & Hcl). exists fs. rewrite Hhp, Ho, Hi. rewrite Hhs in Hw, Hp. cbn [owed infl] in Hw, Hp.
    cbn [with_thread set_lock wire popped queue closed_at qlog]. split; [exact Hw|]. split; [exact Hp|]. split; [|exact Hcl].
    intro x. destruct (ids_after s t th th' Hth x (set_lock s (Some t)) eq_refl) as [E1 E2]. specialize (Hc x).
    rewrite Hheld in E2. rewrite Hids, cnt_app in E1. cbn [with_thread set_lock threads] in E1, E2 |- *. unfold pkt in *. cbn [cnt count_occ] in E2. lia.
  - exact (inv_q _ _ HI).
  - rewrite Hhp, Ho, Hi. intro Hc. destruct (inv_closed _ _ HI Hc) as (A & _ & _ & D). repeat split; assumption.
  - exact (inv_open _ _ HI).
  - exact (inv_closed_len _ _ HI).
  - exact (inv_qtag _ _ HI).
Qed.

(* C1: the lock holder releases *)
Lemma Inv_release cnt0 s t th th' :
  Inv cnt0 s -> nth_error (threads s) t = Some th -> holds (th_pc th) = true -> owed (th_pc th) = None -> infl (th_pc th) = [] ->
  holds (th_pc th') = false -> th_held_ids th' = [] -> th_prog_ids th' = th_prog_ids th ->
  Inv cnt0 (with_thread (set_lock s None) t th').
Proof.
  intros HI Hth Hh Ho Hi Hh' Hheld' Hids.
  destruct (holder_is s t th cnt0 HI Hth Hh) as [Hl Hhs].
  destruct (lock_after s t th th' Hth s cnt0 None HI eq_refl) as [L1 L2]; try congruence.
  constructor.
  - exact L1.
  - exact L2.
  - destruct (inv_wire _ _ HI) as (fs & Hw & Hp & Hc & Hcl). exists fs. rewrite holder_after_none. rewrite Hhs, Ho in Hw. rewrite Hhs, Hi in Hp.
    cbn [with_thread set_lock wire popped queue closed_at qlog owed infl]. split; [exact Hw|]. split; [exact Hp|]. split; [|exact Hcl].
    intro x. destruct (ids_after s t th th' Hth x (set_lock s None) eq_refl) as [E1 E2]. specialize (Hc x).
    rewrite Hheld' in E2. rewrite Hids in E1. cbn [with_thread set_lock threads] in E1, E2 |- *. unfold pkt in *. cbn [cnt count_occ] in E2. lia.
  - exact (inv_q _ _ HI).
  - rewrite holder_after_none. intro Hc. destruct (inv_closed _ _ HI Hc) as (A & _ & _ & D). repeat split; assumption.
  - exact (inv_open _ _ HI).
  - exact (inv_closed_len _ _ HI).
  - exact (inv_qtag _ _ HI).
Qed.

(* holder keeps the lock: generic frame for the lock facts and the holder's pc *)
Lemma holder_keeps cnt0 s t th th' (X : st) :
  Inv cnt0 s -> nth_error (threads s) t = Some th -> holds (th_pc th) = true -> holds (th_pc th') = true ->
  threads X = threads s -> lock X = lock s ->
  lock (with_thread X t th') = Some t /\ holder_pc (with_thread X t th') = th_pc th' /\
  (forall u thu, nth_error (threads (with_thread X t th')) u = Some thu -> holds (th_pc thu) = true -> lock (with_thread X t th') = Some u) /\
  (forall u, lock (with_thread X t th') = Some u -> exists thu, nth_error (threads (with_thread X t th')) u = Some thu /\ holds (th_pc thu) = true).
Proof.
  intros HI Hth Hh Hh' HX HL. destruct (holder_is s t th cnt0 HI Hth Hh) as [Hl Hhs].
  assert (lock (with_thread X t th') = Some t) as E1 by (cbn [with_thread lock]; congruence).
  split; [exact E1|]. split.
  - unfold holder_pc. rewrite E1. cbn [with_thread threads]. rewrite HX, (nth_upd_same _ _ _ _ Hth). reflexivity.
  - split.
    + intros u thu Hu Hhu. rewrite E1. cbn [with_thread threads] in Hu. rewrite HX in Hu. destruct (Nat.eq_dec u t) as [->|Hne]; [reflexivity|].
      rewrite nth_upd_other in Hu by exact Hne. pose proof (inv_lock1 _ _ HI u thu Hu Hhu). congruence.
    + intros u Hu. rewrite E1 in Hu. inversion Hu; subst u. exists th'. split; [cbn [with_thread threads]; rewrite HX; exact (nth_upd_same _ _ _ _ Hth)|exact Hh'].
Qed.

(* C2: the holder sends the length prefix of the packet it has taken *)
Lemma Inv_send_len cnt0 s t th p m :
  Inv cnt0 s -> nth_error (threads s) t = Some th -> th_pc th = Popped p m -> sock_open s = true ->
  Inv cnt0 (with_thread (emit s (SendLen p)) t (set_pc th (Len p m))).
Proof.
  intros HI Hth Hpc Hopen. assert (holds (th_pc th) = true) as Hh by (rewrite Hpc; reflexivity).
  destruct (holder_is s t th cnt0 HI Hth Hh) as [Hl Hhs].
  destruct (holder_keeps cnt0 s t th (set_pc th (Len p m)) (emit s (SendLen p)) HI Hth Hh eq_refl eq_refl eq_refl) as (E1 & E2 & L1 & L2).
  constructor; try assumption.
  - destruct (inv_wire _ _ HI) as (fs & Hw & Hp & Hc & Hcl). exists fs. rewrite E2. rewrite Hhs, Hpc in Hw, Hp. cbn [owed infl set_pc th_pc] in *.
    cbn [with_thread emit wire popped queue closed_at qlog]. split; [apply wf_len; exact Hw|]. split; [exact Hp|]. split; [|exact Hcl].
    intro x. destruct (ids_after s t th (set_pc th (Len p m)) Hth x (emit s (SendLen p)) eq_refl) as [A B]. specialize (Hc x).
    unfold th_prog_ids, th_held_ids in A, B. cbn [set_pc th_ops th_pc] in A, B. rewrite Hpc in B. cbn [with_thread emit threads] in A, B |- *. unfold pkt in *. lia.
  - exact (inv_q _ _ HI).
  - cbn [with_thread emit sock_open]. congruence.
  - exact (inv_open _ _ HI).
  - exact (inv_closed_len _ _ HI).
  - exact (inv_qtag _ _ HI).
Qed.

(* C3: the holder sends the payload: the frame is complete *)
Lemma Inv_send_body cnt0 s t th p m :
  Inv cnt0 s -> nth_error (threads s) t = Some th -> th_pc th = Len p m ->
  Inv cnt0 (with_thread (emit s (SendBody p)) t (set_pc th (Hold m))).
Proof.
  intros HI Hth Hpc. assert (holds (th_pc th) = true) as Hh by (rewrite Hpc; reflexivity).
  destruct (holder_is s t th cnt0 HI Hth Hh) as [Hl Hhs].
  assert (sock_open s = true) as Hopen.
  { destruct (sock_open s) eqn:E; [reflexivity|]. destruct (inv_closed _ _ HI E) as (_ & _ & Ho & _). rewrite Hhs, Hpc in Ho. discriminate. }
  destruct (holder_keeps cnt0 s t th (set_pc th (Hold m)) (emit s (SendBody p)) HI Hth Hh eq_refl eq_refl eq_refl) as (E1 & E2 & L1 & L2).
  constructor; try assumption.
  - destruct (inv_wire _ _ HI) as (fs & Hw & Hp & Hc & Hcl). exists (fs ++ [p]). rewrite E2. rewrite Hhs, Hpc in Hw, Hp. cbn [owed infl set_pc th_pc] in *.
    cbn [with_thread emit wire popped queue closed_at qlog]. split; [apply wf_body; exact Hw|]. split.
    + rewrite filter_snd_app, app_nil_r, <- Hp. cbn [filter]. destruct (snd p); reflexivity.
    + split.
      * intro x. destruct (ids_after s t th (set_pc th (Hold m)) Hth x (emit s (SendBody p)) eq_refl) as [A B]. specialize (Hc x).
        unfold th_prog_ids, th_held_ids in A, B. cbn [set_pc th_ops th_pc] in A, B. rewrite Hpc in B. rewrite map_app, cnt_app. cbn [map]. cbn [with_thread emit threads] in A, B |- *. unfold pkt in *. change (cnt x []) with 0 in B. lia.
      * intros n Hn. rewrite (inv_open _ _ HI Hopen) in Hn. discriminate.
  - exact (inv_q _ _ HI).
  - cbn [with_thread emit sock_open]. congruence.
  - exact (inv_open _ _ HI).
  - exact (inv_closed_len _ _ HI).
  - exact (inv_qtag _ _ HI).
Qed.

(* C4: the holder pops the head of the queue (the socket is open) *)
Lemma Inv_pop cnt0 s t th m m' p q :
  Inv cnt0 s -> nth_error (threads s) t = Some th -> th_pc th = Hold m -> queue s = p :: q -> sock_open s = true ->
  Inv cnt0 (with_thread (pop s p q) t (set_pc th (Popped p m'))).
Proof.
  intros HI Hth Hpc Hq Hopen. assert (holds (th_pc th) = true) as Hh by (rewrite Hpc; reflexivity).
  destruct (holder_is s t th cnt0 HI Hth Hh) as [Hl Hhs].
  pose proof (inv_qtag _ _ HI) as Htag. rewrite Hq in Htag. inversion Htag as [|? ? Hp1 Hq1]; subst.
  destruct (holder_keeps cnt0 s t th (set_pc th (Popped p m')) (pop s p q) HI Hth Hh eq_refl eq_refl eq_refl) as (E1 & E2 & L1 & L2).
  constructor; try assumption.
  - destruct (inv_wire _ _ HI) as (fs & Hw & Hp & Hc & Hcl). exists fs. rewrite E2. rewrite Hhs, Hpc in Hw, Hp. cbn [owed infl set_pc th_pc] in *.
    cbn [with_thread pop wire popped queue closed_at qlog]. split; [exact Hw|]. split.
    + rewrite Hp1. rewrite app_nil_r in Hp. rewrite Hp. reflexivity.
    + split; [|exact Hcl].
      intro x. destruct (ids_after s t th (set_pc th (Popped p m')) Hth x (pop s p q) eq_refl) as [A B]. specialize (Hc x).
      unfold th_prog_ids, th_held_ids in A, B. cbn [set_pc th_ops th_pc] in A, B. rewrite Hpc in B. rewrite Hq in Hc. cbn [map] in Hc.
      cbn [with_thread pop threads] in A, B |- *. unfold pkt in *. rewrite ?cnt_cons, ?cnt_nil in B, Hc. destruct (Z.eq_dec (fst p) x); lia.
  - cbn [with_thread pop qlog popped queue]. rewrite (inv_q _ _ HI), Hq, <- app_assoc. reflexivity.
  - cbn [with_thread pop sock_open]. congruence.
  - exact (inv_open _ _ HI).
  - exact (inv_closed_len _ _ HI).
Qed.

(* C5: disconnect() interrupts and closes the socket; [fl] says that the queue had been flushed first *)
Lemma Inv_close cnt0 s t th imm fl :
  Inv cnt0 s -> nth_error (threads s) t = Some th -> th_pc th = Hold (MFlush imm) ->
  (fl = true -> queue s = [] /\ sock_open s = true) ->
  Inv cnt0 (with_thread (close s fl) t (set_pc th (Hold MClosed))).
Proof.
  intros HI Hth Hpc Hfl. assert (holds (th_pc th) = true) as Hh by (rewrite Hpc; reflexivity).
  destruct (holder_is s t th cnt0 HI Hth Hh) as [Hl Hhs].
  destruct (holder_keeps cnt0 s t th (set_pc th (Hold MClosed)) (close s fl) HI Hth Hh eq_refl eq_refl eq_refl) as (E1 & E2 & L1 & L2).
  constructor; try assumption.
  - destruct (inv_wire _ _ HI) as (fs & Hw & Hp & Hc & Hcl). exists fs. rewrite E2. rewrite Hhs, Hpc in Hw, Hp. cbn [owed infl set_pc th_pc] in *.
    cbn [with_thread close wire popped queue closed_at qlog]. split; [exact Hw|]. split; [exact Hp|]. split.
    + intro x. destruct (ids_after s t th (set_pc th (Hold MClosed)) Hth x (close s fl) eq_refl) as [A B]. specialize (Hc x).
      unfold th_prog_ids, th_held_ids in A, B. cbn [set_pc th_ops th_pc] in A, B. rewrite Hpc in B. cbn [with_thread close threads] in A, B |- *. unfold pkt in *. lia.
    + intros n Hn. destruct (closed_at s) as [c|] eqn:Ec.
      * apply Hcl. exact Hn.
      * inversion Hn; subst. destruct (Hfl eq_refl) as [Hq _]. rewrite firstn_all. rewrite (inv_q _ _ HI), Hq, app_nil_r, <- Hp, app_nil_r. reflexivity.
  - exact (inv_q _ _ HI).
  - intros _. rewrite E2. cbn [with_thread close interrupt closed_at set_pc th_pc infl owed]. repeat split. destruct (closed_at s); discriminate.
  - cbn [with_thread close sock_open]. discriminate.
  - intros n fl' Hn. cbn [with_thread close closed_at qlog] in *. destruct (closed_at s) as [c|] eqn:Ec.
    + apply (inv_closed_len _ _ HI n fl'). rewrite Ec. exact Hn.
    + inversion Hn; subst. apply le_n.
  - exact (inv_qtag _ _ HI).
Qed.

(* ---------- every step of every thread preserves the invariant ---------- *)
Theorem Inv_step limit cnt0 s t : Inv cnt0 s -> Inv cnt0 (step limit s t).
Proof.
  intro HI. unfold step. destruct (nth_error (threads s) t) as [th|] eqn:Hth; [|exact HI].
  destruct (th_pc th) as [|m|p m|p m|] eqn:Hpc.
  - (* Idle *)
    destruct (th_net th) eqn:Hnet.
    + destruct (interrupt s) eqn:Eint.
      * assert (forall th', with_thread s t th' = with_thread {| threads := threads s; lock := lock s; queue := queue s ++ []; wire := wire s; interrupt := interrupt s;
                                   sock_open := sock_open s; qlog := qlog s ++ []; popped := popped s; closed_at := closed_at s |} t th') as Hsame
            by (intro th'; unfold with_thread; cbn; rewrite !app_nil_r; reflexivity).
        rewrite Hsame. apply (Inv_local cnt0 s t th (set_pc th Done) []); try assumption; try (rewrite Hpc; reflexivity); try reflexivity.
        -- unfold th_held_ids. rewrite Hpc. reflexivity.
        -- constructor.
      * unfold free_for. destruct (lock s) eqn:El; [exact HI|].
        apply (Inv_acquire cnt0 s t th (set_pc th (Hold (MNet 0)))); try assumption; try (rewrite Hpc; reflexivity); try reflexivity.
        unfold th_held_ids. rewrite Hpc. reflexivity.
    + destruct (th_ops th) as [|[x|x|imm] r] eqn:Hops; [exact HI| | |].
      * (* deque.append *)
        apply (Inv_local cnt0 s t th (set_ops_pc th r Idle) [(x, true)]); try assumption; try (rewrite Hpc; reflexivity); try reflexivity.
        -- unfold th_held_ids. rewrite Hpc. reflexivity.
        -- unfold th_prog_ids. rewrite Hops. reflexivity.
        -- repeat constructor.
      * unfold free_for. destruct (lock s) eqn:El; [exact HI|].
        apply (Inv_acquire cnt0 s t th (set_ops_pc th r (Popped (x, false) MForceDone))); try assumption; try (rewrite Hpc; reflexivity); try reflexivity.
        -- unfold th_held_ids. rewrite Hpc. reflexivity.
        -- unfold th_prog_ids. rewrite Hops. reflexivity.
      * unfold free_for. destruct (lock s) eqn:El; [exact HI|].
        apply (Inv_acquire cnt0 s t th (set_ops_pc th r (Hold (MFlush imm)))); try assumption; try (rewrite Hpc; reflexivity); try reflexivity.
        -- unfold th_held_ids. rewrite Hpc. reflexivity.
        -- unfold th_prog_ids. rewrite Hops. reflexivity.
  - (* Hold m *)
    assert (holds (th_pc th) = true) as Hh by (rewrite Hpc; reflexivity).
    destruct (holder_is s t th cnt0 HI Hth Hh) as [Hl Hhs].
    destruct m as [|imm| |k].
    + apply (Inv_release cnt0 s t th (set_pc th Idle)); try assumption; try (rewrite Hpc; reflexivity); reflexivity.
    + destruct (sock_open s) eqn:Hopen; destruct imm; cbn [orb negb].
      * apply (Inv_close cnt0 s t th true false); try assumption. discriminate.
      * destruct (queue s) as [|p q] eqn:Hq.
        -- apply (Inv_close cnt0 s t th false true); try assumption. intros _. split; assumption.
        -- apply (Inv_pop cnt0 s t th (MFlush false) (MFlush false) p q); assumption.
      * apply (Inv_close cnt0 s t th true false); try assumption. discriminate.
      * apply (Inv_close cnt0 s t th false false); try assumption. discriminate.
    + apply (Inv_release cnt0 s t th (set_pc th Idle)); try assumption; try (rewrite Hpc; reflexivity); reflexivity.
    + destruct (interrupt s || (limit <=? k)) eqn:Ei.
      * apply (Inv_release cnt0 s t th (set_pc th Idle)); try assumption; try (rewrite Hpc; reflexivity); reflexivity.
      * destruct (queue s) as [|p q] eqn:Hq.
        -- apply (Inv_release cnt0 s t th (set_pc th Idle)); try assumption; try (rewrite Hpc; reflexivity); reflexivity.
        -- apply orb_false_iff in Ei. destruct Ei as [Ei _].
           assert (sock_open s = true) as Hopen. { destruct (sock_open s) eqn:E; [reflexivity|]. destruct (inv_closed _ _ HI E) as (Hi & _). congruence. }
           apply (Inv_pop cnt0 s t th (MNet k) (MNet (S k)) p q); assumption.
  - (* Popped p m *)
    assert (holds (th_pc th) = true) as Hh by (rewrite Hpc; reflexivity).
    destruct (holder_is s t th cnt0 HI Hth Hh) as [Hl Hhs].
    destruct (sock_open s) eqn:Hopen.
    + apply Inv_send_len; assumption.
    + destruct (inv_closed _ _ HI Hopen) as (_ & Hi & _ & _). rewrite Hhs in Hi.
      apply (Inv_release cnt0 s t th (set_pc th Done)); try assumption; try (rewrite Hpc; reflexivity); reflexivity.
  - (* Len p m *) apply Inv_send_body; assumption.
  - exact HI.
Qed.

Definition cnt_init (progs : list (list op)) (x : Z) : nat := cnt x (prog_ids (threads (init progs))).

Theorem Inv_init progs : Inv (cnt_init progs) (init progs).
Proof.
  assert (forall t th, nth_error (threads (init progs)) t = Some th -> th_pc th = Idle) as Hidle.
  { intros t th H. cbn [init threads] in H. destruct t as [|t]; cbn in H; [inversion H; reflexivity|].
    apply nth_error_In in H. apply in_map_iff in H. destruct H as (o & <- & _). reflexivity. }
  assert (held_ids (threads (init progs)) = []) as Hheld.
  { clear Hidle. unfold held_ids. cbn [init threads flat_map th_held_ids th_pc app]. induction progs as [|o r IH]; [reflexivity|]. cbn [map flat_map th_held_ids th_pc app]. exact IH. }
  constructor.
  - intros t th H Hh. rewrite (Hidle t th H) in Hh. discriminate.
  - intros t H. discriminate.
  - exists []. cbn [init wire popped queue closed_at holder_pc lock owed infl filter app map]. split; [constructor|]. split; [reflexivity|]. split; [|discriminate].
    intro x. unfold cnt_init. rewrite Hheld. cbn. lia.
  - reflexivity.
  - discriminate.
  - reflexivity.
  - discriminate.
  - constructor.
Qed.

(* every reachable state, under every schedule, of any number of threads with any programs *)
Theorem Inv_reachable limit progs : forall sched, Inv (cnt_init progs) (run_conc limit sched (init progs)).
Proof.
  intro sched. unfold run_conc. generalize (Inv_init progs). generalize (init progs). induction sched as [|t r IH]; intros s H; [exact H|].
  cbn [fold_left]. apply IH. apply Inv_step. exact H.
Qed.

(* ---------- consequences ---------- *)
Section Consequences.
  Variables (limit : nat) (progs : list (list op)) (sched : list nat).
  Notation s := (run_conc limit sched (init progs)).
  Notation HI := (Inv_reachable limit progs sched).

  (* the wire is a sequence of whole (length, payload) pairs plus at most one open pair, which belongs to the lock holder *)
  Theorem frames_contiguous : exists fs, wf_wire (wire s) fs (owed (holder_pc s)).
  Proof. destruct (inv_wire _ _ HI) as (fs & Hw & _). exists fs. exact Hw. Qed.

  (* at most one thread is inside a critical section *)
  Theorem mutual_exclusion t1 th1 t2 th2 :
    nth_error (threads s) t1 = Some th1 -> nth_error (threads s) t2 = Some th2 -> holds (th_pc th1) = true -> holds (th_pc th2) = true -> t1 = t2.
  Proof. intros H1 H2 A B. pose proof (inv_lock1 _ _ HI _ _ H1 A). pose proof (inv_lock1 _ _ HI _ _ H2 B). congruence. Qed.

  (* every packet at most once on the wire (packet identities in the programs being distinct) *)
  Theorem at_most_once : NoDup (prog_ids (threads (init progs))) -> exists fs, wf_wire (wire s) fs (owed (holder_pc s)) /\ NoDup (map fst fs).
  Proof.
    intro Hnd. destruct (inv_wire _ _ HI) as (fs & Hw & _ & Hc & _). exists fs. split; [exact Hw|].
    apply (NoDup_count_occ Z.eq_dec). intro x. specialize (Hc x). unfold cnt_init in Hc.
    pose proof (proj1 (NoDup_count_occ Z.eq_dec _) Hnd x) as H1. unfold cnt in *. lia.
  Qed.

  (* queued packets reach the wire in the order in which they were appended to the queue *)
  Theorem fifo : exists fs rest, wf_wire (wire s) fs (owed (holder_pc s)) /\ qlog s = filter snd fs ++ rest.
  Proof.
    destruct (inv_wire _ _ HI) as (fs & Hw & Hp & _). exists fs, (infl (holder_pc s) ++ queue s). split; [exact Hw|].
    rewrite (inv_q _ _ HI), <- Hp, <- app_assoc. reflexivity.
  Qed.

  (* a completed flushing disconnect: everything queued before it is on the wire, whole, and the socket is closed *)
  Theorem disconnect_flushes n : closed_at s = Some (n, true) ->
    sock_open s = false /\ exists fs, wf_wire (wire s) fs None /\ firstn n (qlog s) = filter snd fs.
  Proof.
    intro Hc. assert (sock_open s = false) as Hcl. { destruct (sock_open s) eqn:E; [|reflexivity]. rewrite (inv_open _ _ HI E) in Hc. discriminate. }
    split; [exact Hcl|]. destruct (inv_wire _ _ HI) as (fs & Hw & _ & _ & Hf). exists fs. destruct (inv_closed _ _ HI Hcl) as (_ & _ & Ho & _).
    rewrite Ho in Hw. split; [exact Hw|exact (Hf n Hc)].
  Qed.
End Consequences.

(* once the socket is closed nothing further is sent, whichever thread moves *)
Theorem nothing_after_close limit cnt0 s t : Inv cnt0 s -> sock_open s = false ->
  wire (step limit s t) = wire s /\ sock_open (step limit s t) = false.
Proof.
  intros HI Hc. unfold step. destruct (nth_error (threads s) t) as [th|] eqn:Hth; [|split; [reflexivity|exact Hc]].
  destruct (th_pc th) as [|m|p m|p m|] eqn:Hpc.
  - destruct (th_net th); [destruct (interrupt s); [|destruct (free_for s t)]|destruct (th_ops th) as [|[x|x|imm] r]; [| |destruct (free_for s t)|destruct (free_for s t)]]; split; try reflexivity; exact Hc.
  - destruct m as [|imm| |k].
    + split; [reflexivity|exact Hc].
    + rewrite Hc. replace (imm || negb false) with true by (destruct imm; reflexivity). split; reflexivity.
    + split; [reflexivity|exact Hc].
    + destruct (inv_closed _ _ HI Hc) as (Hi & _). rewrite Hi. cbn [orb]. split; [reflexivity|exact Hc].
  - rewrite Hc. split; [reflexivity|exact Hc].
  - exfalso. assert (holds (th_pc th) = true) as Hh by (rewrite Hpc; reflexivity).
    destruct (holder_is s t th cnt0 HI Hth Hh) as [_ Hhs]. destruct (inv_closed _ _ HI Hc) as (_ & _ & Ho & _). rewrite Hhs, Hpc in Ho. discriminate.
  - split; [reflexivity|exact Hc].
Qed.

(* the inductive description of the wire agrees with the executable parser *)
Lemma parse_wf : forall w fs o, wf_wire w fs o -> parse_wire w = Some (fs, o).
Proof.
  assert (forall w fs, parse_wire w = Some (fs, None) -> forall p, parse_wire (w ++ [SendLen p]) = Some (fs, Some p)) as H1.
  { fix IH 1. intros w fs H p. destruct w as [|e w]; [inversion H; reflexivity|]. destruct e as [q|q]; [|discriminate].
    destruct w as [|e2 w]; [discriminate|]. destruct e2 as [q2|q2]; [discriminate|]. cbn [app parse_wire] in *.
    destruct (Z.eqb (fst q) (fst q2) && Bool.eqb (snd q) (snd q2))%bool; [|discriminate].
    destruct (parse_wire w) as [[fs' o']|] eqn:E; [|discriminate]. inversion H; subst. rewrite (IH w fs' E p). destruct w; reflexivity. }
  assert (forall w fs p, parse_wire w = Some (fs, Some p) -> parse_wire (w ++ [SendBody p]) = Some (fs ++ [p], None)) as H2.
  { fix IH 1. intros w fs p H. destruct w as [|e w]; [discriminate|]. destruct e as [q|q]; [|discriminate].
    destruct w as [|e2 w].
    - inversion H; subst. cbn. rewrite Z.eqb_refl, Bool.eqb_reflx. reflexivity.
    - destruct e2 as [q2|q2]; [discriminate|]. cbn [app parse_wire] in *.
      destruct (Z.eqb (fst q) (fst q2) && Bool.eqb (snd q) (snd q2))%bool; [|discriminate].
      destruct (parse_wire w) as [[fs' o']|] eqn:E; [|discriminate]. inversion H; subst. rewrite (IH w fs' p E). reflexivity. }
  induction 1; [reflexivity|apply H1; assumption|apply H2; assumption].
Qed.
