From Coq Require Import ZArith List Bool Lia.
From PyCraft Require Import Model.Auth.
Import ListNotations.
Open Scope Z_scope.

Theorem authenticated_iff t : authenticated t = true <->
  truthy (t_user t) = true /\ truthy (t_access t) = true /\ truthy (t_client t) = true /\ (exists i n, t_pid t = Some i /\ t_pname t = Some n).
Proof.
  unfold authenticated, profile_ok. split.
  - intro H. repeat (apply andb_true_iff in H; destruct H as [H ?]). repeat split; try assumption.
    destruct (t_pid t) as [i|]; [|discriminate]. destruct (t_pname t) as [n|]; [|discriminate]. exists i, n. split; reflexivity.
  - intros (A & B & C & i & n & D & E). rewrite A, B, C, D, E. reflexivity.
Qed.

(* success: exactly the returned values are stored *)
Theorem authenticate_success t u p inv a c i n :
  perform t (Authenticate u p inv) {| r_status := 200; r_body := BResult a c i n |} =
    (OTrue, {| t_user := Some u; t_access := Some a; t_client := Some c; t_pid := Some i; t_pname := Some n |},
     [{| q_session := false; q_endpoint := 0;
         q_payload := [(0, PAgent); (1, PStr (Some u)); (2, PStr (Some p))] ++ (if inv then [] else [(3, if truthy (t_client t) then PStr (t_client t) else PFresh)]) |}]).
Proof. reflexivity. Qed.
Theorem refresh_success t a0 c0 a c i n : t_access t = Some a0 -> t_client t = Some c0 ->
  perform t Refresh {| r_status := 200; r_body := BResult a c i n |} =
    (OTrue, {| t_user := t_user t; t_access := Some a; t_client := Some c; t_pid := Some i; t_pname := Some n |},
     [{| q_session := false; q_endpoint := 1; q_payload := [(4, PStr (Some a0)); (3, PStr (Some c0))] |}]).
Proof. intros H1 H2. cbn [perform]. rewrite H1, H2. reflexivity. Qed.

(* an HTTP error reply: every operation other than validate raises an error carrying the status code and
   the service's error fields (None = the 'malformed' message) and leaves the credentials untouched *)
Definition error_status (o : opn) (s : Z) : bool :=
  match o with
  | Authenticate _ _ _ | Refresh | SignOut _ _ => negb (s =? 200)
  | Invalidate | Join _ => negb ((s =? 204) || (s =? 200))
  | Validate => false
  end.
Definition can_request (t : token) (o : opn) : bool :=
  match o with
  | Refresh => match t_access t, t_client t with Some _, Some _ => true | _, _ => false end
  | Join _ => authenticated t
  | _ => true
  end.
Theorem error_leaves_state t o r : error_status o (r_status r) = true -> can_request t o = true ->
  fst (fst (perform t o r)) = OYgg (Some (r_status r)) (match r_body r with BError e m c => Some (e, m, c) | _ => None end) /\
  snd (fst (perform t o r)) = t.
Proof.
  intros He Hc. destruct o; cbn [error_status can_request] in *; cbn [perform].
  - apply negb_true_iff in He. rewrite He. split; reflexivity.
  - destruct (t_access t); [|discriminate]. destruct (t_client t); [|discriminate]. apply negb_true_iff in He. rewrite He. split; reflexivity.
  - discriminate.
  - apply negb_true_iff in He. rewrite He. split; reflexivity.
  - rewrite Hc. apply negb_true_iff in He. rewrite He. split; reflexivity.
  - apply negb_true_iff in He. rewrite He. split; reflexivity.
Qed.

(* the stored credentials change only by a successful authenticate / refresh *)
Theorem state_changes_only_on_success t o r : snd (fst (perform t o r)) <> t ->
  r_status r = 200 /\ (exists u p inv, o = Authenticate u p inv) \/ (r_status r = 200 /\ o = Refresh).
Proof.
  intro H. destruct o; cbn [perform] in H.
  - destruct (r_status r =? 200) eqn:E; [|cbn [fst snd] in H; congruence]. apply Z.eqb_eq in E. left. split; [exact E|]. eexists _, _, _. reflexivity.
  - destruct (t_access t); [|cbn [fst snd] in H; congruence]. destruct (t_client t); [|cbn [fst snd] in H; congruence].
    destruct (r_status r =? 200) eqn:E; [|cbn [fst snd] in H; congruence]. apply Z.eqb_eq in E. right. split; [exact E|reflexivity].
  - destruct (t_access t); cbn [fst snd] in H; congruence.
  - cbn [fst snd] in H. congruence.
  - destruct (authenticated t); cbn [fst snd] in H; congruence.
  - cbn [fst snd] in H. congruence.
Qed.

(* validate: true only for 204, never raises on a reply, never changes anything *)
Theorem validate_spec t a r : t_access t = Some a ->
  fst (fst (perform t Validate r)) = (if r_status r =? 204 then OTrue else ONone) /\ snd (fst (perform t Validate r)) = t.
Proof. intro H. cbn [perform]. rewrite H. split; reflexivity. Qed.

(* join refuses without contacting the service when the token is not authenticated *)
Theorem join_refuses t sid r : authenticated t = false -> perform t (Join sid) r = (OYgg None None, t, []).
Proof. intro H. cbn [perform]. rewrite H. reflexivity. Qed.
Theorem join_payload t sid r : authenticated t = true ->
  snd (perform t (Join sid) r) = [{| q_session := true; q_endpoint := 5; q_payload := [(4, PStr (t_access t)); (5, PProfile (t_pid t) (t_pname t)); (6, PStr (Some sid))] |}].
Proof. intro H. cbn [perform]. rewrite H. reflexivity. Qed.

(* sequences: an erroring operation in the middle of any sequence is invisible to what follows *)
Theorem error_step_invisible t o r rest : error_status o (r_status r) = true -> can_request t o = true ->
  snd (perform_all t ((o, r) :: rest)) = snd (perform_all t rest).
Proof.
  intros He Hc. cbn [perform_all]. destruct (error_leaves_state t o r He Hc) as [_ Hs].
  destruct (perform t o r) as [[out t'] q]. cbn [fst snd] in Hs. subst t'. destruct (perform_all t rest). reflexivity.
Qed.
