From Coq Require Import ZArith List Bool Lia ZifyBool.
From PyCraft Require Import Base.BitLemmas Model.Position Spec.PositionSpec.
Open Scope Z_scope.
Ltac Zify.zify_post_hook ::= Z.to_euclidean_division_equations.

Lemma lor_hi_lo hi lo k : 0 <= k -> 0 <= lo < 2 ^ k -> Z.lor (Z.shiftl hi k) lo = hi * 2 ^ k + lo.
Proof. intros Hk Hlo. rewrite Z.lor_comm, lor_disjoint_add by assumption. lia. Qed.

Lemma land_ones_c a n c : 0 <= n -> c = Z.ones n -> Z.land a c = a mod 2 ^ n.
Proof. intros Hn ->. apply Z.land_ones. exact Hn. Qed.

Lemma M26_mod a : Z.land a M26 = a mod 2 ^ 26.
Proof. apply land_ones_c; [lia|reflexivity]. Qed.
Lemma M12_mod a : Z.land a M12 = a mod 2 ^ 12.
Proof. apply land_ones_c; [lia|reflexivity]. Qed.

Theorem pos_word_spec later x y z : pos_word later x y z = pos_spec later x y z.
Proof.
  unfold pos_word, pos_spec. rewrite !M26_mod, !M12_mod.
  pose proof (Z.mod_pos_bound x (2^26) ltac:(lia)). pose proof (Z.mod_pos_bound z (2^26) ltac:(lia)).
  pose proof (Z.mod_pos_bound y (2^12) ltac:(lia)).
  destruct later.
  - rewrite (Z.shiftl_mul_pow2 (z mod 2 ^ 26) 12) by lia.
    rewrite (lor_hi_lo (x mod 2^26) ((z mod 2^26) * 2^12) 38) by lia.
    replace ((x mod 2 ^ 26) * 2 ^ 38 + (z mod 2 ^ 26) * 2 ^ 12) with (((x mod 2^26) * 2^26 + z mod 2^26) * 2 ^ 12) by ring.
    rewrite <- Z.shiftl_mul_pow2 by lia. rewrite lor_hi_lo by lia. rewrite ?Z.shiftl_mul_pow2 by lia. ring.
  - rewrite (Z.shiftl_mul_pow2 (y mod 2 ^ 12) 26) by lia.
    rewrite (lor_hi_lo (x mod 2^26) ((y mod 2^12) * 2^26) 38) by lia.
    replace ((x mod 2 ^ 26) * 2 ^ 38 + (y mod 2 ^ 12) * 2 ^ 26) with (((x mod 2^26) * 2^12 + y mod 2^12) * 2 ^ 26) by ring.
    rewrite <- Z.shiftl_mul_pow2 by lia. rewrite lor_hi_lo by lia. rewrite ?Z.shiftl_mul_pow2 by lia. ring.
Qed.

Theorem pos_word_range later x y z : 0 <= pos_word later x y z < 2 ^ 64.
Proof. rewrite pos_word_spec. unfold pos_spec. destruct later; lia. Qed.

Theorem pos_roundtrip later x y z :
  - 2^25 <= x < 2^25 -> - 2^11 <= y < 2^11 -> - 2^25 <= z < 2^25 ->
  pos_unword later (pos_word later x y z) = (x, y, z).
Proof.
  intros Hx Hy Hz. rewrite pos_word_spec. unfold pos_unword, pos_spec, sign_fix.
  rewrite !M26_mod, !M12_mod, !Z.shiftr_div_pow2 by lia.
  change (2 ^ (26 - 1)) with (2 ^ 25). change (2 ^ (12 - 1)) with (2 ^ 11).
  destruct later.
  - match goal with |- (if ?a then _ else _, if ?b then _ else _, if ?c then _ else _) = _ =>
      destruct a eqn:Ea; destruct b eqn:Eb; destruct c eqn:Ec end; f_equal; try f_equal; lia.
  - match goal with |- (if ?a then _ else _, if ?b then _ else _, if ?c then _ else _) = _ =>
      destruct a eqn:Ea; destruct b eqn:Eb; destruct c eqn:Ec end; f_equal; try f_equal; lia.
Qed.

(* ---- chunk-section position ---- *)

Lemma lor_lnot_ones w k : 0 <= k -> Z.lor w (Z.lnot (Z.ones k)) = w mod 2 ^ k - 2 ^ k.
Proof.
  intro Hk.
  assert (Z.lnot (Z.ones k) = Z.shiftl (-1) k) as ->.
  { rewrite Z.shiftl_mul_pow2 by lia. unfold Z.lnot. rewrite Z.ones_equiv. lia. }
  pose proof (Z.mod_pos_bound w (2 ^ k) ltac:(apply Z.pow_pos_nonneg; lia)) as Hm.
  replace (w mod 2 ^ k - 2 ^ k) with (w mod 2 ^ k + (-1) * 2 ^ k) by ring.
  rewrite <- lor_disjoint_add by lia.
  apply Z.bits_inj'. intros n Hn. rewrite !Z.lor_spec.
  destruct (Z_lt_dec n k) as [Hlt|Hge].
  - rewrite Z.mod_pow2_bits_low by lia. reflexivity.
  - rewrite Z.shiftl_spec by lia. rewrite Z.bits_m1 by lia. rewrite !orb_true_r. reflexivity.
Qed.

Lemma bit_test w k : 0 <= k -> (Z.land w (2 ^ k) =? 0) = ((w / 2 ^ k) mod 2 =? 0).
Proof. intro Hk. rewrite land_pow2_zero, testbit_div_mod by lia. rewrite negb_involutive. reflexivity. Qed.

Theorem csp_word_spec x y z : csp_word x y z = csp_spec x y z.
Proof.
  unfold csp_word, csp_spec.
  rewrite (land_ones_c x 22 0x3FFFFF), (land_ones_c z 22 0x3FFFFF), (land_ones_c y 20 0xFFFFF) by (lia || reflexivity).
  pose proof (Z.mod_pos_bound x (2^22) ltac:(lia)). pose proof (Z.mod_pos_bound z (2^22) ltac:(lia)).
  pose proof (Z.mod_pos_bound y (2^20) ltac:(lia)).
  rewrite (Z.shiftl_mul_pow2 (z mod 2 ^ 22) 20) by lia.
  rewrite (lor_hi_lo (x mod 2^22) ((z mod 2^22) * 2^20) 42) by lia.
  replace ((x mod 2 ^ 22) * 2 ^ 42 + (z mod 2 ^ 22) * 2 ^ 20) with (((x mod 2^22) * 2^22 + z mod 2^22) * 2 ^ 20) by ring.
  rewrite <- Z.shiftl_mul_pow2 by lia. rewrite lor_hi_lo by lia. rewrite ?Z.shiftl_mul_pow2 by lia. ring.
Qed.

Theorem csp_word_range x y z : 0 <= csp_word x y z < 2 ^ 64.
Proof. rewrite csp_word_spec. unfold csp_spec. lia. Qed.

Theorem csp_roundtrip x y z :
  - 2^21 <= x < 2^21 -> - 2^19 <= y < 2^19 -> - 2^21 <= z < 2^21 ->
  csp_unword (csp_word x y z) = (x, y, z).
Proof.
  intros Hx Hy Hz. rewrite csp_word_spec. unfold csp_unword, csp_spec.
  change 0x80000 with (2 ^ 19). change 0x200000 with (2 ^ 21).
  change 0xFFFFF with (Z.ones 20). change 0x3FFFFF with (Z.ones 22).
  rewrite !bit_test by lia. rewrite !lor_lnot_ones by lia. rewrite !Z.land_ones by lia.
  rewrite !Z.shiftr_div_pow2 by lia.
  match goal with |- (if ?a then _ else _, if ?b then _ else _, if ?c then _ else _) = _ =>
    destruct a eqn:Ea; destruct b eqn:Eb; destruct c eqn:Ec end; f_equal; try f_equal; lia.
Qed.

(* ---- multi-block-change records ---- *)

Theorem rec_word_spec x y z sid : 0 <= sid -> rec_word x y z sid = rec_spec x y z sid.
Proof.
  intro Hs. unfold rec_word, rec_spec. rewrite !land_15.
  pose proof (Z.mod_pos_bound x 16 ltac:(lia)). pose proof (Z.mod_pos_bound y 16 ltac:(lia)).
  pose proof (Z.mod_pos_bound z 16 ltac:(lia)).
  rewrite (Z.shiftl_mul_pow2 (x mod 16) 8), (Z.shiftl_mul_pow2 (z mod 16) 4) by lia.
  rewrite (lor_hi_lo sid ((x mod 16) * 2 ^ 8) 12) by lia.
  replace (sid * 2 ^ 12 + x mod 16 * 2 ^ 8) with ((sid * 16 + x mod 16) * 2 ^ 8) by ring.
  rewrite <- (Z.shiftl_mul_pow2 (sid * 16 + x mod 16) 8) by lia.
  rewrite (lor_hi_lo (sid * 16 + x mod 16) ((z mod 16) * 2 ^ 4) 8) by lia.
  replace ((sid * 16 + x mod 16) * 2 ^ 8 + z mod 16 * 2 ^ 4) with (((sid * 16 + x mod 16) * 16 + z mod 16) * 2 ^ 4) by ring.
  rewrite <- (Z.shiftl_mul_pow2 ((sid * 16 + x mod 16) * 16 + z mod 16) 4) by lia.
  rewrite lor_hi_lo by lia. ring.
Qed.

Theorem rec_roundtrip x y z sid :
  0 <= x < 16 -> 0 <= y < 16 -> 0 <= z < 16 -> 0 <= sid ->
  rec_unword (rec_word x y z sid) = (x, y, z, sid) /\ 0 <= rec_word x y z sid.
Proof.
  intros Hx Hy Hz Hs. rewrite rec_word_spec by assumption. unfold rec_unword, rec_spec.
  rewrite !land_15, !Z.shiftr_div_pow2 by lia. split; [|lia].
  f_equal; [f_equal; [f_equal|]|]; lia.
Qed.

Theorem rec_hbyte_roundtrip x z :
  0 <= x < 16 -> 0 <= z < 16 -> rec_unhbyte (rec_hbyte x z) = (x, z) /\ 0 <= rec_hbyte x z < 256.
Proof.
  intros Hx Hz. unfold rec_hbyte, rec_unhbyte. rewrite land_15.
  rewrite lor_hi_lo by lia. rewrite land_15, Z.shiftr_div_pow2 by lia.
  split; [f_equal; lia|lia].
Qed.
