From Coq Require Import ZArith List Bool Lia.
From PyCraft Require Import Base.Res Model.Tables Model.Prim Model.VarInt Model.Utf8 Model.Position Model.FieldTypes Model.Prog.
From PyCraft Require Import Proofs.FieldTypesProofs.
Import ListNotations.
Open Scope Z_scope.

(* generic element loop: an encoder/decoder pair that round-trips on every element with a non-empty
   encoding round-trips as a counted sequence *)
Lemma loop_rt (f : value -> res (list Z)) (g : list Z -> res (value * list Z)) (cn : value -> value) items :
  Forall (fun v => exists bs, f v = Ok bs /\ bs <> [] /\ forall rest, g (bs ++ rest) = Ok (cn v, rest)) items ->
  exists body, enc_list f items = Ok body /\ (length items <= length body)%nat /\
    forall rest fuel, (length items <= fuel)%nat ->
      dec_loop g fuel (Z.of_nat (length items)) (body ++ rest) = Ok (map cn items, rest).
Proof.
  induction 1 as [|v vs (bs & Hbs & Hne & Hrt) _ (body & Hbody & Hlen & Hloop)].
  - exists []. split; [reflexivity|]. split; [cbn; lia|]. intros rest fuel _. destruct fuel; reflexivity.
  - exists (bs ++ body). cbn [enc_list]. rewrite Hbs, Hbody. cbn [rbind bind]. split; [reflexivity|]. split.
    + rewrite app_length. cbn [length]. destruct bs; [congruence|cbn [length]; lia].
    + intros rest fuel Hf. cbn [length] in Hf. destruct fuel as [|g0]; [lia|].
      cbn [dec_loop length]. rewrite Nat2Z.inj_succ.
      destruct (Z.succ (Z.of_nat (length vs)) <=? 0) eqn:E; [lia|].
      rewrite <- app_assoc, Hrt. cbn [rbind bind fst snd map].
      replace (Z.succ (Z.of_nat (length vs)) - 1) with (Z.of_nat (length vs)) by lia.
      rewrite Hloop by lia. reflexivity.
Qed.

Section PRT.
  Variable c : cctx.
  Variable nbt_split : list Z -> option (list Z * list Z).

  Definition ctrl_type (t : ftype) : bool := match t with TBool => true | _ => int_type t end.
  Definition first_field (p : prog) : bool := match p with PField _ _ | PCase _ _ | PRepeat _ _ _ => true | _ => false end.

  (* does the layout, on these values, end in a trailing byte array? *)
  Fixpoint ends_trail (p : prog) (vs : list value) {struct p} : bool :=
    match p with
    | PTrail => true
    | PField _ k => match vs with _ :: vs' => ends_trail k vs' | [] => false end
    | PCase _ k => match vs with v :: vs' => ends_trail (k (ctrl v)) vs' | [] => false end
    | PRepeat _ _ k => match vs with _ :: vs' => ends_trail k vs' | [] => false end
    | _ => false
    end.

  Definition item_ok (P : list value -> Prop) (it : value) : Prop := match it with VTup fs => P fs | _ => False end.

  (* wire-representable values for a layout *)
  Fixpoint pdom (p : prog) (vs : list value) {struct p} : Prop :=
    match p with
    | PEnd => vs = []
    | PTrail => exists b, vs = [VBytes b]
    | PFail _ => False
    | PField t k => match vs with v :: vs' => in_dom c nbt_split t v /\ pdom k vs' | [] => False end
    | PCase t k => match vs with
                   | v :: vs' => ctrl_type t = true /\ in_dom c nbt_split t v /\ pdom (k (ctrl v)) vs'
                   | [] => False end
    | PRepeat t body k =>
        match vs with
        | VList items :: vs' =>
            int_type t = true /\ int_range t (Z.of_nat (length items)) /\ first_field body = true /\
            Forall (item_ok (fun fs => pdom body fs /\ ends_trail body fs = false)) items /\ pdom k vs'
        | _ => False
        end
    end.

  Definition item_canon (f : list value -> list value) (it : value) : value := match it with VTup fs => VTup (f fs) | x => x end.
  Fixpoint pcanon (p : prog) (vs : list value) {struct p} : list value :=
    match p with
    | PField t k => match vs with v :: vs' => canon t v :: pcanon k vs' | [] => [] end
    | PCase t k => match vs with v :: vs' => v :: pcanon (k (ctrl v)) vs' | [] => [] end
    | PRepeat t body k => match vs with
                          | VList items :: vs' => VList (map (item_canon (pcanon body)) items) :: pcanon k vs'
                          | _ => vs end
    | _ => vs
    end.

  Lemma canon_ctrl t v : ctrl_type t = true -> in_dom c nbt_split t v -> canon t v = v.
  Proof.
    intros Ht Hd. destruct t; try discriminate; try reflexivity; destruct v; try contradiction; reflexivity.
  Qed.

  Definition PRT (p : prog) (vs : list value) : Prop :=
    exists bs, enc_prog c p vs = Ok bs /\ (first_field p = true -> bs <> []) /\
      forall rest, (ends_trail p vs = true -> rest = []) ->
        dec_prog c nbt_split p (bs ++ rest) = Ok (pcanon p vs, rest).

  Theorem prog_rt : forall p vs, pdom p vs -> PRT p vs.
  Proof.
    induction p as [| |e|t k IHk|t k IHk|t body IHbody k IHk]; intros vs Hd; cbn [pdom] in Hd.
    - subst vs. exists []. split; [reflexivity|]. split; [discriminate|]. intros rest _. reflexivity.
    - destruct Hd as (b & ->). exists b. split; [reflexivity|]. split; [discriminate|].
      intros rest Hr. rewrite (Hr eq_refl), app_nil_r. reflexivity.
    - contradiction.
    - destruct vs as [|v vs']; [contradiction|]. destruct Hd as [Hv Hk].
      destruct (rt_all c nbt_split t v Hv) as (a & Ha & Hane & Hart).
      destruct (IHk vs' Hk) as (b & Hb & _ & Hbrt).
      exists (a ++ b). cbn [enc_prog]. rewrite Ha. cbn [rbind bind]. rewrite Hb. cbn [rbind bind].
      split; [reflexivity|]. split; [intros _; destruct a; [congruence|discriminate]|].
      intros rest Hr. cbn [dec_prog ends_trail pcanon] in *. rewrite <- app_assoc, Hart. cbn [rbind bind fst snd].
      rewrite (Hbrt rest Hr). reflexivity.
    - destruct vs as [|v vs']; [contradiction|]. destruct Hd as (Hct & Hv & Hk).
      destruct (rt_all c nbt_split t v Hv) as (a & Ha & Hane & Hart).
      destruct (IHk (ctrl v) vs' Hk) as (b & Hb & _ & Hbrt).
      exists (a ++ b). cbn [enc_prog]. rewrite Ha. cbn [rbind bind]. rewrite Hb. cbn [rbind bind].
      split; [reflexivity|]. split; [intros _; destruct a; [congruence|discriminate]|].
      intros rest Hr. cbn [dec_prog ends_trail pcanon] in *. rewrite <- app_assoc, Hart. cbn [rbind bind fst snd].
      rewrite (canon_ctrl t v Hct Hv). rewrite (Hbrt rest Hr). reflexivity.
    - destruct vs as [|[| | | | |items|] vs']; try contradiction.
      destruct Hd as (Hit & Hr & Hff & Hitems & Hk).
      destruct (rt_int_type c nbt_split t _ Hit Hr) as (l & Hl & Hlne & Hlrt).
      destruct (IHk vs' Hk) as (r & Hrr & _ & Hrrt).
      assert (Forall (fun v => exists bs, item_enc (enc_prog c body) v = Ok bs /\ bs <> [] /\
                forall rest, item_dec (dec_prog c nbt_split body) (bs ++ rest) = Ok (item_canon (pcanon body) v, rest)) items) as Hall.
      { clear - IHbody Hitems Hff. induction Hitems as [|it items Hi _ IH]; constructor; [|exact IH].
        destruct it as [| | | | | |fs]; try contradiction. cbn [item_ok] in Hi. destruct Hi as [Hp Het].
        destruct (IHbody fs Hp) as (bs & Hbs & Hne & Hrt). exists bs. cbn [item_enc item_canon].
        split; [exact Hbs|]. split; [exact (Hne Hff)|].
        intro rest. unfold item_dec. rewrite (Hrt rest); [reflexivity|]. rewrite Het. discriminate. }
      destruct (loop_rt _ _ _ items Hall) as (b & Hb & Hlen & Hloop).
      exists (l ++ b ++ r). cbn [enc_prog]. rewrite Hl. cbn [rbind bind]. rewrite Hb. cbn [rbind bind]. rewrite Hrr. cbn [rbind bind].
      split; [reflexivity|]. split; [intros _; destruct l; [congruence|discriminate]|].
      intros rest Hrest. cbn [dec_prog ends_trail pcanon] in *. rewrite <- app_assoc, Hlrt. cbn [rbind bind fst snd].
      rewrite canon_int by assumption. rewrite <- app_assoc. rewrite Hloop.
      + cbn [rbind bind fst snd]. rewrite (Hrrt rest Hrest). reflexivity.
      + rewrite !app_length. lia.
  Qed.

  (* ---- definitions are straight-line programs ---- *)
  Lemma enc_defn_prog d : forall vs, encode_fields c d vs = enc_prog c (prog_of_defn d) vs.
  Proof.
    induction d as [|[n t] d IH]; intros vs.
    - destruct vs; reflexivity.
    - assert (encode_fields c ((n, t) :: d) vs = enc_prog c (PField t (prog_of_defn d)) vs) as Hgen.
      { destruct vs as [|v vs']; [reflexivity|]. cbn [encode_fields enc_prog]. rewrite IH. reflexivity. }
      destruct t; try exact Hgen. destruct d as [|x d']; [|exact Hgen].
      cbn [prog_of_defn]. destruct vs as [|v [|w vs']]; cbn [encode_fields enc_prog enc]; try reflexivity.
      + destruct v; cbn [rbind bind]; try reflexivity. rewrite app_nil_r. reflexivity.
      + destruct v; cbn [rbind bind]; reflexivity.
  Qed.

  Lemma dec_defn_prog d : forall bs, decode_fields c nbt_split d bs = dec_prog c nbt_split (prog_of_defn d) bs.
  Proof.
    induction d as [|[n t] d IH]; intros bs.
    - reflexivity.
    - assert (decode_fields c nbt_split ((n, t) :: d) bs = dec_prog c nbt_split (PField t (prog_of_defn d)) bs) as Hgen.
      { cbn [decode_fields dec_prog]. destruct (dec c nbt_split t bs) as [q| |]; cbn [rbind bind]; try reflexivity. rewrite IH. reflexivity. }
      destruct t; try exact Hgen. destruct d as [|x d']; [|exact Hgen]. reflexivity.
  Qed.
End PRT.
