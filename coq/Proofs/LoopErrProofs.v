From Coq Require Import ZArith List Bool.
From PyCraft Require Import Model.LoopErr.
Import ListNotations.
Open Scope Z_scope.

Definition quiet (r : rd) : bool := match rd_raises r with None => negb (rd_ends_loop r) | Some _ => false end.

(* the error of a reaction wins over a write error that was held back: a refused login surfaces as the login failure *)
Theorem reaction_error_wins : forall held pre r e post,
  forallb quiet pre = true -> rd_raises r = Some e -> read_phase held (pre ++ r :: post) = TRaised e.
Proof.
  intros held pre. revert held. induction pre as [|p pre IH]; intros held r e post Hq Hr; cbn [app read_phase].
  - rewrite Hr. reflexivity.
  - cbn [forallb] in Hq. apply andb_prop in Hq. destruct Hq as [Hp Hq]. unfold quiet in Hp.
    destruct (rd_raises p); [discriminate|]. destruct (rd_ends_loop p); [discriminate|]. apply IH; assumption.
Qed.

(* a disconnect packet read in the same turn cancels the held write error - for EVERY error that was held, i.e. every
   IOError, not only the broken-pipe and connection-reset kinds *)
Theorem disconnect_cancels_write_error : forall held pre r post,
  forallb quiet pre = true -> rd_disconnect r = true -> rd_raises r = None -> rd_ends_loop r = true ->
  read_phase held (pre ++ r :: post) = TInterrupted.
Proof.
  intros held pre. revert held. induction pre as [|p pre IH]; intros held r post Hq Hd Hr He; cbn [app read_phase].
  - rewrite Hr, Hd, He. reflexivity.
  - cbn [forallb] in Hq. apply andb_prop in Hq. destruct Hq as [Hp Hq]. unfold quiet in Hp.
    destruct (rd_raises p); [discriminate|]. destruct (rd_ends_loop p); [discriminate|]. apply IH; assumption.
Qed.

(* otherwise the write error is what the turn ends with *)
Theorem write_error_reported : forall e reads,
  forallb quiet reads = true -> forallb (fun r => negb (rd_disconnect r)) reads = true ->
  read_phase (Some e) reads = TRaised e.
Proof.
  intros e reads. induction reads as [|p t IH]; intros Hq Hd; cbn [read_phase]; [reflexivity|].
  cbn [forallb] in Hq, Hd. apply andb_prop in Hq. apply andb_prop in Hd. destruct Hq as [Hp Hq]. destruct Hd as [Hdp Hd].
  unfold quiet in Hp. destruct (rd_raises p); [discriminate|]. destruct (rd_ends_loop p); [discriminate|].
  destruct (rd_disconnect p); [discriminate|]. apply IH; assumption.
Qed.

Theorem no_error_no_raise : forall reads, forallb quiet reads = true -> read_phase None reads = TContinue.
Proof.
  induction reads as [|p t IH]; intro Hq; cbn [read_phase]; [reflexivity|].
  cbn [forallb] in Hq. apply andb_prop in Hq. destruct Hq as [Hp Hq]. unfold quiet in Hp.
  destruct (rd_raises p); [discriminate|]. destruct (rd_ends_loop p); [discriminate|]. destruct (rd_disconnect p); apply IH; assumption.
Qed.

(* read_phase_n is read_phase with a counter *)
Theorem read_phase_n_fst : forall reads held, fst (read_phase_n held reads) = read_phase held reads.
Proof.
  induction reads as [|p t IH]; intro held; cbn [read_phase_n read_phase]; [reflexivity|].
  destruct (rd_raises p); [reflexivity|]. destruct (rd_ends_loop p); [reflexivity|].
  specialize (IH (if rd_disconnect p then None else held)).
  destruct (read_phase_n (if rd_disconnect p then None else held) t) as [o n]. exact IH.
Qed.

(* how many packets are dispatched in a turn does not depend on whether a write error is being held back *)
Theorem dispatch_count_independent_of_write_error : forall reads held held',
  snd (read_phase_n held reads) = snd (read_phase_n held' reads).
Proof.
  induction reads as [|p t IH]; intros held held'; cbn [read_phase_n]; [reflexivity|].
  destruct (rd_raises p); [reflexivity|]. destruct (rd_ends_loop p); [reflexivity|].
  specialize (IH (if rd_disconnect p then None else held) (if rd_disconnect p then None else held')).
  destruct (read_phase_n (if rd_disconnect p then None else held) t) as [o n].
  destruct (read_phase_n (if rd_disconnect p then None else held') t) as [o' n']. cbn [snd] in *. congruence.
Qed.

(* ... and when nothing raises or ends the loop, every packet that was readable is dispatched *)
Theorem all_dispatched_when_quiet : forall reads held, forallb quiet reads = true -> snd (read_phase_n held reads) = length reads.
Proof.
  induction reads as [|p t IH]; intros held Hq; cbn [read_phase_n length]; [reflexivity|].
  cbn [forallb] in Hq. apply andb_prop in Hq. destruct Hq as [Hp Hq]. unfold quiet in Hp.
  destruct (rd_raises p); [discriminate|]. destruct (rd_ends_loop p); [discriminate|].
  specialize (IH (if rd_disconnect p then None else held) Hq).
  destruct (read_phase_n (if rd_disconnect p then None else held) t) as [o n]. cbn [snd] in *. congruence.
Qed.

(* a held write error is never dropped silently: unless a disconnect packet is read in the turn, the turn ends by raising
   (the held error, or the error of a read/reaction) - whatever else is read, and in particular when nothing more can be read *)
Theorem held_error_not_dropped : forall reads e,
  forallb (fun r => negb (rd_disconnect r)) reads = true -> exists e', read_phase (Some e) reads = TRaised e'.
Proof.
  induction reads as [|p t IH]; intros e Hd; cbn [read_phase].
  - exists e. reflexivity.
  - cbn [forallb] in Hd. apply andb_prop in Hd. destruct Hd as [Hp Hd]. destruct (rd_disconnect p); [discriminate|].
    destruct (rd_raises p) as [e1|]; [exists e1; reflexivity|]. destruct (rd_ends_loop p); [exists e; reflexivity|].
    apply IH; exact Hd.
Qed.
