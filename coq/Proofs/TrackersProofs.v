From Coq Require Import ZArith List Bool Lia Arith.
From PyCraft Require Import Model.Trackers.
Import ListNotations.
Open Scope Z_scope.

(* ---------- player list: the dict operations refine the abstract map ---------- *)
Lemma dget_dset d u v x : dget (dset d u v) x = if x =? u then Some v else dget d x.
Proof.
  induction d as [|[k w] t IH]; cbn [dset dget].
  - destruct (Z.eqb_spec u x); destruct (Z.eqb_spec x u); try reflexivity; congruence.
  - destruct (Z.eqb_spec k u); cbn [dget]; destruct (Z.eqb_spec k x); destruct (Z.eqb_spec x u); subst; try reflexivity; try congruence; exact IH || (rewrite IH; destruct (Z.eqb_spec x u); congruence).
Qed.
Lemma dget_notin d u : ~ In u (map fst d) -> dget d u = None.
Proof. induction d as [|[k w] t IH]; intro H; [reflexivity|]. cbn [dget]. cbn in H. destruct (k =? u) eqn:E; [apply Z.eqb_eq in E; tauto|]. apply IH. tauto. Qed.
Lemma dget_ddel d u x : NoDup (map fst d) -> dget (ddel d u) x = if x =? u then None else dget d x.
Proof.
  induction d as [|[k w] t IH]; intro Hnd; cbn [ddel dget]; [destruct (x =? u); reflexivity|].
  inversion Hnd as [|? ? Hk Ht]; subst. specialize (IH Ht).
  destruct (Z.eqb_spec k u); cbn [dget]; destruct (Z.eqb_spec k x); destruct (Z.eqb_spec x u); subst; try reflexivity; try congruence.
  all: try (apply dget_notin; exact Hk).
  all: try (rewrite IH; destruct (Z.eqb_spec x u); congruence).
Qed.
Lemma keys_dset d u v : NoDup (map fst d) -> NoDup (map fst (dset d u v)) /\ (forall x, In x (map fst (dset d u v)) -> x = u \/ In x (map fst d)).
Proof.
  induction d as [|[k w] t IH]; intro Hnd; cbn [dset map fst].
  - split; [repeat constructor; intros []|]. intros x [H|[]]. left. symmetry. exact H.
  - inversion Hnd as [|? ? Hk Ht]; subst. destruct (k =? u) eqn:E; cbn [map fst].
    + split; [exact Hnd|]. intros x H. right. exact H.
    + destruct (IH Ht) as [A B]. split.
      * constructor; [|exact A]. intro Hin. destruct (B k Hin) as [->|Hin']; [rewrite Z.eqb_refl in E; discriminate|exact (Hk Hin')].
      * intros x [H|H]; [right; left; exact H|]. destruct (B x H) as [->|Hx]; [left; reflexivity|right; right; exact Hx].
Qed.
Lemma keys_ddel d u : NoDup (map fst d) -> NoDup (map fst (ddel d u)) /\ (forall x, In x (map fst (ddel d u)) -> In x (map fst d)).
Proof.
  induction d as [|[k w] t IH]; intro Hnd; cbn [ddel map fst]; [split; [constructor|tauto]|].
  inversion Hnd as [|? ? Hk Ht]; subst. destruct (k =? u); cbn [map fst].
  - split; [exact Ht|]. intros x H. right. exact H.
  - destruct (IH Ht) as [A B]. split; [constructor; [intro Hin; exact (Hk (B k Hin))|exact A]|]. intros x [H|H]; [left; exact H|right; exact (B x H)].
Qed.

Definition wf_dict (d : pdict) : Prop := NoDup (map fst d).
Theorem papply_wf d a : wf_dict d -> wf_dict (papply d a).
Proof.
  intro H. unfold wf_dict in *. destruct a as [u it|u g|u q|u dn|u]; cbn [papply].
  - exact (proj1 (keys_dset d u it H)).
  - destruct (dget d u); [exact (proj1 (keys_dset d u _ H))|exact H].
  - destruct (dget d u); [exact (proj1 (keys_dset d u _ H))|exact H].
  - destruct (dget d u); [exact (proj1 (keys_dset d u _ H))|exact H].
  - exact (proj1 (keys_ddel d u H)).
Qed.
(* one packet: looking up any uuid afterwards gives what the replay rule prescribes *)
Theorem papply_refines d a x : wf_dict d -> dget (papply d a) x = aapply (dget d) a x.
Proof.
  intro H. destruct a; cbn [papply aapply].
  - apply dget_dset.
  - destruct (dget d u) as [p|] eqn:E; [rewrite dget_dset|]; destruct (x =? u) eqn:Ex; try reflexivity; apply Z.eqb_eq in Ex; subst; rewrite E; reflexivity.
  - destruct (dget d u) as [q|] eqn:E; [rewrite dget_dset|]; destruct (x =? u) eqn:Ex; try reflexivity; apply Z.eqb_eq in Ex; subst; rewrite E; reflexivity.
  - destruct (dget d u) as [q|] eqn:E; [rewrite dget_dset|]; destruct (x =? u) eqn:Ex; try reflexivity; apply Z.eqb_eq in Ex; subst; rewrite E; reflexivity.
  - apply dget_ddel. exact H.
Qed.
(* any history: the tracker's state is the replay of the history *)
Theorem playerlist_replay : forall acts d, wf_dict d ->
  wf_dict (fold_left papply acts d) /\ forall x, dget (fold_left papply acts d) x = fold_left aapply acts (dget d) x.
Proof.
  induction acts as [|a r IH]; intros d H; [split; [exact H|reflexivity]|]. cbn [fold_left].
  destruct (IH (papply d a) (papply_wf d a H)) as [A B]. split; [exact A|]. intro x. rewrite B.
  assert (forall m1 m2 : amap, (forall y, m1 y = m2 y) -> forall y, fold_left aapply r m1 y = fold_left aapply r m2 y) as Hext.
  { clear. induction r as [|a r IH]; intros m1 m2 H y; [apply H|]. cbn [fold_left]. apply IH. intro z. destruct a; cbn [aapply]; rewrite H; reflexivity. }
  apply Hext. intro y. apply papply_refines. exact H.
Qed.

(* ---------- map patching ---------- *)
Lemma lset_length {A} (l : list A) i v : length (lset l i v) = length l.
Proof. revert i. induction l as [|h t IH]; intro i; [reflexivity|]. destruct i; cbn [lset length]; [reflexivity|rewrite IH; reflexivity]. Qed.
Lemma nth_lset_same (l : list Z) i v : (i < length l)%nat -> nth i (lset l i v) 0 = v.
Proof. revert i. induction l as [|h t IH]; intros i H; [cbn in H; lia|]. destruct i; cbn [lset nth]; [reflexivity|apply IH; cbn in H; lia]. Qed.
Lemma nth_lset_other (l : list Z) i j v : i <> j -> nth j (lset l i v) 0 = nth j l 0.
Proof. revert i j. induction l as [|h t IH]; intros i j H; [reflexivity|]. destruct i, j; cbn [lset nth]; try reflexivity; [lia|apply IH; lia]. Qed.

Section Patch.
  Variables (mapw offx offz w : nat) (px : list Z).
  Hypothesis Hw : (0 < w)%nat.
  Hypothesis Hfit : (offx + w <= mapw)%nat.
  Notation tgt := (target mapw offx offz w).

  Lemma target_inj i k : tgt i = tgt k -> i = k.
  Proof.
    unfold target. intro H.
    pose proof (Nat.mod_upper_bound i w ltac:(lia)) as Hi. pose proof (Nat.mod_upper_bound k w ltac:(lia)) as Hk.
    pose proof (Nat.div_mod i w ltac:(lia)) as Di. pose proof (Nat.div_mod k w ltac:(lia)) as Dk.
    set (a := Nat.modulo i w) in *. set (b := Nat.div i w) in *. set (c := Nat.modulo k w) in *. set (d := Nat.div k w) in *. clearbody a b c d.
    assert (b = d) as Hbd.
    { destruct (Nat.lt_trichotomy b d) as [Hlt|[He|Hgt]]; [exfalso; nia|exact He|exfalso; nia]. }
    subst d. assert (a = c) by nia. subst. reflexivity.
  Qed.

  (* after the loop: a covered pixel holds the patch byte that landed on it, every other pixel is unchanged *)
  Theorem patch_spec : forall n pix, (forall i, (i < n)%nat -> (tgt i < length pix)%nat) ->
    length (patch_upto mapw offx offz w px n pix) = length pix /\
    (forall i, (i < n)%nat -> nth (tgt i) (patch_upto mapw offx offz w px n pix) 0 = nth i px 0) /\
    (forall j, (forall i, (i < n)%nat -> tgt i <> j) -> nth j (patch_upto mapw offx offz w px n pix) 0 = nth j pix 0).
  Proof.
    induction n as [|n IH]; intros pix Hin; cbn [patch_upto].
    - repeat split; intros; try reflexivity; lia.
    - destruct (IH pix (fun i Hi => Hin i ltac:(lia))) as (L & A & B). split; [rewrite lset_length; exact L|]. split.
      + intros i Hi. destruct (Nat.eq_dec i n) as [->|Hne].
        * apply nth_lset_same. rewrite L. apply Hin. lia.
        * rewrite nth_lset_other; [apply A; lia|]. intro He. apply target_inj in He. lia.
      + intros j Hj. rewrite nth_lset_other; [apply B; intros i Hi; apply Hj; lia|]. apply Hj. lia.
  Qed.
End Patch.

(* ---------- position and look ---------- *)
Theorem position_apply full_turn flags p t : 0 < full_turn ->
  let r := papply_pos full_turn flags p t in
  px_ r = (if Z.testbit flags 0 then px_ t + px_ p else px_ p) /\
  py_ r = (if Z.testbit flags 1 then py_ t + py_ p else py_ p) /\
  pz_ r = (if Z.testbit flags 2 then pz_ t + pz_ p else pz_ p) /\
  0 <= pyaw r < full_turn /\ 0 <= ppitch r < full_turn /\
  (pyaw r - (if Z.testbit flags 3 then pyaw t + pyaw p else pyaw p)) mod full_turn = 0 /\
  (ppitch r - (if Z.testbit flags 4 then ppitch t + ppitch p else ppitch p)) mod full_turn = 0.
Proof.
  intro H. cbn zeta. unfold papply_pos. cbn [px_ py_ pz_ pyaw ppitch]. repeat split; try reflexivity; try (apply Z.mod_pos_bound; exact H).
  - rewrite Zminus_mod_idemp_l, Z.sub_diag. apply Z.mod_0_l. lia.
  - rewrite Zminus_mod_idemp_l, Z.sub_diag. apply Z.mod_0_l. lia.
Qed.

(* ---------- records, vectors, aliases ---------- *)
Lemma zs_eqb_eq a : forall b, zs_eqb a b = true -> a = b.
Proof. induction a as [|x a IH]; intros [|y b] H; try discriminate; [reflexivity|]. cbn in H. apply andb_true_iff in H. destruct H as [H1 H2]. apply Z.eqb_eq in H1. rewrite H1, (IH b H2). reflexivity. Qed.
Theorem record_eq_hash H a b : mr_eq a b = true -> mr_hash H a = mr_hash H b.
Proof. unfold mr_eq, mr_hash. intro E. apply andb_true_iff in E. destruct E as [E1 E2]. apply Z.eqb_eq in E1. rewrite E1, (zs_eqb_eq _ _ E2). reflexivity. Qed.
Theorem record_eq_fieldwise a b : mr_eq a b = true <-> mr_type a = mr_type b /\ mr_slots a = mr_slots b.
Proof.
  unfold mr_eq. split.
  - intro E. apply andb_true_iff in E. destruct E as [E1 E2]. apply Z.eqb_eq in E1. split; [exact E1|exact (zs_eqb_eq _ _ E2)].
  - intros [E1 E2]. rewrite E1, E2, Z.eqb_refl. cbn. clear. induction (mr_slots b) as [|x l IH]; [reflexivity|]. cbn. rewrite Z.eqb_refl. exact IH.
Qed.
Theorem vector_ops a b k :
  v_type (vadd a b) = v_type a /\ v_type (vsub a b) = v_type a /\ v_type (vneg a) = v_type a /\ v_type (vmul a k) = v_type a /\ v_type (vfloordiv a k) = v_type a /\
  vx (vadd a b) = vx a + vx b /\ vy (vadd a b) = vy a + vy b /\ vz (vadd a b) = vz a + vz b /\
  vsub (vadd a b) b = a /\ vadd a (vneg a) = {| v_type := v_type a; vx := 0; vy := 0; vz := 0 |}.
Proof.
  repeat split; try reflexivity.
  - destruct a; unfold vsub, vadd; cbn. f_equal; lia.
  - destruct a; unfold vneg, vadd; cbn. f_equal; lia.
Qed.

Lemma aget_aset o n v x : aget (aset o n v) x = if x =? n then Some v else aget o x.
Proof.
  induction o as [|[k w] t IH]; cbn [aset aget].
  - destruct (Z.eqb_spec n x); destruct (Z.eqb_spec x n); try reflexivity; congruence.
  - destruct (Z.eqb_spec k n); cbn [aget]; destruct (Z.eqb_spec k x); destruct (Z.eqb_spec x n); subst; try reflexivity; try congruence; exact IH || (rewrite IH; destruct (Z.eqb_spec x n); congruence).
Qed.
Theorem alias_get_after_set target o v : alias_get target (alias_set target o v) = Some v.
Proof. unfold alias_get, alias_set. rewrite aget_aset, Z.eqb_refl. reflexivity. Qed.
Theorem multi_alias_get_after_set : forall names o vs, NoDup names -> length vs = length names ->
  multi_get names (multi_set names o vs) = map Some vs.
Proof.
  induction names as [|n ns IH]; intros o vs Hnd Hl; destruct vs as [|v vs]; try discriminate; [reflexivity|].
  inversion Hnd as [|? ? Hn Hns]; subst. cbn [multi_set multi_get map]. f_equal.
  - assert (forall ns' o' vs', ~ In n ns' -> aget (multi_set ns' o' vs') n = aget o' n) as Hkeep.
    { induction ns' as [|m ms IHm]; intros o' vs' Hni; destruct vs' as [|w ws]; try reflexivity. cbn [multi_set]. rewrite IHm by (cbn in Hni; tauto).
      rewrite aget_aset. destruct (n =? m) eqn:E; [apply Z.eqb_eq in E; subst; cbn in Hni; tauto|reflexivity]. }
    rewrite Hkeep by exact Hn. rewrite aget_aset, Z.eqb_refl. reflexivity.
  - apply IH; [exact Hns|cbn in Hl; lia].
Qed.

(* ---------- BitFieldEnum.name_from_value ---------- *)
Definition orl (vs : list Z) : Z := fold_left Z.lor vs 0.
Definition submask (v value : Z) : Prop := Z.lor v value = value.

Lemma in_ins_desc x y l : In x (ins_desc y l) <-> x = y \/ In x l.
Proof.
  induction l as [|z t IH]; cbn [ins_desc]; [cbn; intuition|]. destruct (snd z <=? snd y); cbn [In]; [intuition|]. rewrite IH. cbn [In]. intuition.
Qed.
Lemma in_sort_desc x l : In x (sort_desc l) <-> In x l.
Proof. induction l as [|y t IH]; cbn [sort_desc fold_right]; [reflexivity|]. fold (sort_desc t). rewrite in_ins_desc, IH. cbn [In]. intuition. Qed.

Lemma lor_absorb_mono r v w : Z.lor r v = r -> Z.lor (Z.lor r w) v = Z.lor r w.
Proof. intro H. rewrite <- Z.lor_assoc, (Z.lor_comm w v), Z.lor_assoc, H. reflexivity. Qed.

(* the greedy loop: the accumulated value is the OR of the values of the names chosen, it stays below
   the value, and it absorbs every candidate seen *)
Lemma greedy_spec value : forall cands names ret vals,
  ret = fold_left Z.lor vals 0 -> length names = length vals -> submask ret value ->
  (forall m, In m cands -> submask (snd m) value) ->
  let '(names', ret') := greedy value cands names ret in
  exists vals', ret' = fold_left Z.lor vals' 0 /\ length names' = length vals' /\ submask ret' value /\
    (forall m, In m cands -> Z.lor ret' (snd m) = ret') /\ (forall v, Z.lor ret v = ret -> Z.lor ret' v = ret') /\
    (exists extra, names' = names ++ map fst extra /\ vals' = vals ++ map snd extra /\ forall e, In e extra -> In e cands).
Proof.
  induction cands as [|[n v] t IH]; intros names ret vals Hret Hlen Hsub Hc; cbn [greedy].
  - exists vals. split; [exact Hret|]. split; [exact Hlen|]. split; [exact Hsub|]. split; [intros m []|]. split; [intros v Hv; exact Hv|].
    exists []. cbn [map]. rewrite !app_nil_r. split; [reflexivity|]. split; [reflexivity|intros e []].
  - assert (submask v value) as Hv by (apply (Hc (n, v)); left; reflexivity).
    destruct (negb (Z.lor ret v =? ret) || (v =? value)) eqn:E.
    + specialize (IH (names ++ [n]) (Z.lor ret v) (vals ++ [v])).
      destruct (greedy value t (names ++ [n]) (Z.lor ret v)) as [names' ret'].
      destruct IH as (vals' & A & B & C & D & F & extra & G1 & G2 & G3).
      * rewrite fold_left_app. cbn [fold_left]. rewrite Hret. reflexivity.
      * rewrite !app_length. cbn [length]. lia.
      * unfold submask in *. rewrite <- Z.lor_assoc, Hv. exact Hsub.
      * intros m Hm. apply Hc. right. exact Hm.
      * exists vals'. split; [exact A|]. split; [exact B|]. split; [exact C|]. split; [|split].
        -- intros m [<-|Hm]; [cbn [snd]; apply F; rewrite <- Z.lor_assoc, Z.lor_diag; reflexivity|apply D; exact Hm].
        -- intros u Hu. apply F. apply lor_absorb_mono. exact Hu.
        -- exists ((n, v) :: extra). cbn [map fst snd]. rewrite G1, G2, <- !app_assoc. split; [reflexivity|]. split; [reflexivity|].
           intros e [<-|He]; [left; reflexivity|right; apply G3; exact He].
    + apply orb_false_iff in E. destruct E as [E _]. apply negb_false_iff in E. apply Z.eqb_eq in E.
      specialize (IH names ret vals Hret Hlen Hsub (fun m Hm => Hc m (or_intror Hm))).
      destruct (greedy value t names ret) as [names' ret']. destruct IH as (vals' & A & B & C & D & F & extra & G1 & G2 & G3).
      exists vals'. split; [exact A|]. split; [exact B|]. split; [exact C|]. split; [|split; [exact F|]].
      * intros m [<-|Hm]; [cbn [snd]; apply F; exact E|apply D; exact Hm].
      * exists extra. split; [exact G1|]. split; [exact G2|]. intros e He. right. apply G3. exact He.
Qed.

Lemma find_member (ms : list (Z * Z)) n v : NoDup (map fst ms) -> In (n, v) ms -> find (fun m => fst m =? n) ms = Some (n, v).
Proof.
  induction ms as [|[k w] t IH]; intros Hnd Hin; [contradiction|]. inversion Hnd as [|? ? Hk Ht]; subst. cbn [find fst].
  destruct Hin as [H|H].
  - inversion H; subst. rewrite Z.eqb_refl. reflexivity.
  - destruct (Z.eqb_spec k n) as [->|Hne]; [exfalso; apply Hk; apply in_map_iff; exists (n, v); split; [reflexivity|exact H]|apply IH; assumption].
Qed.

Lemma fold_lor_rev vs : fold_right (fun v acc => Z.lor acc v) 0 (rev vs) = fold_left Z.lor vs 0.
Proof. rewrite fold_left_rev_right. reflexivity. Qed.

Definition valof (ms : list (Z * Z)) (n : Z) : Z := match find (fun m => fst m =? n) ms with Some m => snd m | None => 0 end.
Lemma parse_names_unfold ms names : parse_names ms names = fold_left (fun acc n => Z.lor acc (valof ms n)) names 0.
Proof. reflexivity. Qed.
Lemma parse_fold ms (ex : list (Z * Z)) : NoDup (map fst ms) -> (forall e, In e ex -> In e ms) ->
  forall acc, fold_left (fun acc n => Z.lor acc (valof ms n)) (map fst ex) acc = fold_left Z.lor (map snd ex) acc.
Proof.
  intros Hnd Hin. induction ex as [|[n v] t IH]; intro acc; [reflexivity|].
  cbn [map fst snd fold_left]. unfold valof at 2. rewrite (find_member ms n v Hnd (Hin (n, v) (or_introl eq_refl))). cbn [snd]. apply IH. intros e He. apply Hin. right. exact He.
Qed.
Lemma parse_names_map ms (ex : list (Z * Z)) : NoDup (map fst ms) -> (forall e, In e ex -> In e ms) ->
  parse_names ms (map fst ex) = fold_left Z.lor (map snd ex) 0.
Proof. intros Hnd Hin. rewrite parse_names_unfold. apply parse_fold; assumption. Qed.

(* soundness: the printed names parse back (as an OR of members) to the value *)
Theorem name_parses_back ms value names : NoDup (map fst ms) ->
  name_from_value ms value = Some names -> parse_names ms names = value.
Proof.
  intros Hnd H. unfold name_from_value in H.
  set (cands := sort_desc (filter (fun m => Z.lor (snd m) value =? value) ms)) in *.
  assert (forall m, In m cands -> In m ms /\ submask (snd m) value) as Hc.
  { intros m Hm. unfold cands in Hm. apply (proj1 (in_sort_desc _ _)) in Hm. apply (proj1 (filter_In _ _ _)) in Hm. destruct Hm as [A B]. apply Z.eqb_eq in B. split; assumption. }
  pose proof (greedy_spec value cands [] 0 [] eq_refl eq_refl (Z.lor_0_l value) (fun m Hm => proj2 (Hc m Hm))) as G.
  destruct (greedy value cands [] 0) as [names' ret']. destruct G as (vals' & A & B & C & D & F & extra & G1 & G2 & G3).
  destruct (ret' =? value) eqn:E; [|discriminate]. apply Z.eqb_eq in E. inversion H; subst names. cbn [app] in G1, G2. subst names' vals'.
  (* parsing the reversed list: OR is commutative and associative *)
  set (f := fun a n => Z.lor a (valof ms n)).
  assert (forall l a b, fold_left f l (Z.lor a b) = Z.lor b (fold_left f l a)) as Hacc.
  { induction l as [|y l IH']; intros a b; [cbn; apply Z.lor_comm|]. cbn [fold_left]. unfold f at 2 4. rewrite <- IH'. f_equal. rewrite <- !Z.lor_assoc. f_equal. apply Z.lor_comm. }
  assert (forall l acc, fold_left f (rev l) acc = Z.lor acc (fold_left f l 0)) as Hrev.
  { induction l as [|x l IH]; intro acc; [cbn; rewrite Z.lor_0_r; reflexivity|]. cbn [rev]. rewrite fold_left_app. cbn [fold_left]. rewrite IH.
    change (f 0 x) with (Z.lor 0 (valof ms x)). rewrite (Hacc l 0 (valof ms x)).
    change (f (Z.lor acc (fold_left f l 0)) x) with (Z.lor (Z.lor acc (fold_left f l 0)) (valof ms x)). rewrite <- Z.lor_assoc. f_equal. apply Z.lor_comm. }
  rewrite parse_names_unfold. fold f. rewrite Hrev, Z.lor_0_l. unfold f. rewrite <- parse_names_unfold.
  rewrite (parse_names_map ms extra Hnd (fun e He => proj1 (Hc e (G3 e He)))). rewrite <- A. exact E.
Qed.

(* completeness: a value that is the OR of members always gets a name *)
Theorem or_of_members_has_name ms value (sub : list (Z * Z)) :
  (forall e, In e sub -> In e ms) -> value = fold_left Z.lor (map snd sub) 0 -> exists names, name_from_value ms value = Some names.
Proof.
  intros Hsub Hval. unfold name_from_value.
  set (cands := sort_desc (filter (fun m => Z.lor (snd m) value =? value) ms)).
  (* every element of sub is a submask of the value, hence a candidate *)
  assert (forall l acc v, In v l -> Z.lor v (fold_left Z.lor l acc) = fold_left Z.lor l acc) as Hin_or.
  { induction l as [|x l IH]; intros acc v Hv; [contradiction|]. cbn [fold_left]. destruct Hv as [->|Hv]; [|apply IH; exact Hv].
    assert (forall l' a, Z.lor v (fold_left Z.lor l' (Z.lor a v)) = fold_left Z.lor l' (Z.lor a v)) as Hk.
    { induction l' as [|y l' IH']; intro a; [cbn; rewrite Z.lor_comm, <- Z.lor_assoc, Z.lor_diag; reflexivity|]. cbn [fold_left].
      replace (Z.lor (Z.lor a v) y) with (Z.lor (Z.lor a y) v) by (rewrite <- !Z.lor_assoc; f_equal; apply Z.lor_comm). apply IH'. }
    apply Hk. }
  assert (forall e, In e sub -> In e cands) as Hcand.
  { intros e He. unfold cands. apply (proj2 (in_sort_desc _ _)). apply (proj2 (filter_In _ _ _)). split; [apply Hsub; exact He|]. apply Z.eqb_eq. rewrite Hval. apply Hin_or. apply in_map. exact He. }
  assert (forall m, In m cands -> submask (snd m) value) as Hc.
  { intros m Hm. unfold cands in Hm. apply (proj1 (in_sort_desc _ _)) in Hm. apply (proj1 (filter_In _ _ _)) in Hm. destruct Hm as [_ B]. apply Z.eqb_eq in B. exact B. }
  pose proof (greedy_spec value cands [] 0 [] eq_refl eq_refl (Z.lor_0_l value) Hc) as G.
  destruct (greedy value cands [] 0) as [names' ret']. destruct G as (vals' & A & B & C & D & F & _).
  (* ret' absorbs every element of sub, hence the value; and it is below the value *)
  assert (Z.lor ret' value = ret') as Habs.
  { rewrite Hval. assert (forall l acc, (forall v, In v l -> Z.lor ret' v = ret') -> Z.lor ret' acc = ret' -> Z.lor ret' (fold_left Z.lor l acc) = ret') as Hf.
    { induction l as [|x l IH]; intros acc Hl Hacc; [exact Hacc|]. cbn [fold_left]. apply IH; [intros v Hv; apply Hl; right; exact Hv|].
      rewrite Z.lor_assoc, Hacc. apply Hl. left. reflexivity. }
    apply Hf; [|apply Z.lor_0_r]. intros v Hv. apply in_map_iff in Hv. destruct Hv as (e & <- & He). apply D. apply Hcand. exact He. }
  assert (ret' = value) as -> by (unfold submask in C; congruence).
  rewrite Z.eqb_refl. eexists. reflexivity.
Qed.
