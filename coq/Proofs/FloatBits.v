From Coq Require Import ZArith List Bool Lia.
From Flocq Require Import IEEE754.Binary IEEE754.Bits.
From PyCraft Require Import Base.Res Model.Tables Model.Prim Model.FieldTypes Proofs.PrimProofs.
Import ListNotations.
Open Scope Z_scope.

(* Float.send f = the four big-endian bytes of the IEEE-754 binary32 bit pattern of f; reading them
   back gives the same float (every float, including zeros, subnormals, infinities, NaN payloads). *)
Definition enc_f32 (f : binary32) : res (list Z) := enc_int false 4 (bits_of_b32 f).
Definition dec_f32 (bs : list Z) : res (binary32 * list Z) :=
  match dec_int false 4 bs with Ok (u, r) => Ok (b32_of_bits u, r) | Err e => Err e | OutOfFuel => OutOfFuel end.
Definition enc_f64 (f : binary64) : res (list Z) := enc_int false 8 (bits_of_b64 f).
Definition dec_f64 (bs : list Z) : res (binary64 * list Z) :=
  match dec_int false 8 bs with Ok (u, r) => Ok (b64_of_bits u, r) | Err e => Err e | OutOfFuel => OutOfFuel end.

Theorem f32_roundtrip (f : binary32) :
  exists bs, enc_f32 f = Ok bs /\ length bs = 4%nat /\ forall rest, dec_f32 (bs ++ rest) = Ok (f, rest).
Proof.
  pose proof (bits_of_binary_float_range 23 8 eq_refl eq_refl f) as Hr.
  destruct (enc_int_total false 4 (bits_of_b32 f)) as (bs & Hbs).
  { unfold bits_of_b32. cbn. cbn in Hr. lia. }
  exists bs. split; [exact Hbs|]. split; [apply (enc_int_spec _ _ _ _ Hbs)|].
  intro rest. unfold dec_f32. rewrite (dec_enc_int false 4 _ bs rest ltac:(lia) Hbs).
  unfold b32_of_bits, bits_of_b32. rewrite binary_float_of_bits_of_binary_float. reflexivity.
Qed.

Theorem f64_roundtrip (f : binary64) :
  exists bs, enc_f64 f = Ok bs /\ length bs = 8%nat /\ forall rest, dec_f64 (bs ++ rest) = Ok (f, rest).
Proof.
  pose proof (bits_of_binary_float_range 52 11 eq_refl eq_refl f) as Hr.
  destruct (enc_int_total false 8 (bits_of_b64 f)) as (bs & Hbs).
  { unfold bits_of_b64. cbn. cbn in Hr. lia. }
  exists bs. split; [exact Hbs|]. split; [apply (enc_int_spec _ _ _ _ Hbs)|].
  intro rest. unfold dec_f64. rewrite (dec_enc_int false 8 _ bs rest ltac:(lia) Hbs).
  unfold b64_of_bits, bits_of_b64. rewrite binary_float_of_bits_of_binary_float. reflexivity.
Qed.

(* and the wire model of TFloat/TDouble in FieldTypes (bit patterns as integers) is exactly this *)
Theorem f32_is_field_model c (f : binary32) : enc c TFloat (VInt (bits_of_b32 f)) = enc_f32 f.
Proof. reflexivity. Qed.
Theorem f64_is_field_model c (f : binary64) : enc c TDouble (VInt (bits_of_b64 f)) = enc_f64 f.
Proof. reflexivity. Qed.
(* every 32/64-bit pattern is the pattern of the float it denotes (so decoding any 4/8 bytes is faithful) *)
Theorem bits_f32 x : 0 <= x < 2 ^ 32 -> bits_of_b32 (b32_of_bits x) = x.
Proof. intro H. apply (bits_of_binary_float_of_bits 23 8 eq_refl eq_refl eq_refl). exact H. Qed.
Theorem bits_f64 x : 0 <= x < 2 ^ 64 -> bits_of_b64 (b64_of_bits x) = x.
Proof. intro H. apply (bits_of_binary_float_of_bits 52 11 eq_refl eq_refl eq_refl). exact H. Qed.
