From Coq Require Import ZArith List Bool Lia ZifyBool.
From PyCraft Require Import Base.Res Model.Prim Proofs.PrimProofs Model.SignedHex Spec.JavaBigInt.
Import ListNotations.
Open Scope Z_scope.
Ltac Zify.zify_post_hook ::= Z.to_euclidean_division_equations.

Definition wfb (bs : list Z) : Prop := Forall (fun b => 0 <= b < 256) bs.

Lemma be_value_unsigned bs : forall acc, be_value acc bs = acc * 256 ^ Z.of_nat (length bs) + unsigned_value bs.
Proof.
  induction bs as [|b t IH]; intro acc; cbn [be_value unsigned_value length].
  - cbn. lia.
  - rewrite IH, Nat2Z.inj_succ, Z.pow_succ_r by lia. ring.
Qed.

Lemma unsigned_value_bound bs : wfb bs -> 0 <= unsigned_value bs < 256 ^ Z.of_nat (length bs).
Proof.
  induction 1 as [|b t Hb Ht IH]; cbn [unsigned_value length]; [cbn; lia|].
  rewrite Nat2Z.inj_succ, Z.pow_succ_r by lia.
  assert (0 < 256 ^ Z.of_nat (length t)) by (apply Z.pow_pos_nonneg; lia). nia.
Qed.

Lemma from_bytes_signed_spec bs : from_bytes_signed bs = twos_value bs.
Proof.
  unfold from_bytes_signed, twos_value, pow256. rewrite be_value_unsigned. destruct bs; [reflexivity|].
  destruct (128 <=? z); lia.
Qed.

Lemma twos_value_bound bs : wfb bs -> bs <> [] -> Z.abs (twos_value bs) < 256 ^ Z.of_nat (length bs).
Proof.
  intros Hwf Hne. destruct bs as [|b t]; [congruence|]. unfold twos_value.
  pose proof (unsigned_value_bound _ Hwf) as Hb. inversion Hwf as [|? ? Hb0 Ht]; subst.
  pose proof (unsigned_value_bound _ Ht) as Hbt.
  cbn [unsigned_value length] in *. rewrite Nat2Z.inj_succ, Z.pow_succ_r in * by lia.
  assert (0 < 256 ^ Z.of_nat (length t)) by (apply Z.pow_pos_nonneg; lia).
  destruct (128 <=? b) eqn:E; nia.
Qed.

Fixpoint value16 (acc : Z) (ds : list Z) : Z :=
  match ds with [] => acc | d :: t => value16 (acc * 16 + d) t end.

Lemma value16_nibbles bs : forall acc, value16 acc (nibbles bs) = be_value acc bs.
Proof.
  induction bs as [|b t IH]; intro acc; cbn [nibbles value16 be_value]; [reflexivity|].
  rewrite IH. f_equal. lia.
Qed.

Lemma nibbles_digits bs : wfb bs -> Forall (fun d => 0 <= d < 16) (nibbles bs).
Proof. induction 1 as [|b t Hb Ht IH]; cbn [nibbles]; repeat constructor; try assumption; lia. Qed.

Lemma value16_strip0 ds : value16 0 (strip0 ds) = value16 0 ds.
Proof. induction ds as [|d t IH]; [reflexivity|]. cbn [strip0]. destruct d; try reflexivity. cbn [value16]. exact IH. Qed.

Lemma strip0_digits ds : Forall (fun d => 0 <= d < 16) ds -> Forall (fun d => 0 <= d < 16) (strip0 ds).
Proof. induction 1 as [|d t Hd Ht IH]; cbn [strip0]; [constructor|]. destruct d; try (constructor; assumption). exact IH. Qed.

Lemma strip0_head ds : match strip0 ds with [] => True | d :: _ => d <> 0 end.
Proof. induction ds as [|d t IH]; cbn [strip0]; [exact I|]. destruct d; try exact IH; discriminate. Qed.

Lemma value16_mono ds : Forall (fun d => 0 <= d < 16) ds -> forall acc, 0 <= acc -> acc <= value16 acc ds.
Proof.
  induction 1 as [|d t Hd Ht IH]; intros acc Ha; cbn [value16]; [lia|].
  specialize (IH (acc * 16 + d) ltac:(lia)). lia.
Qed.

Lemma value16_pos ds : Forall (fun d => 0 <= d < 16) ds -> match ds with d :: _ => d <> 0 | [] => True end -> ds <> [] -> 0 < value16 0 ds.
Proof.
  intros Hd Hh Hne. destruct ds as [|d t]; [congruence|]. inversion Hd; subst. cbn [value16].
  pose proof (value16_mono t H2 (0 * 16 + d) ltac:(lia)). lia.
Qed.

Lemma digit_val_hexchar d : 0 <= d < 16 -> digit_val (hexchar d) = Some d.
Proof.
  intro Hd. unfold hexchar, digit_val. destruct (d <? 10) eqn:E.
  - replace ((48 <=? 48 + d) && (48 + d <=? 57)) with true by lia. f_equal. lia.
  - replace ((48 <=? 87 + d) && (87 + d <=? 57)) with false by lia.
    replace ((97 <=? 87 + d) && (87 + d <=? 102)) with true by lia. f_equal. lia.
Qed.

Lemma parse_digits_hex ds : Forall (fun d => 0 <= d < 16) ds -> forall acc, parse_digits acc (map hexchar ds) = Some (value16 acc ds).
Proof.
  induction 1 as [|d t Hd Ht IH]; intro acc; cbn [map parse_digits value16]; [reflexivity|].
  rewrite digit_val_hexchar by assumption. apply IH.
Qed.

Lemma hexchar_not_minus d : 0 <= d < 16 -> hexchar d <> 45 /\ (hexchar d = 48 <-> d = 0).
Proof. intro Hd. unfold hexchar. destruct (d <? 10) eqn:E; lia. Qed.

(* format(n,'x') parses back to n and is canonical *)
Theorem format_x_spec len n : Z.abs n < pow256 len ->
  parse_signed_hex (format_x len n) = Some n /\ canonical_hex (format_x len n).
Proof.
  intro Hn. unfold format_x.
  set (ds := strip0 (nibbles (be_bytes len (Z.abs n)))).
  assert (Forall (fun d => 0 <= d < 16) ds) as Hds.
  { apply strip0_digits, nibbles_digits, be_bytes_wf. }
  assert (value16 0 ds = Z.abs n) as Hval.
  { unfold ds. rewrite value16_strip0, value16_nibbles, be_value_bytes by lia. lia. }
  pose proof (strip0_head (nibbles (be_bytes len (Z.abs n)))) as Hhead. fold ds in Hhead.
  destruct ds as [|d t] eqn:Eds.
  - (* value 0 *)
    cbn [value16] in Hval. assert (n = 0) by lia. subst n. cbn [Z.ltb Z.compare app].
    unfold parse_signed_hex, canonical_hex, body, is_neg. cbn. repeat split; try discriminate. right. reflexivity.
  - inversion Hds as [|? ? Hd Ht]; subst.
    pose proof (hexchar_not_minus d Hd) as [Hnm H48].
    assert (0 < Z.abs n) as Hpos.
    { rewrite <- Hval. apply value16_pos; [assumption|assumption|discriminate]. }
    assert (hexchar d =? 45 = false) as Hnm' by (apply Z.eqb_neq; exact Hnm).
    destruct (n <? 0) eqn:Eneg.
    + cbn [app map]. unfold parse_signed_hex, canonical_hex, body, is_neg. cbn [Z.eqb Pos.eqb tl hd].
      rewrite <- (map_cons hexchar d t), parse_digits_hex by assumption. rewrite Hval. cbn [option_map map].
      split; [f_equal; lia|]. repeat split; try discriminate.
      * left. intro E. apply H48 in E. congruence.
      * intros _ E. inversion E as [[E1 E2]]. apply H48 in E1. congruence.
    + cbn [app map]. unfold parse_signed_hex, canonical_hex, body, is_neg. rewrite Hnm'.
      rewrite <- (map_cons hexchar d t), parse_digits_hex by assumption. rewrite Hval. cbn [map hd].
      split; [f_equal; lia|]. repeat split; try discriminate.
      left. intro E. apply H48 in E. congruence.
Qed.

Theorem mc_hex_spec d : wfb d -> d <> [] ->
  parse_signed_hex (mc_hex d) = Some (twos_value d) /\ canonical_hex (mc_hex d).
Proof.
  intros Hwf Hne. unfold mc_hex. rewrite from_bytes_signed_spec.
  apply format_x_spec. unfold pow256. apply twos_value_bound; assumption.
Qed.

(* uniqueness: a canonical string is determined by its value, so mc_hex d IS BigInteger.toString(16) *)
