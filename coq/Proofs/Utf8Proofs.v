From Coq Require Import ZArith List Bool Lia ZifyBool.
From PyCraft Require Import Base.Res Model.Utf8.
Import ListNotations.
Open Scope Z_scope.
Ltac Zify.zify_post_hook ::= Z.to_euclidean_division_equations.

Lemma enc_cp_wf c : is_scalar c = true -> Forall (fun b => 0 <= b < 256) (enc_cp c).
Proof.
  unfold is_scalar, enc_cp. intro H.
  destruct (c <? 128) eqn:E1; [repeat constructor; lia|].
  destruct (c <? 2048) eqn:E2; [repeat constructor; lia|].
  destruct (c <? 65536) eqn:E3; repeat constructor; lia.
Qed.

Lemma enc_cp_len c : (1 <= length (enc_cp c) <= 4)%nat.
Proof.
  unfold enc_cp. destruct (c <? 128); [cbn; lia|]. destruct (c <? 2048); [cbn; lia|].
  destruct (c <? 65536); cbn; lia.
Qed.

Lemma dec_enc_cp c rest : is_scalar c = true -> dec_cp (enc_cp c ++ rest) = Some (c, rest).
Proof.
  unfold is_scalar. intro H. unfold enc_cp.
  destruct (c <? 128) eqn:E1.
  { cbn [app dec_cp]. unfold inr. replace ((0 <=? c) && (c <=? 127)) with true by lia. reflexivity. }
  destruct (c <? 2048) eqn:E2.
  { cbn [app dec_cp]. unfold inr, is_cont.
    replace ((0 <=? 192 + c / 64) && (192 + c / 64 <=? 127)) with false by lia.
    replace ((194 <=? 192 + c / 64) && (192 + c / 64 <=? 223)) with true by lia.
    replace ((128 <=? 128 + c mod 64) && (128 + c mod 64 <? 192)) with true by lia.
    f_equal. f_equal. lia. }
  destruct (c <? 65536) eqn:E3.
  { cbn [app dec_cp]. unfold inr, is_cont.
    replace ((0 <=? 224 + c / 4096) && (224 + c / 4096 <=? 127)) with false by lia.
    replace ((194 <=? 224 + c / 4096) && (224 + c / 4096 <=? 223)) with false by lia.
    replace ((224 <=? 224 + c / 4096) && (224 + c / 4096 <=? 239)) with true by lia.
    replace ((128 <=? 128 + c mod 64) && (128 + c mod 64 <? 192)) with true by lia.
    destruct (224 + c / 4096 =? 224) eqn:F1.
    - replace ((160 <=? 128 + (c / 64) mod 64) && (128 + (c / 64) mod 64 <=? 191)) with true by lia.
      cbn [andb]. f_equal. f_equal. lia.
    - destruct (224 + c / 4096 =? 237) eqn:F2.
      + replace ((128 <=? 128 + (c / 64) mod 64) && (128 + (c / 64) mod 64 <=? 159)) with true by lia.
        cbn [andb]. f_equal. f_equal. lia.
      + replace ((128 <=? 128 + (c / 64) mod 64) && (128 + (c / 64) mod 64 <? 192)) with true by lia.
        cbn [andb]. f_equal. f_equal. lia. }
  cbn [app dec_cp]. unfold inr, is_cont.
  replace ((0 <=? 240 + c / 262144) && (240 + c / 262144 <=? 127)) with false by lia.
  replace ((194 <=? 240 + c / 262144) && (240 + c / 262144 <=? 223)) with false by lia.
  replace ((224 <=? 240 + c / 262144) && (240 + c / 262144 <=? 239)) with false by lia.
  replace ((240 <=? 240 + c / 262144) && (240 + c / 262144 <=? 244)) with true by lia.
  replace ((128 <=? 128 + c mod 64) && (128 + c mod 64 <? 192)) with true by lia.
  replace ((128 <=? 128 + (c / 64) mod 64) && (128 + (c / 64) mod 64 <? 192)) with true by lia.
  destruct (240 + c / 262144 =? 240) eqn:F1.
  - replace ((144 <=? 128 + (c / 4096) mod 64) && (128 + (c / 4096) mod 64 <=? 191)) with true by lia.
    cbn [andb]. f_equal. f_equal. lia.
  - destruct (240 + c / 262144 =? 244) eqn:F2.
    + replace ((128 <=? 128 + (c / 4096) mod 64) && (128 + (c / 4096) mod 64 <=? 143)) with true by lia.
      cbn [andb]. f_equal. f_equal. lia.
    + replace ((128 <=? 128 + (c / 4096) mod 64) && (128 + (c / 4096) mod 64 <? 192)) with true by lia.
      cbn [andb]. f_equal. f_equal. lia.
Qed.

Lemma utf8_enc_ok cps : forallb is_scalar cps = true -> exists bs, utf8_enc cps = Ok bs.
Proof.
  induction cps as [|c t IH]; cbn [forallb utf8_enc]; intro H; [eexists; reflexivity|].
  apply andb_true_iff in H. destruct H as [Hc Ht]. rewrite Hc. destruct (IH Ht) as (r & ->). eexists. reflexivity.
Qed.

Lemma utf8_enc_scalar cps bs : utf8_enc cps = Ok bs -> forallb is_scalar cps = true.
Proof.
  revert bs. induction cps as [|c t IH]; intros bs; cbn [forallb utf8_enc]; [reflexivity|].
  destruct (is_scalar c); [|discriminate]. destruct (utf8_enc t) as [r| |] eqn:E; try discriminate.
  intros _. rewrite (IH r eq_refl). reflexivity.
Qed.

Lemma utf8_enc_wf cps : forall bs, utf8_enc cps = Ok bs -> Forall (fun b => 0 <= b < 256) bs.
Proof.
  induction cps as [|c t IH]; intros bs; cbn [utf8_enc].
  - intro H. inversion H. constructor.
  - destruct (is_scalar c) eqn:Hc; [|discriminate]. destruct (utf8_enc t) as [r| |]; try discriminate.
    intro H. inversion H. apply Forall_app. split; [apply enc_cp_wf; assumption|apply IH; reflexivity].
Qed.

Lemma utf8_dec_f_enc cps : forall bs fuel, utf8_enc cps = Ok bs -> (length bs <= fuel)%nat -> utf8_dec_f fuel bs = Ok cps.
Proof.
  induction cps as [|c t IH]; intros bs fuel; cbn [utf8_enc].
  - intro H. inversion H. destruct fuel; reflexivity.
  - destruct (is_scalar c) eqn:Hc; [|discriminate]. destruct (utf8_enc t) as [r| |] eqn:E; try discriminate.
    intros H Hl. inversion H; subst bs. pose proof (enc_cp_len c) as Hlen.
    rewrite app_length in Hl.
    destruct fuel as [|f]; [lia|].
    destruct (enc_cp c ++ r) as [|b0 l0] eqn:Eapp.
    { apply (f_equal (@length Z)) in Eapp. rewrite app_length in Eapp. cbn in Eapp. lia. }
    cbn [utf8_dec_f]. rewrite <- Eapp. rewrite dec_enc_cp by assumption.
    rewrite (IH r f eq_refl) by lia. reflexivity.
Qed.

Theorem utf8_roundtrip cps bs : utf8_enc cps = Ok bs -> utf8_dec bs = Ok cps.
Proof. intro H. unfold utf8_dec. apply utf8_dec_f_enc with (fuel := length bs); [assumption|lia]. Qed.

(* the decoder never runs out of fuel: every step consumes a byte *)
Lemma dec_cp_shorter bs c rest : dec_cp bs = Some (c, rest) -> (length rest < length bs)%nat.
Proof.
  unfold dec_cp. destruct bs as [|b1 r1]; [discriminate|].
  destruct (inr 0 127 b1). { intro H; inversion H; subst; cbn; lia. }
  destruct (inr 194 223 b1).
  { destruct r1 as [|b2 r2]; [discriminate|]. destruct (is_cont b2); [|discriminate]. intro H; inversion H; subst; cbn; lia. }
  destruct (inr 224 239 b1).
  { destruct r1 as [|b2 [|b3 r3]]; try discriminate.
    match goal with |- (if ?c then _ else _) = _ -> _ => destruct c end; [|discriminate]. intro H; inversion H; subst; cbn; lia. }
  destruct (inr 240 244 b1); [|discriminate].
  destruct r1 as [|b2 [|b3 [|b4 r4]]]; try discriminate.
  match goal with |- (if ?c then _ else _) = _ -> _ => destruct c end; [|discriminate]. intro H; inversion H; subst; cbn; lia.
Qed.

Theorem utf8_dec_total bs : utf8_dec bs <> OutOfFuel.
Proof.
  unfold utf8_dec. assert (forall fuel bs, (length bs <= fuel)%nat -> utf8_dec_f fuel bs <> OutOfFuel) as H.
  { induction fuel as [|f IH]; intros l Hl.
    - destruct l; [discriminate|cbn in Hl; lia].
    - destruct l as [|b t]; [discriminate|]. cbn [utf8_dec_f].
      destruct (dec_cp (b :: t)) as [[c rest]|] eqn:E; [|discriminate].
      apply dec_cp_shorter in E. specialize (IH rest ltac:(cbn in *; lia)).
      destruct (utf8_dec_f f rest); try discriminate. exact IH. }
  apply H. lia.
Qed.
