From Coq Require Import ZArith List Bool Lia.
From PyCraft Require Import Base.Res Model.Tables Model.Prim Model.FieldTypes.
Open Scope Z_scope.

Lemma rhe_bound a b : 0 < b -> 2 * Z.abs (round_half_even a b * b - a) <= b.
Proof.
  intro Hb. unfold round_half_even.
  pose proof (Z.div_mod a b ltac:(lia)) as Hd. pose proof (Z.mod_pos_bound a b Hb) as Hm.
  set (q := a / b) in *. set (r := a mod b) in *. clearbody q r.
  destruct (2 * r <? b) eqn:E1; [apply Z.ltb_lt in E1; lia|]. apply Z.ltb_ge in E1.
  destruct (b <? 2 * r) eqn:E2; [apply Z.ltb_lt in E2; lia|]. apply Z.ltb_ge in E2.
  destruct (Z.even q); lia.
Qed.

Theorem angle_quantum num k : 0 <= k ->
  let m := 360 * 2 ^ k in
  exists turns : Z, 2 * Z.abs (angle_byte num k * m - 256 * num + 256 * turns * m) <= m.
Proof.
  intros Hk m. unfold angle_byte. fold m.
  assert (0 < m) as Hm by (unfold m; pose proof (Z.pow_pos_nonneg 2 k ltac:(lia) Hk); lia).
  pose proof (rhe_bound (256 * (num mod m)) m Hm) as Hb.
  set (q := round_half_even (256 * (num mod m)) m) in *. clearbody q.
  pose proof (Z.div_mod num m ltac:(lia)) as Hd.
  pose proof (Z.div_mod q 256 ltac:(lia)) as Hq.
  exists (num / m + q / 256).
  set (nd := num / m) in *. set (nm := num mod m) in *. set (qd := q / 256) in *. set (qm := q mod 256) in *.
  clearbody nd nm qd qm. subst num q.
  replace (qm * m - 256 * (m * nd + nm) + 256 * (nd + qd) * m) with ((256 * qd + qm) * m - 256 * nm) by ring.
  exact Hb.
Qed.

Theorem angle_byte_range num k : 0 <= angle_byte num k < 256.
Proof. unfold angle_byte. apply Z.mod_pos_bound. lia. Qed.

Theorem fixed_quantum num k n : 0 <= k -> 0 <= n ->
  Z.abs (fixed_int num k n * 2 ^ k - num * 2 ^ n) < 2 ^ k.
Proof.
  intros Hk Hn. unfold fixed_int.
  pose proof (Z.pow_pos_nonneg 2 k ltac:(lia) Hk) as Hp.
  pose proof (Z.quot_rem' (num * 2 ^ n) (2 ^ k)) as Hq.
  pose proof (Z.rem_bound_abs (num * 2 ^ n) (2 ^ k) ltac:(lia)) as Hr.
  set (a := num * 2 ^ n) in *. set (b := 2 ^ k) in *. clearbody a b.
  set (qq := Z.quot a b) in *. set (rr := Z.rem a b) in *. clearbody qq rr. lia.
Qed.
