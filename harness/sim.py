"""Simulated transport: in-memory stand-ins for the socket, the file object and select, injected into
minecraft.networking.connection from outside (no source hooks).  See DESIGN.md section 2.4."""
import threading, collections, sys, types


class EndOfScript(BaseException):
    """Unwinds a networking thread when the scripted server has nothing more to say and the client
    is idle.  Not an Exception: pyCraft's `except Exception` clauses do not see it."""


class Spin(BaseException):
    """Raised when the client keeps reading after end-of-stream (budget exceeded): a busy loop."""


class SegStream(object):
    """The file object of a connection: read(n) returns at most n bytes and at most the current
    segment; b'' only at end of stream.  Counts reads after end of stream."""

    def __init__(self, segments, eof=True, spin_budget=1000):
        self.segs = collections.deque(bytes(s) for s in segments if len(s))
        self.eof = eof
        self.empty_reads = 0
        self.reads = 0
        self.consumed = 0
        self.spin_budget = spin_budget
        self.closed = False

    def feed(self, data):
        if data:
            self.segs.append(bytes(data))

    def available(self):
        return bool(self.segs)

    def read(self, n=-1):
        self.reads += 1
        if n is None or n < 0:
            n = 1 << 60
        if not self.segs:
            if not self.eof:
                raise WouldBlock('read(%d) with nothing available and no end of stream' % n)
            self.empty_reads += 1
            if self.empty_reads > self.spin_budget:
                raise Spin('more than %d reads after end of stream' % self.spin_budget)
            return b''
        if n == 0:
            return b''
        seg = self.segs.popleft()
        if len(seg) > n:
            self.segs.appendleft(seg[n:])
            seg = seg[:n]
        self.consumed += len(seg)
        return seg

    def remaining(self):
        return b''.join(self.segs)

    def fileno(self):
        return 0

    def close(self):
        self.closed = True


GAP = object()


class GapStream(SegStream):
    """A segmented stream with pauses: a GAP between two segments means that the following bytes have not arrived yet when the
    reader next asks select() (which then reports nothing readable, once); a read() at a GAP is a blocking read - the data
    arrives and is returned."""

    def __init__(self, segments, eof=True, spin_budget=1000):
        SegStream.__init__(self, [], eof=eof, spin_budget=spin_budget)
        self.segs = collections.deque(s if s is GAP else bytes(s) for s in segments if s is GAP or len(s))
        self.pauses = 0

    def ready(self):
        if self.segs and self.segs[0] is GAP:
            self.segs.popleft()
            self.pauses += 1
            return False
        return bool(self.segs) or self.eof

    def available(self):
        return any(x is not GAP for x in self.segs)

    def read(self, n=-1):
        while self.segs and self.segs[0] is GAP:
            self.segs.popleft()
        return SegStream.read(self, n)

    def remaining(self):
        return b''.join(x for x in self.segs if x is not GAP)


class WouldBlock(BaseException):
    """A read that would block forever (nothing buffered, no end of stream)."""


class RecSocket(object):
    """Records every send() call."""

    def __init__(self):
        self.sends = []
        self.closed = False
        self.shut = False
        self.events = []

    def send(self, data):
        if self.closed:
            raise OSError('send on closed socket')
        self.sends.append(bytes(data))
        self.events.append(('send', bytes(data)))
        return len(data)

    def sendall(self, data):
        self.send(data)

    def data(self):
        return b''.join(self.sends)

    def fileno(self):
        return 0

    def shutdown(self, *a):
        self.shut = True
        self.events.append(('shutdown',))

    def close(self):
        self.closed = True
        self.events.append(('close',))


class FakeSelect(object):
    """select.select stand-in: a stream is readable when it has buffered data or is at end of stream."""
    error = OSError

    def __init__(self):
        self.calls = 0

    def select(self, r, w, x, timeout=None):
        self.calls += 1
        ready = []
        for s in r:
            inner = getattr(s, 'actual_file_object', s)
            if isinstance(inner, GapStream):
                if inner.ready():
                    ready.append(s)
            elif isinstance(inner, SegStream):
                if inner.available() or inner.eof:
                    ready.append(s)
            else:
                ready.append(s)
        return ready, [], []


def patch_select(connection_module, fake=None):
    """replaces whatever name of the module holds the select module or select.select (either import style)"""
    import select as real_select
    fake = fake or FakeSelect()
    for name, obj in list(vars(connection_module).items()):
        if obj is real_select or isinstance(obj, FakeSelect):
            setattr(connection_module, name, fake)
        elif obj is real_select.select or getattr(obj, '__self__', None).__class__ is FakeSelect:
            setattr(connection_module, name, fake.select)
    return fake


# ====================================================================== connection-level simulation

PAUSE = object()     # in a server's chunk list: the following bytes arrive later than any timeout the client may have set


class Server(object):
    """One scripted TCP connection: the chunks the server's bytes arrive in, and how the script ends:
    'eof' (the server closes) or 'idle' (the server stays silent; the harness unwinds the client)."""

    def __init__(self, chunks=(), end='eof', refuse=False, fail_send_after=None):
        self.chunks = collections.deque(c if c is PAUSE else bytes(c) for c in chunks if c is PAUSE or len(c))
        self.end = end
        self.refuse = refuse
        self.fail_send_after = fail_send_after     # socket.send raises IOError after this many calls
        self.sends = []
        self.events = []
        self.stream = None
        self.sock = None


class SimStream(SegStream):
    """File object of a simulated connection: a read that finds nothing buffered pulls the next
    scripted arrival (this is what blocking looks like in a synchronous run)."""

    def __init__(self, server, net):
        SegStream.__init__(self, [], eof=False)
        self.server, self.net = server, net

    def pull(self, in_read=False):
        while self.server.chunks:
            if self.server.chunks[0] is PAUSE:
                # nothing arrives for a long while.  A select() finds nothing readable this time; a blocking read waits for the
                # data; a read on a socket that was given a timeout raises socket.timeout
                self.server.chunks.popleft()
                if not in_read:
                    return False
                if getattr(self.server.sock, 'timeout', None) is not None:
                    import socket as real_socket
                    raise real_socket.timeout('timed out')
                continue
            self.feed(self.server.chunks.popleft())
            return True
        return False

    def at_end(self):
        return not self.segs and not self.server.chunks

    def read(self, n=-1):
        if self.closed:
            raise ValueError('I/O operation on closed file')
        if not self.segs and not self.pull(in_read=True):
            if self.server.end == 'eof':
                self.eof = True
            else:
                raise WouldBlock('read with nothing available, script exhausted, no end of stream')
        return SegStream.read(self, n)


class SimSocket(object):
    def __init__(self, net, *a):
        self.net = net
        self.server = None
        self.closed = False
        self.nsend = 0
        self.timeout = None          # blocking, as a new socket is

    def connect(self, addr):
        srv = self.net.next_server()
        self.net.log.append(('connect', srv.index if srv else None, addr))
        if srv is None or srv.refuse:
            raise ConnectionRefusedError(111, 'Connection refused')
        self.server = srv
        srv.sock = self

    def makefile(self, *a, **k):
        self.server.stream = SimStream(self.server, self.net)
        return self.server.stream

    def send(self, data):
        self.net.switch('send')
        self.net.sent_since_select = True
        if self.closed:
            raise OSError(9, 'Bad file descriptor')
        if self.server is None:
            raise BrokenPipeError(32, 'Broken pipe')
        self.nsend += 1
        if self.server.fail_send_after is not None and self.nsend > self.server.fail_send_after:
            raise BrokenPipeError(32, 'Broken pipe')
        if self.timeout is not None and len(data) > 1024:
            # a socket with a timeout is non-blocking underneath: send() takes what fits and says how much that was
            data = bytes(data)[:len(data) // 2]
        self.server.sends.append(bytes(data))
        cb = getattr(self.server, 'on_first_frame', None)
        if cb is not None and len(self.server.sends) == 2:
            self.server.on_first_frame = None
            cb(b''.join(self.server.sends))
        self.net.log.append(('send', self.server.index, bytes(data)))
        return len(data)

    def sendall(self, data):
        # (a real socket has it; the library is free to use it)
        self.send(data)

    def getpeername(self):
        return ('127.0.0.1', 25565)

    def getsockname(self):
        return ('127.0.0.1', 50000)

    def recv(self, n):
        return self.server.stream.read(n)

    def fileno(self):
        return 0

    def shutdown(self, how):
        self.net.switch('shutdown')
        if self.closed:
            raise OSError(9, 'Bad file descriptor')
        if self.server is None:
            raise OSError(107, 'Transport endpoint is not connected')
        self.net.log.append(('shutdown', self.server.index))

    def close(self):
        self.net.switch('close')
        self.closed = True
        self.net.log.append(('close', self.server.index if self.server is not None else None))

    def settimeout(self, t):
        self.timeout = t

    def gettimeout(self):
        return self.timeout

    def setblocking(self, flag):
        self.timeout = None if flag else 0.0

    def setsockopt(self, *a):
        pass


class Net(object):
    """Replaces socket, select, NetworkingThread, the clock and os.urandom of minecraft.networking.connection /
    encryption from outside.  Networking threads are registered instead of started; run_threads() executes
    them synchronously, one after the other."""

    def __init__(self, servers=(), urandom=None, idle_limit=3):
        self.servers = list(servers)
        for i, s in enumerate(self.servers):
            s.index = i
        self.nconn = 0
        self.log = []
        self.pending = []
        self.threads = []
        self.urandom_calls = []
        self.urandom_bytes = urandom
        self.idle_limit = idle_limit
        self.idle = 0
        self.clock = 1000.0
        self.thread_results = []
        self.switch_hook = None
        self.join_hook = None
        self.start_hook = None
        self.loop_events = []
        self.sent_since_select = False
        self.io_threads = {}
        self.saved = None

    def switch(self, what):
        if self.switch_hook:
            self.switch_hook(what)

    def next_server(self):
        i = self.nconn
        self.nconn += 1
        return self.servers[i] if i < len(self.servers) else None

    # ---- module stand-ins
    _installed = None          # the Net whose fakes are in place (class attribute): installing another one replaces it

    def install(self):
        from minecraft.networking import connection as C, encryption as E
        if Net._installed is not None and Net._installed is not self:
            Net._installed.uninstall()
        Net._installed = self
        import socket as real_socket, os as real_os
        net = self
        fake_socket = types.SimpleNamespace(
            AF_INET=real_socket.AF_INET, AF_INET6=real_socket.AF_INET6, SOCK_STREAM=real_socket.SOCK_STREAM,
            SHUT_RDWR=real_socket.SHUT_RDWR, error=OSError, timeout=real_socket.timeout,
            getaddrinfo=lambda host, port, *a, **k: [(real_socket.AF_INET, real_socket.SOCK_STREAM, 6, '', (host, port))],
            socket=lambda *a, **k: SimSocket(net, *a))

        class FakeSel(object):
            error = OSError

            @staticmethod
            def select(r, w, x, timeout=None):
                t = net.io_threads.get(threading.get_ident())
                if t is not None and not t.sim_in_loop:
                    t.sim_in_loop = True
                    net.loop_events.append(('enter', t))
                net.switch('select')
                ready = []
                for s in r:
                    inner = getattr(s, 'actual_file_object', s)
                    if isinstance(inner, SimStream):
                        if inner.closed:
                            raise ValueError('file descriptor cannot be a negative integer (-1)')
                        if inner.segs or inner.pull() or (inner.server.end == 'eof'):
                            ready.append(s)
                    else:
                        ready.append(s)
                if ready:
                    net.idle = 0
                else:
                    # idle = nothing readable and nothing written since the previous select (no private attribute of the
                    # connection is consulted)
                    if net.current_connection is not None and not net.sent_since_select:
                        net.idle += 1
                        if net.idle >= net.idle_limit:
                            net.idle = 0
                            raise EndOfScript()
                net.sent_since_select = False
                return ready, [], []

        C_NetworkingThread = C.NetworkingThread
        orig_run = C_NetworkingThread.__dict__.get('run') or threading.Thread.run

        # The networking thread class stays the library's own class (its name in the module is not rebound, so code such as
        # super(NetworkingThread, self) keeps working); four public methods of threading.Thread are overridden ON the class while
        # the simulation is installed and put back afterwards.
        def sim_start(self_):
            if net.start_hook is not None:
                net.threads.append(self_)
                self_.sim_state = 'pending'
                return net.start_hook(self_)
            net.pending.append(self_)
            net.threads.append(self_)
            self_.sim_state = 'pending'

        def sim_is_alive(self_):
            return getattr(self_, 'sim_state', None) in ('pending', 'running')

        def sim_join(self_, timeout=None):
            if net.join_hook is not None:
                try:
                    return net.join_hook(self_, timeout)
                except TypeError:
                    return net.join_hook(self_)
            if self_.is_alive():
                raise RuntimeError('join on a live thread in a synchronous simulation')

        def sim_run(self_):
            # loop occupancy is observed through the public surface only: a thread is in the I/O loop from its first
            # select() until run() returns
            net.io_threads[threading.get_ident()] = self_
            self_.sim_in_loop = False
            try:
                return orig_run(self_)
            finally:
                if self_.sim_in_loop:
                    net.loop_events.append(('exit', self_))
                    self_.sim_in_loop = False
                if net.io_threads.get(threading.get_ident()) is self_:
                    del net.io_threads[threading.get_ident()]
        self.thread_patch = (C_NetworkingThread, {k: C_NetworkingThread.__dict__.get(k) for k in ('start', 'is_alive', 'join', 'run')})
        C_NetworkingThread.start, C_NetworkingThread.is_alive, C_NetworkingThread.join, C_NetworkingThread.run = sim_start, sim_is_alive, sim_join, sim_run

        fake_timeit = types.SimpleNamespace(default_timer=self.tick)

        def fake_urandom(n):
            net.urandom_calls.append(n)
            if net.urandom_bytes is not None:
                k = len(net.urandom_calls) - 1
                b = net.urandom_bytes[k % len(net.urandom_bytes)] if isinstance(net.urandom_bytes, list) else net.urandom_bytes
                return bytes(b[:n]).ljust(n, b'\x00')
            return real_os.urandom(n)
        fake_os = types.SimpleNamespace(urandom=fake_urandom)
        # The library reaches the outside world through a handful of names.  They are replaced wherever the module holds them,
        # whichever import style it uses ("import socket" / "from socket import socket, getaddrinfo", ...), so that a change
        # of import style in the library is not an alarm.
        import select as real_select, timeit as real_timeit
        self.saved = []

        def swap(mod, name, value):
            self.saved.append((mod, name, getattr(mod, name)))
            setattr(mod, name, value)
        for mod in (C, E):
            for name, obj in list(vars(mod).items()):
                if obj is real_socket:
                    swap(mod, name, fake_socket)
                elif obj is real_socket.socket:
                    swap(mod, name, fake_socket.socket)
                elif obj is real_socket.getaddrinfo:
                    swap(mod, name, fake_socket.getaddrinfo)
                elif obj is real_select or isinstance(obj, FakeSelect):
                    swap(mod, name, FakeSel)
                elif obj is real_select.select or getattr(obj, '__self__', None).__class__ is FakeSelect:
                    swap(mod, name, FakeSel.select)
                elif obj is real_timeit:
                    swap(mod, name, fake_timeit)
                elif obj is real_timeit.default_timer:
                    swap(mod, name, fake_timeit.default_timer)
                elif obj is real_os and mod is E:
                    swap(mod, name, fake_os)
                elif obj is real_os.urandom:
                    swap(mod, name, fake_urandom)
        self.C = C
        self.current_connection = None
        return self

    def uninstall(self):
        if self.saved:
            for mod, name, value in reversed(self.saved):
                setattr(mod, name, value)
            self.saved = None
        if getattr(self, 'thread_patch', None):
            cls, orig = self.thread_patch
            for k, v in orig.items():
                if v is None:
                    if k in cls.__dict__:
                        delattr(cls, k)
                else:
                    setattr(cls, k, v)
            self.thread_patch = None
        if Net._installed is self:
            Net._installed = None

    def tick(self):
        self.clock += 0.0371
        return self.clock

    # ---- running
    def run_threads(self, connection, max_threads=20):
        """Run registered networking threads synchronously until none is pending.  Returns the list of
        (thread, outcome) with outcome 'exit' | 'end-of-script' | 'spin' | 'would-block' | ('raised', exc)."""
        self.current_connection = connection
        n = 0
        while self.pending and n < max_threads:
            t = self.pending.pop(0)
            n += 1
            t.sim_state = 'running'
            self.idle = 0
            try:
                t.run()
                out = 'exit'
            except EndOfScript:
                out = 'end-of-script'
            except Spin:
                out = 'spin'
            except WouldBlock:
                out = 'would-block'
            except Exception as e:
                out = ('raised', e)
            t.sim_state = 'done'
            self.thread_results.append((t, out))
        return self.thread_results
