"""Regenerates MANIFEST.json from the table below (kept valid at all times)."""
import json, os
V = os.path.dirname(os.path.dirname(os.path.abspath(__file__)))
ALL = ['C%02d' % i for i in range(1, 21)]
CLAIMED = {
 'C05': dict(
   text='Machine-checked proof (Coq): packet layouts are modelled as small programs (fields, control fields that select what follows, counted repetitions, a final trailing array); Packet.write_fields / Packet.read over ANY declared definition are proved to be the straight-line case. By induction over programs and over the type AST: for every layout and every assignment of wire-representable values, writing succeeds and reading the bytes followed by any further bytes returns exactly those values (angle / fixed point to their quantum) and consumes exactly the payload - this covers user-defined field lists (all definitions, all nestings of arrays) and the six classes with hand-written read / write_fields (MapPacket, PlayerListItemPacket with its five actions and optional fields, SpawnObjectPacket, CombatEventPacket, FacePlayerPacket, PluginResponsePacket), for every value of the version flags they consult. Finite part, evaluated by the kernel over the tables reified from the source on every run: every class registered in any of the 8 state/direction tables at any of the 250 supported versions has a well-formed definition (well-formed types are proved inhabited, so nothing is vacuous) or is one of the six modelled classes; selecting the decoder through the id table returns the writing class whenever ids are distinct (C06, same nine open findings). Tie to the code on every run: at all 250 supported versions x every registered class, real write_fields bytes = extracted model bytes, real read = model decode, exact consumption, re-encoding of the decoded packet, frame = length + registered id + fields, decoder-table lookup, repr() on every packet; the version flags of the hand-written classes are found by probing the real encoder (so a consistent move of a threshold is not an alarm, an inconsistent one is); plus randomly generated definitions turned into real Packet subclasses.',
   note='Trusted: Coq kernel (vm_compute for the finite part); reifier; extraction + driver; harness generators and the object<->value converters of the six hand-written classes. No axioms. PARTIAL: "its textual representation can always be produced" is only exercised (repr() on every generated and decoded packet), not proved; NBT fields are an abstract codec (bytes produced by pynbt, splitter validated); SoundEffectPacket.Pitch is generated from wire values. 9 id collisions on supported snapshots are open known findings shared with C06.',
   technique='Coq proof (induction over layout programs and the type AST) + reified definitions checked by kernel evaluation + extracted-model differential correspondence at every supported version',
   design='3/C05'),
 'C02': dict(
   text='Machine-checked proof (Coq) by induction on the type term, for every wire type of types/basic.py and every nesting of PrefixedArray: for every in-domain value the model encoder returns bytes (never an error, never out of fuel), decoding those bytes followed by ANY further bytes returns the value (exactly; for Angle the nearest 1/256 turn, proved within half a step modulo whole turns; for FixedPoint the truncation, proved within 2^-n) and exactly the remaining bytes; every strict prefix of an encoding of a self-delimiting type decodes to an error. Integers are proved to be the k big-endian base-256 digits of v mod 256^k with out-of-range values refused; Float/Double are proved, on Flocq binary32/binary64, to be the big-endian IEEE-754 bit pattern and to read back as the same datum; strings are VarInt(byte length) + UTF-8 with an executable RFC 3629 encoder/decoder proved inverse. The models mirror basic.py (repaired code: FixedPoint.send passes the socket, Angle wraps 256 to 0, String.read raises on truncation) and are tied to the source on every run by differential execution of the extracted model against the real Type.send/read: exhaustive 8/16-bit integers, booleans, all 256 angle bytes, boundary+random 32/64-bit integers, float bit patterns (zeros, subnormals, infinities, NaN), strings of every UTF-8 width around the 1/2/3-byte prefix boundaries, byte arrays, UUIDs, fixed point on six base/precision pairs, nested arrays, every strict prefix, a malformed stream, plus an arithmetic oracle independent of both.',
   note='Trusted: Coq kernel; extraction + driver; harness generators and the float<->bit-pattern bridge (float.hex/frexp, independent of struct); CPython struct/str.encode/uuid are library code mirrored by Gallina re-implementations and validated, not verified. Axioms: none except the two Float/Double theorems, which rest on Flocq/Reals: ClassicalDedekindReals.sig_not_dec, sig_forall_dec, FunctionalExtensionality.functional_extensionality_dep, Classical_Prop.classic. Angle.send/FixedPoint use binary64 arithmetic in impl and exact rationals in the model: inputs within 1e-9 of a rounding tie are excluded from the correspondence. NBT is outside the property (abstract splitter).',
   technique='Coq proof (structural induction on the type AST; Flocq for IEEE-754; lia for two\'s complement) + extracted-model differential correspondence',
   design='3/C02'),
 'C03': dict(
   text='Machine-checked proof (Coq) for all byte strings and all integers: VarInt/VarLong read never runs out of fuel, examines at most max_bytes+1 bytes, returns a non-negative number and the exact suffix, or EOF / too-long; send terminates for every integer (canonical LEB128 for n>=0, ValueError for n<0); canonical form unique; read(send n ++ rest) = (n, rest) on [0,128^(max_bytes+1)) which contains [0,2^32) / [0,2^64); size n = encoded length below 2^84. The model is a line-by-line image of the three Python functions and is tied to the source on every run by differential execution of the extracted model against VarInt/VarLong.read/send/size (exhaustive small domains, all continuation-bit shapes, truncations, boundaries, seeded random).',
   note='Trusted: Coq kernel; extraction (ExtrOcamlBasic) and driver.ml; the correspondence generators; CPython int/bytes/struct semantics. No axioms (all theorems closed under the global context). Negative sends are judged by a watchdog subprocess.',
   technique='Coq proof by induction (model of the loops vs inductive LEB128 spec) + extracted-model differential correspondence',
   design='3/C03'),
 'C08': dict(
   text='Machine-checked proof (Coq), universal over ALL version-record lists (hence all run-time extensions): the index map is injective, protocol_earlier is a strict total order on known numbers (irreflexive, transitive, trichotomous), earlier_eq/later/later_eq/in_range are consistent with it, every derived table is the order-preserving duplicate-free projection (first position, last value - OrderedDict semantics), re-initialising is idempotent in both modes, appended records never move an already-known protocol. On the records reified from the source on every run the kernel evaluates: model(initglobals)(records) = the seven tables observed in the module, and numeric order of all ordinary numbers. The hand model of initglobals and of the five predicates is tied to the code by differential runs: all pairs of the 369 known numbers (+unknown numbers -> KeyError), in_range over boundary (start,end) pairs x all versions, and generated extension histories (append/insert/remove/duplicate/legacy dict edits) in both initglobals modes comparing all seven tables.',
   note='Trusted: Coq kernel (vm_compute for the finite checks); the reifier (prints what the imported module holds); extraction + driver; harness transliteration of the release-id regex (Unicode \\d); CPython dict/list semantics. No axioms.',
   technique='Coq proof (induction over record lists; kernel evaluation over reified tables) + reifier + extracted-model differential correspondence',
   design='3/C08'),
 'C06': dict(
   text='Machine-checked finite proof: on every run the reifier evaluates get_packets and get_id of the working tree on all 369 known versions and emits them as Coq data; the kernel then evaluates (vm_compute, lifted by forallb_forall) that for all 250 supported versions x 8 state/direction tables every member class has a non-negative integer id and ids are pairwise distinct, except exactly the listed, still-reproducing known findings (each proved real by C06_refuted_known_findings). The consequence for decoding is universal: for every permutation of the member set (any set iteration order) the decoder table maps id(c) to c and nothing else (proved by induction via Permutation). The real reactors are additionally rebuilt under several hash seeds. 9 supported snapshot versions violate the property today and are recorded as open known findings.',
   note='Trusted: Coq kernel (vm_compute); the reifier (evaluates the table functions, determinism checked by double evaluation); harness. No axioms. Remaining 119 known-but-unsupported versions are reported in the evidence, not asserted.',
   technique='reifier (evaluation of the table functions on the full finite domain) + kernel-evaluated finite theorem + universal permutation lemma',
   design='3/C06'),
 'C04': dict(
   text='Machine-checked proof (Coq) for all integers: the model of Position.send_with_context (masks, shifts, ors on unbounded ints) equals the arithmetic 26/26/12 resp. 26/12/26 packing, fits 64 bits, and pos_unword(pos_word(x,y,z)) = (x,y,z) for every in-range triple under both layouts; likewise the 22/22/20 chunk-section position (including the `| ~0xFFFFF` sign extension) and both block-record formats. Which layout each of the 369 known versions uses is reified on every run by probing the real encoder and decoder, and the kernel evaluates the finite theorem: only the two layouts occur, x|y|z up to 404, x|z|y from 477 on, non-decreasing in between (a single switch-over). The packing models are tied to the code by differential runs at every known version (boundary products, single-bit words, random triples; records on both sides of 741).',
   note='Trusted: Coq kernel; reifier probe (3 triples distinguishing the layouts, encoder and decoder must agree); extraction + driver; struct.pack(">Q"). No axioms.',
   technique='Coq proof (bit operations reduced to div/mod, lia) + reified per-version layout decided by kernel evaluation + extracted-model differential correspondence',
   design='3/C04'),
 'C17': dict(
   text='Machine-checked proof (Coq) for every non-empty byte string d (hence every digest, whatever the hash): the model of minecraft_sha1_hash_digest (signed big-endian value, then format(n,"x")) yields a string that parses - as optional minus sign plus lower-case hex digits - to the two\'s-complement value of d, has at least one digit, no leading zero digit except the single "0", and no "-0": Java BigInteger(bytes).toString(16) semantics, including top bit set, leading zero nibbles and leading zero bytes. The digest input order (UTF-8 server id, secret, key) is part of the model; SHA-1 is an executable Gallina implementation and the three published vectors (Notch, jeb_, simon) are computed by the kernel. Tied to the code by differential runs of generate_verification_hash and minecraft_sha1_hash_digest against the extracted model and an independent Java-semantics oracle (published vectors, searched digest shapes, non-ASCII ids, random triples, arbitrary digests).',
   note='Trusted: Coq kernel; extraction + driver; hashlib.sha1 is validated against the Gallina SHA-1 on every case, not verified; int.from_bytes and format are CPython library code mirrored by the model. No axioms. Uniqueness of the canonical string for a value is stated informally (not yet a theorem).',
   technique='Coq proof (parse/format inverse, canonical form) + executable Gallina SHA-1 checked on published vectors by the kernel + extracted-model differential correspondence',
   design='3/C17'),
}
NOT_YET = 'check not built yet in this development (see DESIGN.md section 6 build order); not claimed'

def main():
    checks = []
    for pid in ALL:
        if pid in CLAIMED:
            c = CLAIMED[pid]
            checks.append({
                'property_id': pid,
                'quick_cmd': './check %s --tier quick' % pid,
                'thorough_cmd': './check %s --tier thorough' % pid,
                'evidence_file': 'evidence/%s.json' % pid,
                'replay_cmd_template': './check %s --replay {path}' % pid,
                'engine': 'coq+runner',
                'level_claimed': {'category': 'proof', 'text': c['text'], 'design_ref': 'DESIGN.md section ' + c['design']},
                'level_note': c['note'],
                'technique': c['technique'],
            })
    m = {
        'version': 1,
        'setup_cmd': './setup.sh',
        'hooks': {'guard': 'PYCRAFT_VERIF', 'enable': 'no source hooks are used: the harness replaces module attributes (socket, select, deque, NetworkingThread, os.urandom, auth URLs) from outside; PYCRAFT_VERIF is reserved and unused',
                  'baseline_off_cmd': 'cd /repo && /venv/bin/python -m pytest -ra -q -p no:cacheprovider --timeout=900 --continue-on-collection-errors',
                  'source_commits': [], 'add_only': True},
        'engines': [{'name': 'coq+runner', 'path': 'coq/ harness/', 'serves_properties': sorted(CLAIMED),
                     'kind_free_text': 'Coq 8.16 development (models, specs, proofs, property files) + OCaml runner extracted from the models + Python correspondence harness and reifier'}],
        'checks': checks,
        'notes': 'Fix commits in /repo (unguarded, "fix:"): see known_findings.json. Checks honour VERIF_SEED, VERIF_TIER, VERIF_REPO.',
        'not_applicable': [{'property_id': p, 'reason': NOT_YET} for p in ALL if p not in CLAIMED],
    }
    json.dump(m, open(os.path.join(V, 'MANIFEST.json'), 'w'), indent=1)

main()
