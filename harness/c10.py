"""C10 - login completes correctly for every order of optional server steps."""
import json, struct
import common, sim, proto
from common import run_model, exn_name

RULE = ('server login scripts over {encryption request?, set-compression(threshold in {0,1,64,256,2^31-1})?, plugin-request*, '
        'success | disconnect(msg)} in every order, protocol versions either side of 385, 391 and 707, online and offline server '
        'ids, with and without an auth token, whole-stream / per-frame / random-chunk arrival, through the simulated transport '
        'with the real reactors and cipher wrappers (os.urandom replaced by a recording fake, so the server side is encrypted by the '
        'Gallina AES-CFB8 beforehand). The observed interleaving of reads and writes is replayed on the extracted model; compared: '
        'every client frame (decrypted with the model cipher, opened with the RSA private key) with its compression and cipher '
        'state, session joins (hash, position relative to the response), final reactor, error kind and message / version. '
        'Second logins on a used Connection object (after a refused login, a lost stream or disconnect(); retried from the handler or afterwards) are compared byte for byte with the same login on a fresh object. Non-trivial = at least two optional steps; distinct by (version, script, arrival).')

_KEY = {}


def rsa_key():
    if 'k' not in _KEY:
        from cryptography.hazmat.primitives.asymmetric import rsa
        from cryptography.hazmat.primitives import serialization
        from cryptography.hazmat.backends import default_backend
        k = rsa.generate_private_key(public_exponent=65537, key_size=1024, backend=default_backend())
        pub = k.public_key().public_bytes(serialization.Encoding.DER, serialization.PublicFormat.SubjectPublicKeyInfo)
        pn = k.private_numbers()
        _KEY['k'] = (pub, pn.public_numbers.n, pn.d)
    return _KEY['k']


def rsa_open(ct):
    pub, n, d = rsa_key()
    kb = (n.bit_length() + 7) // 8
    em = pow(int.from_bytes(ct, 'big'), d, n).to_bytes(kb, 'big')
    if em[0:2] != b'\x00\x02':
        return None
    i = em.index(0, 2)
    return em[i + 1:] if i >= 10 else None


def gen_script(rng, pv):
    steps = []
    if rng.random() < 0.6:
        sid = rng.choice(['-', '', 'srv', 'sérvér'])
        steps.append(('enc', sid, bytes(rng.randrange(256) for _ in range(rng.choice([1, 4, 16])))))
    if rng.random() < 0.6:
        steps.append(('comp', rng.choice([0, 1, 64, 256, 2 ** 31 - 1])))
    if pv >= 385:
        for _ in range(rng.choice([0, 0, 1, 2, 4])):
            steps.append(('plugin', rng.choice([7, 7, 8, 0, rng.randrange(2 ** 31), 2 ** 31 - 1, 2 ** 31, 2 ** 32 - 1, rng.randrange(2 ** 31, 2 ** 32)]), rng.choice(['minecraft:brand', 'x:y']),          # (message ids may repeat: every request is answered)
                          rng.choice([b'EXACT', bytes(rng.randrange(256) for _ in range(rng.randrange(0, 20)))])))
    rng.shuffle(steps)
    if rng.random() < 0.7:
        steps.append(('success',))
        for _ in range(rng.choice([0, 1, 3])):
            steps.append(('ka', rng.randrange(2 ** 31)))
    else:
        ver = rng.choice(['1.8', '1.12.2', '21w07a', 'x'])
        text = rng.choice(['go away', 'Outdated client! Please use %s' % ver, "Outdated server! I'm still on %s" % ver, 'Outdated client! Please use %s\n' % ver,
                           'Outdated client! Please use 1.8 or later', 'Outdated client! Please use ', ' Outdated client! Please use 1.8', "Outdated server! I'm still on 1.8\n\n",
                           'Outdated client! Please use 1.8 x'])
        data = rng.choice([json.dumps({'text': text}), json.dumps({'text': text, 'color': 'red'}), text, json.dumps({'translate': 'x'}), json.dumps([text]), json.dumps(text)])
        steps.append(('disc', data))
    return steps


def extracted_msg(data):
    try:
        return json.loads(data)['text']
    except (ValueError, TypeError, KeyError):
        return data


def build_server(ids, steps):
    """plaintext frames and the index of the first encrypted byte"""
    pub = rsa_key()[0]
    thr, out, cut = None, [], None
    for st in steps:
        if st[0] == 'enc':
            out.append(proto.frame(ids.encryption_request, proto.string(st[1]) + proto.vbytes(pub) + proto.vbytes(st[2]), thr))
            cut = sum(len(x) for x in out)
        elif st[0] == 'comp':
            out.append(proto.frame(ids.set_compression, proto.varint(st[1]), thr))
            thr = st[1]
        elif st[0] == 'plugin':
            data = st[3]
            if data == b'EXACT':
                # a packet whose uncompressed size is exactly the threshold: a vanilla server sends it compressed
                base = len(proto.varint(ids.plugin_request) + proto.varint(st[1]) + proto.string(st[2]))
                data = bytes((i * 5 + 1) % 256 for i in range(max(0, (thr or 0) - base))) if (thr or 0) <= 4096 else b'exact'
            out.append(proto.frame(ids.plugin_request, proto.varint(st[1]) + proto.string(st[2]) + data, thr))
        elif st[0] == 'success':
            out.append(proto.frame(ids.login_success, ids.b_login_success(), thr))
        elif st[0] == 'ka':
            out.append(proto.frame(ids.keep_alive, ids.b_keep_alive(st[1]) if ids.keep_alive_long else proto.varint(st[1]), thr))
        elif st[0] == 'disc':
            out.append(proto.frame(ids.login_disconnect, proto.string(st[1]), thr))
    return out, cut


class Token(object):
    class profile(object):
        name = 'ProfileName'

    def __init__(self, log, net):
        self.log, self.net = log, net

    def join(self, server_id):
        self.log.append(('J', server_id))
        return True

    def __bool__(self):
        return True


def run(chk):
    common.standard_proof(chk, 'Properties/C10.v')
    from minecraft.networking import connection as Cmod, encryption
    from minecraft.networking.connection import Connection
    from minecraft.networking.packets import Packet
    from minecraft.exceptions import LoginDisconnect, VersionMismatch
    rng, th = chk.rng, chk.tier == 'thorough'
    versions = [47, 107, 210, 340, 384, 385, 390, 391, 404, 498, 578, 706, 707, 735, 754, 757]
    plan = []
    for _ in range(1500 if th else 260):
        pv = rng.choice(versions)
        plan.append((pv, gen_script(rng, pv), rng.random() < 0.5, rng.choice(['whole', 'frame', 'random']), bytes(rng.randrange(256) for _ in range(16))))
    # encrypt the server side beforehand with the model cipher
    built = []
    for pv, steps, tok, arrival, secret in plan:
        ids = proto.Ids(pv)
        frames, cut = build_server(ids, steps)
        built.append((ids, frames, cut))
    enc_jobs = [(i, plan[i][4], b''.join(built[i][1])[built[i][2]:]) for i in range(len(plan)) if built[i][2] is not None]
    cts = run_model([('mc_encrypt', [s, [p]]) for _i, s, p in enc_jobs])
    wire_of = {}
    for (i, _s, _p), c in zip(enc_jobs, cts):
        wire_of[i] = b''.join(built[i][1])[:built[i][2]] + bytes(c[0])
    runs, dec_jobs = [], []
    for i, (pv, steps, tok, arrival, secret) in enumerate(plan):
        ids, frames, cut = built[i]
        data = wire_of.get(i, b''.join(frames))
        if arrival == 'whole':
            chunks = [data]
        elif arrival == 'frame':
            chunks, o = [], 0
            for f in frames:
                chunks.append(data[o:o + len(f)])
                o += len(f)
        else:
            cuts = sorted(set(rng.randrange(1, len(data)) for _ in range(rng.randrange(1, 10)))) if len(data) > 1 else []
            chunks = [data[a:b] for a, b in zip([0] + cuts, cuts + [len(data)])]
        net = sim.Net([sim.Server(chunks, end='idle')], urandom=secret).install()
        ev = []
        try:
            token = Token(ev, net) if tok else None
            conn = Connection('localhost', 25565, username='user', auth_token=token, allowed_versions={pv})
            conn.register_packet_listener(lambda p: ev.append(('R', type(p).__name__, getattr(p, 'message_id', None))), Packet, early=True)
            # observe every socket-level send together with the connection's compression / cipher state
            orig_send = sim.SimSocket.send

            def send(self_, data, orig=orig_send):
                ev.append(('S', len(data), conn.options.compression_enabled, conn.options.compression_threshold,
                           isinstance(conn.socket, encryption.EncryptedSocketWrapper)))
                return orig(self_, data)
            sim.SimSocket.send = send
            try:
                conn.connect()
                res = net.run_threads(conn)
            finally:
                sim.SimSocket.send = orig_send
        finally:
            net.uninstall()
        srv = net.servers[0]
        runs.append((i, conn, ev, res, srv, net))
        # client bytes: plaintext up to and including the encryption response, ciphertext afterwards
        sends = srv.sends
        flags = [e for e in ev if e[0] == 'S']
        nplain = sum(1 for f in flags if not f[4])
        dec_jobs.append((secret, sends[nplain:]))
    dec = run_model([('mc_decrypt', [s, c]) for s, c in dec_jobs])
    reqs, metas = [], []
    for (i, conn, ev, res, srv, net), d in zip(runs, dec):
        pv, steps, tok, arrival, secret = plan[i]
        ids = built[i][0]
        flags = [e for e in ev if e[0] == 'S']
        nplain = sum(1 for f in flags if not f[4])
        plain_sends = srv.sends[:nplain] + [bytes(x) for x in d]
        # frames = pairs of sends (length prefix, payload)
        case = {'proto': pv, 'script': [list(map(lambda v: v.hex() if isinstance(v, bytes) else v, s)) for s in steps], 'token': tok, 'arrival': arrival, 'secret': secret.hex()}
        if len(plain_sends) % 2:
            chk.violation('login', 'login:%d:oddsends' % i, {'case': case}, 'a frame was not written as length prefix + payload')
            continue
        cframes = []
        import zlib
        ok = True
        for k in range(0, len(plain_sends), 2):
            ln, payload = plain_sends[k], plain_sends[k + 1]
            f = flags[k + 1]
            if proto.rd_varint(ln)[0] != len(payload):
                ok = False
                break
            comp = f[3] if f[2] else None
            if f[2]:
                dl, j = proto.rd_varint(payload, 0)
                payload = zlib.decompress(payload[j:]) if dl else payload[j:]
            pid, j = proto.rd_varint(payload, 0)
            cframes.append((pid, payload[j:], comp, f[4]))
        if not ok:
            chk.violation('login', 'login:%d:frame' % i, {'case': case}, 'a client frame has a wrong length prefix')
            continue
        # observed schedule: R events and frame writes, in order
        sched, seq, pending_forced = [], [], False
        fi = 0
        evs = []
        si = 0
        for e in ev:
            if e[0] == 'S':
                si += 1
                if si % 2 == 0:
                    evs.append(('W',))
            else:
                evs.append(e)
        frames_seen = 0
        obs_joins = []
        it = iter(steps)
        script_pk = []
        for st in steps:
            script_pk.append(st)
        ri = 0
        for e in evs:
            if e[0] == 'W':
                frames_seen += 1
                if frames_seen <= 2:
                    continue                      # handshake, login start: written by connect() before the thread runs
                if pending_forced:
                    pending_forced = False
                    continue
                if sched and sched[-1][0] == 1:
                    sched[-1][1] += 1
                else:
                    sched.append([1, 1])
            elif e[0] == 'J':
                obs_joins.append([e[1], frames_seen - 2])
            elif e[0] == 'R':
                st = steps[ri] if ri < len(steps) else None
                ri += 1
                if st is None:
                    sched.append([0, [8, 0]])
                elif st[0] == 'enc':
                    sched.append([0, [0, [ord(c) for c in st[1]], list(rsa_key()[0]), list(st[2])]])
                    pending_forced = True
                elif st[0] == 'comp':
                    sched.append([0, [1, st[1]]])
                elif st[0] == 'plugin':
                    sched.append([0, [2, st[1]]])
                elif st[0] == 'success':
                    sched.append([0, [3]])
                elif st[0] == 'disc':
                    sched.append([0, [4, [ord(c) for c in extracted_msg(st[1])]]])
                elif st[0] == 'ka':
                    sched.append([0, [5, st[1]]])
        f107 = ids.ctx.protocol_later_eq(107)
        reqs.append(('session_run', [secret, tok, f107, sched]))
        out0 = res[0][1]
        metas.append((i, case, cframes, obs_joins, conn, out0, ids, steps, ri))
    res = run_model(reqs)
    for (i, case, cframes, obs_joins, conn, out0, ids, steps, nrecv), r in zip(metas, res):
        pv, _steps, tok, arrival, secret = plan[i]
        play, comp, enc, queue, wire, joins, spawned, end, exits = r
        nopt = sum(1 for s in steps if s[0] in ('enc', 'comp', 'plugin'))
        chk.count('login', [pv, repr(steps)[:600], tok, arrival], nopt >= 2)
        chk.tally('ends:%s' % steps[-1][0] if steps[-1][0] != 'ka' else 'ends:success')
        chk.tally('enc:%s' % any(s[0] == 'enc' for s in steps))
        what = None
        # the serverbound login packets must be told apart by id
        sb_ids = [ids.sb_login_start, ids.sb_encryption_response] + ([ids.sb_plugin_response] if ids.sb_plugin_response is not None else [])
        if len(set(sb_ids)) != len(sb_ids):
            what = 'serverbound login packet ids are not distinct at protocol %d: %s' % (pv, sb_ids)
        # prefix: handshake and login start naming the user or the profile
        if what is None and [f[0] for f in cframes[:2]] != [ids.sb_handshake, ids.sb_login_start]:
            what = 'the connection does not start with handshake + login start'
        elif what is None and cframes[1][1] != proto.string('ProfileName' if tok else 'user'):
            what = 'login start names %r' % cframes[1][1]
        # the frames after that against the model's wire
        got = cframes[2:]
        if what is None and len(got) != len(wire):
            what = '%d client frames after login start, the model writes %d (model queue left: %d)' % (len(got), len(wire), len(queue))
        if what is None:
            for k, ((pid, body, fcomp, fenc), w) in enumerate(zip(got, wire)):
                o, wcomp, wenc = w
                wcomp = wcomp[0] if wcomp else None
                wenc = bool(wenc)
                if (fcomp, fenc) != (wcomp, wenc):
                    what = 'frame %d written with compression %s, cipher %s; everything after the server\'s announcement must use threshold %s, cipher %s' % (k, fcomp, fenc, wcomp, wenc)
                    break
                if o[0] == 0:
                    if pid != ids.sb_encryption_response:
                        what = 'frame %d is not the encryption response' % k
                        break
                    a, j = proto.rd_varint(body, 0)
                    es = body[j:j + a]
                    b, j2 = proto.rd_varint(body, j + a)
                    et = body[j2:j2 + b]
                    if rsa_open(es) != bytes(o[1]) or rsa_open(et) != bytes(o[2]) or j2 + b != len(body):
                        what = 'the encryption response does not carry the shared secret and the verify token encrypted to the server key'
                        break
                elif o[0] == 1:
                    if pid != ids.sb_plugin_response or body != proto.varint(o[1]) + b'\x00':
                        what = 'frame %d is not an unsuccessful plugin response to request %d' % (k, o[1])
                        break
                elif o[0] == 2:
                    exp = struct.pack('>q', o[1]) if ids.keep_alive_long else proto.varint(o[1])
                    if pid != ids.sb_keep_alive or body != exp:
                        what = 'frame %d is not the keep-alive answer %d' % (k, o[1])
                        break
        if what is None:
            ej = [[''.join(map(chr, h)), n] for h, n in joins]
            if obs_joins != ej:
                what = 'session joins %s; expected %s (hash of server id, secret, key; before the response is written)' % (obs_joins, ej)
        if what is None:
            from minecraft.networking.connection import PlayingReactor, LoginReactor
            if play != isinstance(conn.reactor, PlayingReactor):
                what = 'reactor after the script is %s' % type(conn.reactor).__name__
            elif end:
                kind = end[0][0]
                if not isinstance(out0, tuple):
                    what = 'the server refused the login but the thread ended with %r (no error surfaced)' % (out0,)
                elif kind == 1 and not (type(out0[1]) is LoginDisconnect and ''.join(map(chr, end[0][1])) in str(out0[1])):
                    what = 'expected LoginDisconnect carrying %r, got %s: %s' % (''.join(map(chr, end[0][1])), exn_name(out0[1]), str(out0[1])[:80])
                elif kind == 2 and not (isinstance(out0[1], VersionMismatch) and out0[1].server_version == ''.join(map(chr, end[0][1]))):
                    what = 'expected VersionMismatch for version %r, got %s (%s)' % (''.join(map(chr, end[0][1])), exn_name(out0[1]), getattr(out0[1], 'server_version', None))
            elif isinstance(out0, tuple):
                what = 'the thread raised %s: %s' % (exn_name(out0[1]), str(out0[1])[:100])
        if what:
            chk.violation('login', 'login:%d:%s' % (pv, hash(repr(steps)) % 10 ** 8), {'case': case, 'observed': what}, 'protocol %d, script %s: %s' % (pv, [s[0] for s in steps], what))
    # the two 'outdated' patterns on their own
    msgs = ['Outdated client! Please use 1.8', "Outdated server! I'm still on 1.12.2", 'Outdated client! Please use 1.8\n', 'Outdated client! Please use 1.8 x', 'Outdated client! Please use ',
            'outdated client! Please use 1.8', 'Outdated client! Please use 1.8\t', 'Outdated client! Please use 1.8\n\n', "Outdated server! I'm still on 　", 'Outdated client! Please use é中',
            "Outdated server! I'm still on 1.8\x1c", 'Outdated client! Please use 1.8\x85']
    import re
    res = run_model([('outdated_ver', [[ord(c) for c in m]]) for m in msgs])
    for m, r in zip(msgs, res):
        mt = re.match(r"Outdated (client! Please use|server! I'm still on) (?P<ver>\S+)$", m)
        chk.count('pattern', m, True)
        got = ''.join(map(chr, r[0])) if r else None
        if got != (mt.group('ver') if mt else None):
            chk.broken('model-pattern', 'the model of the two outdated patterns disagrees with re.match on %r: %r vs %r' % (m, got, mt.group('ver') if mt else None))
    relogin(chk)
    takeover(chk)
    login_write_fault(chk)
    chk.assumptions += ['RSA and the session service are oracles: the harness opens the response with the private key; join() is a recording stub',
                        'json.loads is library code: the model starts from the extracted message', 'os.urandom is replaced by a recording fake so that the server side can be encrypted beforehand']


def relogin(chk):
    """A login on a Connection object that has been through an earlier session (ended by a login disconnect, by end of stream,
    or by disconnect()) behaves exactly like the same login on a fresh object: nothing of the earlier session's compression,
    cipher or reactor state survives.  (The fresh-object behaviour is what the main suite compares with the model.)"""
    from minecraft.networking.connection import Connection
    rng, th = chk.rng, chk.tier == 'thorough'
    versions = [340, 384, 385, 390, 391, 404, 706, 707, 757]

    def chunks_of(frames, arrival):
        data = b''.join(frames)
        if arrival == 'whole' or len(data) < 2:
            return [data]
        if arrival == 'frame':
            return list(frames)
        cuts = sorted(set(rng.randrange(1, len(data)) for _ in range(rng.randrange(1, 8))))
        return [data[a:b] for a, b in zip([0] + cuts, cuts + [len(data)])]

    def observe(net, conn, k):
        srv = net.servers[k]
        return {'client_bytes': b''.join(srv.sends).hex(), 'reactor': type(conn.reactor).__name__ if getattr(conn, 'reactor', None) else None,
                'compression': [conn.options.compression_enabled, conn.options.compression_threshold]}
    for n in range(250 if th else 50):
        pv = rng.choice(versions)
        ids = proto.Ids(pv)
        s1 = [st for st in gen_script(rng, pv) if st[0] != 'enc']
        if n % 2 == 0:          # the sharpest shape: compression announced, then the login is refused
            s1 = [('comp', rng.choice([0, 1, 64, 256]))] + [st for st in s1 if st[0] == 'plugin'] + [('disc', json.dumps({'text': 'Server is restarting'}))]
        s2 = [st for st in gen_script(rng, pv) if st[0] not in ('enc', 'disc')]
        if not any(st[0] == 'success' for st in s2):
            s2.append(('success',))
        how = rng.choice(['handler', 'after-end', 'disconnect-first'])
        arrival = rng.choice(['whole', 'frame', 'random'])
        f1, _c = build_server(ids, s1)
        f2, _c = build_server(ids, s2)
        ch1, ch2 = chunks_of(f1, arrival), chunks_of(f2, arrival)
        ends_in_play = any(st[0] == 'success' for st in s1)
        case = {'proto': pv, 'first_session': [list(map(str, st)) for st in s1], 'second_session': [list(map(str, st)) for st in s2], 'second_connect': how, 'arrival': arrival}
        chk.count('relogin', [pv, repr(s1), repr(s2), how, arrival], True)
        chk.tally('relogin:%s' % how)
        # -- the reused object
        net = sim.Net([sim.Server(ch1, end='eof' if ends_in_play else 'idle'), sim.Server(ch2, end='idle'), sim.Server([], end='idle')]).install()
        errs, state = [], {'retried': False}
        try:
            def on_exc(e, info):
                errs.append(exn_name(e))
                if how == 'handler' and not state['retried']:
                    state['retried'] = True
                    conn.connect()
            conn = Connection('localhost', 25565, username='user', allowed_versions={pv}, handle_exception=on_exc)
            conn.connect()
            net.run_threads(conn)
            if how != 'handler' or not state['retried']:
                if how == 'disconnect-first':
                    conn.disconnect()
                try:
                    conn.connect()
                except Exception as e:
                    errs.append('connect:' + exn_name(e))
                net.run_threads(conn)
            reused = observe(net, conn, 1)
        except Exception as e:
            reused = {'error': exn_name(e)}
        finally:
            net.uninstall()
        # -- a fresh object, same second session
        net = sim.Net([sim.Server(ch2, end='idle'), sim.Server([], end='idle')]).install()
        try:
            c2 = Connection('localhost', 25565, username='user', allowed_versions={pv}, handle_exception=lambda e, i: None)
            c2.connect()
            net.run_threads(c2)
            fresh = observe(net, c2, 0)
        except Exception as e:
            fresh = {'error': exn_name(e)}
        finally:
            net.uninstall()
        chk.tally('relogin:second-login-%s' % ('made' if fresh.get('client_bytes') and reused.get('reactor') == fresh.get('reactor') else 'differs-or-empty'))
        if reused != fresh:
            k = next((k for k in fresh if reused.get(k) != fresh[k]), 'error')
            chk.violation('relogin', 'relogin:%d:%s:%s' % (pv, how, hash(repr(case)) % 10 ** 6), {'case': case, 'expected': fresh, 'observed': reused, 'errors_seen': errs},
                          'protocol %d: second login on a Connection whose first session %s (second connect: %s): %s is %s; on a fresh object %s' % (
                              pv, 'reached play and lost the stream' if ends_in_play else 'was refused by the server', how, k, str(reused.get(k))[:80], str(fresh.get(k))[:80]))
    chk.sample('relogin', {'first': 'set compression, login disconnect', 'second_connect': 'handler', 'compared': 'client bytes, reactor, compression state'}, k=1)


def login_write_fault(chk):
    """The server refuses the login and closes without waiting for the answer to its plugin request: the answer's write fails,
    and the disconnect packet is read afterwards.  The refusal must still surface as the login-failure error carrying the
    server's message (or the version-mismatch error for the 'outdated' messages) - never as the socket error, never silently."""
    from minecraft.networking.connection import Connection
    from minecraft.exceptions import LoginDisconnect, VersionMismatch
    import errno
    rng = chk.rng
    faults = [BrokenPipeError(errno.EPIPE, 'Broken pipe'), ConnectionResetError(errno.ECONNRESET, 'reset'), ConnectionAbortedError(errno.ECONNABORTED, 'aborted'), OSError(errno.EHOSTUNREACH, 'unreachable')]
    msgs = [('go away', None), ('Outdated client! Please use 1.12.2', '1.12.2'), ("Outdated server! I'm still on 1.8", '1.8')]
    for pv in (385, 391, 578, 707, 757):
        ids = proto.Ids(pv)
        for fault in faults:
            for thr in (None, 64):
                text, ver = rng.choice(msgs)
                pre = [proto.frame(ids.set_compression, proto.varint(thr))] if thr is not None else []
                first = b''.join(pre) + proto.frame(ids.plugin_request, proto.varint(7) + proto.string('x:y') + b'data', thr)
                second = proto.frame(ids.login_disconnect, proto.string(json.dumps({'text': text})), thr)
                net = sim.Net([sim.Server([first], end='idle')]).install()
                excs, nsend = [], [0]
                orig_send = sim.SimSocket.send

                def send(self_, data, orig=orig_send):
                    nsend[0] += 1
                    if nsend[0] > 4:                  # handshake and login start went through; the peer is gone afterwards
                        if nsend[0] == 5:
                            net.servers[0].chunks.append(second)
                        raise fault
                    return orig(self_, data)
                sim.SimSocket.send = send
                try:
                    conn = Connection('localhost', 25565, username='user', allowed_versions={pv}, handle_exception=lambda e, i: excs.append(e))
                    conn.connect()
                    net.run_threads(conn)
                finally:
                    sim.SimSocket.send = orig_send
                    net.uninstall()
                case = {'proto': pv, 'threshold': thr, 'write_error': type(fault).__name__, 'message': text}
                chk.count('login-write-fault', case, True)
                e = excs[-1] if excs else None
                # the model's turn of the loop: the write error is held back, reacting to the disconnect packet raises (code 500)
                m = run_model([('loop_turn', [[[fault.errno, True]], [[True, [500], True]]])])[0]
                if m != [2, 500]:
                    chk.broken('model-loop-turn', 'Model/LoopErr.turn gives %r for a held write error followed by a refusing disconnect packet' % (m,))
                if ver is None:
                    ok = isinstance(e, LoginDisconnect) and not isinstance(e, VersionMismatch) and text in str(e)
                else:
                    ok = isinstance(e, VersionMismatch) and getattr(e, 'server_version', None) == ver
                if not ok:
                    chk.violation('login-write-fault', 'login-write-fault:%d:%s:%s' % (pv, type(fault).__name__, ver), {'case': case, 'observed': [exn_name(x) + ': ' + str(x)[:80] for x in excs]},
                                  'protocol %d: the server refused the login (%r) and closed; the pending plugin answer failed with %s; reported: %s - expected %s' % (
                                      pv, text, type(fault).__name__, [exn_name(x) for x in excs] or 'nothing', 'VersionMismatch for ' + ver if ver else 'LoginDisconnect carrying the message'))


def takeover(chk):
    """plugin requests: each is answered exactly once - unsuccessfully by the library, or by the user's early listener when that
    listener answers and raises IgnorePacket (then the library stays silent) - in request order"""
    from minecraft.networking.connection import Connection
    from minecraft.networking.packets import clientbound as cb, serverbound as sb
    from minecraft.exceptions import IgnorePacket
    rng, th = chk.rng, chk.tier == 'thorough'
    for n in range(120 if th else 30):
        pv = rng.choice([385, 390, 391, 404, 578, 706, 707, 757])
        ids = proto.Ids(pv)
        reqs = [(rng.randrange(2 ** 31), rng.choice(['minecraft:brand', 'x:y']), bytes(rng.randrange(256) for _ in range(rng.randrange(0, 12)))) for _ in range(rng.randrange(1, 6))]
        take = {mid: rng.random() < 0.5 for mid, _c, _d in reqs}
        implied = {mid: rng.random() < 0.5 for mid, _c, _d in reqs}
        answer_of = {mid: rng.choice([b'', b'', b'ok:' + bytes([mid % 256])]) for mid, _c, _d in reqs}
        thr = rng.choice([None, None, 0, 64])
        steps = ([('comp', thr)] if thr is not None else []) + [('plugin',) + r for r in reqs] + [('success',)]
        frames, _cut = build_server(ids, steps)
        data = b''.join(frames)
        arrival = rng.choice(['whole', 'frame'])
        net = sim.Net([sim.Server([data] if arrival == 'whole' else list(frames), end='idle')]).install()
        try:
            conn = Connection('localhost', 25565, username='user', allowed_versions={pv})

            def mine(p):
                if take.get(p.message_id):
                    ans = answer_of[p.message_id]
                    if implied[p.message_id]:
                        conn.write_packet(sb.login.PluginResponsePacket(message_id=p.message_id, data=ans))       # success implied by the presence of data
                    else:
                        conn.write_packet(sb.login.PluginResponsePacket(message_id=p.message_id, successful=True, data=ans))
                    raise IgnorePacket()
            conn.register_packet_listener(mine, cb.login.PluginRequestPacket, early=True)
            conn.connect()
            net.run_threads(conn)
            reactor = type(conn.reactor).__name__
        finally:
            net.uninstall()
        case = {'proto': pv, 'requests': [[m, c, d.hex()] for m, c, d in reqs], 'taken_over': [m for m in take if take[m]], 'threshold': thr, 'arrival': arrival}
        chk.count('takeover', [pv, repr(reqs), repr(take), thr, arrival], len(reqs) >= 2)
        try:
            fr = proto.parse_frames(b''.join(net.servers[0].sends), thr_at=2 if thr is not None else None)
            got = []
            for pid, body in fr[2:]:
                if pid == ids.sb_plugin_response:
                    mid, j = proto.rd_varint(body, 0)
                    got.append([mid, bool(body[j]), bytes(body[j + 1:])])
            exp = [[m, True, answer_of[m]] if take[m] else [m, False, b''] for m, _c, _d in reqs]
            what = None if got == exp else 'plugin responses on the wire %s; expected %s' % ([[g[0], g[1], g[2].hex()] for g in got], [[g[0], g[1], g[2].hex()] for g in exp])
            if what is None and reactor != 'PlayingReactor':
                what = 'the login did not reach the play state (%s)' % reactor
        except Exception as e:
            what = 'client bytes do not parse: %s' % exn_name(e)
        if what:
            chk.violation('takeover', 'takeover:%d:%d' % (pv, hash(repr(case)) % 10 ** 6), {'case': case, 'observed': what}, 'protocol %d, plugin requests with a user listener taking some over: %s' % (pv, what))


def replay(chk, rp):
    run(chk)
