import sys, os, argparse, importlib, traceback, json
sys.path.insert(0, os.path.dirname(os.path.abspath(__file__)))
import common


def main():
    ap = argparse.ArgumentParser()
    ap.add_argument('pid')
    ap.add_argument('--tier', default=os.environ.get('VERIF_TIER', 'quick'), choices=['quick', 'thorough'])
    ap.add_argument('--seed', type=int, default=int(os.environ.get('VERIF_SEED', '0') or 0))
    ap.add_argument('--replay', default=None)
    a = ap.parse_args()
    common.setup_env()
    chk = common.Check(a.pid, a.tier, a.seed)
    mod = importlib.import_module(a.pid.lower())
    rule = getattr(mod, 'RULE', '')
    try:
        if a.replay:
            rp = json.load(open(a.replay))
            mod.replay(chk, rp)
        else:
            mod.run(chk)
    except BaseException as e:  # fail closed
        if isinstance(e, (KeyboardInterrupt, SystemExit)):
            raise
        chk.broken('harness:' + type(e).__name__, traceback.format_exc())
    rc = chk.finish(rule)
    sys.stdout.flush()
    os._exit(rc)


main()
