import sys, os, argparse, importlib, traceback, json, subprocess
sys.path.insert(0, os.path.dirname(os.path.abspath(__file__)))
import common


# number of extra-seed worker processes of the thorough tier, per property (0 = the workload does not depend on the seed
# enough to be worth it, or is already large)
FANOUT = {'C01': 6, 'C02': 4, 'C04': 4, 'C05': 6, 'C07': 6, 'C09': 10, 'C10': 10, 'C11': 10, 'C12': 10, 'C13': 10, 'C14': 10, 'C15': 4, 'C16': 10,
          'C17': 4, 'C18': 8, 'C19': 10, 'C20': 10}


WORKER_BUDGET_S = float(os.environ.get('VERIF_WORKER_BUDGET', '150'))


def main():
    ap = argparse.ArgumentParser()
    ap.add_argument('pid')
    ap.add_argument('--tier', default=os.environ.get('VERIF_TIER', 'quick'), choices=['quick', 'thorough'])
    ap.add_argument('--seed', type=int, default=int(os.environ.get('VERIF_SEED', '0') or 0))
    ap.add_argument('--replay', default=None)
    a = ap.parse_args()
    if a.replay and '--seed' not in sys.argv:
        try:
            rp0 = json.load(open(a.replay))
            a.seed = int(rp0.get('seed', a.seed))
            if '--tier' not in sys.argv and rp0.get('tier') in ('quick', 'thorough'):
                a.tier = rp0['tier']
        except Exception:
            pass
    common.setup_env()
    chk = common.Check(a.pid, a.tier, a.seed)
    # watchdog: a check that does not finish is reported as such (fail closed) instead of hanging its caller
    import signal

    class Watchdog(BaseException):
        pass

    def on_alarm(signum, frame):
        raise Watchdog('the check did not finish within its time limit; last frame: %s:%d' % (frame.f_code.co_filename, frame.f_lineno))
    signal.signal(signal.SIGALRM, on_alarm)
    signal.alarm(int(os.environ.get('VERIF_WATCHDOG', '1500' if a.tier == 'quick' else '14000')))
    mod = importlib.import_module(a.pid.lower())
    rule = getattr(mod, 'RULE', '')
    # thorough tier: the same correspondence streams under further seeds in parallel worker processes (no proofs there)
    procs = []
    nw = FANOUT.get(a.pid, 0) if (a.tier == 'thorough' and not a.replay and not common.CHILD and not os.environ.get('VERIF_NO_FANOUT')) else 0
    for i in range(nw):
        env = dict(os.environ, VERIF_CHILD=str(i + 1), VERIF_NO_COQCHK='1')
        wf = os.path.join(common.EVIDENCE, 'workers', '%s-%d.json' % (a.pid, i + 1))
        if os.path.exists(wf):
            os.remove(wf)
        procs.append((wf, subprocess.Popen([sys.executable, '-B', os.path.abspath(__file__), a.pid, '--tier', 'thorough', '--seed', str(a.seed * 1000 + 101 + i)],
                                           env=env, stdout=subprocess.DEVNULL, stderr=subprocess.PIPE)))
    try:
        if a.replay:
            rp = json.load(open(a.replay))
            mod.replay(chk, rp)
        elif common.CHILD:
            # an extra-seed worker: successive seeds until the time budget is used
            import time
            t0, s0, k = time.time(), a.seed, 0
            chk.first_seed = s0
            while True:
                chk.reseed(s0 + 20 * k)
                mod.run(chk)
                k += 1
                if chk.violations or time.time() - t0 > WORKER_BUDGET_S:
                    break
            chk.seeds_run = k
        else:
            mod.run(chk)
    except BaseException as e:  # fail closed
        if isinstance(e, (KeyboardInterrupt, SystemExit)):
            raise
        if not isinstance(e, common.StopCheck):
            chk.broken('harness:' + type(e).__name__, traceback.format_exc())
    signal.alarm(0)
    chk.workers = []
    for wf, pr in procs:
        try:
            _o, err = pr.communicate(timeout=7200)
        except subprocess.TimeoutExpired:
            pr.kill()
            err = b'worker timed out'
        if os.path.exists(wf):
            chk.workers.append(json.load(open(wf)))
            os.remove(wf)
        else:
            chk.broken('worker', 'an extra-seed worker ended without a result: ' + err.decode(errors='replace')[-1500:])
    rc = chk.finish(rule)
    sys.stdout.flush()
    os._exit(rc)


main()
