"""Server side of the simulated conversations: an encoder / frame parser that shares no code with
pyCraft's codecs (packet ids are looked up through the class tables, which C06/C07 check)."""
import struct, zlib, json, uuid as _uuid


def varint(n):
    assert n >= 0
    out = bytearray()
    while True:
        b = n & 0x7f
        n >>= 7
        out.append(b | (0x80 if n else 0))
        if not n:
            return bytes(out)


def rd_varint(data, i=0):
    n, sh = 0, 0
    while True:
        if i >= len(data):
            raise EOFError
        b = data[i]
        i += 1
        n |= (b & 0x7f) << sh
        sh += 7
        if not b & 0x80:
            return n, i


def string(s):
    b = s.encode('utf-8')
    return varint(len(b)) + b


def vbytes(b):
    return varint(len(b)) + bytes(b)


def frame(pid, body=b'', thr=None, force_compress=None):
    """one frame; thr None = compression not enabled"""
    payload = varint(pid) + body
    if thr is not None:
        comp = (len(payload) >= thr and thr >= 0) if force_compress is None else force_compress
        payload = (varint(len(payload)) + zlib.compress(payload)) if comp else (b'\x00' + payload)
    return varint(len(payload)) + payload


def parse_frames(data, thr_at=None):
    """client bytes -> [(id, body)]; thr_at: index of the first frame written with compression enabled (None = never)"""
    out, i, k = [], 0, 0
    while i < len(data):
        ln, i = rd_varint(data, i)
        fr = data[i:i + ln]
        if len(fr) < ln:
            raise EOFError('truncated client frame')
        i += ln
        if thr_at is not None and k >= thr_at:
            dl, j = rd_varint(fr, 0)
            fr = zlib.decompress(fr[j:]) if dl else fr[j:]
            if dl and len(fr) != dl:
                raise ValueError('data length mismatch in client frame')
        pid, j = rd_varint(fr, 0)
        out.append((pid, fr[j:]))
        k += 1
    return out


class Ids(object):
    """packet ids at one protocol version, looked up through pyCraft's tables"""

    def __init__(self, pv):
        from minecraft.networking.connection import ConnectionContext
        from minecraft.networking.packets import clientbound as cb, serverbound as sb
        self.pv = pv
        self.ctx = c = ConnectionContext(protocol_version=pv)
        g = lambda cls: cls.get_id(c)
        self.status_response = g(cb.status.ResponsePacket)
        self.pong = g(cb.status.PingResponsePacket)
        self.login_disconnect = g(cb.login.DisconnectPacket)
        self.encryption_request = g(cb.login.EncryptionRequestPacket)
        self.login_success = g(cb.login.LoginSuccessPacket)
        self.set_compression = g(cb.login.SetCompressionPacket)
        self.plugin_request = g(cb.login.PluginRequestPacket) if cb.login.PluginRequestPacket in cb.login.get_packets(c) else None
        self.keep_alive = g(cb.play.KeepAlivePacket)
        self.play_disconnect = g(cb.play.DisconnectPacket)
        self.position_look = g(cb.play.PlayerPositionAndLookPacket)
        self.chat = g(cb.play.ChatMessagePacket)
        self.sb_handshake = g(sb.handshake.HandShakePacket)
        self.sb_request = g(sb.status.RequestPacket)
        self.sb_ping = g(sb.status.PingPacket)
        self.sb_login_start = g(sb.login.LoginStartPacket)
        self.sb_encryption_response = g(sb.login.EncryptionResponsePacket)
        self.sb_plugin_response = g(sb.login.PluginResponsePacket) if sb.login.PluginResponsePacket in sb.login.get_packets(c) else None
        self.sb_keep_alive = g(sb.play.KeepAlivePacket)
        self.sb_teleport_confirm = g(sb.play.TeleportConfirmPacket) if sb.play.TeleportConfirmPacket in sb.play.get_packets(c) else None
        self.sb_position_look = g(sb.play.PositionAndLookPacket)
        self.keep_alive_long = c.protocol_later_eq(339)
        self.login_uuid_binary = c.protocol_later_eq(707)
        self.known_play = set(k.get_id(c) for k in cb.play.get_packets(c))

    # ---- clientbound bodies
    def b_login_success(self, name='user', u='12345678-1234-5678-1234-567812345678'):
        return (_uuid.UUID(u).bytes if self.login_uuid_binary else string(u)) + string(name)

    def b_keep_alive(self, kid):
        return struct.pack('>q', kid) if self.keep_alive_long else varint(kid)

    def b_chat(self, text, position=0):
        return string(text) + bytes([position]) + (bytes(16) if self.ctx.protocol_later_eq(718) else b'')

    def b_position_look(self, x, y, z, yaw, pitch, flags, tid):
        b = struct.pack('>dddffB', x, y, z, yaw, pitch, flags)
        if self.ctx.protocol_later_eq(107):
            b += varint(tid)
        if self.ctx.protocol_later_eq(755):
            b += b'\x00'
        return b

    def unknown_id(self, rng):
        while True:
            i = rng.choice([0x7e, 0x7f, 0x80, 0xff, 0x100, 0x3fff, rng.randrange(0x70, 0x4000)])
            if i not in self.known_play:
                return i
