"""C02 - primitive wire types encode and decode exactly as the protocol prescribes."""
import math, struct, uuid
from fractions import Fraction
import common, codec, reent
from codec import Buf
from common import run_model, res_decode, exn_name

RULE = ('per wire type: values -> real Type.send vs extracted model enc (byte-exact) and an arithmetic oracle; bytes (+ trailing data) -> '
        'real Type.read vs model dec (value, exact consumption); every strict prefix of every generated encoding must raise; a '
        'malformed stream for decoders. Exhaustive for 8/16-bit integers, booleans, all 256 angle bytes; boundary + seeded random '
        'for wider integers, floats (bit patterns incl. zeros, subnormals, infinities), strings of every UTF-8 width and lengths '
        'around the 1/2/3-byte prefix boundaries, byte arrays, UUIDs, fixed point, nested arrays; all type objects of the run are constructed before any is used. Non-trivial = value other than '
        'the type\'s zero; distinct by (type, value).')

CC = [True, True, True]


def ints(bits, signed, rng, thorough):
    lo, hi = (-(1 << (bits - 1)), 1 << (bits - 1)) if signed else (0, 1 << bits)
    if bits <= 16:
        vals = list(range(lo, hi)) if (bits <= 8 or thorough) else list(range(lo, hi, 7)) + [lo, hi - 1, -1 if signed else 1, 0, 255, 256, 127, 128]
    else:
        vals = [lo, lo + 1, -1 if signed else 1, 0, 1, 2, 255, 256, 65535, 65536, hi - 2, hi - 1, (1 << 31) - 1 if bits > 32 else 77, hi // 2]
        vals += [rng.randrange(lo, hi) for _ in range(2000 if thorough else 200)]
    out = [lo - 1, hi, hi + 5, lo - 1000]            # out of domain: must raise on both sides
    return [v for v in vals if lo <= v < hi], out


def floats(ebits, mbits, rng, thorough):
    total = 1 + ebits + mbits
    pats = [0, 1 << (total - 1), 1, (1 << mbits) - 1, 1 << mbits, ((1 << ebits) - 1) << mbits, (((1 << ebits) - 1) << mbits) | 1 << (total - 1),
            ((1 << ebits) - 2) << mbits | ((1 << mbits) - 1), ((1 << (ebits - 1)) - 1) << mbits, 0x3f800000 if total == 32 else 0x3ff0000000000000]
    pats += [rng.getrandbits(total) for _ in range(3000 if thorough else 300)]
    pats = [p for p in pats if not (((p >> mbits) & ((1 << ebits) - 1)) == (1 << ebits) - 1 and p & ((1 << mbits) - 1))]   # no NaN payloads
    pats.append(((1 << ebits) - 1) << mbits | 1 << (mbits - 1))       # the default quiet NaN
    return [codec.bits_float(p, ebits, mbits) for p in pats]


def strings(rng, thorough):
    alph = [0x41, 0x7f, 0x80, 0xe9, 0x7ff, 0x800, 0x20ac, 0xd7ff, 0xe000, 0xffff, 0x10000, 0x1f600, 0x10ffff, 0x0, 0x0a]
    out = ['', 'a', '\x00', 'he', 'héllo', '€', '😀', ''.join(map(chr, alph)), '\ufeff', '\ufeffabc', 'abc\ufeff', '\ufffe', ' padded ', '\u200b', 'a\r\n', '\u0301e']
    for n in (126, 127, 128, 129, 16382, 16383, 16384, 16385):
        out.append('x' * n)
        out.append('é' * (n // 2) + 'y' * (n % 2))
    # within the protocol's limit of 32767 characters, but more than 32767 / 65535 UTF-8 bytes
    out += ['x' * 32767, '\u00e9' * 16384, '\u4e2d' * 10923, '\U0001f600' * 8192, '\u00e9' * 32767, '\u4e2d' * 32767, '\U0001f600' * 16384]
    if thorough:
        out.append('z' * 2097151)
        out.append('z' * 2097152)
    for _ in range(400 if thorough else 60):
        out.append(''.join(chr(rng.choice(alph + [rng.randrange(0x20, 0x7f), rng.randrange(0x80, 0x800), rng.randrange(0x800, 0xd800), rng.randrange(0x10000, 0x110000)])) for _ in range(rng.randrange(1, 40))))
    bad = ['\ud800', 'a\udfffb']             # lone surrogates cannot be encoded
    return out, bad


def byte_arrays(rng, thorough, maxlen):
    out = [b'', b'\x00', b'\xff' * 3, bytes(range(256))]
    for n in (126, 127, 128, 129, 255, 256, 16383, 16384, 32767):
        if n <= maxlen:
            out.append(bytes((i * 7 + n) % 256 for i in range(n)))
    for _ in range(200 if thorough else 30):
        out.append(bytes(rng.randrange(256) for _ in range(rng.randrange(0, 300))))
    return out


def dyadics(rng, thorough, lo, hi, kmax):
    out = []
    for _ in range(2000 if thorough else 300):
        k = rng.randrange(0, kmax + 1)
        out.append(rng.randrange(int(lo * 2 ** k), int(hi * 2 ** k)) / 2 ** k)
    return out


def angle_exact(v):
    """is Angle.send's float arithmetic exact enough on v that the exact-rational model must agree?
    (the one-ulp neighbourhood of a rounding tie is excluded and named in the trusted base)"""
    q = Fraction(v) % 360 * 256 / 360
    fl = math.floor(q)
    d = abs(q - fl - Fraction(1, 2))
    return d == 0 and False or d > Fraction(1, 10 ** 9)


def cases(chk):
    rng, th = chk.rng, chk.tier == 'thorough'
    T = []   # (label, type json, in-domain values, out-of-domain values)
    T.append(('Boolean', ['Boolean'], [True, False], []))
    for name, bits, signed in (('UnsignedByte', 8, False), ('Byte', 8, True), ('Short', 16, True), ('UnsignedShort', 16, False),
                               ('Integer', 32, True), ('Long', 64, True), ('UnsignedLong', 64, False)):
        a, b = ints(bits, signed, rng, th)
        T.append((name, [name], a, b))
    T.append(('Float', ['Float'], floats(8, 23, rng, th), []))
    T.append(('Double', ['Double'], floats(11, 52, rng, th), []))
    vi = [0, 1, 127, 128, 255, 16383, 16384, 2097151, 2097152, 2 ** 28 - 1, 2 ** 28, 2 ** 31 - 1, 2 ** 31, 2 ** 32 - 1] + [rng.getrandbits(32) for _ in range(300)]
    T.append(('VarInt', ['VarInt'], vi, [-1]))
    T.append(('VarLong', ['VarLong'], vi + [2 ** 35, 2 ** 56, 2 ** 63 - 1, 2 ** 63, 2 ** 64 - 1] + [rng.getrandbits(64) for _ in range(300)], [-5]))
    s, sbad = strings(rng, th)
    T.append(('String', ['String'], s, sbad))
    T.append(('UUID', ['UUID'], [str(uuid.UUID(int=i)) for i in (0, 1, 2 ** 128 - 1, 0x123456789abcdef0fedcba9876543210, 2 ** 127, 0x0f0f0f0f0f0f0f0f0f0f0f0f0f0f0f0f)] +
              [str(uuid.UUID(int=rng.getrandbits(128))) for _ in range(200 if th else 40)], ['', 'zz', '0' * 35, '0' * 31 + 'g']))
    T.append(('ShortPrefixedByteArray', ['ShortPrefixedByteArray'], byte_arrays(rng, th, 32767), []))
    T.append(('VarIntPrefixedByteArray', ['VarIntPrefixedByteArray'], byte_arrays(rng, th, 10 ** 9), []))
    T.append(('TrailingByteArray', ['TrailingByteArray'], byte_arrays(rng, th, 10 ** 9)[:12], []))
    ang = [b * 360 / 256 for b in range(256)] + [0.0, 90.0, 180.0, 270.0, 359.0, 359.25, 359.5, 359.296875, 359.30, 359.9, 360.0, 720.0, -0.1, -0.5, -1.40625, -90.0, -360.0, 1e6, 0.703125, 1.0546875]
    ang += dyadics(rng, th, -1000, 1000, 12)
    T.append(('Angle', ['Angle'], [v for v in ang if angle_exact(v)], []))
    for base, bits, nb in (('Integer', 32, 5), ('Byte', 8, 5), ('Short', 16, 12), ('Integer', 32, 0), ('Long', 64, 10), ('UnsignedByte', 8, 3)):
        signed = base not in ('UnsignedByte',)
        lo, hi = (-(1 << (bits - 1)), 1 << (bits - 1)) if signed else (0, 1 << bits)
        vals = [0.0, 1.0, -1.0 if signed else 2.0, 1 / 2 ** nb, (hi - 1) / 2 ** nb, lo / 2 ** nb, 0.999, 1.5, (hi - 1) / 2 ** nb + 0.25 / 2 ** nb]
        vals += dyadics(rng, th, lo / 2 ** nb, hi / 2 ** nb, nb + 3)
        vals = [v for v in vals if lo < v * 2 ** nb < hi and abs(v) < 2 ** 50]
        T.append(('FixedPoint(%s,%d)' % (base, nb), ['Fixed', [base], nb], vals, [hi / 2 ** nb + 1.0] if bits < 64 else []))
    arr = lambda lt, et: ['Array', [lt], et]
    T.append(('PrefixedArray(VarInt,Byte)', arr('VarInt', ['Byte']), [[], [1], [-1, 0, 127], list(range(-128, 128)), [5] * 200], [[200]]))
    T.append(('PrefixedArray(Short,String)', arr('Short', ['String']), [[], ['a', '', 'héé'], ['x' * 130] * 3], []))
    T.append(('PrefixedArray(UnsignedByte,VarInt)', arr('UnsignedByte', ['VarInt']), [[], [0, 128, 2 ** 31], list(range(255))], [list(range(256))]))
    T.append(('PrefixedArray(VarInt,PrefixedArray(Byte,Boolean))', arr('VarInt', arr('Byte', ['Boolean'])), [[], [[]], [[True], [], [False, True, True]], [[True] * 127] * 2], []))
    T.append(('PrefixedArray(Integer,VarIntPrefixedByteArray)', arr('Integer', ['VarIntPrefixedByteArray']), [[], [b''], [b'ab', b'', b'\x00' * 200]], []))
    # arrays whose elements together take more than 4096 / 8192 bytes (a block-data array, a long list of entity ids)
    T.append(('PrefixedArray(VarInt,Integer)', arr('VarInt', ['Integer']), [[], [1, -1], list(range(-512, 513)), [(i * 2654435761) % 2 ** 31 for i in range(2500)]], []))
    T.append(('PrefixedArray(Short,Long)', arr('Short', ['Long']), [[(i * 0x9E3779B97F4A7C15) % 2 ** 63 - 2 ** 62 for i in range(n)] for n in (0, 511, 512, 513, 1100)], []))
    T.append(('PrefixedArray(VarInt,PrefixedArray(VarInt,Short))', arr('VarInt', arr('VarInt', ['Short'])), [[[i % 1000 for i in range(300)]] * 9, [[7] * 2049], [[1] * 10] * 300], []))
    T.append(('PrefixedArray(VarInt,PrefixedArray(VarInt,PrefixedArray(VarInt,UnsignedShort)))', arr('VarInt', arr('VarInt', arr('VarInt', ['UnsignedShort']))),
              [[], [[[1, 2], []], []], [[[65535]]]], []))
    return T


def GoodSrc(data):
    return reent.GoodSource(data, None)


def impl_enc(obj, v):
    b = Buf()
    try:
        obj.send(v, b)
        return ['ok', bytes(b.out)]
    except Exception as e:
        return ['err', exn_name(e)]


def impl_dec(obj, data):
    b = Buf(data)
    try:
        v = obj.read(b)
        return ['ok', v, b.pos]
    except Exception as e:
        return ['err', exn_name(e), b.pos]


def arith_oracle(ty, v):
    """byte strings prescribed by the protocol for the scalar types, by plain arithmetic (None = no oracle here)"""
    k = ty[0]
    widths = {'UnsignedByte': 1, 'Byte': 1, 'Short': 2, 'UnsignedShort': 2, 'Integer': 4, 'Long': 8, 'UnsignedLong': 8}
    if k in widths:
        n = widths[k]
        u = v % (256 ** n)
        return bytes((u >> (8 * (n - 1 - i))) & 0xff for i in range(n))
    if k == 'Boolean':
        return b'\x01' if v else b'\x00'
    if k == 'Float':
        b = codec.float_bits(v, 8, 23)
        return bytes((b >> (8 * (3 - i))) & 0xff for i in range(4))
    if k == 'Double':
        b = codec.float_bits(v, 11, 52)
        return bytes((b >> (8 * (7 - i))) & 0xff for i in range(8))
    if k == 'Angle':
        q = Fraction(v) % 360 * 256 / 360
        r = math.floor(q)
        d = q - r
        if d > Fraction(1, 2) or (d == Fraction(1, 2) and r % 2 == 1):
            r += 1
        return bytes([r % 256])
    if k == 'UUID':
        return bytes.fromhex(v.replace('-', ''))
    return None


def run_type(chk, label, ty, good, bad, obj=None):
    obj = obj if obj is not None else codec.ft_obj(ty)
    sxt = codec.ft_sx(ty)
    vals = [(v, True) for v in good] + [(v, False) for v in bad]
    reqs = []
    for v, ok in vals:
        try:
            mv = codec.to_model(ty, v)
        except Exception:
            mv = None
        reqs.append(mv)
    model = run_model([('enc', [CC, sxt, mv]) for mv in reqs if mv is not None])
    it = iter(model)
    encs = []
    for (v, ok), mv in zip(vals, reqs):
        got = impl_enc(obj, v)
        chk.count('enc:' + label, repr(v)[:200], bool(v) or v is False)
        if mv is None:
            if got[0] == 'ok' and not ok:
                chk.violation('enc', 'enc:%s:%r' % (label, v), {'case': {'type': label, 'value': repr(v)[:300]}, 'observed': got[1].hex()[:200]},
                              '%s.send(%r) accepted an out-of-domain value' % (label, v))
            continue
        m = res_decode(next(it), lambda r: bytes(r))
        chk.tally('enc:%s:%s' % (label, got[0]))
        what = None
        if ok and got[0] != 'ok':
            what = 'send raised %s for an in-domain value' % got[1]
        elif got[0] != m[0]:
            what = 'send %s but the model %s' % ('succeeded' if got[0] == 'ok' else 'raised ' + got[1], m)
        elif got[0] == 'ok' and got[1] != m[1]:
            what = 'encoded %s; the protocol prescribes %s' % (got[1].hex()[:120], m[1].hex()[:120])
        elif got[0] == 'ok' and arith_oracle(ty, v) is not None and arith_oracle(ty, v) != got[1]:
            what = 'encoded %s; arithmetic oracle %s' % (got[1].hex(), arith_oracle(ty, v).hex())
        if what:
            chk.violation('enc', 'enc:%s:%r' % (label, v if not isinstance(v, (str, bytes, list)) or len(v) < 40 else (type(v).__name__, len(v))),
                          {'case': {'type': label, 'value': repr(v)[:300]}, 'expected': m[1].hex()[:300] if m[0] == 'ok' else list(m), 'observed': got[1].hex()[:300] if got[0] == 'ok' else got}, '%s %r: %s' % (label, v if len(repr(v)) < 60 else repr(v)[:60] + '...', what))
        if got[0] == 'ok' and ok:
            encs.append((v, got[1]))
    # decoding: exact value, exact consumption, with trailing bytes
    tail = b'\x07\x80'
    trailing = ty[0] == 'TrailingByteArray'
    # the library's own PacketBuffer used as a FIFO: a value is written, the buffer rewound and the value read; then the same
    # encoding is appended behind it and read from where it starts - a complete valid encoding decodes to the same value
    # however the buffer that holds it was used before
    if not trailing:
        from minecraft.networking.packets import PacketBuffer
        for v, e in encs[:10]:
            chk.count('dec-fifo:' + label, e.hex()[:200], len(e) > 0)
            try:
                pb = PacketBuffer()
                pb.send(e)
                pb.reset_cursor()
                r1 = obj.read(pb)
                mark = len(pb.get_writable())
                pb.send(e + tail)
                pb.bytes.seek(mark)
                r2 = obj.read(pb)
                rest = pb.read()
                what = None if (repr(r1) == repr(r2) and rest == tail) else 'first read %r, read of the appended copy %r, %d bytes left (2 expected)' % (repr(r1)[:80], repr(r2)[:80], len(rest))
            except Exception as ex:
                what = 'raised %s' % exn_name(ex)
            if what:
                chk.violation('dec', 'dec-fifo:%s:%s' % (label, e.hex()[:40]), {'case': {'type': label, 'bytes': e.hex()[:300]}, 'observed': what},
                              '%s read twice from one PacketBuffer (written, rewound, read; appended again, read): %s' % (label, what))
    dreq = [('dec', [CC, sxt, e + (b'' if trailing else tail)]) for _v, e in encs]
    dm = run_model(dreq)
    for (v, e), m in zip(encs, dm):
        data = e + (b'' if trailing else tail)
        got = impl_dec(obj, data)
        chk.count('dec:' + label, e.hex()[:400], len(e) > 0)
        m = res_decode(m)
        what = None
        if got[0] != 'ok':
            what = 'read raised %s on a valid encoding' % got[1]
        elif m[0] != 'ok':
            what = 'read returned %r but the model %r' % (got[1], m)
        elif not codec.eq_model(ty, m[1][0], got[1]):
            what = 'read returned %r; model %r' % (repr(got[1])[:100], repr(m[1][0])[:100])
        elif got[2] != len(data) - len(m[1][1]) or (not trailing and got[2] != len(e)):
            what = 'read consumed %d bytes of a %d-byte encoding' % (got[2], len(e))
        else:
            # decoding returns the value (exactly, or within one quantum for angle / fixed point)
            if ty[0] == 'Angle':
                d = (Fraction(got[1]) - Fraction(v)) % 360
                if min(d, 360 - d) > Fraction(360, 512):
                    what = 'decoded angle %r is more than half a step from %r' % (got[1], v)
            elif ty[0] == 'Fixed':
                if abs(Fraction(got[1]) - Fraction(v)) >= Fraction(1, 2 ** ty[2]):
                    what = 'decoded %r is a quantum or more from %r' % (got[1], v)
            elif ty[0] in ('Float', 'Double'):
                if not (got[1] == v or (got[1] != got[1] and v != v)) or math.copysign(1, got[1]) != math.copysign(1, v):
                    what = 'decoded %r from the encoding of %r' % (got[1], v)
            elif ty[0] in ('ShortPrefixedByteArray', 'VarIntPrefixedByteArray', 'TrailingByteArray'):
                if bytes(got[1]) != bytes(v):
                    what = 'decoded different bytes'
            elif got[1] != v:
                what = 'decoded %r from the encoding of %r' % (repr(got[1])[:80], repr(v)[:80])
        if what:
            chk.violation('dec', 'dec:%s:%s' % (label, e.hex()[:80]), {'case': {'type': label, 'bytes': e.hex()[:600], 'value': repr(v)[:200]}, 'observed': repr(got)[:300]},
                          '%s bytes %s: %s' % (label, e.hex()[:40], what))
    # strict prefixes of self-delimiting types must raise
    if not trailing:
        budget = 4000 if chk.tier == 'thorough' else 600
        preq = []
        for v, e in encs:
            if len(e) <= 40:
                cuts = range(len(e))
            else:
                cuts = sorted(set([0, 1, 2, 3, len(e) // 2, len(e) - 2, len(e) - 1]))
            for cidx in cuts:
                if len(preq) < budget:
                    preq.append(e[:cidx])
        pm = run_model([('dec', [CC, sxt, p]) for p in preq])
        for p, m in zip(preq, pm):
            got = impl_dec(obj, p)
            chk.count('prefix:' + label, p.hex()[:400], True)
            m = res_decode(m)
            if got[0] == 'ok':
                chk.violation('prefix', 'prefix:%s:%s' % (label, p.hex()[:80]), {'case': {'type': label, 'bytes': p.hex()[:600]}, 'observed': repr(got[1])[:200]},
                              '%s.read on the strict prefix %s returned %r instead of raising' % (label, p.hex()[:40], repr(got[1])[:60]))
            elif m[0] == 'ok':
                chk.violation('prefix', 'prefixm:%s:%s' % (label, p.hex()[:80]), {'case': {'type': label, 'bytes': p.hex()[:600]}, 'observed': got},
                              'model decodes the strict prefix %s of a %s but impl raises %s' % (p.hex()[:40], label, got[1]))
    # malformed stream
    rng = chk.rng
    mal = [bytes(rng.randrange(256) for _ in range(rng.randrange(0, 24))) for _ in range(300 if chk.tier == 'thorough' else 60)]
    if ty[0] in ('String',):
        mal += [b'\x02\xc0\x80', b'\x03\xe0\x80\x80', b'\x03\xed\xa0\x80', b'\x04\xf4\x90\x80\x80', b'\x04\xf0\x80\x80\x80', b'\x01\x80', b'\x02\xc3', b'\x01\xff', b'\x02\xc1\xbf', b'\x04\xf5\x80\x80\x80',
                b'\xff\xff\xff\xff\xff\xff', b'\x80\x80\x80\x80\x80\x01']
    if ty[0] in ('ShortPrefixedByteArray',):
        mal += [b'\xff\xff', b'\x80\x00abc', b'\xff\xfe' + b'x' * 10]
    mm = run_model([('dec', [CC, sxt, p]) for p in mal])
    for p, m in zip(mal, mm):
        got = impl_dec(obj, p)
        chk.count('malformed:' + label, p.hex(), True)
        m = res_decode(m)
        chk.tally('malformed:%s:%s' % (label, got[0]))
        what = None
        if got[0] == 'ok' and m[0] == 'ok':
            if not codec.eq_model(ty, m[1][0], got[1]) or got[2] != len(p) - len(m[1][1]):
                what = 'read %r (%d bytes); model %r' % (repr(got[1])[:60], got[2], repr(m[1])[:80])
        elif got[0] != m[0]:
            what = 'impl %r; model %r' % (repr(got)[:80], repr(m)[:80])
        if what:
            chk.violation('malformed', 'mal:%s:%s' % (label, p.hex()), {'case': {'type': label, 'bytes': p.hex()}, 'observed': repr(got)[:300]}, '%s on %s: %s' % (label, p.hex()[:40], what))
    if encs:
        chk.sample(label, {'type': label, 'value': repr(encs[len(encs) // 2][0])[:80], 'bytes': encs[len(encs) // 2][1].hex()[:80]}, k=1)
    return encs


def run(chk):
    common.standard_proof(chk, 'Properties/C02.v')
    T = cases(chk)
    # every type object is constructed before any is used: parametrised types over the same base type coexist in packet
    # definitions, so one must not disturb another
    objs = [codec.ft_obj(ty) for _label, ty, _g, _b in T]
    every = []
    for (label, ty, good, bad), obj in zip(T, objs):
        encs = run_type(chk, label, ty, good, bad, obj) or []
        pick = [encs[i] for i in sorted(set([0, len(encs) // 3, len(encs) // 2, len(encs) - 1]))] if encs else []
        every += [(label, ty, obj, v, e) for v, e in pick if len(e) < 4000]
    # an array is written from any sized collection that can be iterated - tuple, deque, set, frozenset, a dict's keys or values -
    # as its length followed by its elements in iteration order (what the same elements in a list give)
    import collections
    for (label, ty, good, bad), obj in zip(T, objs):
        if ty[0] != 'Array':
            continue
        for v in good:
            if not isinstance(v, list) or len(v) > 300:
                continue
            shapes = [('tuple', tuple(v)), ('deque', collections.deque(v))]
            try:
                if len(set(v)) == len(v) and v:
                    shapes += [('set', set(v)), ('frozenset', frozenset(v)), ('dict keys', dict.fromkeys(v).keys()), ('dict values', {i: x for i, x in enumerate(v)}.values())]
            except TypeError:
                pass
            for sname, coll in shapes:
                want = impl_enc(obj, list(coll))
                got = impl_enc(obj, coll)
                chk.count('enc:container', [label, sname, repr(v)[:120]], True)
                if got != want:
                    chk.violation('enc', 'enc:container:%s:%s' % (label, sname), {'case': {'type': label, 'container': sname, 'elements': repr(list(coll))[:300]}, 'expected': want[1].hex()[:200] if want[0] == 'ok' else want, 'observed': got[1].hex()[:200] if got[0] == 'ok' else got},
                                  '%s of a %s with elements %s: %s; the same elements in a list: %s' % (label, sname, repr(list(coll))[:60], 'raised ' + got[1] if got[0] != 'ok' else got[1].hex()[:40], want[1].hex()[:40] if want[0] == 'ok' else want))
                    break
    # the encoders / decoders behave like functions: nothing is carried over from a call whose socket failed, nothing is shared
    # between threads (the verified outputs above are the reference)
    reent.after_failure(chk, 'reentrancy', [(label, obj.send, v, e) for label, ty, obj, v, e in every])
    dec_ref = []
    for label, ty, obj, v, e in every:
        if ty[0] != 'TrailingByteArray' and len(e) < 400:
            g = GoodSrc(e + b'\x5a')
            try:
                dec_ref.append((label, obj.read, e, (repr(obj.read(g)), g.pos)))
            except Exception:
                pass
    reent.after_read_failure(chk, 'reentrancy', [(label, (lambda s, rd=rd: repr(rd(s))), e, exp) for label, rd, e, exp in dec_ref])

    def enc_call(obj, v):
        def call():
            b = Buf()
            obj.send(v, b)
            return bytes(b.out)
        return call

    def dec_call(obj, e):
        def call():
            b = Buf(e)
            obj.read(b)
            return b.pos
        return call
    rcases = [("%s.send" % label, enc_call(obj, v), e) for label, ty, obj, v, e in every]
    rcases += [("%s.read" % label, dec_call(obj, e), len(e)) for label, ty, obj, v, e in every]
    # ... and through the entry points packet definitions use (X.send_with_context / X.read_with_context)
    from minecraft.networking.connection import ConnectionContext
    wctx = ConnectionContext(protocol_version=757)

    def enc_ctx(obj, v):
        def call():
            b = Buf()
            obj.send_with_context(v, b, wctx)
            return bytes(b.out)
        return call

    def dec_ctx(obj, e):
        def call():
            b = Buf(e)
            obj.read_with_context(b, wctx)
            return b.pos
        return call
    rcases += [("%s.send_with_context" % label, enc_ctx(obj, v), e) for label, ty, obj, v, e in every]
    rcases += [("%s.read_with_context" % label, dec_ctx(obj, e), len(e)) for label, ty, obj, v, e in every]
    reent.threaded(chk, 'reentrancy', rcases, seconds=2.0 if chk.tier == 'thorough' else 0.6)
    # the cheapest codecs through the shared entry points only: the largest share of the time is spent in the dispatch itself
    cheap = [c for c in rcases if '_with_context' in c[0] and c[0].split('.')[0] in ('Boolean', 'Byte', 'UnsignedByte', 'Short', 'Integer', 'Long', 'VarInt', 'Float', 'Double')]
    reent.threaded(chk, 'reentrancy', cheap, nthreads=8, seconds=4.0 if chk.tier == 'thorough' else 2.0)
    chk.assumptions += ['Python struct / str.encode / bytes.decode / uuid.UUID are library code mirrored by executable Gallina re-implementations and validated here',
                        'floats: the harness maps Python floats to IEEE bit patterns through float.hex()/frexp, independently of struct',
                        'Angle.send / FixedPoint use binary64 arithmetic; the model is exact-rational; inputs within 1e-9 of a rounding tie are excluded']


def replay(chk, rp):
    c = rp['case']
    T = cases(chk)
    objs = [codec.ft_obj(ty) for _label, ty, _g, _b in T]
    for (label, ty, good, bad), obj in zip(T, objs):
        if label == c['type']:
            run_type(chk, label, ty, good, bad, obj)
