"""Shared machinery of the checks: repo selection, the extracted runner, Coq compilation of
property files, evidence, replays, known findings.  See DESIGN.md section 1.4 / 2."""
import os, sys, json, time, hashlib, subprocess, random, re, shutil, fcntl, atexit, traceback, threading

VERIF = os.path.dirname(os.path.dirname(os.path.abspath(__file__)))
REPO = os.environ.get('VERIF_REPO', '/repo')
COQ = os.path.join(VERIF, 'coq')
RUNNER = os.path.join(COQ, 'Extract', 'runner')
EVIDENCE = os.environ.get('VERIF_EVIDENCE_DIR') or os.path.join(VERIF, 'evidence')
REPLAYS = os.path.join(EVIDENCE, 'replays')
CHILD = os.environ.get('VERIF_CHILD')      # set for the extra-seed workers of the thorough tier (see check.py)
PY = '/venv/bin/python'

# ------------------------------------------------------------------ environment

def setup_env():
    """Make `import minecraft` resolve to the repo under test and nothing else."""
    os.environ['PYTHONDONTWRITEBYTECODE'] = '1'
    os.environ.setdefault('PYTHONHASHSEED', '0')
    for k in list(os.environ):
        if k.lower() in ('http_proxy', 'https_proxy', 'all_proxy', 'no_proxy'):
            del os.environ[k]
    sys.dont_write_bytecode = True
    sys.path[:] = [p for p in sys.path if os.path.abspath(p or '.') != os.path.abspath(REPO)]
    sys.path.insert(0, REPO)
    for m in list(sys.modules):
        if m == 'minecraft' or m.startswith('minecraft.'):
            del sys.modules[m]


def sub_env():
    e = dict(os.environ)
    e['PYTHONPATH'] = REPO
    e['PYTHONDONTWRITEBYTECODE'] = '1'
    e.setdefault('PYTHONHASHSEED', '0')
    e['VERIF_REPO'] = REPO
    return e

# ------------------------------------------------------------------ s-expressions

def sx_dump(x, out):
    if isinstance(x, bool):
        out.append('1' if x else '0')
    elif isinstance(x, int):
        out.append(('-%x' % -x) if x < 0 else '%x' % x)
    elif isinstance(x, (bytes, bytearray)):
        out.append('(' + ' '.join('%x' % b for b in x) + ')')
    elif isinstance(x, str):
        out.append('(' + ' '.join('%x' % ord(c) for c in x) + ')')
    elif isinstance(x, (list, tuple)):
        out.append('(')
        first = True
        for y in x:
            if not first:
                out.append(' ')
            first = False
            sx_dump(y, out)
        out.append(')')
    else:
        raise TypeError('cannot marshal %r' % (x,))


def sx_dumps(x):
    out = []
    sx_dump(x, out)
    return ''.join(out)


_tok = re.compile(r'\(|\)|[^\s()]+')


def sx_loads(s):
    stack = [[]]
    for t in _tok.findall(s):
        if t == '(':
            stack.append([])
        elif t == ')':
            l = stack.pop()
            stack[-1].append(l)
        else:
            stack[-1].append(int(t, 16))
    assert len(stack) == 1 and len(stack[0]) == 1, s[:200]
    return stack[0][0]


_FN = None


def fn_table():
    global _FN
    if _FN is None:
        _FN = {}
        src = open(os.path.join(COQ, 'Extract', 'Runner.v')).read()
        for m in re.finditer(r'\|\s*(\d+)\s*=>\s*\(\*\s*FN\s+(\w+)', src):
            _FN[m.group(2)] = int(m.group(1))
    return _FN


def run_model(requests, chunk=20000):
    """requests: list of (fn_name, arg).  Returns list of parsed results (Python nested lists of ints)."""
    ensure_built()
    fns = fn_table()
    out = []
    for i in range(0, len(requests), chunk):
        lines = []
        for fn, arg in requests[i:i + chunk]:
            lines.append(sx_dumps([fns[fn], arg]))
        data = ('\n'.join(lines) + '\n').encode()
        p = subprocess.run(['/bin/sh', '-c', 'ulimit -s unlimited 2>/dev/null; exec ' + RUNNER],
                           input=data, stdout=subprocess.PIPE, stderr=subprocess.PIPE, timeout=3600)
        if p.returncode != 0:
            raise RuntimeError('runner failed: %s' % p.stderr.decode()[-500:])
        res = p.stdout.decode().split('\n')
        res = [r for r in res if r]
        if len(res) != len(lines):
            raise RuntimeError('runner returned %d lines for %d requests' % (len(res), len(lines)))
        out.extend(sx_loads(r) for r in res)
    return out


EXN = {1: 'EOFError', 2: 'ValueError', 3: 'StructError', 4: 'TypeError', 5: 'AssertionError',
       6: 'UnicodeError', 7: 'KeyError', 8: 'IOError', 9: 'InvalidState', 10: 'VersionMismatch',
       11: 'LoginDisconnect'}


def res_decode(r, f=lambda x: x):
    """(0 v) -> ('ok', f(v)); (1 code) -> ('err', name); (2) -> ('fuel',)"""
    if r[0] == 0:
        return ('ok', f(r[1]))
    if r[0] == 1:
        return ('err', EXN.get(r[1], 'Other%d' % r[1]))
    return ('fuel',)


def exn_name(e):
    """Map a Python exception to the model's small enum."""
    import struct
    n = type(e).__name__
    if isinstance(e, struct.error):
        return 'StructError'
    if isinstance(e, UnicodeError):
        return 'UnicodeError'
    if isinstance(e, EOFError):
        return 'EOFError'
    if isinstance(e, KeyError):
        return 'KeyError'
    if isinstance(e, AssertionError):
        return 'AssertionError'
    if isinstance(e, OverflowError):
        return 'StructError'
    for cls in type(e).__mro__:
        if cls.__name__ in ('VersionMismatch', 'LoginDisconnect', 'InvalidState'):
            return cls.__name__
    if isinstance(e, ValueError):
        return 'ValueError'
    if isinstance(e, TypeError):
        return 'TypeError'
    if isinstance(e, (IOError, OSError)):
        return 'IOError'
    return n

# ------------------------------------------------------------------ build

def _lock():
    os.makedirs(os.path.join(VERIF, 'build'), exist_ok=True)
    f = open(os.path.join(VERIF, 'build', '.lock'), 'w')
    fcntl.flock(f, fcntl.LOCK_EX)
    return f


_built = False


def ensure_built():
    """Hand-written library and runner are built by setup_cmd; this is the no-op guard."""
    global _built
    if _built:
        return
    lk = _lock()
    try:
        p = subprocess.run([os.path.join(VERIF, 'setup.sh')], stdout=subprocess.PIPE, stderr=subprocess.STDOUT,
                           timeout=3600)
        if p.returncode != 0:
            raise RuntimeError('setup failed:\n' + p.stdout.decode()[-3000:])
    finally:
        lk.close()
    _built = True


LINT_RE = re.compile(r'\b(Admitted|admit|Axiom|Axioms|Parameter|Parameters|Conjecture|Conjectures|Hypothesis|Hypotheses|Variable|Variables|Admit Obligations)\b|Unset Guard|bypass_check|type-in-type|impredicative-set|Unset Universe Checking|Unset Positivity')


def lint():
    """Fail closed on anything that would declare an axiom or weaken the kernel.
    Variable/Hypothesis are allowed only inside a Section."""
    bad = []
    for root, _d, files in os.walk(COQ):
        for f in files:
            if not f.endswith('.v'):
                continue
            path = os.path.join(root, f)
            depth = 0
            txt = open(path).read()
            txt = re.sub(r'\(\*.*?\*\)', lambda m: re.sub(r'[^\n]', ' ', m.group(0)), txt, flags=re.S)
            for ln, line in enumerate(txt.split('\n'), 1):
                if re.match(r'\s*Section\b', line):
                    depth += 1
                if re.match(r'\s*End\b', line) and depth > 0:
                    depth -= 1
                for m in LINT_RE.finditer(line):
                    w = m.group(0)
                    if w in ('Variable', 'Variables', 'Hypothesis', 'Hypotheses') and depth > 0:
                        continue
                    bad.append('%s:%d: %s' % (os.path.relpath(path, VERIF), ln, w))
    for f in ('_CoqProject',):
        t = open(os.path.join(COQ, f)).read()
        if 'type-in-type' in t or 'impredicative-set' in t:
            bad.append(f + ': kernel-weakening flag')
    return bad


ALLOWED_AXIOMS = {
    'ClassicalDedekindReals.sig_not_dec', 'ClassicalDedekindReals.sig_forall_dec',
    'FunctionalExtensionality.functional_extensionality_dep', 'Classical_Prop.classic',
}


def coqc(vfile, extra_q=(), timeout=900, cwd=None):
    """Compile one .v file under a shell timeout; returns (ok, output)."""
    cmd = ['timeout', str(timeout), 'coqc', '-R', COQ, 'PyCraft', '-w', '-notation-overridden,-deprecated-hint-without-locality,-deprecated-instance-without-locality,-unknown-option']
    for d, name in extra_q:
        cmd += ['-Q', d, name]
    cmd.append(vfile)
    p = subprocess.run(cmd, stdout=subprocess.PIPE, stderr=subprocess.STDOUT, cwd=cwd)
    return p.returncode == 0, p.stdout.decode()


def parse_assumptions(src, out):
    """Pair each `Print Assumptions T.` in the source with its block in coqc's output.
    Returns list of (theorem, closed?, [axioms])."""
    names = re.findall(r'^\s*Print Assumptions\s+([\w.\']+)\s*\.', src, flags=re.M)
    blocks = []
    cur = None
    for line in out.split('\n'):
        if line.startswith('Closed under the global context'):
            blocks.append([])
            cur = None
        elif line.startswith('Axioms:'):
            cur = []
            blocks.append(cur)
        elif cur is not None:
            m = re.match(r'^([\w.\']+)\s*:', line)
            if m:
                cur.append(m.group(1))
            elif line.strip() == '' or not line.startswith(' '):
                if line.strip() and not line.startswith(' '):
                    cur = None
    res = []
    for i, n in enumerate(names):
        if i < len(blocks):
            ax = blocks[i]
            res.append((n, len(ax) == 0, ax))
        else:
            res.append((n, False, ['<no output>']))
    return res

# ------------------------------------------------------------------ known findings

def known_findings():
    p = os.path.join(VERIF, 'known_findings.json')
    if not os.path.exists(p):
        return {'open': [], 'fixed': []}
    return json.load(open(p))

# ------------------------------------------------------------------ check context

class StopCheck(BaseException):
    """raised after a violation has been recorded that makes going on pointless (the library no longer returns)"""


class Check(object):
    """One run of one property's check."""

    def __init__(self, pid, tier, seed):
        self.pid, self.tier, self.seed = pid, tier, seed
        self.rng = random.Random(seed * 1000003 + int(pid[1:]))
        self.t0 = time.time()
        self.obligations = []        # (name, discharged?, detail)
        self.trusted = []
        self.assumptions = []
        self.evaluations = 0
        self.distinct = set()
        self.samples = []
        self.rules = []
        self.dist = {}
        self.violations = []         # (key, replay dict)
        self.known_hits = []
        self.suites = {}
        self.extra = {}
        self.checker_cmds = []
        self.build = os.path.join(VERIF, 'build', '%s-%d' % (pid, os.getpid()))
        os.makedirs(self.build, exist_ok=True)
        if not os.environ.get('VERIF_KEEP_BUILD'):
            atexit.register(lambda: shutil.rmtree(self.build, ignore_errors=True))
        # scratch directories left behind by checks that were killed (older than three hours)
        try:
            now = time.time()
            for d in os.listdir(os.path.join(VERIF, 'build')):
                q = os.path.join(VERIF, 'build', d)
                if re.match(r'C\d\d-\d+$', d) and now - os.path.getmtime(q) > 3 * 3600:
                    shutil.rmtree(q, ignore_errors=True)
        except OSError:
            pass
        self.kf = known_findings()

    # ---- counting
    def reseed(self, seed):
        self.seed = seed
        self.rng = random.Random(seed * 1000003 + int(self.pid[1:]))

    def count(self, suite, case, nontrivial=True):
        self.evaluations += 1
        self.suites[suite] = self.suites.get(suite, 0) + 1
        if nontrivial:
            h = hashlib.sha1((suite + '|' + json.dumps(case, sort_keys=True, default=str)).encode()).digest()[:8]
            self.distinct.add(h)

    def sample(self, suite, case, k=3):
        n = sum(1 for s in self.samples if s.get('suite') == suite)
        if n < k:
            self.samples.append({'suite': suite, 'case': case})

    def tally(self, key, n=1):
        self.dist[key] = self.dist.get(key, 0) + n

    # ---- proofs
    def prove(self, relpath, extra_q=(), label=None, timeout=900):
        """Compile a property / finite-check file; every Print Assumptions block is one obligation."""
        ensure_built()
        if CHILD:
            return True, ''          # a fan-out worker of the thorough tier: the parent process checks the proofs
        path = relpath if os.path.isabs(relpath) else os.path.join(COQ, relpath)
        src = open(path).read()
        # compile a copy inside the build dir so that parallel checks never race on .vo files
        name = os.path.basename(path)
        dst = os.path.join(self.build, name)
        if os.path.abspath(path) != os.path.abspath(dst):
            shutil.copy(path, dst)
        ok, out = coqc(dst, extra_q=extra_q, timeout=timeout, cwd=self.build)
        self.checker_cmds.append('coqc -R coq PyCraft %s' % os.path.relpath(path, VERIF))
        nprint = len(re.findall(r'^\s*Print Assumptions', src, flags=re.M))
        if not ok:
            self.obligations.append((label or relpath, False, out[-1500:]))
            for _ in range(max(0, nprint - 1)):
                self.obligations.append((relpath, False, 'file did not compile'))
            return False, out
        allok = True
        if self.tier == 'thorough' and not os.environ.get('VERIF_NO_COQCHK'):
            # independent re-check of the compiled property file and its whole dependency cone
            mod = os.path.splitext(name)[0]
            cmd = ['timeout', '2400', 'coqchk', '-o', '-silent', '-R', COQ, 'PyCraft', '-Q', self.build, '']
            for d, nm in extra_q:          # after the build dir, whose recursive mapping would otherwise rename gen/ to "gen"
                cmd += ['-Q', d, nm]
            cmd += [mod]
            p = subprocess.run(cmd, stdout=subprocess.PIPE, stderr=subprocess.STDOUT, cwd=self.build)
            txt = p.stdout.decode()
            self.checker_cmds.append('coqchk -o -R coq PyCraft %s' % mod)
            axioms, grab = [], False
            for line in txt.split('\n'):
                if line.startswith('* Axioms:'):
                    grab = True
                    rest = line[len('* Axioms:'):].strip()
                    if rest and rest != '<none>':
                        axioms.append(rest)
                    continue
                if grab:
                    if line.startswith('* ') or not line.strip():
                        if line.startswith('* '):
                            grab = False
                        continue
                    axioms.append(line.strip())
            bad_ax = [a for a in axioms if not any(a.endswith(x) or a.endswith(x.split('.')[-1]) for x in ALLOWED_AXIOMS)]
            other = [l for l in txt.split('\n') if l.startswith('* Constants/Inductives relying on') or l.startswith('* Inductives whose positivity') ]
            unsafe = [l for l in other if '<none>' not in l]
            okchk = p.returncode == 0 and not bad_ax and not unsafe
            self.obligations.append(('coqchk:' + mod, okchk, 'axioms: %s' % (', '.join(axioms) or 'none') if p.returncode == 0 else txt[-600:]))
            self.extra.setdefault('coqchk', {})[mod] = {'rc': p.returncode, 'axioms': axioms}
            allok = allok and okchk
        for thm, closed, ax in parse_assumptions(src, out):
            bad = [a for a in ax if a not in ALLOWED_AXIOMS]
            good = closed or not bad
            if ax and not bad:
                for a in ax:
                    t = 'axiom (standard library): ' + a
                    if t not in self.trusted:
                        self.trusted.append(t)
            self.obligations.append((thm, good, 'closed' if closed else 'axioms: ' + ', '.join(ax)))
            allok = allok and good
        return allok, out

    # ---- violations
    def violation(self, suite, key, replay, what):
        """key identifies the specific failing input / call site for known-findings matching."""
        for kf in self.kf.get('open', []):
            if kf.get('property') == self.pid and kf.get('key') == key:
                if key not in [k for k, _ in self.known_hits]:
                    self.known_hits.append((key, kf.get('what', what)))
                return
        if any(k == key for k, _r, _w in self.violations):
            return
        self.violations.append((key, dict(replay, property=self.pid, suite=suite, key=key, what=what, seed=self.seed, tier=self.tier), what))

    def broken(self, name, detail):
        """A proof obligation / correspondence that no longer checks and for which no failing input was found."""
        self.violations.append(('broken:' + name, {'property': self.pid, 'no_failing_input_found': True,
                                                   'unchecked': name, 'detail': detail[-3000:]}, name))

    # ---- finish
    def finish(self, rule, level_note=None):
        os.makedirs(REPLAYS, exist_ok=True)
        lines = []
        if CHILD:
            wd = os.path.join(EVIDENCE, 'workers')
            os.makedirs(wd, exist_ok=True)
            out = []
            for key, replay, what in self.violations[:5]:
                h = hashlib.sha1(json.dumps(replay, sort_keys=True, default=str).encode()).hexdigest()[:12]
                path = os.path.join(REPLAYS, '%s-%s.json' % (self.pid, h))
                with open(path, 'w') as f:
                    json.dump(replay, f, indent=1, default=str)
                out.append([key, path, str(what)[:300], bool(replay.get('no_failing_input_found'))])
            with open(os.path.join(wd, '%s-%s.json' % (self.pid, CHILD)), 'w') as f:
                json.dump({'seed': getattr(self, 'first_seed', self.seed), 'seeds_run': getattr(self, 'seeds_run', 1), 'evaluations': self.evaluations, 'distinct': [h.hex() for h in self.distinct], 'suites': self.suites,
                           'dist': self.dist, 'violations': out, 'nviolations': len(self.violations), 'known': self.known_hits,
                           'wall_s': round(time.time() - self.t0, 2)}, f)
            return 1 if self.violations else 0
        worker_viol = []
        for w in getattr(self, 'workers', []):
            self.evaluations += w['evaluations']
            self.distinct |= set(bytes.fromhex(h) for h in w['distinct'])
            for k, v in w['suites'].items():
                self.suites[k] = self.suites.get(k, 0) + v
            for k, v in w['dist'].items():
                self.dist[k] = self.dist.get(k, 0) + v
            for key, what in w['known']:
                if key not in [k for k, _ in self.known_hits]:
                    self.known_hits.append((key, what))
            for key, path, what, nofail in w['violations']:
                if not any(k == key for k, _r, _w in self.violations) and not any(k == key for k, *_ in worker_viol):
                    worker_viol.append((key, path, what, nofail, w['seed']))
        for key, what in self.known_hits:
            print('KNOWN-FINDING: property=%s %s' % (self.pid, what))
        nviol = 0
        if os.environ.get('VERIF_DEBUG'):
            for key, replay, what in self.violations:
                print('## %s | %s' % (key, str(what)[:200]))
        for key, replay, what in self.violations:
            h = hashlib.sha1(json.dumps(replay, sort_keys=True, default=str).encode()).hexdigest()[:12]
            path = os.path.join(REPLAYS, '%s-%s.json' % (self.pid, h))
            with open(path, 'w') as f:
                json.dump(replay, f, indent=1, default=str)
            tail = ' no-failing-input-found' if replay.get('no_failing_input_found') else ''
            print('# %s: %s' % (self.pid, str(what)[:300]))
            print('VIOLATION property=%s replay=%s%s' % (self.pid, path, tail))
            nviol += 1
            if nviol >= 5:
                break
        for key, path, what, nofail, wseed in worker_viol:
            if nviol >= 5:
                break
            print('# %s (seed %d): %s' % (self.pid, wseed, what))
            print('VIOLATION property=%s replay=%s%s' % (self.pid, path, ' no-failing-input-found' if nofail else ''))
            nviol += 1
        nob = len(self.obligations)
        ndis = sum(1 for _n, ok, _d in self.obligations if ok)
        tb = ['Coq 8.16.1 kernel (coqc, full .vo build; vm_compute used for finite checks; no native_compute)',
              'extraction: ExtrOcamlBasic only, Z/positive/nat kept as extracted inductives; hand-written driver.ml; OCaml 4.13.1',
              'correspondence harness (harness/*.py) and its generators bound what the tie to the source can see'] + self.trusted
        cov = {
            'obligations': max(nob, 0), 'discharged': ndis,
            'checker_cmd': '; '.join(dict.fromkeys(self.checker_cmds)) or 'coqc',
            'trusted_base': tb,
            'evaluations': self.evaluations, 'distinct_nontrivial': len(self.distinct),
            'rule': rule, 'samples': self.samples[:12],
            'suites': self.suites, 'input_distribution': self.dist,
            'obligation_list': [{'theorem': n, 'discharged': ok, 'detail': d[:200]} for n, ok, d in self.obligations],
            'known_findings_hit': [w for _k, w in self.known_hits],
        }
        cov.update(self.extra)
        if getattr(self, 'workers', None):
            cov['extra_seed_workers'] = [{'first_seed': w['seed'], 'seeds_run': w.get('seeds_run', 1), 'evaluations': w['evaluations'], 'violations': w['nviolations'], 'wall_s': w['wall_s']} for w in self.workers]
        ev = {'property_id': self.pid, 'tier': self.tier, 'seed': self.seed, 'level': 'proof',
              'coverage': cov, 'assumptions': self.assumptions, 'wall_s': round(time.time() - self.t0, 2),
              'violations': len(self.violations) + len(worker_viol)}
        os.makedirs(EVIDENCE, exist_ok=True)
        with open(os.path.join(EVIDENCE, self.pid + '.json'), 'w') as f:
            json.dump(ev, f, indent=1, default=str)
        if os.environ.get('VERIF_DEBUG'):
            print('## live threads at finish: %d' % threading.active_count())
        print('%s: tier=%s seed=%d obligations=%d/%d evaluations=%d distinct=%d violations=%d known=%d wall=%.1fs'
              % (self.pid, self.tier, self.seed, ndis, nob, self.evaluations, len(self.distinct),
                 len(self.violations) + len(worker_viol), len(self.known_hits), time.time() - self.t0))
        return 1 if (self.violations or worker_viol) else 0


def standard_proof(chk, propfile, extra_q=()):
    """lint + compile the property file; any undischarged obligation is reported as broken
    (the caller's search for a failing input runs separately through the correspondence suites)."""
    bad = lint()
    if bad:
        chk.broken('lint', 'forbidden constructs in the development: ' + '; '.join(bad[:10]))
    ok, out = chk.prove(propfile, extra_q=extra_q)
    return ok, out
