"""An encrypted (and optionally compressed) play session through the real Connection over the simulated transport, in which
the user writes LARGE packets (bodies around and beyond the 4096-byte block the cipher wrappers are usually handed), from one
or several threads, forced or queued and flushed by disconnect().  What the server received is split into the three
plaintext login frames and the ciphertext; the ciphertext is opened with the model's AES-CFB8 (mc_decrypt) and parsed into
frames: every packet written arrives whole, once, and the packets of one writer in that writer's order.  (Used by C12: the
wire is a sequence of whole frames under concurrent writers; and by C18: everything after the key exchange is ciphertext of
the plaintext stream.)"""
import threading, zlib
import sim, proto, c10
from common import run_model, exn_name

SECRET = bytes(range(60, 76))
SIZES = [10, 4090, 4094, 4095, 4096, 4097, 4111, 5000, 8192, 9000, 12345]


def run(chk, suite, n_threads, rng):
    from minecraft.networking.connection import Connection
    from minecraft.networking.packets import Packet
    from minecraft.networking.types import TrailingByteArray

    class Blob(Packet):
        id = 0x17
        packet_name = 'blob'
        definition = [{'data': TrailingByteArray}]
    for pv in (340, 757):
        ids = proto.Ids(pv)
        for thr in (None, 256):
            steps = [('enc', '-', b'tokn')] + ([('comp', thr)] if thr is not None else []) + [('success',)]
            frames, cut = c10.build_server(ids, steps)
            plain = b''.join(frames)
            wire = plain[:cut] + bytes(run_model([('mc_encrypt', [SECRET, [plain[cut:]]])])[0][0])
            net = sim.Net([sim.Server([wire], end='idle')], urandom=SECRET).install()
            excs, written = [], {}
            try:
                conn = Connection('localhost', 25565, username='user', allowed_versions={pv}, handle_exception=lambda e, i: excs.append(e))
                conn.connect()
                net.run_threads(conn)
                sizes = list(SIZES)
                rng.shuffle(sizes)

                def writer(w):
                    for j, n in enumerate(sizes[w::n_threads]):
                        body = bytes([w, j]) + bytes((w * 31 + j * 7 + i * 13) % 251 for i in range(n - 2))
                        if thr is not None and j % 2:
                            body = bytes([w, j]) + bytes(rng.getrandbits(8) for _ in range(n - 2))      # incompressible
                        p = Blob()
                        p.data = body
                        written.setdefault(w, []).append(body)
                        try:
                            conn.write_packet(p, force=(j % 3 != 2))
                        except Exception as e:
                            excs.append(e)
                if n_threads == 1:
                    writer(0)
                else:
                    ts = [threading.Thread(target=writer, args=(w,)) for w in range(n_threads)]
                    for t in ts:
                        t.start()
                    for t in ts:
                        t.join(30)
                try:
                    conn.disconnect()                    # flushes what was queued
                except Exception as e:
                    excs.append(e)
            finally:
                net.uninstall()
            case = {'proto': pv, 'threshold': thr, 'writers': n_threads, 'sizes': sizes}
            chk.count(suite, [pv, thr, n_threads, sizes], True)
            what = None
            data = b''.join(net.servers[0].sends)
            try:
                # the three login frames are plaintext
                i = 0
                for _ in range(3):
                    ln, j = proto.rd_varint(data, i)
                    i = j + ln
                ct = data[i:]
                # opened with the `cryptography` library used directly (not through pyCraft's wrappers); the first block-and-a-bit
                # also with the model's AES-CFB8 (the two agree on whole streams in C18's own suites)
                from cryptography.hazmat.primitives.ciphers import Cipher, algorithms, modes
                from cryptography.hazmat.backends import default_backend
                import warnings
                with warnings.catch_warnings():
                    warnings.simplefilter('ignore')
                    pt = Cipher(algorithms.AES(SECRET), modes.CFB8(SECRET), backend=default_backend()).decryptor().update(ct) if ct else b''
                if ct and bytes(run_model([('mc_decrypt', [SECRET, [ct[:600]]])])[0][0]) != pt[:600]:
                    raise ValueError('the model cipher and the reference library open the first 600 bytes differently')
                got, k = [], 0
                while k < len(pt):
                    ln, j = proto.rd_varint(pt, k)
                    fr = pt[j:j + ln]
                    if len(fr) != ln:
                        raise ValueError('the stream ends inside a frame (%d of %d bytes)' % (len(fr), ln))
                    k = j + ln
                    if thr is not None:
                        dl, q = proto.rd_varint(fr, 0)
                        fr = zlib.decompress(fr[q:]) if dl else fr[q:]
                        if dl and len(fr) != dl:
                            raise ValueError('data length %d announced, %d found' % (dl, len(fr)))
                    pid, q = proto.rd_varint(fr, 0)
                    got.append((pid, fr[q:]))
                blobs = [b for pid, b in got if pid == 0x17]
                others = [pid for pid, b in got if pid != 0x17]
                if excs:
                    what = 'errors %s' % [exn_name(e) for e in excs]
                elif others:
                    what = 'frames with ids %s among the written packets' % [hex(x) for x in others[:5]]
                else:
                    for w, bodies in written.items():
                        mine = [b for b in blobs if b[:1] == bytes([w])]
                        # forced writes go out at once, queued ones when disconnect() flushes: each kind keeps its order
                        forced = [b for j, b in enumerate(bodies) if j % 3 != 2]
                        queued = [b for j, b in enumerate(bodies) if j % 3 == 2]
                        ok = ([b for b in mine if b in forced] == forced and [b for b in mine if b in queued] == queued and len(mine) == len(bodies))
                        if not ok:
                            what = 'writer %d wrote %d packets (sizes %s); %d arrived (sizes %s)%s' % (
                                w, len(bodies), [len(b) for b in bodies], len(mine), [len(b) for b in mine], '' if [len(b) for b in mine] != [len(b) for b in bodies] else ' with different content or order')
                            break
            except Exception as e:
                what = 'what the server received does not open into whole frames under the session key: %s %s' % (exn_name(e), str(e)[:120])
            if what:
                chk.violation(suite, '%s:%d:%s:%d' % (suite, pv, thr, n_threads), {'case': case, 'observed': what},
                              'encrypted session at protocol %d, threshold %s, %d writer(s), packet bodies %s: %s' % (pv, thr, n_threads, sizes, what))


def relogin_after_failure(chk, suite):
    """An encrypted session ends with an error (the server drops the connection); an exception handler connects again at once and
    the server asks for encryption again: the second session is encrypted like the first - the keep-alive the server sends under
    the cipher is understood, and its answer arrives as ciphertext of the right frame."""
    from minecraft.networking.connection import Connection
    for pv in (47, 340, 757):
        ids = proto.Ids(pv)
        for via in ('handler', 'final-handler', 'user-after-error'):
            f1, cut1 = c10.build_server(ids, [('enc', '-', b'tok1'), ('success',)])
            f2, cut2 = c10.build_server(ids, [('enc', '-', b'tok2'), ('success',), ('ka', 5)])
            wires = []
            for fr, cut in ((f1, cut1), (f2, cut2)):
                plain = b''.join(fr)
                wires.append(plain[:cut] + bytes(run_model([('mc_encrypt', [SECRET, [plain[cut:]]])])[0][0]))
            net = sim.Net([sim.Server([wires[0]], end='eof'), sim.Server([wires[1]], end='idle')], urandom=SECRET).install()
            excs, again = [], []

            def reconnect(e, info):
                excs.append(e)
                if not again and via != 'user-after-error':
                    again.append(1)
                    conn.connect()
            try:
                conn = Connection('localhost', 25565, username='user', allowed_versions={pv}, handle_exception=reconnect if via == 'final-handler' else (lambda e, i: None) if via == 'handler' else (lambda e, i: excs.append(e)))
                if via == 'handler':
                    conn.register_exception_handler(reconnect)
                conn.connect()
                net.run_threads(conn)
                if via == 'user-after-error':
                    conn.connect()
                    net.run_threads(conn)
            except Exception as e:
                excs.append(e)
            finally:
                net.uninstall()
            chk.count(suite, ['relogin-after-failure', pv, via], True)
            what = None
            data = b''.join(net.servers[1].sends)
            try:
                i = 0
                for _ in range(3):
                    ln, j = proto.rd_varint(data, i)
                    i = j + ln
                ct = data[i:]
                pt = bytes(run_model([('mc_decrypt', [SECRET, [ct]])])[0][0]) if ct else b''
                frames = proto.parse_frames(pt) if pt else []
                names = [exn_name(e) for e in excs]
                want = ids.b_keep_alive(5) if ids.keep_alive_long else proto.varint(5)
                if names != ['EOFError']:
                    what = 'errors reported %s (expected the EOFError of the first session only)' % names
                elif [(pid, body) for pid, body in frames] != [(ids.sb_keep_alive, want)]:
                    what = 'after the second key exchange the client sent %s; expected the answer to keep-alive 5 as ciphertext' % (
                        [(hex(pid), body.hex()[:20]) for pid, body in frames] or 'nothing that opens under the session key (%d bytes)' % len(ct))
            except Exception as e:
                what = 'what the second server received does not open into frames under the session key: %s' % exn_name(e)
            if what:
                chk.violation(suite, '%s:relogin:%d:%s' % (suite, pv, via), {'case': {'proto': pv, 'reconnect': via}, 'observed': what},
                              'protocol %d, encrypted session dropped by the server, reconnect by %s, encryption requested again: %s' % (pv, via, what))


def key_exchange_with_pending_writes(chk, suite):
    """The encryption request arrives in the same burst as a login plugin request, so an answer is still queued when the key
    exchange is handled: the encryption response is the one frame that must go out at once and in the clear (the server cannot
    read anything encrypted before it has the secret); everything after it is ciphertext."""
    from minecraft.networking.connection import Connection
    for pv in (393, 578, 757):
        ids = proto.Ids(pv)
        for n_plugin in (1, 3):
            steps = [('plugin', 40 + k, 'a:b', b'x') for k in range(n_plugin)] + [('enc', '-', b'tokn'), ('success',), ('ka', 9)]
            frames, cut = c10.build_server(ids, steps)
            plain = b''.join(frames)
            wire = plain[:cut] + bytes(run_model([('mc_encrypt', [SECRET, [plain[cut:]]])])[0][0])
            net = sim.Net([sim.Server([wire], end='idle')], urandom=SECRET).install()
            excs = []
            try:
                conn = Connection('localhost', 25565, username='user', allowed_versions={pv}, handle_exception=lambda e, i: excs.append(e))
                conn.connect()
                net.run_threads(conn)
            except Exception as e:
                excs.append(e)
            finally:
                net.uninstall()
            chk.count(suite, ['pending-writes', pv, n_plugin], True)
            data = b''.join(net.servers[0].sends)
            what = None
            try:
                # plaintext: handshake, login start, then - in some order - the plugin responses and the encryption response; the
                # encryption response is the last plaintext frame
                i, heads = 0, []
                while i < len(data) and len(heads) < 3 + n_plugin:
                    ln, j = proto.rd_varint(data, i)
                    pid, _q = proto.rd_varint(data, j)
                    heads.append(pid)
                    i = j + ln
                    if pid == ids.sb_encryption_response and len(heads) > 2:
                        break
                ct = data[i:]
                pt = bytes(run_model([('mc_decrypt', [SECRET, [ct]])])[0][0]) if ct else b''
                later = [pid for pid, _b in proto.parse_frames(pt)] if pt else []
                if excs:
                    what = 'errors %s' % [exn_name(e) for e in excs]
                elif ids.sb_encryption_response not in heads[2:]:
                    what = 'no encryption response among the plaintext frames (ids %s)' % [hex(h) for h in heads]
                elif sorted(heads[2:] + later) != sorted([ids.sb_plugin_response] * n_plugin + [ids.sb_encryption_response, ids.sb_keep_alive]):
                    what = 'plaintext frames %s, then under the cipher %s; expected %d plugin responses, the encryption response and one keep-alive answer' % (
                        [hex(h) for h in heads], [hex(h) for h in later], n_plugin)
            except Exception as e:
                what = 'what the server received does not parse as plaintext frames up to the encryption response and ciphertext after it: %s' % exn_name(e)
            if what:
                chk.violation(suite, '%s:pending-writes:%d:%d' % (suite, pv, n_plugin), {'case': {'proto': pv, 'plugin_requests_before_the_key_exchange': n_plugin}, 'observed': what},
                              'protocol %d, %d login plugin request(s) and the encryption request in one burst: %s' % (pv, n_plugin, what))
