"""C18 - the encrypted channel is AES-128-CFB8 keyed by the secret; secrets reach the server."""
import os
import common, sim
from common import run_model, res_decode, exn_name

RULE = ('random and structured secrets x plaintext streams per direction (up to several KiB in the thorough tier) x partitions of the '
        'stream into send() calls (EncryptedSocketWrapper.send), recv() calls (EncryptedSocketWrapper.recv) and read() results '
        '(EncryptedFileObjectWrapper.read): ciphertext / plaintext of the real wrappers vs the extracted Gallina AES-128-CFB8 '
        '(independent implementation, key = IV = secret), both directions interleaved to show independence; '
        'encrypt_token_and_secret under fresh 1024- and 2048-bit keys with tokens of 1..64 bytes, opened with the private exponent '
        'and checked against the model PKCS#1 v1.5 unpadding; generate_shared_secret draws 16 bytes from os.urandom exactly once. '
        'Non-trivial = stream of at least 17 bytes split into at least 2 calls; distinct by (secret, stream, partition).')


def parts(rng, n, k):
    cuts = sorted(set(rng.randrange(1, n) for _ in range(k))) if n > 1 else []
    return cuts


def split(data, cuts):
    out, last = [], 0
    for c in cuts:
        out.append(data[last:c])
        last = c
    out.append(data[last:])
    return out


def run(chk):
    common.standard_proof(chk, 'Properties/C18.v')
    from minecraft.networking import encryption
    rng, th = chk.rng, chk.tier == 'thorough'
    # ---------------- the stream cipher, both directions, all kinds of partitions
    secrets = [bytes(range(16)), bytes(16), b'\xff' * 16, bytes(reversed(range(16)))] + [bytes(rng.randrange(256) for _ in range(16)) for _ in range(12 if th else 4)]
    jobs = []
    for secret in secrets:
        for _ in range(3 if th else 2):
            n_out = rng.choice([1, 16, 17, 33, 200, 4095, 4096, 4097, 8192] + ([2000, 5000, 12288, 16384] if th else [420]))
            n_in = rng.choice([1, 15, 16, 32, 150] + ([3000] if th else [380]))
            out = bytes(rng.choice([0, 0xff, rng.randrange(256)]) for _ in range(n_out))
            inc = bytes(rng.randrange(256) for _ in range(n_in))
            sends = split(out, parts(rng, n_out, rng.choice([0, 0, 1, 3, 10, n_out] if n_out < 3000 else [0, 0, 1, 3])))
            recvs_cuts = parts(rng, n_in, rng.choice([0, 1, 4, n_in]))
            jobs.append((secret, out, inc, sends, recvs_cuts, rng.random() < 0.5))
    # block-size boundaries in one send, on every run
    for n_out in (4095, 4096, 4097, 8192):
        out = bytes((i * 11 + n_out) % 256 for i in range(n_out))
        inc = bytes(rng.randrange(256) for _ in range(33))
        jobs.append((secrets[0], out, inc, [out], [], False))
    # the server's ciphertext for the incoming direction comes from the model
    ct_in = run_model([('mc_encrypt', [j[0], [j[2]]]) for j in jobs])
    exp_out = run_model([('mc_encrypt', [j[0], j[3]]) for j in jobs])
    for (secret, out, inc, sends, rcuts, use_file), cin, eout in zip(jobs, ct_in, exp_out):
        cin = bytes(cin[0])
        cipher = encryption.create_AES_cipher(secret)
        enc, dec = cipher.encryptor(), cipher.decryptor()
        sock = sim.RecSocket()
        stream = sim.SegStream(split(cin, rcuts))

        class InSock(sim.RecSocket):
            fail = False

            def recv(self, n):
                return stream.read(n)

            def send(self, data):
                if self.fail:
                    self.fail = False
                    raise BrokenPipeError(32, 'Broken pipe')
                return sim.RecSocket.send(self, data)
        s2 = InSock()
        # in some runs one send fails at the raw socket (the peer stopped reading): the error is the caller's, and the receive
        # direction - "independently per direction" - must go on decrypting what the server had already sent
        fail_at = rng.randrange(len(sends)) if (len(sends) > 0 and rng.random() < 0.3) else None
        nsent = 0
        wsock = encryption.EncryptedSocketWrapper(s2, enc, dec)
        wfile = encryption.EncryptedFileObjectWrapper(stream, dec)
        got_plain = b''
        # interleave the two directions: a send, then a read, ...
        pending = list(sends)
        guard = 0
        read_error = None
        while (pending or len(got_plain) < len(inc)) and guard < 100000:
            guard += 1
            if pending:
                if nsent == fail_at:
                    s2.fail = True
                try:
                    # what is sent is bytes-like: bytes, a bytearray (a reused scratch buffer), a memoryview (a slice without a copy)
                    piece = pending.pop(0)
                    wsock.send([bytes, bytes, bytearray, memoryview][nsent % 4](piece))
                except OSError:
                    pass
                nsent += 1
            if len(got_plain) < len(inc):
                k = rng.choice([1, 2, 7, 16, 64, 4096, 0])
                if k == 0:
                    # a zero-length read returns nothing and consumes nothing
                    try:
                        z = wfile.read(0) if use_file else wsock.recv(0)
                    except Exception as e:
                        z = 'raised ' + exn_name(e)
                    if z != b'':
                        chk.violation('stream', 'stream:read0:%s' % secret.hex(), {'case': {'secret': secret.hex(), 'through': 'file' if use_file else 'socket'}, 'observed': repr(z)[:120]},
                                      'a zero-length read through the decrypting %s wrapper returned %s' % ('file' if use_file else 'socket', repr(z)[:60] if isinstance(z, str) else '%d bytes' % len(z)))
                        break
                    continue
                try:
                    got_plain += (wfile.read(k) if use_file else wsock.recv(k))
                except Exception as e:
                    read_error = exn_name(e)
                    break
        got_ct = [bytes(x) for x in s2.sends]
        exp_ct = [bytes(x) for x in eout]
        chk.count('stream', [secret.hex(), out.hex()[:100], len(out), len(sends), inc.hex()[:100], len(inc), len(rcuts)], len(out) >= 17 and len(sends) >= 2)
        chk.tally('stream:sends=%s:recv=%s' % ('1' if len(sends) == 1 else 'bytewise' if len(sends) == len(out) else 'n', 'file' if use_file else 'sock'))
        case = {'secret': secret.hex(), 'outgoing': out.hex()[:400], 'send_sizes': [len(x) for x in sends][:50], 'incoming_plain': inc.hex()[:400], 'recv_cuts': rcuts[:50]}
        if fail_at is not None:
            chk.tally('stream:one-send-failed')
        if got_ct != exp_ct and fail_at is None:
            k = next((i for i, (a, b) in enumerate(zip(b''.join(got_ct), b''.join(exp_ct))) if a != b), None)
            chk.violation('stream', 'stream:out:%s' % secret.hex(), {'case': case, 'expected': b''.join(exp_ct).hex()[:400], 'observed': b''.join(got_ct).hex()[:400]},
                          'bytes sent through EncryptedSocketWrapper are not the AES-128-CFB8 (key = IV = secret) encryption of the plaintext as one stream (first difference at byte %s)' % k)
        if read_error:
            chk.violation('stream', 'stream:in:raise:%s' % secret.hex(), {'case': dict(case, failed_send_index=fail_at), 'observed': read_error},
                          'reading through the decrypting wrapper raised %s after %d of %d bytes%s' % (read_error, len(got_plain), len(inc), ' (send number %d had failed at the raw socket)' % fail_at if fail_at is not None else ''))
        elif got_plain != inc:
            k = next((i for i, (a, b) in enumerate(zip(got_plain, inc)) if a != b), None)
            chk.violation('stream', 'stream:in:%s' % secret.hex(), {'case': case, 'expected': inc.hex()[:400], 'observed': got_plain.hex()[:400]},
                          'bytes read through the decrypting wrapper are not the plaintext an independent AES-128-CFB8 sender encrypted (first difference at byte %s)' % k)
    # one AES block against the model directly (guards the extracted AES on more than the FIPS vector)
    from cryptography.hazmat.primitives.ciphers import Cipher, algorithms, modes
    from cryptography.hazmat.backends import default_backend
    blocks = [(bytes(rng.randrange(256) for _ in range(16)), bytes(rng.randrange(256) for _ in range(16))) for _ in range(40 if th else 10)]
    res = run_model([('aes128', [k, b]) for k, b in blocks])
    for (k, b), r in zip(blocks, res):
        lib = Cipher(algorithms.AES(k), modes.ECB(), backend=default_backend()).encryptor().update(b)
        chk.count('aes-block', [k.hex(), b.hex()], True)
        if bytes(r) != lib:
            chk.broken('model-aes', 'the Gallina AES-128 disagrees with the library on key %s block %s' % (k.hex(), b.hex()))
    # ---------------- RSA PKCS#1 v1.5 of token and secret
    from cryptography.hazmat.primitives.asymmetric import rsa
    from cryptography.hazmat.primitives import serialization
    keys = []
    for bits in ([1024, 2048, 1024] if th else [1024, 2048]):
        keys.append(rsa.generate_private_key(public_exponent=65537, key_size=bits, backend=default_backend()))
    reqs, meta = [], []
    for key in keys:
        pub = key.public_key().public_bytes(serialization.Encoding.DER, serialization.PublicFormat.SubjectPublicKeyInfo)
        pn = key.private_numbers()
        n, d = pn.public_numbers.n, pn.d
        kbytes = (n.bit_length() + 7) // 8
        for tl in ([1, 4, 16, 64] + [rng.randrange(1, 65) for _ in range(20 if th else 4)]):
            token = bytes(rng.randrange(256) for _ in range(tl))
            secret = bytes(rng.randrange(256) for _ in range(16))
            try:
                et, es = encryption.encrypt_token_and_secret(pub, token, secret)
            except Exception as e:
                chk.violation('rsa', 'rsa:raise', {'case': {'bits': n.bit_length(), 'token': token.hex()}, 'observed': repr(e)[:200]}, 'encrypt_token_and_secret raised %s' % exn_name(e))
                continue
            for what, ctext, msg in (('token', et, token), ('secret', es, secret)):
                em = pow(int.from_bytes(ctext, 'big'), d, n).to_bytes(kbytes, 'big')      # the key holder's RSA primitive
                reqs.append(('pkcs1_unpad', [em]))
                meta.append((what, n.bit_length(), msg, em, len(ctext), kbytes))
    res = run_model(reqs)
    for (what, bits, msg, em, clen, kbytes), r in zip(meta, res):
        chk.count('rsa', [bits, what, msg.hex()], True)
        chk.tally('rsa:%d:%s' % (bits, what))
        got = bytes(r[0]) if r else None
        if got != msg or clen != kbytes:
            chk.violation('rsa', 'rsa:%s:%d' % (what, bits), {'case': {'bits': bits, 'which': what, 'message': msg.hex(), 'decrypted_block': em.hex()}, 'observed': got.hex() if got is not None else None},
                          'the %s encrypted under a %d-bit key is not recovered by PKCS#1 v1.5 unpadding (got %s)' % (what, bits, got.hex() if got is not None else 'a malformed block'))
    # ---------------- the shared secret: 16 bytes from the OS generator, drawn once
    calls = []
    real = os.urandom

    def fake_urandom(n):
        calls.append(n)
        return bytes((len(calls) * 37 + i) % 256 for i in range(n))
    encryption.os.urandom = fake_urandom
    try:
        s = encryption.generate_shared_secret()
    finally:
        encryption.os.urandom = real
    chk.count('secret', 'urandom', True)
    if calls != [16] or s != bytes((37 + i) % 256 for i in range(16)):
        chk.violation('secret', 'secret:urandom', {'case': {'urandom_calls': calls}, 'observed': s.hex() if isinstance(s, bytes) else repr(s)},
                      'generate_shared_secret does not return 16 fresh bytes from os.urandom (calls: %r)' % (calls,))
    login_level(chk)
    chk.sample('stream', {'secret': jobs[0][0].hex(), 'plaintext': jobs[0][1].hex()[:40], 'ciphertext': b''.join(bytes(x) for x in exp_out[0]).hex()[:40]}, k=1)
    import encsess
    encsess.run(chk, 'session-large-writes', 1, rng)
    encsess.relogin_after_failure(chk, 'session-relogin')
    encsess.key_exchange_with_pending_writes(chk, 'session-key-exchange')
    chk.assumptions += ['AES itself is validated (FIPS-197 vector by the kernel, random blocks and whole streams against the `cryptography` library), not proved against a standard',
                        'RSA is the library\'s; the model covers the PKCS#1 v1.5 block format and its removal, with RSA invertibility as a hypothesis',
                        '"fresh random" is checked as "16 bytes drawn from os.urandom once"; the quality of the OS generator is outside any model']


def login_level(chk):
    """the cipher as the connection installs it: fresh secret per login, one continuous stream whether the
    bytes are taken through file_object.read or socket.recv"""
    import c10, proto, struct
    from minecraft.networking.connection import Connection
    rng, th = chk.rng, chk.tier == 'thorough'
    import minecraft
    sup = sorted(p for p in minecraft.SUPPORTED_PROTOCOL_VERSIONS if p >= 47)
    # after the multi-login trials, one login at every supported version around the 1.13 pre-releases (where the serverbound login
    # ids moved for a while) and at a sample of the others (thorough: all): the encryption response must reach the key holder
    # under the id the protocol gives it at THAT version
    around = [p for p in sup if 383 <= p <= 393]
    rest = [p for p in sup if p not in around]
    single = around + (rest if th else rng.sample(rest, 14))
    ntr = 12 if th else 4
    for trial in range(ntr + len(single)):
        pv = single[trial - ntr] if trial >= ntr else [47, 757][trial] if trial < 2 else rng.choice([47, 107, 210, 340, 404, 578, 757])
        ids = proto.Ids(pv)
        secrets = [bytes(rng.randrange(256) for _ in range(16)) for _ in range(3)]
        nlogins = 1 if trial >= ntr else 3 if trial % 2 else 2
        servers, plains = [], []
        tokens = []
        for k in range(nlogins):
            token = bytes(rng.randrange(256) for _ in range(rng.choice([1, 4, 64])))
            tokens.append(token)
            steps = [('enc', '-', token), ('success',), ('ka', 1000 + k)]
            frames, cut = c10.build_server(ids, steps)
            extra = bytes(rng.randrange(256) for _ in range(rng.choice([40, 300])))      # bytes the harness reads itself afterwards
            plains.append((b''.join(frames), cut, extra))
        cts = run_model([('mc_encrypt', [secrets[k], [plains[k][0][plains[k][1]:] + plains[k][2]]]) for k in range(nlogins)])
        for k in range(nlogins):
            data = plains[k][0][:plains[k][1]] + bytes(cts[k][0])
            n_extra = len(plains[k][2])
            servers.append(sim.Server([data[:-n_extra], data[-n_extra:]], end='idle'))
        net = sim.Net(servers, urandom=secrets).install()
        what = None
        try:
            conn = Connection('localhost', 25565, username='user', allowed_versions={pv})
            for k in range(nlogins):
                # hold back the extra bytes until the thread is idle: keep them out of the script for the run
                held = servers[k].chunks.pop() if len(servers[k].chunks) > 1 else None
                conn.connect()
                net.run_threads(conn)
                if held is not None:
                    servers[k].chunks.append(held)
                # the harness now takes the remaining stream through BOTH wrappers alternately
                got = b''
                want = plains[k][2]
                guard = 0
                while len(got) < len(want) and guard < 10000:
                    guard += 1
                    n = rng.choice([1, 3, 16, 50])
                    got += conn.file_object.read(n) if guard % 2 else conn.socket.recv(n)
                chk.count('login-cipher', [pv, k, secrets[k].hex(), want.hex()[:80]], True)
                if got != want:
                    j = next((x for x, (a, b) in enumerate(zip(got, want)) if a != b), None)
                    what = 'login %d: bytes taken alternately through file_object.read and socket.recv do not decrypt as one continuous stream (first difference at byte %s)' % (k, j)
                    break
                # the key holder recovers secret and verify token from the encryption response as the protocol lays it out
                # (packet id, then two VarInt-length-prefixed RSA blocks, from 1.8 = protocol 47 on)
                sends = servers[k].sends
                try:
                    body = sends[5]
                    pid, j = proto.rd_varint(body, 0)
                    a, j = proto.rd_varint(body, j)
                    es = body[j:j + a]
                    b, j2 = proto.rd_varint(body, j + a)
                    et = body[j2:j2 + b]
                    # (id 0x01; 0x02 from 1.13-pre3 = 385 to 1.13-pre8 = 390, while the login plugin messages stood in front - trusted text)
                    want_id = 2 if 385 <= pv <= 390 else 1
                    opened = (pid == want_id and pid == ids.sb_encryption_response and pid != ids.sb_plugin_response and j2 + b == len(body) and c10.rsa_open(es) == secrets[k] and c10.rsa_open(et) == tokens[k])
                except Exception:
                    opened = False
                if not opened:
                    what = 'login %d at protocol %d: the key holder does not recover the shared secret and the verify token from the encryption response (%s...)' % (k, pv, sends[5].hex()[:24] if len(sends) > 5 else 'missing')
                    break
                # the client side of this login must be keyed by THIS login's secret
                dec = run_model([('mc_decrypt', [secrets[k], sends[6:]])])[0]
                tail = b''.join(bytes(x) for x in dec)
                exp = proto.frame(ids.sb_keep_alive, struct.pack('>q', 1000 + k) if ids.keep_alive_long else proto.varint(1000 + k))
                if tail != exp:
                    what = 'login %d: traffic after the encryption response is not encrypted under the secret drawn for this login' % k
                    break
                conn.disconnect()
            if what is None and net.urandom_calls != [16] * nlogins:
                what = 'os.urandom calls over %d logins: %r (16 fresh bytes per login expected)' % (nlogins, net.urandom_calls)
        finally:
            net.uninstall()
        if what:
            chk.violation('login-cipher', 'login-cipher:%d' % trial, {'case': {'proto': pv, 'logins': nlogins, 'secrets': [x.hex() for x in secrets[:nlogins]]}, 'observed': what}, what)


def replay(chk, rp):
    run(chk)
