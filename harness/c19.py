"""C19 - auth token state follows the Yggdrasil replies; errors leave it untouched."""
import json, threading, http.server, itertools
import common
from common import run_model, exn_name

RULE = ('reply status codes {200, 204, 400, 403, 404, 429, 500, 503} x body shapes {valid result, error object (with and without '
        'cause), partial error object, non-JSON, empty} x operations {authenticate (with / without invalidate_previous), refresh, '
        'validate, invalidate, join, sign_out} x initial token states (every subset of the five fields present, plus empty strings), '
        'and operation sequences, against a loopback HTTP stand-in for the service (authentication.AUTH_SERVER / SESSION_SERVER pointed '
        'at it from outside): requests received (endpoint, JSON payload), the five token fields afterwards, the value returned or the '
        'fields of the error raised are compared with the extracted model. 200 replies whose body is not a result are outside the '
        'property and skipped. Non-trivial = error reply or state-changing success; distinct by (state, operation, reply).')


class Stub(object):
    def __init__(self):
        stub = self
        self.reply = (200, b'{}')
        self.requests = []

        class H(http.server.BaseHTTPRequestHandler):
            protocol_version = 'HTTP/1.0'

            def do_POST(self):
                n = int(self.headers.get('content-length', 0))
                body = self.rfile.read(n)
                stub.requests.append((self.path, self.headers.get('content-type'), body))
                status, data = stub.reply
                self.send_response(status)
                self.send_header('Content-Type', 'application/json')
                self.send_header('Content-Length', str(len(data)))
                self.end_headers()
                if status != 204:
                    self.wfile.write(data)

            def log_message(self, *a):
                pass
        self.srv = http.server.ThreadingHTTPServer(('127.0.0.1', 0), H)
        self.port = self.srv.server_address[1]
        self.thread = threading.Thread(target=self.srv.serve_forever, daemon=True)
        self.thread.start()

    def stop(self):
        self.srv.shutdown()
        self.srv.server_close()


def s_(x):
    return [ord(c) for c in x]


def opt(x):
    return [] if x is None else [s_(x)]


BODIES = {
    'result': (lambda: {'accessToken': 'NEWACC', 'clientToken': 'NEWCLI', 'selectedProfile': {'id': 'PID2', 'name': 'Name2'}, 'availableProfiles': []}, [0, s_('NEWACC'), s_('NEWCLI'), s_('PID2'), s_('Name2')]),
    'error': (lambda: {'error': 'ForbiddenOperationException', 'errorMessage': 'Invalid credentials.'}, [1, s_('ForbiddenOperationException'), s_('Invalid credentials.'), []]),
    'error+cause': (lambda: {'error': 'E', 'errorMessage': 'msg é', 'cause': 'UserMigratedException'}, [1, s_('E'), s_('msg é'), [s_('UserMigratedException')]]),
    # the service's texts are data: braces, percent signs and format fields in them mean nothing
    'error+braces': (lambda: {'error': 'JsonParseException{}', 'errorMessage': "Unexpected character ('}' (code 125)) {status_code} {0} %s %(x)d {"},
                     [1, s_('JsonParseException{}'), s_("Unexpected character ('}' (code 125)) {status_code} {0} %s %(x)d {"), []]),
    'partial': (lambda: {'error': 'OnlyError'}, [2]),
    'nonjson': (lambda: '<html>Bad Gateway</html>', [3]),
    'empty': (lambda: '', [4]),
}
ENDPOINTS = ['/authenticate', '/refresh', '/validate', '/signout', '/invalidate', '/join']


# a few operation sequences that every run performs (indices into ops: 0 authenticate, 2 refresh, 3 validate, 4 invalidate, 5 join)
SCRIPTED = [[0, 5, 2, 5], [0, 2, 5, 2, 5, 3], [0, 5, 5, 2, 2, 5], [0, 3, 5, 4, 5], [5, 0, 5, 2, 5], [0, 5, 0, 5, 2, 5]]


def judge(out, after, got_reqs, r, agent=('Minecraft', 1)):
    """compares one observed operation with the model's (outcome, token afterwards, requests)"""
    mout, mtok, mreqs = r
    what = None
    exp_after = [None if not x else ''.join(map(chr, x[0])) for x in mtok]
    if mout[0] == 4:
        return None, exp_after
    if out[:len(mout)] != mout or len(out) > len(mout):
        what = 'outcome %s; expected %s' % (describe(out), describe(mout))
    elif after != exp_after:
        what = 'stored credentials afterwards %s; expected %s' % (after, exp_after)
    else:
        # requests: endpoint, content type, payload
        exp = []
        for sess, ep, pl in mreqs:
            d = {}
            for k, v in pl:
                key = ['agent', 'username', 'password', 'clientToken', 'accessToken', 'selectedProfile', 'serverId'][k]
                if v[0] == 0:
                    d[key] = None if not v[1] else ''.join(map(chr, v[1][0]))
                elif v[0] == 1:
                    d[key] = '<fresh>'
                elif v[0] == 2:
                    d[key] = {'name': agent[0], 'version': agent[1]}
                else:
                    d[key] = {'id': ''.join(map(chr, v[1][0])) if v[1] else None, 'name': ''.join(map(chr, v[2][0])) if v[2] else None}
            exp.append((('/session/minecraft' if sess else '') + ENDPOINTS[ep], d))
        if len(got_reqs) != len(exp):
            what = '%d requests were sent; expected %d' % (len(got_reqs), len(exp))
        else:
            for (path, ctype, body), (epath, ed) in zip(got_reqs, exp):
                if isinstance(body, dict) and ed.get('clientToken') == '<fresh>' and isinstance(body.get('clientToken'), str) and len(body['clientToken']) == 32:
                    body = dict(body, clientToken='<fresh>')
                if path != epath or body != ed or ctype != 'application/json':
                    what = 'request %s %s (%s); documented: %s %s' % (path, body, ctype, epath, ed)
    return what, exp_after


def run(chk):
    common.standard_proof(chk, 'Properties/C19.v')
    from minecraft import authentication as A
    from minecraft.exceptions import YggdrasilError
    rng, th = chk.rng, chk.tier == 'thorough'
    stub = Stub()
    saved = (A.AUTH_SERVER, A.SESSION_SERVER)
    A.AUTH_SERVER = 'http://127.0.0.1:%d' % stub.port
    A.SESSION_SERVER = 'http://127.0.0.1:%d/session/minecraft' % stub.port
    try:
        states = []
        for mask in range(32):
            states.append(tuple(v if mask >> i & 1 else None for i, v in enumerate(['user@example.com', 'ACC0', 'CLI0', 'PID0', 'Name0'])))
        states += [('', 'ACC0', 'CLI0', 'PID0', 'Name0'), ('u', '', 'CLI0', 'PID0', 'Name0'), ('u', 'ACC0', '', 'PID0', 'Name0'), ('u', 'a', 'c', '', '')]
        ops = [('authenticate', 'alice', 'pw', False), ('authenticate', 'alice', 'pw', True), ('refresh',), ('validate',), ('invalidate',), ('join', 'serverhash'), ('sign_out', 'alice', 'pw'),
               # posted and stored exactly as given: no trimming, case folding or Unicode normalisation
               ('authenticate', 'e\u0308mil@Example.COM ', ' pa\u030ass\u212b', False), ('sign_out', 'A\u030a\u2126', 'p\ufb01n '), ('join', 'e\u0301\u212b'),
               # ... nor any re-encoding: a password that reached Python through surrogateescape carries lone surrogates; JSON can say them
               ('authenticate', 'al\udce9ce', 'pa\udce9ss', False), ('sign_out', 'x\udcff', 'p\ud800w')]
        statuses = [200, 204, 400, 403, 404, 429, 500, 503]
        plan = list(itertools.product(states, ops, statuses, sorted(BODIES)))
        if not th:
            rng.shuffle(plan)
            plan = plan[:900]
        reqs, obs = [], []
        for st, op, status, bk in plan:
            if status == 200 and bk != 'result' and op[0] in ('authenticate', 'refresh'):
                continue                                  # a 200 reply without a result: not claimed either way
            mk, mbody = BODIES[bk]
            payload = mk()
            stub.reply = (status, (json.dumps(payload) if not isinstance(payload, str) else payload).encode('utf-8'))
            del stub.requests[:]
            tok = A.AuthenticationToken(username=st[0], access_token=st[1], client_token=st[2])
            tok.profile.id_, tok.profile.name = st[3], st[4]
            auth_before = tok.authenticated
            try:
                if op[0] == 'authenticate':
                    r = tok.authenticate(op[1], op[2], invalidate_previous=op[3])
                elif op[0] == 'sign_out':
                    r = A.AuthenticationToken.sign_out(op[1], op[2])
                elif op[0] == 'join':
                    r = tok.join(op[1])
                else:
                    r = getattr(tok, op[0])()
                out = [0] if r is True else [1] if r is None else ['returned', repr(r)]
            except YggdrasilError as e:
                out = [2, [] if e.status_code is None else [e.status_code],
                       [] if e.yggdrasil_error is None and e.yggdrasil_message is None else [[s_(e.yggdrasil_error), s_(e.yggdrasil_message), opt(e.yggdrasil_cause)]]]
                if e.status_code is not None and not str(e).startswith('[%d]' % e.status_code):
                    out.append('message does not carry the status code: %s' % str(e)[:60])
                if e.status_code is not None and e.yggdrasil_error is None and 'Malformed' not in str(e):
                    out.append('not a "malformed" message: %s' % str(e)[:60])
            except ValueError:
                out = [3]
            except Exception as e:
                out = ['raised', exn_name(e)]
            after = [tok.username, tok.access_token, tok.client_token, tok.profile.id_, tok.profile.name]
            got_reqs = []
            for path, ctype, body in stub.requests:
                try:
                    got_reqs.append((path, ctype, json.loads(body.decode('utf-8'))))
                except Exception:
                    got_reqs.append((path, ctype, 'unparseable'))
            obs.append((out, after, got_reqs, auth_before))
            mop = {'authenticate': lambda: [0, s_(op[1]), s_(op[2]), op[3]], 'refresh': lambda: [1], 'validate': lambda: [2], 'invalidate': lambda: [3],
                   'join': lambda: [4, s_(op[1])], 'sign_out': lambda: [5, s_(op[1]), s_(op[2])]}[op[0]]()
            reqs.append(('auth_perform', [[opt(x) for x in st], mop, status, [4] if status == 204 else mbody]))      # a 204 reply has no body
        plan = [p for p in plan if not (p[2] == 200 and p[3] != 'result' and p[1][0] in ('authenticate', 'refresh'))]
        res = run_model(reqs)
        for (st, op, status, bk), (out, after, got_reqs, auth_before), r in zip(plan, obs, res):
            mout, mtok, mreqs = r
            case = {'state': st, 'operation': list(op), 'status': status, 'body': bk}
            chk.count('op', [st, op, status, bk], status not in (200, 204) or mtok != [opt(x) for x in st])
            chk.tally('op:%s' % op[0])
            chk.tally('status:%d' % status)
            chk.tally('body:%s' % bk)
            what, exp_after = judge(out, after, got_reqs, r)
            if mout[0] == 4:
                continue
            if what:
                chk.violation('op', 'op:%s:%d:%s:%s' % (op[0], status, bk, hash(repr(st)) % 10 ** 6), {'case': case, 'observed': {'outcome': out, 'state': after, 'requests': [(g[0], g[2]) for g in got_reqs]}, 'expected': {'outcome': mout, 'state': exp_after}},
                              '%s with state %s on a %d reply with %s body: %s' % (op[0], st, status, bk, what))
        # operation sequences on ONE token object: every step is compared with the model started from the state the token
        # was in before that step (outcome, stored credentials, every request with its payload); the replies differ from
        # step to step (new access token, renamed / switched profile), and errors in the middle leave no trace
        def perform(tok, op):
            # every operation returns: run on a helper thread with a bound, so that one that never returns is reported as such
            import reent
            r = reent.bounded(lambda: perform_(tok, op), 10.0)
            if r[0] == 'hang':
                chk.violation('sequence', 'sequence:hang:%s' % op[0], {'case': {'operation': list(op)}, 'observed': 'no return within 10 s'},
                              '%s on a token that had been through earlier operations does not return (no answer within 10 s, no request reached the service)' % op[0])
                raise common.StopCheck()
            if r[0] == 'raised':
                raise r[1]
            return r[1]

        def perform_(tok, op):
            del stub.requests[:]
            try:
                if op[0] == 'authenticate':
                    r = tok.authenticate(op[1], op[2], invalidate_previous=op[3])
                elif op[0] == 'sign_out':
                    r = A.AuthenticationToken.sign_out(op[1], op[2])
                elif op[0] == 'join':
                    r = tok.join(op[1])
                else:
                    r = getattr(tok, op[0])()
                out = [0] if r is True else [1] if r is None else ['returned', repr(r)]
            except YggdrasilError as e:
                out = [2, [] if e.status_code is None else [e.status_code],
                       [] if e.yggdrasil_error is None and e.yggdrasil_message is None else [[s_(e.yggdrasil_error), s_(e.yggdrasil_message), opt(e.yggdrasil_cause)]]]
            except ValueError:
                out = [3]
            except Exception as e:
                out = ['raised', exn_name(e)]
            got = []
            for path, ctype, body in stub.requests:
                try:
                    got.append((path, ctype, json.loads(body.decode('utf-8'))))
                except Exception:
                    got.append((path, ctype, 'unparseable'))
            return out, got
        seqs, sreqs = [], []
        for n in range(400 if th else 80):
            # a game other than Minecraft is a subclass overriding the agent constants (documented in the class)
            class Scrolls(A.AuthenticationToken):
                AGENT_NAME = 'Scrolls'
                AGENT_VERSION = 2
            tok = Scrolls() if n % 5 == 4 else A.AuthenticationToken()
            agent = (type(tok).AGENT_NAME, type(tok).AGENT_VERSION)
            seq = []
            # most sequences start by authenticating, so that the later steps act on a live token
            first = [('authenticate', 'alice', 'pw', False)] if n % 4 else []
            steps = first + [rng.choice(ops) for _ in range(rng.randrange(3, 9))]
            if n < len(SCRIPTED):
                steps = [ops[j] if isinstance(j, int) else j for j in SCRIPTED[n]]
            for k, op in enumerate(steps):
                status = 200 if (k == 0 and first) else rng.choice([200, 200, 200, 204] + statuses)
                if n < len(SCRIPTED):
                    status = 204 if op[0] in ('validate', 'invalidate', 'join') else 200
                if status == 200 and op[0] in ('authenticate', 'refresh'):
                    bk = 'result'
                    prof = rng.choice([('PID%d' % k, 'Name%d' % k), ('PID0', 'Renamed%d' % k), ('PID0', 'Name0')])
                    sel = rng.choice([{'id': prof[0], 'name': prof[1]}, {'name': prof[1], 'id': prof[0]}, {'legacy': True, 'name': prof[1], 'properties': [], 'id': prof[0]}])
                    payload = {'accessToken': 'ACC%d_%d' % (n, k), 'clientToken': 'CLI%d' % (k % 2), 'selectedProfile': sel, 'availableProfiles': []}
                    if rng.random() < 0.3:
                        payload = dict(reversed(list(payload.items())))          # JSON objects are unordered
                    mbody = [0, s_(payload['accessToken']), s_(payload['clientToken']), s_(prof[0]), s_(prof[1])]
                else:
                    bk = rng.choice(sorted(BODIES)) if status != 200 else rng.choice(['empty', 'error'])
                    mk, mbody = BODIES[bk]
                    payload = mk()
                stub.reply = (status, (json.dumps(payload) if not isinstance(payload, str) else payload).encode('utf-8'))
                before = [tok.username, tok.access_token, tok.client_token, tok.profile.id_, tok.profile.name]
                out, got = perform(tok, op)
                after = [tok.username, tok.access_token, tok.client_token, tok.profile.id_, tok.profile.name]
                seq.append([op[0], status, bk])
                mop = {'authenticate': lambda: [0, s_(op[1]), s_(op[2]), op[3]], 'refresh': lambda: [1], 'validate': lambda: [2], 'invalidate': lambda: [3],
                       'join': lambda: [4, s_(op[1])], 'sign_out': lambda: [5, s_(op[1]), s_(op[2])]}[op[0]]()
                sreqs.append(('auth_perform', [[opt(x) for x in before], mop, status, [4] if status == 204 else mbody]))
                seqs.append(([list(x) for x in seq], before, out, after, got, op, status, agent))
                chk.count('sequence', [seq[:], payload if isinstance(payload, dict) else bk], len(seq) > 1)
                chk.tally('sequence:%s' % op[0])
        stop_after = set()
        for (seq, before, out, after, got, op, status, agent), r in zip(seqs, run_model(sreqs)):
            key = repr(seq[:-1])
            if any(key.startswith(x) for x in stop_after):
                continue
            what, exp_after = judge(out, after, got, r, agent)
            if r[0][0] == 4:
                continue
            if what is None and out[0] in (2, 3, 'raised') and after != before:
                what = 'the failing %s (status %d) altered the stored credentials: %s -> %s' % (op[0], status, before, after)
            if what:
                stop_after.add(repr(seq)[:-1])
                chk.violation('sequence', 'seq:%s:%d:%d' % (op[0], status, len(seq)), {'case': {'sequence': seq, 'state_before_last_step': before},
                                                                                       'observed': {'outcome': out, 'state': after, 'requests': [(g[0], g[2]) for g in got]}, 'expected': {'state': exp_after}},
                              'in the sequence %s (token state before the last step %s): %s' % (seq, before, what))
    finally:
        A.AUTH_SERVER, A.SESSION_SERVER = saved
        stub.stop()
    chk.assumptions += ['requests, JSON and HTTP are library code outside the model; the service is a loopback stand-in',
                        'a 200 reply whose body is not a result (JSON scalar, error object) and sign_out on a 204 reply are outside the property\'s reply shapes and are not claimed either way']


def describe(o):
    if o[0] == 0:
        return 'returns True'
    if o[0] == 1:
        return 'returns None'
    if o[0] == 2:
        return 'raises YggdrasilError(status=%s, error fields=%s)' % (o[1][0] if o[1] else None, 'present' if len(o) > 2 and o[2] else 'absent (malformed)') + (' ' + str(o[3]) if len(o) > 3 else '')
    if o[0] == 3:
        return 'raises ValueError'
    return str(o)


def replay(chk, rp):
    run(chk)
