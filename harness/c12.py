"""C12 - concurrent writers: every packet hits the wire once, whole and in order."""
import zlib
import common, sim, sched, proto
from common import run_model, exn_name

RULE = ('scenarios of 1..4 user threads issuing queued writes, forced writes and one final disconnect (immediate or not) against the '
        'networking thread\'s write loop, with and without compression and encryption, run on the real Connection under a cooperative '
        'scheduler with a scheduling point at every lock acquire / release, deque append / popleft, socket send / shutdown / close and '
        'select: exhaustive enumeration of schedules up to 2 preemptions for small scenarios, seeded random walks beyond. For every '
        'schedule the wire must parse into whole frames, each packet at most once, per-thread queue order kept, nothing sent after the '
        'socket was closed, and the observed sequence of operations replayed on the extracted interleaving model must give the same '
        'wire and the same remaining queue. Non-trivial = at least two threads wrote and at least one preemption happened; distinct '
        'by (scenario, schedule).')


def make_packets():
    from minecraft.networking.packets import Packet
    from minecraft.networking.types import TrailingByteArray

    class Raw(Packet):
        packet_name = 'raw'
        definition = [{'data': TrailingByteArray}]
    return Raw


class Run(object):
    """one execution of a scenario under a choice policy"""

    def __init__(self, progs, comp, secret):
        self.progs, self.comp, self.secret = progs, comp, secret

    def execute(self, policy, max_steps=4000):
        from minecraft.networking import connection as C, encryption
        from minecraft.networking.connection import Connection
        sc = sched.Sched()
        net = sim.Net([sim.Server([], end='idle')], idle_limit=10 ** 9).install()
        undo = sched.instrument(C, sc)
        net.switch_hook = lambda what: sc.yield_point(what)
        Raw = make_packets()
        self.sc, self.net = sc, net
        decisions = []
        try:
            conn = Connection('localhost', 25565, username='user', allowed_versions={757}, handle_exception=False)
            conn.connect()
            for p, tag in zip(list(sched.find_queue(conn)), (-1, -2)):
                p.tag = tag
            if self.comp is not None:
                conn.options.compression_enabled = True
                conn.options.compression_threshold = self.comp
            if self.secret is not None:
                cipher = encryption.create_AES_cipher(self.secret)
                conn.socket = encryption.EncryptedSocketWrapper(conn.socket, cipher.encryptor(), cipher.decryptor())
            self.conn = conn
            nt = net.pending.pop(0)
            net.current_connection = conn
            sc.spawn(0, nt.run, 'net')

            def user(ops):
                def body():
                    for op in ops:
                        if op[0] in ('q', 'f'):
                            p = Raw()
                            p.id = 0x20 + op[1] % 0x50
                            p.data = bytes([op[1] % 256]) * (1 + op[1] % 40)
                            p.tag = op[1]
                            conn.write_packet(p, force=(op[0] == 'f'))
                        else:
                            conn.disconnect(immediate=op[1])
                return body
            for i, ops in enumerate(self.progs):
                sc.spawn(i + 1, user(ops), 'user%d' % (i + 1))
            users = list(range(1, len(self.progs) + 1))
            cur, steps, preempt = None, 0, 0
            while steps < max_steps:
                run_ = sc.runnable()
                live_users = [t for t in users if not sc.workers[t].finished]
                nw = sc.workers[0]
                if not live_users and (nw.finished or (nw.pending[0] == 'select' and not sched.find_queue(conn))):
                    break
                if not run_:
                    self.deadlock = True
                    break
                # a thread polling in select (the 50 ms read timeout) is a natural switch: move on without counting a preemption
                polling = cur is not None and sc.workers[cur].pending[0] == 'select'
                others = [t for t in run_ if t != cur]
                default = cur if (cur in run_ and not polling) else (others[0] if others else run_[0])
                t = policy(len(decisions), run_, default)
                if t not in run_:
                    t = default
                if cur in run_ and not polling and t != cur:
                    preempt += 1
                decisions.append((run_, default, t, cur in run_ and not polling))
                sc.step(t)
                cur = t
                steps += 1
            self.steps, self.preempt, self.decisions = steps, preempt, decisions
            self.errors = {t: w.error for t, w in sc.workers.items() if w.error not in (None, 'end-of-script')}
            self.queue_left = [getattr(p, 'tag', None) for p in sched.find_queue(conn)]
        finally:
            sc.kill_all()
            undo()
            net.switch_hook = None
            net.uninstall()
        self.events = list(sc.events)
        self.sends = list(net.servers[0].sends)
        return self

    # ---- analysis
    def wire_frames(self):
        data = b''.join(self.sends)
        if self.secret is not None:
            from minecraft.networking import encryption
            data = encryption.create_AES_cipher(self.secret).decryptor().update(data)
        out, i = [], 0
        while i < len(data):
            ln, j = proto.rd_varint(data, i)
            fr = data[j:j + ln]
            if len(fr) < ln:
                # an open frame (length prefix sent, payload not yet): only legal at the very end
                return out, ('open', len(data) - i)
            i = j + ln
            if self.comp is not None:
                dl, k = proto.rd_varint(fr, 0)
                fr = zlib.decompress(fr[k:]) if dl else fr[k:]
            pid, k = proto.rd_varint(fr, 0)
            out.append((pid, fr[k:]))
        return out, None


def tag_of_frame(fr):
    pid, body = fr
    if pid == 0 and len(body) > 3 and body[-1] in (1, 2) and b'localhost' in body:
        return -1
    if pid == 0:
        return -2
    return body[0] if body else None


def model_schedule(run):
    """observed operations -> thread choices of the model (threads: 0 net, 1..n users, n+1 setup).
    The real code reads shared state (queue empty? interrupted?) at the END of a step, right after its
    previous operation, and only then waits at the next scheduling point; the model reads it at the START
    of the step that acts on it.  Steps whose action depends on such a read (popleft / release / close)
    are therefore placed right after the same thread's previous step - the operations of other threads
    in between can only be queue appends, which commute with them."""
    n = len(run.progs)
    schedule = [n + 1, n + 1]
    last = {}
    for ev in run.events:
        tid, kind = ev[0], ev[1]
        if kind in ('append', 'acquire', 'send'):
            schedule.append(tid)
            last[tid] = len(schedule)
        elif kind in ('popleft', 'release', 'shutdown'):
            pos = last.get(tid, len(schedule))
            schedule.insert(pos, tid)
            for k in last:
                if last[k] >= pos and k != tid:
                    last[k] += 1
            last[tid] = pos + 1
    return schedule


def check_run(chk, run, label):
    """the property's oracle on the real wire + replay on the model"""
    case = {'programs': run.progs, 'compression': run.comp, 'encrypted': run.secret is not None,
            'schedule': [d[2] for d in run.decisions][:300], 'preemptions': run.preempt}
    what = None
    if getattr(run, 'deadlock', False):
        what = 'no thread can move (deadlock)'
    try:
        frames, open_ = run.wire_frames()
    except Exception as e:
        frames, open_ = [], None
        what = what or 'the wire does not parse into frames (%s): frames of different writers are interleaved or damaged' % exn_name(e)
    tags = [tag_of_frame(f) for f in frames]
    if what is None and open_ is not None:
        what = 'the wire ends inside a frame although every thread has finished its operation'
    if what is None:
        for tg, (pid, body) in zip(tags, frames):
            if tg is not None and tg >= 0 and (pid != 0x20 + tg % 0x50 or body != bytes([tg % 256]) * (1 + tg % 40)):
                what = 'a frame on the wire is not the frame of any packet written (packet %s damaged)' % tg
                break
    if what is None and len(set(tags)) != len(tags):
        d = [t for t in tags if tags.count(t) > 1]
        what = 'packet %s is on the wire %d times' % (d[0], tags.count(d[0]))
    if what is None:
        for i, ops in enumerate(run.progs):
            qs = [op[1] for op in ops if op[0] == 'q']
            on = [t for t in tags if t in qs]
            if on != [q for q in qs if q in on]:
                what = 'queued packets of thread %d reached the wire as %s, queued as %s' % (i + 1, on, qs)
                break
    if what is None:
        k = next((i for i, e in enumerate(run.events) if e[1] == 'shutdown'), None)
        if k is not None and any(e[1] == 'send' for e in run.events[k + 1:]):
            what = 'a send happened after the socket had been shut down'
    if what is None:
        # complete executions: everything queued before a flushing disconnect, or everything if nobody disconnected
        disc = [(i, op) for i, ops in enumerate(run.progs) for op in ops if op[0] == 'd']
        allq = [op[1] for ops in run.progs for op in ops if op[0] in ('q', 'f')]
        if not disc and not run.errors:
            missing = [t for t in [-1, -2] + allq if t not in tags]
            if missing:
                what = 'packets %s never reached the wire although every thread finished and nobody disconnected' % missing
    if what:
        chk.violation(label, '%s:%s' % (label, hash(repr(case)) % 10 ** 8), {'case': case, 'observed': {'wire': tags, 'queue_left': run.queue_left, 'errors': {k: exn_name(v) for k, v in run.errors.items()}}}, '%s, schedule with %d preemptions: %s' % (run.progs, run.preempt, what))
        return None
    return tags


def replay_on_model(chk, runs, label):
    reqs = []
    for run, tags in runs:
        progs = [[[0, op[1]] if op[0] == 'q' else [1, op[1]] if op[0] == 'f' else [2, int(op[1])] for op in ops] for ops in run.progs]
        progs.append([[0, -1], [0, -2]])
        reqs.append(('conc_run', [300, progs, model_schedule(run)]))
    res = run_model(reqs)
    for (run, tags), r in zip(runs, res):
        wire, queue, lock, interrupt, sock_open, parsed = r
        case = {'programs': run.progs, 'compression': run.comp, 'encrypted': run.secret is not None, 'schedule': [d[2] for d in run.decisions][:300]}
        mfs = [p[0] for p in parsed[0][0]] if parsed else None
        mopen = bool(parsed[0][1]) if parsed else None
        mq = [p[0] for p in queue]
        if mfs != tags or mopen or mq != run.queue_left:
            # the wire itself passed the property's oracle (check_run): what no longer checks is that the observed operations are
            # an execution of the model - reported as such, with the schedule for reproduction
            chk.violation(label, '%s:model:%s' % (label, hash(repr(case)) % 10 ** 8), {'case': case, 'expected': {'wire': mfs, 'queue': mq}, 'observed': {'wire': tags, 'queue': run.queue_left},
                                                                                       'no_failing_input_found': True, 'unchecked': 'correspondence: observed operation sequence vs Model/Conc.v (conc_run)'},
                          '%s: replaying the observed operations on the interleaving model gives wire %s queue %s; the real connection produced wire %s queue %s' % (run.progs, mfs, mq, tags, run.queue_left))


def bulk(chk):
    """Long queues: everything queued before a flushing disconnect() reaches the wire, once, in order, however long the queue
    is (the networking thread writes in batches of 300, disconnect() has no such limit); likewise when the networking thread
    drains the queue by itself."""
    from minecraft.networking.connection import Connection
    Raw = make_packets()
    for n in (1, 299, 300, 301, 450, 905):
        for mode in ('disconnect', 'thread', 'thread+disconnect'):
            net = sim.Net([sim.Server([], end='idle')], idle_limit=8).install()
            try:
                conn = Connection('localhost', 25565, username='user', allowed_versions={757}, handle_exception=False)
                conn.connect()
                for i in range(n):
                    p = Raw()
                    p.id = 0x30
                    p.data = bytes([i >> 8, i & 0xff]) + b'x' * (i % 7)
                    conn.write_packet(p)
                if mode != 'disconnect':
                    net.run_threads(conn, max_threads=1)
                if mode == 'thread+disconnect':
                    for i in range(n, n + 350):
                        p = Raw()
                        p.id = 0x30
                        p.data = bytes([i >> 8, i & 0xff])
                        conn.write_packet(p)
                if mode != 'thread':
                    conn.disconnect()
            except Exception as e:
                chk.violation('bulk', 'bulk:%d:%s:exc' % (n, mode), {'case': {'queued': n, 'mode': mode}, 'observed': exn_name(e)}, '%d queued packets, %s: %s raised' % (n, mode, exn_name(e)))
                continue
            finally:
                net.uninstall()
            total = n + (350 if mode == 'thread+disconnect' else 0)
            chk.count('bulk', [n, mode], n > 1)
            try:
                frames = proto.parse_frames(b''.join(net.servers[0].sends))
                got = [(b[0] << 8) | b[1] for pid, b in frames if pid == 0x30]
            except Exception as e:
                got = 'unparseable (%s)' % exn_name(e)
            if got != list(range(total)):
                miss = [i for i in range(total) if not isinstance(got, list) or i not in got][:5]
                chk.violation('bulk', 'bulk:%d:%s' % (n, mode), {'case': {'queued': total, 'mode': mode}, 'observed': {'written': len(got) if isinstance(got, list) else got, 'first_missing': miss}},
                              '%d packets queued, then %s: %s of them are on the wire (first missing: %s)' % (total, mode, len(got) if isinstance(got, list) else got, miss))


def reentrant_disconnect(chk):
    """disconnect() called from an ordinary outgoing listener, i.e. re-entrantly from inside the write of packet j (the write lock
    is re-entrant, and such a listener is how a client says goodbye after its last packet): every packet queued before it
    still reaches the wire exactly once, in order, and the thread ends without an error."""
    from minecraft.networking.connection import Connection
    Raw = make_packets()
    for n, j in ((5, 0), (5, 2), (5, 4), (1, 0), (320, 299), (320, 310)):
        net = sim.Net([sim.Server([], end='idle')], idle_limit=8).install()
        errs = []
        try:
            conn = Connection('localhost', 25565, username='user', allowed_versions={757}, handle_exception=lambda e, i: errs.append(e))
            fired = [False]

            def bye(p):
                if not fired[0] and p.data[:2] == bytes([j >> 8, j & 0xff]):
                    fired[0] = True
                    conn.disconnect()
            conn.register_packet_listener(bye, Raw, outgoing=True)
            conn.connect()
            for i in range(n):
                p = Raw()
                p.id = 0x30
                p.data = bytes([i >> 8, i & 0xff]) + b'y' * (i % 5)
                conn.write_packet(p)
            res = net.run_threads(conn, max_threads=1)
        finally:
            net.uninstall()
        chk.count('reentrant-disconnect', [n, j], True)
        try:
            frames = proto.parse_frames(b''.join(net.servers[0].sends))
            got = [(b[0] << 8) | b[1] for pid, b in frames if pid == 0x30]
        except Exception as e:
            got = 'unparseable (%s)' % exn_name(e)
        what = None
        if got != list(range(n)):
            what = 'the wire carries packets %s' % (got if not isinstance(got, list) or len(got) < 12 else '%s... (%d frames)' % (got[:12], len(got)))
        elif errs or any(isinstance(r[1], tuple) for r in res):
            what = 'the networking thread reported %s' % ([exn_name(e) for e in errs] or [exn_name(r[1][1]) for r in res if isinstance(r[1], tuple)])
        if what:
            chk.violation('reentrant-disconnect', 'reentrant:%d:%d' % (n, j), {'case': {'queued': n, 'disconnect_in_listener_of_packet': j}, 'observed': what},
                          '%d packets queued, an outgoing listener calls disconnect() while packet %d is being written: %s; expected each of 0..%d once, in order' % (n, j, what, n - 1))


def backlog_then_reconnect(chk):
    """'an immediate disconnect sends nothing further' - not on this connection, and not on the next one either: packets left
    in the queue by an immediate disconnect (or queued while disconnected) never reach a later connection of the same object."""
    from minecraft.networking.connection import Connection
    Raw = make_packets()
    for n, when in ((3, 'before'), (40, 'before'), (2, 'after'), (3, 'both')):
        net = sim.Net([sim.Server([], end='idle'), sim.Server([], end='idle')], idle_limit=8).install()
        try:
            conn = Connection('localhost', 25565, username='user', allowed_versions={757}, handle_exception=False)
            conn.connect()
            net.run_threads(conn, max_threads=1)

            def queue(k):
                for i in range(k):
                    p = Raw()
                    p.id = 0x30
                    p.data = bytes([0, i])
                    conn.write_packet(p)
            if when in ('before', 'both'):
                queue(n)
            conn.disconnect(immediate=True)
            if when in ('after', 'both'):
                queue(n)
            conn.connect()
            net.run_threads(conn, max_threads=2)
        except Exception as e:
            chk.violation('backlog', 'backlog:%d:%s:exc' % (n, when), {'case': {'queued': n, 'when': when}, 'observed': exn_name(e)}, 'backlog scenario raised %s' % exn_name(e))
            continue
        finally:
            net.uninstall()
        chk.count('backlog', [n, when], True)
        first = [pid for pid, _b in proto.parse_frames(b''.join(net.servers[0].sends))]
        second = [pid for pid, _b in proto.parse_frames(b''.join(net.servers[1].sends))]
        what = None
        if 0x30 in first:
            what = 'the first connection carries %d of the packets although the disconnect was immediate' % first.count(0x30)
        elif 0x30 in second or len(second) != 2:
            what = 'the connection made afterwards starts with frames %s (expected handshake and login start only)' % [hex(x) for x in second[:6]]
        if what:
            chk.violation('backlog', 'backlog:%d:%s' % (n, when), {'case': {'queued': n, 'queued_when': when + ' the immediate disconnect'}, 'observed': what},
                          '%d packets queued %s an immediate disconnect, then connect(): %s' % (n, when, what))


def random_policy(rng, sticky=0.6):
    def pol(k, runnable, default):
        if rng.random() < sticky:
            return default
        return rng.choice(runnable)
    return pol


def enumerate_schedules(progs, comp, secret, bound, cap):
    """stateless exploration: all schedules with at most [bound] preemptions (up to [cap] executions)"""
    stack, done = [[]], 0
    while stack and done < cap:
        plan = stack.pop()

        def pol(k, runnable, default, plan=plan):
            return plan[k] if k < len(plan) else default
        run = Run(progs, comp, secret).execute(pol)
        done += 1
        yield run
        # alternatives beyond the plan
        pre = 0
        for k, (runnable, default, chosen, cur_runnable) in enumerate(run.decisions):
            if k >= len(plan):
                for alt in runnable:
                    if alt != chosen:
                        cost = pre + (1 if cur_runnable else 0)
                        if cost <= bound:
                            stack.append([d[2] for d in run.decisions[:k]] + [alt])
            if cur_runnable and k > 0 and chosen != run.decisions[k - 1][2]:
                pre += 1


def run(chk):
    common.standard_proof(chk, 'Properties/C12.v')
    rng, th = chk.rng, chk.tier == 'thorough'
    small = [
        [[('q', 1), ('q', 2)], [('f', 3)]],
        [[('q', 1), ('f', 2)], [('q', 3), ('d', False)]],
        [[('f', 1)], [('f', 2)]],
        [[('q', 1), ('q', 2), ('d', False)]],
        [[('q', 1)], [('d', True)]],
        [[('f', 1), ('q', 2)], [('q', 3)], [('d', False)]],
    ]
    good = []
    total = 0
    for progs in small:
        for run_ in enumerate_schedules(progs, None, None, 2, 400 if th else 60):
            total += 1
            chk.count('exhaustive', [progs, [d[2] for d in run_.decisions]], run_.preempt >= 1 and len(progs) >= 2)
            chk.tally('exhaustive:preempt=%d' % min(run_.preempt, 3))
            tags = check_run(chk, run_, 'exhaustive')
            if tags is not None:
                good.append((run_, tags))
    for i in range(400 if th else 60):
        n = rng.randrange(1, 5)
        progs, tag = [], 10
        for t in range(n):
            ops = []
            for _ in range(rng.randrange(1, 5)):
                ops.append((rng.choice('qqf'), tag))
                tag += 1
            progs.append(ops)
        if rng.random() < 0.6:
            progs[rng.randrange(n)].append(('d', rng.random() < 0.3))
        comp = rng.choice([None, None, 0, 16])
        secret = bytes(rng.randrange(256) for _ in range(16)) if rng.random() < 0.4 else None
        run_ = Run(progs, comp, secret).execute(random_policy(rng, rng.choice([0.3, 0.6, 0.85])))
        chk.count('random', [progs, comp, secret is not None, [d[2] for d in run_.decisions]], run_.preempt >= 1 and n >= 2)
        chk.tally('random:threads=%d' % n)
        chk.tally('random:comp=%s:enc=%s' % (comp is not None, secret is not None))
        tags = check_run(chk, run_, 'random')
        if tags is not None:
            good.append((run_, tags))
    replay_on_model(chk, good, 'replay')
    bulk(chk)
    reentrant_disconnect(chk)
    backlog_then_reconnect(chk)
    # the flush that drains the queue in disconnect() with application listeners attached (a veto, before or after the write,
    # concerns that packet only; the packets queued behind it are still written once, in order): C13's direct suite
    import c13
    c13.run_direct(chk, 120)
    import encsess
    encsess.run(chk, 'encrypted-large-writes', 3, rng)
    if good:
        chk.sample('random', {'programs': good[-1][0].progs, 'wire': good[-1][1], 'preemptions': good[-1][0].preempt}, k=1)
    chk.assumptions += ['PARTIAL: the granularity of atomicity is assumed - deque.append / popleft and one socket.send are atomic, a blocking send transmits all its bytes; real OS preemption is represented by the scheduling points only',
                        'threads are real Python threads gated by a baton; exploration of schedules is a search for failing interleavings, the proof covers all of them']


def replay(chk, rp):
    run(chk)
