"""C01 - framed packet stream survives any threshold, cipher and read segmentation."""
import zlib
import common, sim
from common import run_model, res_decode, exn_name

RULE = ('packet sequences (payload sizes 0..several KiB, in particular threshold-1/threshold/threshold+1) x thresholds '
        '{disabled, -1, 0, 1, n} x encryption on/off x partitions of the byte stream into read() results (every cut position for '
        'short streams, 1-byte reads, seeded random partitions). Writer side: real Packet.write (optionally through the real '
        'EncryptedSocketWrapper) parsed by the extracted model reader (model AES-CFB8 for decryption). Reader side: frames from the '
        'model writer under three compress decisions (impl rule / always / never), encrypted by the model cipher, fed to the real '
        'read_packet (through the real EncryptedFileObjectWrapper) under every partition; ids both known and unknown to the decoder '
        'table; the cursor after the last packet must be exactly at the next byte. Non-trivial = at least two packets and a cut '
        'strictly inside a frame; distinct by (packets, threshold, cipher, partition).')


def varint(n):
    out = bytearray()
    while True:
        b = n & 0x7f
        n >>= 7
        out.append(b | (0x80 if n else 0))
        if not n:
            return bytes(out)


def rd_varint(data, i):
    n, sh = 0, 0
    while True:
        b = data[i]
        i += 1
        n |= (b & 0x7f) << sh
        sh += 7
        if not b & 0x80:
            return n, i


def zlib_table(plain, comp):
    """(uncompressed, compressed) pairs of the compressed frames in a plaintext byte stream (harness-side zlib)"""
    tbl, i = [], 0
    try:
        while i < len(plain) and comp:
            ln, i = rd_varint(plain, i)
            fr = plain[i:i + ln]
            i += ln
            dl, j = rd_varint(fr, 0)
            if dl > 0:
                tbl.append([zlib.decompress(fr[j:]), fr[j:]])
    except Exception:
        pass
    return tbl


def gen_sequences(rng, thr, th):
    """lists of (id, payload, known?)"""
    sizes = [0, 1, 2, 5, 127, 128, 300]
    if thr is not None and thr >= 0:
        sizes += [max(0, thr - 2), max(0, thr - 1), thr, thr + 1, thr + 2]
    seqs = []
    mk = lambda n: bytes(rng.choice([0, 1, 0x80, 0xff, rng.randrange(256)]) for _ in range(n)) if rng.random() < 0.5 else bytes([rng.randrange(4)]) * n
    for _ in range(10 if th else 4):
        k = rng.randrange(1, 6)
        seqs.append([(rng.choice([0, 1, 0x7f, 0x80, 0x3fff, 0x4000, 2 ** 21, 2 ** 31 - 1, rng.randrange(300)]), mk(rng.choice(sizes)), rng.random() < 0.7) for _ in range(k)])
    seqs.append([(5, b'', True), (6, b'', False), (7, b'x', True)])
    seqs.append([(0x10, mk(4096 if th else 1500), True), (0x11, mk(2), False), (0x12, mk(70000 if th else 3000), True)])
    return seqs


def partitions(rng, n, th, short):
    """lists of cut positions (sorted, strictly inside 0..n)"""
    out = [[], list(range(1, n))]                       # whole, one byte at a time
    if short:
        out += [[i] for i in range(1, n)]                 # every single cut
    for _ in range(12 if th else 4):
        k = rng.randrange(1, min(n, 12) + 1) if n > 1 else 0
        out.append(sorted(set(rng.randrange(1, n) for _ in range(k))) if n > 1 else [])
    return out


def split(data, cuts):
    segs, last = [], 0
    for c in cuts:
        segs.append(data[last:c])
        last = c
    segs.append(data[last:])
    return [s for s in segs if s]


def make_env():
    from minecraft.networking import connection as C
    from minecraft.networking.packets import Packet
    from minecraft.networking.types import TrailingByteArray
    sim.patch_select(C)

    class Raw(Packet):
        packet_name = 'raw'
        definition = [{'data': TrailingByteArray}]

    class Opt(object):
        pass

    class Conn(object):
        def __init__(self, pv, comp):
            self.context = C.ConnectionContext(protocol_version=pv)
            self.options = Opt()
            self.options.compression_enabled = comp
    return C, Raw, Conn


def impl_read(C, Raw, Conn, segs, comp, secret, known_ids, n, eof=True, gaps=False):
    """real read_packet over a segmented stream; returns ([(id, payload|None)], remaining bytes) or ('err', name, delivered)"""
    from minecraft.networking import encryption
    reactor = C.PacketReactor(Conn(757, comp))
    table = {}
    for i in known_ids:
        table[i] = type('Raw%d' % i, (Raw,), {'id': i})
    reactor.clientbound_packets = table
    if gaps:
        # the segments arrive one at a time: between two of them select() finds nothing to read, once
        paused = []
        for x in segs:
            paused += [x, sim.GAP]
        raw = sim.GapStream(paused[:-1], eof=eof)
    else:
        raw = sim.SegStream(segs, eof=eof)
    stream = raw
    if secret is not None:
        cipher = encryption.create_AES_cipher(secret)
        stream = encryption.EncryptedFileObjectWrapper(raw, cipher.decryptor())
    out = []
    try:
        for _ in range(n):
            p = reactor.read_packet(stream, timeout=0)
            tries = 0
            while p is None and gaps and raw.available() and tries <= len(segs):
                p = reactor.read_packet(stream, timeout=0)        # nothing had arrived yet: the loop asks again on its next turn
                tries += 1
            if p is None:
                return ('err', 'NotReady', out)
            out.append(p)
    except sim.Spin:
        return ('err', 'Spin', look(out))
    except Exception as e:
        return ('err', exn_name(e), look(out))
    return ('ok', look(out), raw.remaining())


def look(kept):
    """the packets are looked at only after the last read (a consumer that keeps what it was given, e.g. hands it to a queue)"""
    return [(p.id, bytes(p.data) if hasattr(p, 'data') else None) for p in kept]


def impl_write(Raw, packets, thr, secret):
    """real Packet.write into a recording socket (optionally through the real encrypting wrapper)"""
    from minecraft.networking import encryption
    from minecraft.networking.connection import ConnectionContext
    sock = sim.RecSocket()
    out = sock
    if secret is not None:
        cipher = encryption.create_AES_cipher(secret)
        out = encryption.EncryptedSocketWrapper(sock, cipher.encryptor(), cipher.decryptor())
    import reent
    for n, (pid, data, _k) in enumerate(packets):
        p = Raw(context=ConnectionContext(protocol_version=757))
        p.id = pid
        p.data = data
        if n % 2 == 1:
            # writes that fail (another connection's socket is gone; a field cannot be encoded) in between: the caller
            # handles the error, and the next frame on this stream must be unaffected
            try:
                p.write(reent.FailingSink(n % 4 // 2), thr)
            except Exception:
                pass
            q = Raw(context=ConnectionContext(protocol_version=757))
            q.id = pid
            q.data = None
            try:
                q.write(sim.RecSocket(), thr)
            except Exception:
                pass
        p.write(out, thr)
    return sock.sends


def interleaved_readers(chk, C, Raw, Conn, rng):
    """Two connections in one process: while connection A is in the middle of a frame that arrived in two pieces, connection B
    reads a whole frame (here: from inside A's second read, which is what a thread switch at that point amounts to).  Both
    packets must come out intact - nothing of a frame in progress is shared between reactors."""
    for comp in (False, True):
        for na, nb, cut in ((10, 3, 4), (300, 70, 1), (5, 600, 7), (64, 64, 30)):
            pa = bytes(rng.randrange(256) for _ in range(na))
            pb = bytes(rng.randrange(256) for _ in range(nb))

            def fr(pid, payload):
                body = varint(pid) + payload
                if comp:
                    body = (varint(len(body)) + zlib.compress(body)) if len(body) >= 64 else b'\x00' + body
                return varint(len(body)) + body
            fa, fb = fr(5, pa), fr(6, pb)
            ra, rb = C.PacketReactor(Conn(757, comp)), C.PacketReactor(Conn(757, comp))
            for r in (ra, rb):
                r.clientbound_packets = {5: type('Raw5', (Raw,), {'id': 5}), 6: type('Raw6', (Raw,), {'id': 6})}
            sb = sim.SegStream([fb])
            got_b = []

            class Hooked(sim.SegStream):
                def read(self_, n=-1):
                    if self_.reads == 2 and not got_b:          # the read that fetches the rest of A's frame
                        try:
                            p = rb.read_packet(sb, timeout=0)
                            got_b.append((p.id, bytes(p.data)))
                        except Exception as e:
                            got_b.append(('raised', exn_name(e)))
                    return sim.SegStream.read(self_, n)
            cutpos = min(len(fa) - 1, len(varint(len(fa))) + cut)
            sa = Hooked([fa[:cutpos], fa[cutpos:]])
            chk.count('interleaved-readers', [comp, na, nb, cut], True)
            try:
                p = ra.read_packet(sa, timeout=0)
                got_a = (p.id, bytes(p.data))
            except Exception as e:
                got_a = ('raised', exn_name(e))
            if got_a != (5, pa) or got_b != [(6, pb)]:
                chk.violation('interleaved-readers', 'interleaved:%s:%d:%d' % (comp, na, nb), {'case': {'compression': comp, 'frame_a_bytes': len(fa), 'cut': cutpos, 'frame_b_bytes': len(fb)},
                                                                                                'observed': {'a': repr(got_a)[:120], 'b': repr(got_b)[:120]}},
                              'connection A was %d bytes into a %d-byte frame when connection B read a frame: A delivered %s, B delivered %s' % (
                                  cutpos, len(fa), 'its packet' if got_a == (5, pa) else repr(got_a)[:60], 'its packet' if got_b == [(6, pb)] else repr(got_b)[:60]))


def run(chk):
    common.standard_proof(chk, 'Properties/C01.v')
    C, Raw, Conn = make_env()
    rng, th = chk.rng, chk.tier == 'thorough'
    thresholds = [None, -1, 0, 1, 64, 256] + ([rng.randrange(2, 2000) for _ in range(2)] if th else [rng.randrange(2, 600)])
    secrets = [None, bytes(range(16)), bytes(rng.randrange(256) for _ in range(16))]
    if not th:
        secrets = secrets[:2]
    combos = []
    for thr in thresholds:
        for seq in gen_sequences(rng, thr, th):
            kn = {}
            seq = [(i, d, kn.setdefault(i, k)) for i, d, k in seq]      # an id is either known to the decoder table or not
            for secret in secrets:
                # the model cipher costs one AES block per byte: very long frames go through it under the first threshold only
                sq = seq if (secret is None or thr is None) else [(i, d[:9000], k) for i, d, k in seq]
                combos.append((thr, thr is not None, sq, secret))
    writer_side(chk, Raw, combos)
    # frames stay whole when several threads write (queued and forced writes, a disconnect) under compression and the cipher:
    # a sample of C12's explored schedules, judged here only on what C01 states - the wire parses into the packets written
    import c12
    for progs in ([[('q', 1), ('q', 2), ('q', 3)], [('f', 4), ('f', 5)]], [[('f', 1), ('q', 2)], [('f', 3), ('q', 4)], [('q', 5), ('f', 6)]], [[('q', 1), ('f', 2), ('q', 3)], [('q', 4), ('q', 5), ('d', False)]]):
        for comp, secret in ((None, None), (16, None), (0, bytes(range(16)))):
            for _ in range(60 if th else 14):
                run_ = c12.Run(progs, comp, secret).execute(c12.random_policy(rng, rng.choice([0.3, 0.6])))
                chk.count('writers', [progs, comp, secret is not None, [d[2] for d in run_.decisions]], run_.preempt >= 1)
                c12.check_run(chk, run_, 'writers')
    reader_side(chk, C, Raw, Conn, combos, rng, th)
    interleaved_readers(chk, C, Raw, Conn, rng)
    import c15, c10
    c15.whole_streams(chk, 'connection')
    c10.relogin(chk)          # compression / cipher state of an earlier session never frames the next one
    c12.reentrant_disconnect(chk)      # a listener that disconnects from inside a write: every queued packet is framed once
    transient_send_fault(chk, Raw, [c for c in combos if sum(len(d) for _i, d, _k in c[2]) < 20000], rng)
    chk.assumptions += ['zlib is library code: in the model inflate/deflate are a table computed by the harness with Python zlib (the theorems hold for every codec with inflate(deflate x) = x)',
                        'BytesIO / select / the kernel socket layer are replaced by the simulated transport: a read returns 1..n bytes or, at end of stream, none']


def writer_side(chk, Raw, combos):
    live = []
    for thr, comp, seq, secret in combos:
        try:
            sends = impl_write(Raw, seq, thr, secret)
        except Exception as e:
            chk.violation('writer', 'writer:raise:%s' % exn_name(e), {'case': case_of(seq, thr, secret, None), 'observed': repr(e)[:200]}, 'Packet.write raised %s' % exn_name(e))
            continue
        live.append([thr, comp, seq, secret, sends, b''.join(sends)])
    enc = [x for x in live if x[3] is not None]
    dec = run_model([('mc_decrypt', [x[3], x[4]]) for x in enc])
    for x, chunks in zip(enc, dec):
        x.append(b''.join(bytes(c) for c in chunks))
    for x in live:
        if x[3] is None:
            x.append(x[5])
    res = run_model([('read_n', [zlib_table(x[6], x[1]), x[1], len(x[2]), [x[6]]]) for x in live])
    for (thr, comp, seq, secret, sends, wire, plain), r in zip(live, res):
        r = res_decode(r)
        chk.count('writer', [thr, secret.hex() if secret else None, [(i, d.hex()[:64], len(d)) for i, d, _k in seq]], len(seq) >= 2)
        chk.tally('writer:thr=%s:enc=%s' % (thr, secret is not None))
        exp = [[i, list(d)] for i, d, _k in seq]
        if r[0] != 'ok' or r[1][0] != exp or r[1][1] != []:
            got = r[1][0] if r[0] == 'ok' else r
            chk.violation('writer', 'writer:%s:%s' % (thr, secret is not None), {'case': case_of(seq, thr, secret, None), 'wire': wire.hex()[:2000], 'observed': repr(got)[:600]},
                          'packets written with threshold %s%s do not parse back as the same (id, payload) sequence' % (thr, ', encrypted' if secret else ''))


def transient_send_fault(chk, Raw, combos, rng):
    """One send() call of the underlying socket fails once with a transient error (a socket timeout the application set, a
    signal): the error reaches the caller of Packet.write, and what is on the wire is a prefix of the stream a fault-free run
    writes (the caller gives the connection up); if an implementation absorbs the error instead and goes on, the complete wire
    must still be that stream - never a frame, or part of one, twice."""
    import socket as _socket
    from minecraft.networking import encryption
    from minecraft.networking.connection import ConnectionContext

    class Faulty(object):
        def __init__(self, at, exc):
            self.sends, self.calls, self.at, self.exc = [], 0, at, exc

        def send(self, data):
            self.calls += 1
            if self.calls == self.at:
                raise self.exc
            self.sends.append(bytes(data))
            return len(data)
    for thr, comp, seq, secret in combos:
        if not seq:
            continue
        clean = b''.join(impl_write(Raw, seq, thr, secret))
        at = rng.randrange(1, 2 * len(seq) + 1)
        exc = rng.choice([_socket.timeout('timed out'), InterruptedError(4, 'Interrupted system call')])
        sock = Faulty(at, exc)
        out = sock
        if secret is not None:
            cipher = encryption.create_AES_cipher(secret)
            out = encryption.EncryptedSocketWrapper(sock, cipher.encryptor(), cipher.decryptor())
        raised = None
        for n, (pid, data, _k) in enumerate(seq):
            p = Raw(context=ConnectionContext(protocol_version=757))
            p.id, p.data = pid, data
            try:
                p.write(out, thr)
            except Exception as e:
                raised = (n, e)
                break
        wire = b''.join(sock.sends)
        chk.count('writer-transient-fault', [thr, secret.hex() if secret else None, at, type(exc).__name__, [(i, d.hex()[:32], len(d)) for i, d, _k in seq]], True)
        what = None
        if raised is not None and raised[1] is not exc:
            what = 'the caller of Packet.write got %s, not the error the socket raised (%s)' % (exn_name(raised[1]), exn_name(exc))
        elif raised is not None and not clean.startswith(wire):
            what = 'after the error reached the caller the wire is not a prefix of the fault-free stream'
        elif raised is None and sock.calls >= at and wire != clean:
            what = 'the error did not reach the caller, and the wire (%d bytes) is not the fault-free stream (%d bytes)' % (len(wire), len(clean))
        if what:
            chk.violation('writer', 'writer-transient:%s:%s:%d' % (thr, secret is not None, at), {'case': dict(case_of(seq, thr, secret, None), failing_send_call=at, error=exn_name(exc)),
                          'wire': wire.hex()[:1000], 'fault_free_wire': clean.hex()[:1000], 'observed': what},
                          'threshold %s%s, send() call %d fails once with %s: %s' % (thr, ', encrypted' if secret else '', at, exn_name(exc), what))


def case_of(seq, thr, secret, cuts):
    return {'packets': [[i, d.hex() if len(d) <= 64 else '%s..(%d bytes)' % (d.hex()[:32], len(d)), k] for i, d, k in seq], 'threshold': thr,
            'secret': secret.hex() if secret else None, 'cuts': cuts if cuts is None or len(cuts) < 40 else '%d cuts' % len(cuts)}


def reader_side(chk, C, Raw, Conn, combos, rng, th):
    jobs = []
    reqs = []
    for thr, comp, seq, secret in combos:
        tbl = [[varint(i) + d, zlib.compress(varint(i) + d)] for i, d, _k in seq]
        for m in ([0, 1, 2] if comp else [0]):
            reqs.append(('write_all', [tbl, [] if thr is None else [thr], m, [[i, d] for i, d, _k in seq]]))
            jobs.append([thr, comp, seq, secret, m])
    res = run_model(reqs)
    live = []
    for job, r in zip(jobs, res):
        r = res_decode(r, lambda x: bytes(x))
        if r[0] != 'ok':
            chk.broken('model-writer', 'model writer failed: %r' % (r,))
            continue
        tail = bytes(rng.randrange(256) for _ in range(rng.choice([0, 3])))
        live.append(job + [tail, r[1] + tail])
    enc = [x for x in live if x[3] is not None]
    ct = run_model([('mc_encrypt', [x[3], [x[6]]]) for x in enc])
    for x, c in zip(enc, ct):
        x.append(bytes(c[0]))
    for x in live:
        if x[3] is None:
            x.append(x[6])
    failed = set()
    for thr, comp, seq, secret, m, tail, plain, wire in live:
        if (thr, m, secret is not None) in failed:
            continue
        known = sorted(set(i for i, _d, k in seq if k))
        n = len(wire)
        short = n <= (400 if th else 100)
        exp = [(i, d if k else None) for i, d, k in seq]
        for cuts in partitions(rng, n, th, short):
            segs = split(wire, cuts)
            got = impl_read(C, Raw, Conn, segs, comp, secret, known, len(seq))
            chk.count('reader', [thr, m, secret.hex() if secret else None, wire.hex()[:200], n, cuts[:50]], len(seq) >= 2 and len(cuts) > 0)
            chk.tally('reader:mode=%d:enc=%s:%s' % (m, secret is not None, 'bytewise' if len(cuts) == n - 1 and n > 1 else 'whole' if not cuts else 'cuts'))
            what = None
            if got[0] == 'ok' and got[1] == exp and 0 < len(cuts) <= 12:
                # the same cuts with a pause at each: the next segment has not arrived when select() is next asked
                slow = impl_read(C, Raw, Conn, segs, comp, secret, known, len(seq), gaps=True)
                chk.tally('reader:paused-arrival')
                if slow != got:
                    got = slow
                    if got[0] == 'ok' and got[1] != exp:
                        k = next((j for j, (a, b) in enumerate(zip(got[1], exp)) if a != b), min(len(got[1]), len(exp)))
                        what = 'with a pause at each cut, packet %d read back as %r, written %r' % (k, got[1][k] if k < len(got[1]) else None, exp[k] if k < len(exp) else None)
                    elif got[0] == 'ok':
                        what = 'with a pause at each cut, %d bytes remain after the last packet (without pauses %d)' % (len(got[2]), len(tail))
                    else:
                        what = 'with a pause at each cut, read_packet raised %s after delivering %d of %d packets' % (got[1], len(got[2]), len(seq))
            if what:
                pass
            elif got[0] != 'ok':
                what = 'read_packet raised %s after delivering %d of %d packets' % (got[1], len(got[2]), len(seq))
            elif got[1] != exp:
                k = next((j for j, (a, b) in enumerate(zip(got[1], exp)) if a != b), min(len(got[1]), len(exp)))
                what = 'packet %d read back as %r, written %r' % (k, got[1][k] if k < len(got[1]) else None, exp[k] if k < len(exp) else None)
            elif len(got[2]) != len(tail) or (secret is None and got[2] != tail):
                what = 'cursor after the last packet: %d bytes remain, expected the %d bytes following the last frame' % (len(got[2]), len(tail))
            if what:
                chk.violation('reader', 'reader:%s:%s:%s' % (thr, m, secret is not None), {'case': dict(case_of(seq, thr, secret, cuts), compress_mode=m), 'wire': wire.hex()[:2000], 'observed': what[:400]},
                              'threshold %s, compress decision %d%s, %d cuts: %s' % (thr, m, ', encrypted' if secret else '', len(cuts), what[:200]))
                failed.add((thr, m, secret is not None))
                break
    if live:
        chk.sample('reader', case_of(live[0][2][:2], live[0][0], live[0][3], None), k=2)


def replay(chk, rp):
    run(chk)
