"""C09 - status queries and version negotiation pick the right version or the right error."""
import json, struct
import common, sim, proto
from common import run_model, exn_name

RULE = ('allowed-version sets (singletons, pairs, prefixes, all; given as names or numbers; duplicates; unknown / unsupported entries) x '
        'default versions x server behaviours (every supported protocol, unsupported and unknown numbers, missing version object, missing '
        'protocol key, empty object, immediate close) through the simulated transport with scripted multi-connection servers: for '
        'every TCP connection the handshake fields (protocol, host, port, next state) and the packet after it (status request, or login '
        'start naming the user / profile), the outcome (login version, VersionMismatch with server_protocol and supported-vs-not-allowed '
        'wording, invalid status, ValueError at construction) against the extracted model; plus plain status queries in all handler modes '
        '(default, custom, disabled; ping on/off). Non-trivial = more than one allowed version; distinct by configuration.')


def id_code(s):
    return int.from_bytes(b'\x01' + s.encode('utf-8'), 'big')


def parse_conn(ids_by_pv, data):
    """client bytes of one TCP connection -> (pv, host, port, next, follow-up)"""
    fr = proto.parse_frames(data)
    pid, body = fr[0]
    pv, i = proto.rd_varint(body, 0)
    n, i = proto.rd_varint(body, i)
    host = body[i:i + n].decode('utf-8')
    i += n
    port = struct.unpack('>H', body[i:i + 2])[0]
    nxt, i = proto.rd_varint(body, i + 2)
    follow = None
    if len(fr) > 1:
        pid2, b2 = fr[1]
        if nxt == 1 and pid2 == 0 and b2 == b'':
            follow = ('request',)
        elif nxt == 2:
            n2, j = proto.rd_varint(b2, 0)
            follow = ('login_start', pid2, b2[j:j + n2].decode('utf-8'))
    return [pv, host, port, nxt, follow, [f[0] for f in fr[2:]]]


def run(chk):
    common.standard_proof(chk, 'Properties/C09.v')
    negotiate(chk, 'negotiate', 330)
    callers_collection(chk)
    status_queries(chk)
    status_after_session(chk)
    runtime_tables(chk)


def runtime_tables(chk):
    """The version tables are edited at run time (the documented dynamic version support: edit the records, call initglobals):
    a newer release and a snapshot become supported, the two oldest protocols are withdrawn.  Construction, negotiation and the
    wording of a mismatch follow the tables as they are now - the model is given the module's current tables."""
    import minecraft as mc
    saved = list(mc.KNOWN_MINECRAFT_VERSION_RECORDS)
    try:
        old = list(mc.SUPPORTED_PROTOCOL_VERSIONS)[:2]
        recs = [v._replace(supported=False) if v.protocol in old else v for v in saved]
        recs += [mc.Version('99w01a', 9989, True), mc.Version('99.9', 9990, True), mc.Version('99.10', 9991, False)]
        mc.KNOWN_MINECRAFT_VERSION_RECORDS[:] = recs
        mc.initglobals(use_known_records=True)
        extra = [[9990], ['99.9'], [9989, 757], [old[0]], [old[1], 757], [9991], None, [757]]
        behs = [('proto', 9990), ('proto', 9989), ('proto', old[0]), ('proto', 9991), ('proto', 757)]
        negotiate(chk, 'negotiate-after-runtime-edit', 120, sets=extra, behs=behs)
    finally:
        mc.KNOWN_MINECRAFT_VERSION_RECORDS[:] = saved
        mc.initglobals(use_known_records=True)


def negotiate(chk, suite, limit, sets=None, behs=None):
    import minecraft
    from minecraft.networking.connection import Connection
    from minecraft.exceptions import VersionMismatch
    rng, th = chk.rng, chk.tier == 'thorough'
    sup = list(minecraft.SUPPORTED_PROTOCOL_VERSIONS)
    names = dict(minecraft.SUPPORTED_MINECRAFT_VERSIONS)
    inv = {}
    for k, v in names.items():
        inv.setdefault(v, k)
    known = list(minecraft.KNOWN_PROTOCOL_VERSIONS)
    unsup = [p for p in known if p not in sup]
    idx = dict(minecraft.PROTOCOL_VERSION_INDICES)
    env = [sup, [[id_code(k), v] for k, v in names.items()], [[k, v] for k, v in idx.items()]]

    def spec(p):
        """give a protocol number as a number or as one of its names"""
        if isinstance(p, int) and p in inv and rng.random() < 0.5:
            return ('name', inv[p])
        return ('num', p) if isinstance(p, int) else ('other', p)
    plan = []
    fixed_sets, fixed_behs = sets, behs
    sets = [None, [757], [47], [757, 757], [47, 757], [340, 47], sup[:1], sup[:2], sup[:10], sup[-3:], sup, [sup[0], sup[-1]], [], [5], [47, 9999], ['1.8', 757], ['nonsense'], [None], [4.5]]
    # a protocol number listed under several version names that are not adjacent in the published list (754: 1.16.4 ... snapshots ... 1.16.5):
    # "latest" is decided by the order of protocol numbers (PROTOCOL_VERSION_INDICES), not by where a name stands in the list
    order_ = list(names.items())
    for p in sorted(set(v for _k, v in order_)):
        pos = [i for i, (_k, v) in enumerate(order_) if v == p]
        between = [order_[i] for i in range(pos[0], pos[-1]) if order_[i][1] != p]
        if between:
            sets.append([p, between[-1][1]])
            sets.append([order_[pos[-1]][0], between[0][0]])
            sets.append([between[len(between) // 2][1], order_[pos[0]][0], sup[0]])
    for _ in range(80 if th else 25):
        k = rng.choice([1, 2, 2, 3, 5])
        sets.append([rng.choice(sup) for _ in range(k)])
    behs = [('closed',), ('empty',), ('noversion',), ('noproto',), ('proto', 757), ('proto', 47), ('proto', sup[len(sup) // 2]), ('proto', unsup[0] if unsup else 3), ('proto', 99999), ('proto', 0), ('proto', -1)]
    for al in sets:
        for _ in range(len(behs) + (6 if th else 1)):
            beh = behs[_] if _ < len(behs) else ('proto', rng.choice(sup + unsup))
            ini = rng.choice([None, None, 757, 47, '1.12.2', rng.choice(sup), 5, 'bogus'])
            plan.append((al, ini, beh))
    if not th or fixed_sets:
        rng.shuffle(plan)
        plan = plan[:limit]
    if fixed_sets:
        plan = [(al, ini, beh) for al in fixed_sets for beh in fixed_behs for ini in (None, 757)] + plan[:limit // 3]
    elif th:
        for p in sup:                                   # every supported protocol as the server's answer
            plan.append((rng.choice([sup, sup[:40], [p, 757], [47, 757]]), rng.choice([None, 47]), ('proto', p)))
    reqs, obs = [], []
    for al, ini, beh in plan:
        al_spec = None if al is None else [spec(p) if isinstance(p, int) else (('name', p) if isinstance(p, str) else ('other', p)) for p in al]
        ini_spec = None if ini is None else (('name', ini) if isinstance(ini, str) else ('num', ini))
        to_py = lambda s: s[1]
        enc = lambda s: [0, id_code(s[1])] if s[0] == 'name' else [1, s[1]] if s[0] == 'num' else [2]
        # the server's status reply
        # the version name is free text chosen by the server
        ver_name = rng.choice(['SomeServer 1.x', 'SomeServer 1.x', 'Paper 1.8.8 (100% vanilla)', '%server_version%', '%s', '%d%%', '{0} {name}', '',
                               '\u00a7aBungee 1.8-1.18', 'x' * 300, '1.12.2\n', '%(protocol)s', '\\x00 "quoted"'])
        if beh[0] == 'closed':
            status = None
        elif beh[0] == 'empty':
            status = {}
        elif beh[0] == 'noversion':
            status = {'description': 'hi', 'players': {'max': 1, 'online': 0}}
        elif beh[0] == 'noproto':
            status = {'version': {'name': ver_name}, 'description': 'x'}
        else:
            status = {'version': {'name': ver_name, 'protocol': beh[1]}, 'description': {'text': 'x'}}
            if rng.random() < 0.25:
                # the version object gives the protocol number only (the name is informational and may be absent)
                del status['version']['name']
                ver_name = None
            if rng.random() < 0.12:
                # a long message of the day (within the 32767-character limit of a protocol string, far beyond it in bytes)
                status['description'] = {'text': rng.choice(['\u4e16\u754c' * 5600, 'x' * 32000, '\U0001f600' * 7000])}
        chunks = [] if status is None else [proto.frame(0, proto.string(json.dumps(status)))]
        servers = [sim.Server([], end='idle'), sim.Server([], end='idle'), sim.Server([], end='idle')]

        def first(data, chunks=chunks, status=status, srv=servers[0]):
            # the server answers a status handshake with its status (or closes); a login handshake with silence
            try:
                body = proto.parse_frames(data)[0][1]
            except Exception:
                return
            if body and body[-1] == 1:
                srv.chunks.extend(chunks)
                srv.end = 'eof' if status is None else 'idle'
        servers[0].on_first_frame = first
        net = sim.Net(servers).install()
        o = {}
        try:
            try:
                given = None if al_spec is None else shape(rng, [to_py(s) for s in al_spec])
                snapshot = (type(given), sorted(map(repr, given))) if isinstance(given, (set, list, tuple)) else None
                # who logs in: an offline user name, or an authentication token whose selected profile names the player - whatever
                # else the token holds (one rebuilt from saved tokens and refreshed has a profile but no account name)
                who = dict(username='user')
                if rng.random() < 0.3:
                    from minecraft import authentication as A
                    tok = A.AuthenticationToken(username=rng.choice([None, '', 'account@example.org']), access_token='ACC', client_token='CLI')
                    tok.profile = A.Profile(id_='0123456789abcdef0123456789abcdef', name='user')
                    who = dict(auth_token=tok, username=rng.choice([None, 'OfflineName']))
                conn = Connection('example.org', 25570, allowed_versions=given,
                                  initial_version=None if ini_spec is None else to_py(ini_spec), **who)
            except ValueError:
                o['construct'] = 'ValueError'
                conn = None
            except Exception as e:
                o['construct'] = exn_name(e)
                conn = None
            if conn is not None:
                conn.connect()
                res = net.run_threads(conn)
                o['conns'] = [parse_conn(None, b''.join(s.sends)) for s in servers if s.sends]
                if snapshot is not None and (type(given), sorted(map(repr, given))) != snapshot:
                    o['callers_collection'] = 'changed from %s to %s' % (snapshot[1], sorted(map(repr, given)))
                raised = [r[1][1] for r in res if isinstance(r[1], tuple)]
                if raised:
                    e = raised[0]
                    if isinstance(e, VersionMismatch):
                        o['outcome'] = [1, e.server_protocol, 'supported, but not allowed' in str(e), 'not supported' in str(e), str(e.server_protocol) in str(e), e.server_version, ver_name, ver_name is None or ver_name in str(e)]
                    elif isinstance(e, IOError) and 'Invalid server status' in str(e):
                        o['outcome'] = [2]
                    else:
                        o['outcome'] = ['raised', exn_name(e), str(e)[:80]]
                else:
                    login = [c for c in o['conns'] if c[3] == 2]
                    o['outcome'] = [0, login[-1][0]] if login else ['none']
        finally:
            net.uninstall()
        obs.append(o)
        reqs.append(('negotiate', env + [[] if al_spec is None else [[enc(s) for s in al_spec]], [] if ini_spec is None else [enc(ini_spec)],
                                         {'closed': [0], 'empty': [1], 'noversion': [2], 'noproto': [3]}.get(beh[0], [4, beh[1] if len(beh) > 1 else 0])]))
    res = run_model(reqs)
    for (al, ini, beh), o, r in zip(plan, obs, res):
        case = {'allowed': al if al is None or len(al) < 12 else '%d versions' % len(al), 'initial': ini, 'server': list(beh)}
        chk.count(suite, [repr(al)[:300], ini, beh], al is None or len(set(map(str, al))) > 1)
        chk.tally('server:%s' % beh[0])
        what = None
        if o.get('callers_collection'):
            what = 'the collection the caller passed as allowed_versions was modified by the connection: %s' % o['callers_collection']
        elif not r:
            if o.get('construct') != 'ValueError':
                what = 'construction accepted a version set the library cannot serve (%s)' % (o.get('construct') or 'no error')
            chk.tally('outcome:ValueError')
        elif 'construct' in o:
            what = 'construction raised %s for a valid version set' % o['construct']
        else:
            alw, d, conns, out = r
            exp_conns = [[c[0], 'example.org', 25570, c[1], ('request',) if c[2] == 0 else 'login'] for c in conns]
            got_conns = [[c[0], c[1], c[2], c[3], c[4] if c[4] == ('request',) else 'login' if c[4] and c[4][0] == 'login_start' and c[4][2] == 'user' else c[4]] for c in o['conns']]
            chk.tally('outcome:%s' % ['login', 'mismatch', 'invalid', 'none'][out[0]])
            if got_conns != exp_conns:
                what = 'connections made: %s; expected %s' % (got_conns, exp_conns)
            elif out[0] == 0 and o['outcome'] != [0, out[1]]:
                what = 'outcome %s; expected login with protocol %d' % (o['outcome'], out[1])
            elif out[0] == 1:
                oo = o['outcome']
                if oo[0] != 1 or oo[1] != out[1]:
                    what = 'outcome %s; expected a version mismatch naming protocol %d' % (oo, out[1])
                elif bool(out[2]) != oo[2] or bool(out[2]) == oo[3] and not oo[2]:
                    what = 'the mismatch error says %s; protocol %d is %s' % ('"supported, but not allowed"' if oo[2] else '"not supported"', out[1], 'supported' if out[2] else 'not supported')
                elif not oo[4]:
                    what = 'the mismatch error does not name the server\'s protocol %d' % out[1]
                elif oo[5] != oo[6] or not oo[7]:
                    what = 'the mismatch error does not carry the server\'s version name %r (server_version=%r)' % (oo[6], oo[5])
            elif out[0] == 2 and o['outcome'] != [2]:
                what = 'outcome %s; an empty status object must be rejected as invalid' % (o['outcome'],)
        if what:
            chk.violation(suite, '%s:%s' % (suite, hash(repr(case)) % 10 ** 8), {'case': case, 'observed': o, 'expected': r}, 'allowed=%s initial=%s server=%s: %s' % (case['allowed'], ini, list(beh), what))
    if suite == 'negotiate':
      chk.sample('negotiate', {'allowed': [47, 757], 'server': ['proto', 47], 'conns': obs[0].get('conns')}, k=1)
    chk.assumptions += ['json.loads is library code: the model starts from the shape of the parsed status object; the harness generates the text',
                        'the clock (timeit.default_timer) is replaced by a deterministic monotone fake']


def status_after_session(chk):
    """A status query on an object that has been through a play session in which the server switched compression on: the query
    is a new conversation - handshake and request go out in the plain frame format, the reply is understood, the connection is
    closed and the exit callback runs."""
    from minecraft.networking.connection import Connection
    import builtins
    for pv in (47, 340, 757):
        ids = proto.Ids(pv)
        for thr in (0, 64, 256):
            first = [proto.frame(ids.set_compression, proto.varint(thr)), proto.frame(ids.login_success, ids.b_login_success(), thr),
                     proto.frame(ids.play_disconnect, proto.string('{"text":"bye"}'), thr)]
            status = {'version': {'name': 'x', 'protocol': pv}, 'players': {'online': 1}}
            net = sim.Net([sim.Server([b''.join(first)], end='idle'), sim.Server([proto.frame(0, proto.string(json.dumps(status)))], end='idle')]).install()
            got, exits, excs = [], [], []
            rp = builtins.print
            builtins.print = lambda *a, **k: None
            try:
                conn = Connection('example.org', 25570, username='u', allowed_versions=[pv], handle_exit=lambda: exits.append(1), handle_exception=lambda e, i: excs.append(e))
                conn.connect()
                net.run_threads(conn)
                conn.status(handle_status=lambda d: got.append(d), handle_ping=False)
                net.run_threads(conn)
            except Exception as e:
                excs.append(e)
            finally:
                builtins.print = rp
                net.uninstall()
            chk.count('status-after-session', [pv, thr], True)
            what = None
            try:
                hs = parse_conn(None, b''.join(net.servers[1].sends))
                if hs[:4] != [pv, 'example.org', 25570, 1] or hs[4] != ('request',):
                    what = 'the status connection starts with %s' % (hs[:5],)
                elif got != [status] or exits != [1, 1] or excs:
                    what = 'status handler calls %s, exit callbacks %d (one per conversation), errors %s' % (got, len(exits), [exn_name(e) for e in excs])
            except Exception as e:
                what = 'the status connection does not open with a plain handshake and request (%s): %s' % (exn_name(e), b''.join(net.servers[1].sends)[:16].hex())
            if what:
                chk.violation('status-after-session', 'status-after-session:%d:%d' % (pv, thr), {'case': {'proto': pv, 'threshold_of_the_earlier_session': thr}, 'observed': what},
                              'protocol %d, status() after a play session with compression threshold %d: %s' % (pv, thr, what))


def callers_collection(chk):
    """The collection passed as allowed_versions stays the caller's: a negotiation does not change it, and a second Connection
    made from the same collection negotiates again (status query first) instead of inheriting the first one's outcome."""
    from minecraft.networking.connection import Connection
    for mk in (set, list, lambda x: dict.fromkeys(x)):
        for reply in (340, 47):
            given = mk([47, 340, 757])
            before = sorted(given)
            status = {'version': {'name': 'x', 'protocol': reply}, 'description': 'x'}
            conns = []
            for k in range(2):
                servers = [sim.Server([proto.frame(0, proto.string(json.dumps(status)))], end='idle'), sim.Server([], end='idle'), sim.Server([], end='idle')]
                net = sim.Net(servers).install()
                try:
                    conn = Connection('example.org', 25570, username='user', allowed_versions=given)
                    conn.connect()
                    net.run_threads(conn)
                    conns.append([parse_conn(None, b''.join(s_.sends))[:4] for s_ in servers if s_.sends])
                finally:
                    net.uninstall()
            chk.count('callers-collection', [type(given).__name__, reply], True)
            exp = [[757, 'example.org', 25570, 1], [reply, 'example.org', 25570, 2]]
            what = None
            if sorted(given) != before:
                what = 'the %s passed as allowed_versions was changed from %s to %s' % (type(given).__name__, before, sorted(given))
            elif conns != [exp, exp]:
                what = 'two connections made from the same %s behaved as %s; each should query the status and then log in with %d' % (type(given).__name__, conns, reply)
            if what:
                chk.violation('callers-collection', 'callers-collection:%s:%d' % (type(given).__name__, reply), {'case': {'allowed_versions': before, 'container': type(given).__name__, 'server_protocol': reply}, 'observed': what}, what)


def shape(rng, items):
    """the same versions as the kinds of iterable a caller may pass (the order of a list is the caller's; sets have their own)"""
    k = rng.randrange(8)
    if k == 7:
        return set(items)
    if k == 0:
        return tuple(items)
    if k == 1:
        return (x for x in items)                 # a generator: can be iterated once
    if k == 2:
        return iter(list(items))
    if k == 3:
        return map(lambda x: x, items)
    if k == 4:
        return dict.fromkeys(items).keys()
    return list(items)


def status_queries(chk):
    from minecraft.networking.connection import Connection
    rng = chk.rng
    for mode_s in ('default', 'custom', 'disabled'):
        for mode_p in ('default', 'custom', 'disabled', 'omitted'):
            for pv in (47, 757):
                status = {'version': {'name': 'x', 'protocol': pv}, 'players': {'online': rng.randrange(50)}}
                # the clock's first reading becomes the ping payload; the server echoes it
                t_ping = int(1000 * (1000.0 + 0.0371))
                chunks = [proto.frame(0, proto.string(json.dumps(status)))]
                pinging = mode_p in ('default', 'custom')
                if pinging:
                    chunks.append(proto.frame(1, struct.pack('>q', t_ping)))
                net = sim.Net([sim.Server(chunks, end='idle')]).install()
                got_s, got_p, exits, printed = [], [], [], []
                try:
                    import builtins
                    conn = Connection('example.org', 25570, username='u', allowed_versions=[pv], handle_exit=lambda: exits.append(1))
                    kw = {}
                    if mode_s == 'custom':
                        kw['handle_status'] = lambda d: got_s.append(d)
                    elif mode_s == 'disabled':
                        kw['handle_status'] = False
                    if mode_p == 'custom':
                        kw['handle_ping'] = lambda l: got_p.append(l)
                    elif mode_p == 'disabled':
                        kw['handle_ping'] = False
                    elif mode_p == 'default':
                        kw['handle_ping'] = None      # the default handler (prints); omitting the argument means no ping
                    real_print = builtins.print
                    builtins.print = lambda *a, **k: printed.append(a)
                    try:
                        conn.status(**kw)
                        res = net.run_threads(conn)
                    finally:
                        builtins.print = real_print
                finally:
                    net.uninstall()
                srv = net.servers[0]
                fr = proto.parse_frames(b''.join(srv.sends))
                what = None
                hs = parse_conn(None, b''.join(srv.sends))
                chk.count('status', [mode_s, mode_p, pv], True)
                if hs[:4] != [pv, 'example.org', 25570, 1] or hs[4] != ('request',):
                    what = 'status connection starts with %s' % hs[:5]
                elif (len(fr) == 3 and fr[2][0] == 1) != pinging:
                    what = 'ping %s although latency was %s' % ('sent' if len(fr) == 3 else 'not sent', 'requested' if pinging else 'not requested')
                elif mode_s == 'custom' and got_s != [status]:
                    what = 'status handler calls: %s' % got_s
                elif mode_s == 'default' and [a for a in printed if a and a[0] == status] != [(status,)]:
                    what = 'default status handler printed %s' % printed
                elif mode_s == 'disabled' and any(a and a[0] == status for a in printed):
                    what = 'status printed although the handler is disabled'
                elif mode_p == 'custom' and (len(got_p) != 1 or got_p[0] < 0):
                    what = 'latency reports: %s' % got_p
                elif not srv.sock.closed or exits != [1] or res[0][1] != 'exit' or conn.exception is not None:
                    what = 'after the query: socket closed=%s, exit callbacks=%s, thread %s, exception %s' % (srv.sock.closed, exits, res[0][1], conn.exception)
                if what:
                    chk.violation('status', 'status:%s:%s:%d' % (mode_s, mode_p, pv), {'case': {'handle_status': mode_s, 'handle_ping': mode_p, 'proto': pv}, 'observed': what}, 'plain status query (%s/%s): %s' % (mode_s, mode_p, what))


def replay(chk, rp):
    run(chk)
