"""Bridging between pyCraft's Python values / Type objects and the model's ftype / value terms.
Used by C02, C05, C07."""
import math, struct
from fractions import Fraction

SIMPLE = ['Boolean', 'UnsignedByte', 'Byte', 'Short', 'UnsignedShort', 'Integer', 'Long', 'UnsignedLong', 'Float', 'Double',
          'VarInt', 'VarLong', 'String', 'UUID', 'Angle', None, 'ShortPrefixedByteArray', 'VarIntPrefixedByteArray',
          'TrailingByteArray', 'Position', 'NBT']
CUSTOM = ['clientbound.play.explosion_packet:ExplosionPacket.Record',
          'clientbound.play.block_change_packet:MultiBlockChangePacket.ChunkSectionPos',
          'clientbound.play.block_change_packet:MultiBlockChangePacket.Record',
          'clientbound.play.sound_effect_packet:SoundEffectPacket.EffectPosition',
          'clientbound.play.sound_effect_packet:SoundEffectPacket.Pitch']


def ft_sx(ty):
    """reifier type JSON -> sx term of the model's ftype"""
    if ty[0] == 'Fixed':
        return [15, ft_sx(ty[1]), ty[2]]
    if ty[0] == 'Array':
        return [21, ft_sx(ty[1]), ft_sx(ty[2])]
    if ty[0] == 'Custom':
        return [22, CUSTOM.index(ty[1])]
    return SIMPLE.index(ty[0])


def ft_obj(ty):
    """reifier type JSON -> the real pyCraft Type object"""
    from minecraft.networking.types import basic as B
    if ty[0] == 'Fixed':
        return B.FixedPoint(ft_obj(ty[1]), ty[2])
    if ty[0] == 'Array':
        return B.PrefixedArray(ft_obj(ty[1]), ft_obj(ty[2]))
    if ty[0] == 'Custom':
        import importlib
        mod, qn = ty[1].split(':')
        o = importlib.import_module('minecraft.networking.packets.' + mod)
        for part in qn.split('.'):
            o = getattr(o, part)
        return o
    return getattr(B, ty[0])


def float_bits(v, ebits, mbits):
    """IEEE-754 bit pattern of a Python float that is exactly representable in the format,
    computed from float.hex() / frexp without struct.  Returns None if not representable."""
    bias = (1 << (ebits - 1)) - 1
    if v != v:
        return ((1 << ebits) - 1) << mbits | 1 << (mbits - 1)       # the default quiet NaN
    sign = 1 if math.copysign(1.0, v) < 0 else 0
    if v in (float('inf'), float('-inf')):
        return sign << (ebits + mbits) | ((1 << ebits) - 1) << mbits
    if v == 0:
        return sign << (ebits + mbits)
    fr = Fraction(abs(v))
    e = math.frexp(abs(v))[1] - 1          # abs(v) = 1.xxx * 2^e
    if e < 1 - bias:                        # subnormal in the target format
        m = fr / Fraction(2) ** (1 - bias - mbits)
        if m.denominator != 1 or m.numerator >= 1 << mbits:
            return None
        return sign << (ebits + mbits) | m.numerator
    if e > bias:
        return None
    m = (fr / Fraction(2) ** e - 1) * (1 << mbits)
    if m.denominator != 1:
        return None
    return sign << (ebits + mbits) | (e + bias) << mbits | m.numerator


def bits_float(bits, ebits, mbits):
    """inverse of float_bits (exact), without struct"""
    bias = (1 << (ebits - 1)) - 1
    sign = -1.0 if bits >> (ebits + mbits) else 1.0
    e = (bits >> mbits) & ((1 << ebits) - 1)
    m = bits & ((1 << mbits) - 1)
    if e == (1 << ebits) - 1:
        return sign * float('inf') if m == 0 else float('nan')
    if e == 0:
        return sign * math.ldexp(m, 1 - bias - mbits)
    return sign * math.ldexp((1 << mbits) + m, e - bias - mbits)


def dyadic(v):
    """(num, k) with v = num / 2^k for a finite float or int"""
    n, d = Fraction(v).numerator, Fraction(v).denominator
    k = d.bit_length() - 1
    assert d == 1 << k
    return n, k


def to_model(ty, v, ctx=None):
    """Python value (as pyCraft takes it) -> sx term of the model's value"""
    k = ty[0]
    if k == 'Boolean':
        return [0, 1 if v else 0]
    if k in ('UnsignedByte', 'Byte', 'Short', 'UnsignedShort', 'Integer', 'Long', 'UnsignedLong', 'VarInt', 'VarLong'):
        return [1, int(v)]
    if k == 'Float':
        b = float_bits(v, 8, 23)
        assert b is not None, v
        return [1, b]
    if k == 'Double':
        return [1, float_bits(v, 11, 52)]
    if k in ('String', 'UUID'):
        return [2, [ord(c) for c in v]]
    if k in ('ShortPrefixedByteArray', 'VarIntPrefixedByteArray', 'TrailingByteArray', 'NBT'):
        return [3, list(v)]
    if k in ('Angle',):
        n, kk = dyadic(v)
        return [4, n, kk]
    if k == 'Fixed':
        n, kk = dyadic(v)
        return [4, n, kk]
    if k == 'Position':
        x, y, z = v
        return [6, [[1, x], [1, y], [1, z]]]
    if k == 'Array':
        return [5, [to_model(ty[2], e, ctx) for e in v]]
    if k == 'Custom':
        c = CUSTOM.index(ty[1])
        if c in (0, 1):
            x, y, z = v
            return [6, [[1, x], [1, y], [1, z]]]
        if c == 2:
            return [6, [[1, v.x], [1, v.y], [1, v.z], [1, v.block_state_id]]]
        if c == 3:
            return [6, [[4] + list(dyadic(e)) for e in v]]
        if c == 4:
            # wire-level value: float bits (>= 201) or signed byte
            return [1, v]
    raise ValueError(ty)


def eq_model(ty, m, v):
    """does the model value m (parsed sx) denote the Python value v that pyCraft decoded?"""
    k = ty[0]
    tag = m[0]
    if k == 'Boolean':
        return tag == 0 and isinstance(v, bool) and (m[1] != 0) == v
    if k in ('UnsignedByte', 'Byte', 'Short', 'UnsignedShort', 'Integer', 'Long', 'UnsignedLong', 'VarInt', 'VarLong'):
        return tag == 1 and isinstance(v, int) and not isinstance(v, bool) and m[1] == v
    if k == 'Float':
        return tag == 1 and isinstance(v, float) and (float_bits(v, 8, 23) == m[1] or (v != v and (m[1] >> 23) & 0xff == 0xff and m[1] & 0x7fffff))
    if k == 'Double':
        return tag == 1 and isinstance(v, float) and (float_bits(v, 11, 52) == m[1] or (v != v and (m[1] >> 52) & 0x7ff == 0x7ff and m[1] & ((1 << 52) - 1)))
    if k in ('String', 'UUID'):
        return tag == 2 and isinstance(v, str) and [ord(c) for c in v] == m[1]
    if k in ('ShortPrefixedByteArray', 'VarIntPrefixedByteArray', 'TrailingByteArray'):
        return tag == 3 and bytes(v) == bytes(m[1])
    if k in ('Angle', 'Fixed'):
        # exact, or (beyond 2^53) the correctly rounded quotient that Python's int / int gives
        return tag == 4 and (Fraction(v) == Fraction(m[1], 2 ** m[2]) or v == m[1] / 2 ** m[2])
    if k == 'Position':
        return tag == 6 and tuple(v) == tuple(e[1] for e in m[1])
    if k == 'Array':
        return tag == 5 and isinstance(v, list) and len(v) == len(m[1]) and all(eq_model(ty[2], a, b) for a, b in zip(m[1], v))
    if k == 'Custom':
        c = CUSTOM.index(ty[1])
        if c in (0, 1):
            return tag == 6 and tuple(v) == tuple(e[1] for e in m[1])
        if c == 2:
            return tag == 6 and (v.x, v.y, v.z, v.block_state_id) == tuple(e[1] for e in m[1])
        if c == 3:
            return tag == 6 and all(Fraction(a) == Fraction(b[1], 2 ** b[2]) for a, b in zip(v, m[1]))
    raise ValueError(ty)


class Buf(object):
    """socket-and-file stand-in: records what is sent, serves reads from a byte string"""

    def __init__(self, data=b''):
        self.data, self.pos, self.out = bytes(data), 0, bytearray()

    def read(self, n=None):
        if n is None or n < 0:
            n = len(self.data) - self.pos
        r = self.data[self.pos:self.pos + n]
        self.pos += len(r)
        return r

    def send(self, d):
        self.out += bytes(d)


def cctx_for(pv, ctx_obj):
    """the three flags the model's context-dependent types consult, read off the real context"""
    return [ctx_obj.protocol_later_eq(443), ctx_obj.protocol_later_eq(741), ctx_obj.protocol_later_eq(201)]
