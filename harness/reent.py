"""Streams that exercise pure encoders / decoders the way a threaded client does: after a sink or source that
failed, and from several threads at once.  The Coq models are functions; these streams check that the real
code behaves like one (no state carried from one call to the next, or shared between threads).
cases: list of (label, call, expected) where call() performs one encoding / decoding on private buffers and
returns a comparable value; expected is what a sequential call gave (already compared with the model)."""
import sys, threading, time


class FailingSink(object):
    """a socket whose send fails (after accepting [ok] calls)"""
    def __init__(self, ok=0):
        self.ok = ok

    def send(self, d):
        if self.ok <= 0:
            raise BrokenPipeError(32, 'Broken pipe')
        self.ok -= 1
        return len(d)


def bounded(fn, seconds=8.0):
    """runs fn() on a helper thread; ('ok', result) | ('raised', exception) | ('hang',) when it has not returned in time"""
    box = []

    def body():
        try:
            box.append(('ok', fn()))
        except BaseException as e:
            box.append(('raised', e))
    t = threading.Thread(target=body, daemon=True)
    t.start()
    t.join(seconds)
    return box[0] if box else ('hang',)


def after_failure(chk, suite, enc_cases):
    """enc_cases: (label, send(value, sink), value, expected bytes).  Each encoder is first driven into a failing sink
    (the error is the sink's, and is ignored), then asked again on a good sink: it must give the expected bytes."""
    class Sink(object):
        def __init__(self):
            self.out = b''

        def send(self, d):
            self.out += bytes(d)
    for label, send, value, exp in enc_cases:
        for ok in (0, 1):
            try:
                send(value, FailingSink(ok))
            except Exception:
                pass
            s = Sink()
            chk.count(suite, ['after-failure', label, repr(value)[:80], ok], True)
            r = bounded(lambda: send(value, s))
            if r[0] == 'hang':
                import common
                chk.violation(suite, 'after-failure:hang:%s' % label, {'case': {'type': label, 'value': repr(value)[:300], 'sink_failed_after_sends': ok}, 'observed': 'no return within 8 s'},
                              '%s %s: after an encoding whose socket failed, the next encoding does not terminate (no return within 8 s)' % (label, repr(value)[:40]))
                raise common.StopCheck()
            got = s.out if r[0] == 'ok' else 'raised %s' % type(r[1]).__name__
            if got != exp:
                chk.violation(suite, 'after-failure:%s:%r' % (label, value if len(repr(value)) < 40 else hash(repr(value))),
                              {'case': {'type': label, 'value': repr(value)[:300], 'sink_failed_after_sends': ok}, 'expected': exp.hex()[:300],
                               'observed': got.hex()[:300] if isinstance(got, bytes) else got},
                              '%s %s: after an encoding whose socket failed, the next encoding is %s; expected %s' % (
                                  label, repr(value)[:40], got.hex()[:60] if isinstance(got, bytes) else got, exp.hex()[:60]))
                return


def after_bad_argument(chk, suite, enc_cases, bad_of):
    """enc_cases: (label, send(value, sink), value, expected bytes).  The encoder is first called with a value of the wrong
    type that compares equal to the good one (bad_of(value): 5.0 for 5, a str subclass ...); whatever that call does (it may
    raise), the good value must afterwards encode to the expected bytes."""
    class Sink(object):
        def __init__(self):
            self.out = b''

        def send(self, d):
            self.out += bytes(d)
    for label, send, value, exp in enc_cases:
        for bad in bad_of(value):
            try:
                send(bad, Sink())
            except Exception:
                pass
            s = Sink()
            chk.count(suite, ['after-bad-argument', label, repr(value)[:60], repr(bad)[:60]], True)
            r = bounded(lambda: send(value, s))
            if r[0] == 'hang':
                import common
                chk.violation(suite, 'after-bad-argument:hang:%s' % label, {'case': {'type': label, 'value': repr(value)[:200], 'earlier_call_with': '%s %r' % (type(bad).__name__, bad)}, 'observed': 'no return within 8 s'},
                              '%s %s: after a call with %s(%r), the next encoding does not terminate (no return within 8 s)' % (label, repr(value)[:40], type(bad).__name__, bad))
                raise common.StopCheck()
            got = s.out if r[0] == 'ok' else 'raised %s' % type(r[1]).__name__
            if got != exp:
                chk.violation(suite, 'after-bad-argument:%s:%r' % (label, value if len(repr(value)) < 40 else hash(repr(value))),
                              {'case': {'type': label, 'value': repr(value)[:200], 'earlier_call_with': '%s %r' % (type(bad).__name__, bad)}, 'expected': exp.hex()[:200],
                               'observed': got.hex()[:200] if isinstance(got, bytes) else got},
                              '%s %s: after a call with %s(%r), the encoding is %s; expected %s' % (label, repr(value)[:40], type(bad).__name__, bad,
                                                                                                   got.hex()[:60] if isinstance(got, bytes) else got, exp.hex()[:60]))
                return


class FailingSource(object):
    """a stream that delivers [data] and then fails like a socket that timed out / would block / was reset"""
    def __init__(self, data, exc):
        self.data, self.pos, self.exc = data, 0, exc

    def read(self, n=None):
        if self.pos >= len(self.data):
            raise self.exc
        n = len(self.data) - self.pos if n is None else n
        r = self.data[self.pos:self.pos + n]
        self.pos += len(r)
        return r

    recv = read


class GoodSource(FailingSource):
    def read(self, n=None):
        n = len(self.data) - self.pos if n is None else n
        r = self.data[self.pos:self.pos + n]
        self.pos += len(r)
        return r

    recv = read


def after_read_failure(chk, suite, dec_cases):
    """dec_cases: (label, read(stream), encoded bytes, expected (value, consumed)).  A decoder is first run on a stream that
    fails part-way (timeout, would-block, reset) - the error is the stream's -, that stream is dropped, and the same decoder
    is then run on a new, healthy stream (which CPython usually allocates at the same address): nothing of the abandoned
    read may show."""
    import socket
    for label, read, data, exp in dec_cases:
        for k in sorted(set([0, 1, len(data) // 2, max(0, len(data) - 1)])):
            if k >= len(data):
                continue
            for exc in (socket.timeout('timed out'), BlockingIOError(11, 'would block'), ConnectionResetError(104, 'reset')):
                src = FailingSource(data[:k], exc)
                try:
                    read(src)
                except Exception:
                    pass
                del src
                good = GoodSource(data + b'\x5a', None)
                chk.count(suite, ['after-read-failure', label, data.hex()[:60], k, type(exc).__name__], True)
                r = bounded(lambda: read(good))
                if r[0] == 'hang':
                    import common
                    chk.violation(suite, 'after-read-failure:hang:%s' % label, {'case': {'type': label, 'bytes': data.hex()[:300], 'first_stream_failed_after': k, 'failure': type(exc).__name__}, 'observed': 'no return within 8 s'},
                                  '%s: after a read on another stream that failed with %s after %d bytes, decoding %s on a new stream does not terminate' % (label, type(exc).__name__, k, data.hex()[:30]))
                    raise common.StopCheck()
                got = (r[1], good.pos) if r[0] == 'ok' else 'raised %s' % type(r[1]).__name__
                if got != exp:
                    chk.violation(suite, 'after-read-failure:%s:%s' % (label, data.hex()[:40]),
                                  {'case': {'type': label, 'bytes': data.hex()[:300], 'first_stream_failed_after': k, 'failure': type(exc).__name__}, 'expected': repr(exp)[:200], 'observed': repr(got)[:200]},
                                  '%s: after a read on another stream that failed with %s after %d bytes, decoding %s on a new stream gives %s; expected %s' % (
                                      label, type(exc).__name__, k, data.hex()[:30], repr(got)[:60], repr(exp)[:60]))
                    return


def threaded(chk, suite, cases, nthreads=4, seconds=0.6):
    """cases: (label, call, expected).  Every thread runs all the cases (own rotation) again and again for [seconds] with a
    very small switch interval; any result that differs from the sequential one is reported."""
    if not cases:
        return
    bad, count = [], [0]
    stop = time.time() + seconds
    old = sys.getswitchinterval()

    def body(k):
        n = len(cases)
        i = k * (n // nthreads + 1)
        while time.time() < stop and not bad:
            label, call, exp = cases[i % n]
            i += 1
            try:
                got = call()
            except Exception as e:
                got = 'raised %s' % type(e).__name__
            count[0] += 1
            if got != exp:
                bad.append((label, exp, got))
    sys.setswitchinterval(1e-6)
    try:
        ts = [threading.Thread(target=body, args=(k,), daemon=True) for k in range(nthreads)]
        for t in ts:
            t.start()
        for t in ts:
            t.join(seconds + 30)
    finally:
        sys.setswitchinterval(old)
    chk.evaluations += count[0]
    chk.suites[suite] = chk.suites.get(suite, 0) + count[0]
    chk.tally('%s:threaded-calls' % suite, count[0])
    if bad:
        label, exp, got = bad[0]
        f = lambda x: x.hex()[:120] if isinstance(x, (bytes, bytearray)) else repr(x)[:120]
        chk.violation(suite, 'threaded:%s' % label, {'case': {'call': label, 'threads': nthreads}, 'expected': f(exp), 'observed': f(got)},
                      '%s called from %d threads at once gave %s; sequentially (and in the model) %s' % (label, nthreads, f(got), f(exp)))
