"""Streams that exercise pure encoders / decoders the way a threaded client does: after a sink or source that
failed, and from several threads at once.  The Coq models are functions; these streams check that the real
code behaves like one (no state carried from one call to the next, or shared between threads).
cases: list of (label, call, expected) where call() performs one encoding / decoding on private buffers and
returns a comparable value; expected is what a sequential call gave (already compared with the model)."""
import sys, threading, time


class FailingSink(object):
    """a socket whose send fails (after accepting [ok] calls)"""
    def __init__(self, ok=0):
        self.ok = ok

    def send(self, d):
        if self.ok <= 0:
            raise BrokenPipeError(32, 'Broken pipe')
        self.ok -= 1
        return len(d)


def after_failure(chk, suite, enc_cases):
    """enc_cases: (label, send(value, sink), value, expected bytes).  Each encoder is first driven into a failing sink
    (the error is the sink's, and is ignored), then asked again on a good sink: it must give the expected bytes."""
    class Sink(object):
        def __init__(self):
            self.out = b''

        def send(self, d):
            self.out += bytes(d)
    for label, send, value, exp in enc_cases:
        for ok in (0, 1):
            try:
                send(value, FailingSink(ok))
            except Exception:
                pass
            s = Sink()
            chk.count(suite, ['after-failure', label, repr(value)[:80], ok], True)
            try:
                send(value, s)
                got = s.out
            except Exception as e:
                got = 'raised %s' % type(e).__name__
            if got != exp:
                chk.violation(suite, 'after-failure:%s:%r' % (label, value if len(repr(value)) < 40 else hash(repr(value))),
                              {'case': {'type': label, 'value': repr(value)[:300], 'sink_failed_after_sends': ok}, 'expected': exp.hex()[:300],
                               'observed': got.hex()[:300] if isinstance(got, bytes) else got},
                              '%s %s: after an encoding whose socket failed, the next encoding is %s; expected %s' % (
                                  label, repr(value)[:40], got.hex()[:60] if isinstance(got, bytes) else got, exp.hex()[:60]))
                return


def threaded(chk, suite, cases, nthreads=4, seconds=0.6):
    """cases: (label, call, expected).  Every thread runs all the cases (own rotation) again and again for [seconds] with a
    very small switch interval; any result that differs from the sequential one is reported."""
    if not cases:
        return
    bad, count = [], [0]
    stop = time.time() + seconds
    old = sys.getswitchinterval()

    def body(k):
        n = len(cases)
        i = k * (n // nthreads + 1)
        while time.time() < stop and not bad:
            label, call, exp = cases[i % n]
            i += 1
            try:
                got = call()
            except Exception as e:
                got = 'raised %s' % type(e).__name__
            count[0] += 1
            if got != exp:
                bad.append((label, exp, got))
    sys.setswitchinterval(1e-6)
    try:
        ts = [threading.Thread(target=body, args=(k,), daemon=True) for k in range(nthreads)]
        for t in ts:
            t.start()
        for t in ts:
            t.join(seconds + 30)
    finally:
        sys.setswitchinterval(old)
    chk.evaluations += count[0]
    chk.suites[suite] = chk.suites.get(suite, 0) + count[0]
    chk.tally('%s:threaded-calls' % suite, count[0])
    if bad:
        label, exp, got = bad[0]
        f = lambda x: x.hex()[:120] if isinstance(x, (bytes, bytearray)) else repr(x)[:120]
        chk.violation(suite, 'threaded:%s' % label, {'case': {'call': label, 'threads': nthreads}, 'expected': f(exp), 'observed': f(got)},
                      '%s called from %d threads at once gave %s; sequentially (and in the model) %s' % (label, nthreads, f(got), f(exp)))
