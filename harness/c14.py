"""C14 - networking-thread exceptions are contained and routed like try/except."""
import common, sim, proto
from common import run_model, exn_name

RULE = ('fault origins {early listener, ordinary listener, built-in reaction (login disconnect), decoder (malformed frame), exit '
        'callback, listener on the play disconnect packet (after the connection was told to disconnect), listener that disconnects and then fails, outgoing listener failing while the reaction to a server disconnect flushes the queue} x handler chains of 0..4 handlers (random exception-type filters from a class hierarchy, early registration, '
        'behaviour return / raise a new exception / reconnect) x final handler in {None, False, returning function, raising function}, '
        'through the simulated transport with the real reactors: handler call log with the exception each received, '
        'connection.exception, whether the thread re-raised, socket closure, the thread slot, and a subsequent connect() are compared '
        'with the extracted model. Non-trivial = at least one handler matched; distinct by (origin, chain, final).')


FROZEN = [False]


class _NoExcInfo(object):
    """when FROZEN[0] is set, instances refuse the backward-compatible 'exc_info' attribute (as an exception class with a read-only
    property or a frozen dataclass does); recording the exception on the connection does not depend on that attribute"""
    def __setattr__(self, k, v):
        if k == 'exc_info' and FROZEN[0]:
            raise AttributeError("can't set attribute 'exc_info'")
        super(_NoExcInfo, self).__setattr__(k, v)


class E0(_NoExcInfo, Exception):
    pass


class E1(_NoExcInfo, ValueError):
    pass


class E2(E1):
    pass


class E3(_NoExcInfo, IOError):
    pass


class Never(Exception):
    """no exception of a run is an instance of this class: the model's stand-in for a filter that matches nothing"""


SECRET = bytes(range(30, 46))
_CT = {}
TYPES = [Exception, ValueError, E1, E2, IOError, E3, E0, EOFError, KeyError]


def run(chk):
    common.standard_proof(chk, 'Properties/C14.v')
    from minecraft.networking.connection import Connection
    from minecraft.networking.packets import clientbound as cb
    from minecraft.exceptions import LoginDisconnect
    types = TYPES + [LoginDisconnect, Never]
    never_idx = len(types) - 1
    rng, th = chk.rng, chk.tier == 'thorough'
    reqs, metas = [], []
    for cfg in range(2500 if th else 400):
        origin = rng.choice(['early', 'late', 'reaction', 'decoder', 'exit', 'after-disconnect', 'self-disconnect', 'flush', 'burst']) if not 40 <= cfg < 48 else 'burst'
        pv = rng.choice([47, 340, 578, 757])
        ids = proto.Ids(pv)
        # the exception objects of this run get numbers; number 100 is the original fault
        excs = {}

        def num(e):
            for k, v in excs.items():
                if v is e:
                    return k
            excs[900 + len(excs)] = e
            return 900 + len(excs) - 1
        fault_cls = rng.choice([E0, E1, E2, E3, OSError, EOFError, ValueError, BrokenPipeError])
        FROZEN[0] = cfg % 3 == 1
        if origin == 'burst':
            # a fault of the I/O family in the write phase, late in a long burst of queued packets (the loop holds such an error
            # back until the read phase is over; with more than fifty packets written there is no read phase in that turn)
            fault_cls = rng.choice([E3, OSError, BrokenPipeError, ConnectionResetError])
        # in a third of the runs the server has switched compression on: a connection started afterwards (by a handler, or by the
        # user) begins in plain framing all the same
        thr = rng.choice([None, None, 64])
        frames = [proto.frame(ids.login_success, ids.b_login_success(), thr)]
        if origin == 'reaction':
            frames = [proto.frame(ids.login_disconnect, proto.string('{"text":"go away"}'), thr)]
        elif origin == 'decoder':
            frames.append(proto.frame(ids.keep_alive, b'', thr))               # a keep-alive without its id: the decoder raises
        elif origin in ('exit', 'after-disconnect'):
            frames.append(proto.frame(ids.play_disconnect, proto.string('{"text":"bye"}'), thr))
        elif origin == 'flush':
            # the answer to the keep-alive is still queued when the server's disconnect packet makes the client flush and close;
            # an outgoing listener fails during that flush (disconnect() has already marked the connection as not connected)
            frames.append(proto.frame(ids.keep_alive, ids.b_keep_alive(7), thr))
            frames.append(proto.frame(ids.play_disconnect, proto.string('{"text":"bye"}'), thr))
        else:
            frames.append(proto.frame(ids.keep_alive, ids.b_keep_alive(7), thr))
        if thr is not None:
            frames.insert(0, proto.frame(ids.set_compression, proto.varint(thr)))
        wire = b''.join(frames)
        # in some runs the session is encrypted (the encryption request in the clear, everything after it under the cipher);
        # configurations 24..39 are scripted: an encrypted session whose first handler disconnects and tries to reconnect, refused
        enc = origin != 'reaction' and (24 <= cfg < 40 or rng.random() < 0.2)
        if enc:
            import c10
            head = c10.build_server(ids, [('enc', '-', b'tokn')])[0][0]
            if wire not in _CT:
                _CT[wire] = bytes(run_model([('mc_encrypt', [SECRET, [wire]])])[0][0])
            wire = head + _CT[wire]
        servers = [sim.Server([wire], end='idle'), sim.Server([], end='idle'), sim.Server([], end='idle')]
        net = sim.Net(servers, urandom=SECRET).install()
        log = []
        try:
            fin_mode = rng.choice(['none', 'false', 'ret', 'raise'])
            fin_reconn = fin_mode in ('ret', 'raise') and rng.random() < 0.15
            any_reconn = [fin_reconn]      # at most one reconnecting handler per run: a second connect() would raise InvalidState

            def final(exc, info):
                log.append(('F', num(exc)))
                if fin_reconn:
                    conn.connect()
                if fin_mode == 'raise':
                    e = E0('final')
                    excs[300] = e
                    raise e

            def on_exit():
                e = fault_cls('exit')
                excs[100] = e
                raise e
            class FalsyCallable(list):
                """a callable that is false in a boolean context (an empty collecting list with __call__)"""
                def __call__(self_, exc, info):
                    return final(exc, info)
            final_arg = FalsyCallable() if (fin_mode in ('ret', 'raise') and rng.random() < 0.3) else final
            conn = Connection('localhost', 25565, username='user', allowed_versions={pv},
                              handle_exception={'none': None, 'false': False}.get(fin_mode, final_arg),
                              handle_exit=on_exit if origin == 'exit' else None)
            if origin in ('early', 'late', 'after-disconnect', 'self-disconnect'):
                def boom(p):
                    if origin == 'self-disconnect':
                        conn.disconnect(immediate=rng.random() < 0.5)
                    e = fault_cls('listener')
                    excs[100] = e
                    raise e
                # 'after-disconnect': an ordinary listener on the play disconnect packet runs after the built-in reaction has
                # already told the connection to disconnect; 'self-disconnect': the listener disconnects, then fails
                conn.register_packet_listener(boom, cb.play.DisconnectPacket if origin == 'after-disconnect' else cb.play.KeepAlivePacket, early=(origin == 'early'))
            if origin == 'flush':
                from minecraft.networking.packets import serverbound as sb

                def boom_out(p):
                    e = fault_cls('outgoing listener')
                    excs[100] = e
                    raise e
                conn.register_packet_listener(boom_out, sb.play.KeepAlivePacket, outgoing=True, early=rng.random() < 0.5)
            if origin == 'burst':
                from minecraft.networking.packets import serverbound as sb
                nth, seen_out = rng.choice([1, 5, 47, 48, 49, 50, 55, 60]), [0]

                def boom_burst(p):
                    seen_out[0] += 1
                    if seen_out[0] == nth:
                        e = fault_cls('outgoing listener, packet %d of the burst' % nth)
                        excs[100] = e
                        raise e
                conn.register_packet_listener(boom_burst, sb.play.ChatPacket, outgoing=True, early=rng.random() < 0.5)
            handlers = []
            order = []
            funcs = []
            # the first configurations are scripted: two catch-all returning handlers, then the first one registered once more
            # (a third clause at the end of the chain; the first clause still catches)
            scripted = cfg < 24
            for i in range(2 if scripted else max(1, rng.randrange(0, 5)) if 24 <= cfg < 40 else rng.randrange(0, 5)):
                flt = sorted(set(rng.randrange(len(types)) for _ in range(rng.choice([0, 0, 1, 1, 2]))))
                beh = rng.choice(['ret', 'ret', 'raise', 'raise'])
                reconn = (not any_reconn[0]) and rng.random() < 0.12
                any_reconn[0] = any_reconn[0] or reconn
                raise_cls = rng.choice([E0, E1, E2, E3])
                early = rng.random() < 0.3
                # a handler that gives the connection up and tries again at once - and is refused: the refusal is the exception this
                # handler raises (the documented idiom disconnect(immediate=True); connect() failing at the TCP level)
                refused = (24 <= cfg < 40 and i == 0) or (not scripted and not reconn and not any_reconn[0] and beh == 'raise' and rng.random() < 0.12)
                if refused:
                    beh, reconn, raise_cls = 'raise', False, ConnectionRefusedError
                    any_reconn[0] = True            # (no other handler of this run connects: a second connect() would raise InvalidState)
                    if 24 <= cfg < 40:
                        flt, early = [], True
                if scripted:
                    flt, beh, reconn, early = ([] if cfg % 3 else [0, 1, 2, 3]), 'ret', False, False

                def h(exc, info, i=i, beh=beh, reconn=reconn, raise_cls=raise_cls, refused=refused):
                    log.append(('H', i, num(exc)))
                    if reconn:
                        conn.connect()
                    if refused:
                        conn.disconnect(immediate=True)
                        gone = sim.Server([], refuse=True)
                        gone.index = 90 + i
                        net.servers.insert(net.nconn, gone)
                        try:
                            conn.connect()
                        except ConnectionRefusedError as e:
                            excs[200 + i] = e
                            raise
                    if beh == 'raise':
                        e = raise_cls('handler %d' % i)
                        excs[200 + i] = e
                        raise e
                # the types as Python's except / isinstance take them: separate arguments, or nested tuples of types; a tuple that
                # names no type at all matches nothing (it is not the same as giving no types, which catches everything)
                arg_shape = rng.choice(['flat', 'flat', 'nested', 'empty-tuple'])
                if scripted or refused:
                    arg_shape = 'flat'
                funcs.append(h)
                if arg_shape == 'empty-tuple':
                    flt = [never_idx]
                    conn.register_exception_handler(h, rng.choice([(), ((), ()), ((), ((),))]), early=early)
                elif arg_shape == 'nested' and len(flt) >= 2:
                    conn.register_exception_handler(h, (types[flt[0]], tuple(types[j] for j in flt[1:])), early=early)
                else:
                    conn.register_exception_handler(h, *[types[j] for j in flt], early=early)
                handlers.append((i, flt, beh, reconn, raise_cls))
                order = [len(handlers) - 1] + order if early else order + [len(handlers) - 1]
                if beh == 'ret' and not reconn and arg_shape == 'flat' and not scripted and rng.random() < 0.2:
                    # the same function registered once more with the same types (a second, independent clause of the chain)
                    early2 = rng.random() < 0.5
                    conn.register_exception_handler(h, *[types[j] for j in flt], early=early2)
                    handlers.append((i, flt, beh, reconn, raise_cls))
                    order = [len(handlers) - 1] + order if early2 else order + [len(handlers) - 1]
            if scripted:
                i0, flt0 = handlers[0][0], handlers[0][1]
                conn.register_exception_handler(funcs[0], *[types[j] for j in flt0])
                handlers.append(handlers[0])
                order = order + [len(handlers) - 1]
            conn.connect()
            if origin == 'burst':
                for k in range(60):
                    cp = sb.play.ChatPacket()
                    cp.message = 'm%d' % k
                    conn.write_packet(cp)
            first_sock = None
            res = net.run_threads(conn, max_threads=1)
            first_sock = servers[0].sock
            t0, out0 = res[0]
            original = excs.get(100)
            if original is None and isinstance(out0, tuple):
                original = out0[1]
            # the original fault for reaction / decoder origins is whatever pyCraft raised: identify it
            if 100 not in excs:
                cand = conn.exception if conn.exception is not None and not any(conn.exception is v for v in excs.values()) else None
                # find it through the handler log: the first exception any handler / the final saw
                first_seen = next((x[-1] for x in log), None)
                if first_seen is not None and first_seen >= 900:
                    excs[100] = excs.pop(first_seen)
                    log[:] = [tuple(100 if (v == first_seen and j == len(x) - 1) else v for j, v in enumerate(x)) for x in log]
                elif cand is not None:
                    excs[100] = cand
                elif isinstance(out0, tuple):
                    excs[100] = out0[1]
            orig = excs.get(100)
            observed = {
                'log': [list(x) for x in log],
                'recorded': next((k for k, v in excs.items() if v is conn.exception), None if conn.exception is None else 'other:' + type(conn.exception).__name__),
                'reraised': (next((k for k, v in excs.items() if v is out0[1]), 'other:' + type(out0[1]).__name__) if isinstance(out0, tuple) else None),
                'closed': first_sock.closed if first_sock is not None else None,
                'interrupt': t0.interrupt,
                'slot_cleared': conn.networking_thread is None or conn.networking_thread is not t0,
            }
            # the connection's 'exception' and 'exc_info' are recorded together, whatever the exception object itself accepts
            ei = conn.exc_info
            if conn.exception is not None and not (isinstance(ei, tuple) and len(ei) == 3 and ei[1] is conn.exception and ei[0] is type(conn.exception)):
                chk.violation('chain', 'exc-info:%s:%d' % (origin, cfg), {'case': {'origin': origin, 'cfg': cfg, 'exception_refuses_exc_info_attribute': FROZEN[0]},
                              'observed': {'exception': repr(conn.exception), 'exc_info': repr(ei)}},
                              'fault in %s: connection.exception is %r but connection.exc_info is %r (not the exc_info of that exception)' % (origin, conn.exception, ei))
            # afterwards the same object can connect again (let a successor started by a handler finish first)
            net.run_threads(conn)
            try:
                conn.connect()
                observed['reconnect'] = 'ok'
                net.run_threads(conn)
            except Exception as e:
                observed['reconnect'] = exn_name(e)
            # every later connection of this object (started by a handler or just now) opens with handshake + login start in
            # plain framing
            for k, srv in enumerate(servers[1:], 1):
                if srv.sends:
                    try:
                        import c09
                        h = c09.parse_conn(None, b''.join(srv.sends))
                        okf = h[:4] == [pv, 'localhost', 25565, 2] and h[4] == ('login_start', ids.sb_login_start, 'user')
                    except Exception:
                        okf = False
                    if not okf:
                        observed['reconnect'] = 'connection %d opens with %s (not handshake + login start in plain framing)' % (k, b''.join(srv.sends)[:12].hex())
        finally:
            net.uninstall()
        if orig is None:
            chk.broken('harness:c14', 'the injected fault did not surface (origin %s)' % origin)
            continue
        # model input
        def insts(e):
            return [j for j, t in enumerate(types) if isinstance(e, t)]
        raised_by = {200 + i: rc('x') for i, _f, _b, _r, rc in handlers}
        raised_by[300] = E0('x')
        rel = [[100, insts(orig)]] + [[k, insts(v)] for k, v in raised_by.items()]
        hs = [[handlers[j][0], handlers[j][1], [[e, [1, 200 + handlers[j][0]]] for e in [100, 300] + list(range(200, 205))] if handlers[j][2] == 'raise' else [], handlers[j][3]] for j in order]
        fin = [0] if fin_mode == 'none' else [1] if fin_mode == 'false' else [2, ([[e, [1, 300]] for e in [100] + list(range(200, 205))] if fin_mode == 'raise' else []), fin_reconn]
        reqs.append(('handle_exception', [rel, 0, hs, fin, 100]))
        metas.append((cfg, origin, observed, {'origin': origin, 'fault': type(orig).__name__, 'proto': pv,
                                                'handlers': [[handlers[j][0], [types[t].__name__ for t in handlers[j][1]], handlers[j][2], handlers[j][3]] for j in order],
                                                'final': fin_mode, 'final_reconnects': fin_reconn}))
    res = run_model(reqs)
    for (cfg, origin, obs, case), r in zip(metas, res):
        calls, recorded, caught, reraised, disconnected, consumed = r
        exp_log = [['H', c[1], c[2]] if c[0] == 0 else ['F', c[1]] for c in calls]
        exp = {'log': exp_log, 'recorded': recorded[0] if recorded else None, 'reraised': reraised[0] if reraised else None,
               'closed': bool(disconnected), 'interrupt': True, 'slot_cleared': True, 'reconnect': 'ok'}
        chk.count('chain', case, any(c[0] == 0 for c in calls))
        chk.tally('origin:%s' % origin)
        chk.tally('final:%s' % case['final'])
        diff = [k for k in exp if obs.get(k) != exp[k]]
        # a socket closed by a handler's reconnect is still "closed": only a socket left open while nobody reconnected is a failure
        if diff == ['closed'] and obs['closed'] and not exp['closed']:
            diff = []
        if diff:
            chk.violation('chain', 'chain:%s:%s' % (origin, hash(str(case)) % 10 ** 8), {'case': case, 'expected': exp, 'observed': obs},
                          'fault in %s, %d handlers, final=%s: %s differ: observed %s, try/except semantics give %s' % (origin, len(case['handlers']), case['final'], diff, {k: obs.get(k) for k in diff}, {k: exp[k] for k in diff}))
    if metas:
        chk.sample('chain', metas[0][3], k=2)
    chk.assumptions += ['isinstance on exception classes is Python\'s; the model takes it as a parameter and the harness supplies the real relation',
                        'the networking thread is executed synchronously by the simulated transport']


def replay(chk, rp):
    run(chk)
