"""C20 - state trackers replay packet histories; helper value types obey their laws."""
import uuid, inspect
from fractions import Fraction
import common
from common import run_model, exn_name

RULE = ('player-list packet histories over a small pool of UUIDs (lengths up to 200, all five actions, unknown players), map packets over a '
        'small pool of map ids applied to MapSet (patches at boundary and random offsets), position packets with all 32 flag combinations '
        'on dyadic values, every BitFieldEnum in the library plus generated enums for all values 0..255, boundary and random vectors, '
        'records of several types, alias descriptors: the real objects against the extracted model (tracker state after the history, '
        'pixels, position, printed flag name and what it parses back to). Non-trivial = history with at least one update/remove of an '
        'unknown player, or flags set; distinct by input.')


def code(s):
    return int.from_bytes(b'\x01' + str(s).encode('utf-8'), 'big')


def player_lists(chk):
    from minecraft.networking.packets.clientbound.play import PlayerListItemPacket as P
    rng, th = chk.rng, chk.tier == 'thorough'
    pool = [str(uuid.UUID(int=i + 1)) for i in range(5)]
    reqs, obs = [], []
    for _ in range(300 if th else 60):
        pl = P.PlayerList()
        acts = []
        n = rng.choice([1, 3, 10, 40, 200]) if th else rng.choice([1, 3, 10, 40])
        for _k in range(n):
            u = rng.choice(pool)
            kind = rng.randrange(5)
            pk = P()
            if kind == 0:
                props = [P.PlayerProperty(name='textures', value='v%d' % rng.randrange(9), signature=None)] * rng.randrange(2)
                a = P.AddPlayerAction(uuid=u, name='n%d' % rng.randrange(5), properties=props, gamemode=rng.randrange(4), ping=rng.randrange(1000), display_name=rng.choice([None, 'D%d' % rng.randrange(3)]))
                acts.append([0, code(u), [code(a.name), len(props), a.gamemode, a.ping, [] if a.display_name is None else [code(a.display_name)]]])
            elif kind == 1:
                a = P.UpdateGameModeAction(uuid=u, gamemode=rng.randrange(4))
                acts.append([1, code(u), a.gamemode])
            elif kind == 2:
                a = P.UpdateLatencyAction(uuid=u, ping=rng.randrange(1000))
                acts.append([2, code(u), a.ping])
            elif kind == 3:
                a = P.UpdateDisplayNameAction(uuid=u, display_name=rng.choice([None, 'X%d' % rng.randrange(3)]))
                acts.append([3, code(u), [] if a.display_name is None else [code(a.display_name)]])
            else:
                a = P.RemovePlayerAction(uuid=u)
                acts.append([4, code(u)])
            pk.action_type = type(a)
            pk.actions = [a]
            pk.apply(pl)
        got = [[code(k), [code(v.name), len(v.properties), v.gamemode, v.ping, [] if v.display_name is None else [code(v.display_name)]]] for k, v in pl.players_by_uuid.items()]
        reqs.append(('playerlist', [acts]))
        obs.append((acts, got))
    res = run_model(reqs)
    for (acts, got), r in zip(obs, res):
        chk.count('playerlist', acts, len(acts) >= 3)
        chk.tally('playerlist:len=%s' % ('<=10' if len(acts) <= 10 else '<=40' if len(acts) <= 40 else '200'))
        if sorted(got) != sorted(r):
            chk.violation('playerlist', 'playerlist:%s' % (hash(repr(acts)) % 10 ** 8), {'case': {'actions': acts[:60], 'length': len(acts)}, 'expected': r, 'observed': got},
                          'after %d player-list actions the tracker holds %d players; replaying the history gives %d (first difference: %s)' % (len(acts), len(got), len(r), next((g for g in sorted(got) if g not in r), None)))


def maps(chk):
    from minecraft.networking.packets.clientbound.play import MapPacket as M
    from minecraft.networking.connection import ConnectionContext
    rng, th = chk.rng, chk.tier == 'thorough'
    reqs, obs = [], []
    for trial in range(200 if th else 50):
        dims = {0: (16, 16), 1: (20, 12), 2: (8, 8)}
        if th and trial % 40 == 0:
            dims = {0: (128, 128), 1: (128, 128), 2: (64, 64)}
        ms = M.MapSet(*[M.Map(i, 0, width=wh[0], height=wh[1]) for i, wh in dims.items()])
        first_mid = rng.randrange(3)
        kept_packets = []
        for _k in range(rng.randrange(2, 7)):
            mid = rng.randrange(3) if _k != 1 else first_mid
            mw, mh = dims[mid]
            w = rng.choice([1, 2, 7, mw, rng.randrange(1, mw + 1)])
            h = rng.choice([1, 2, 5, mh, rng.randrange(1, mh + 1)])
            w, h = min(w, mw), min(h, mh)
            ox = rng.choice([0, min(1, mw - w), mw - w, rng.randrange(0, mw - w + 1)])
            oz = rng.choice([0, min(1, mh - h), mh - h, rng.randrange(0, mh - h + 1)])
            if _k == 0:
                # every trial begins by painting one whole map with non-zero colours; the next patch goes to the same map, so
                # that colour 0 (transparent) is written over something
                mid = first_mid
                mw, mh = dims[mid]
                w, h, ox, oz = mw, mh, 0, 0
            npx = w * h
            if rng.random() < 0.3 and w > 1 and _k:
                npx -= rng.randrange(1, w)              # an incomplete last row: pixel i still lands at (i mod width, i div width)
            px = bytes(rng.randrange(1, 256) if _k == 0 else rng.choice([0, 0, rng.randrange(256)]) for _ in range(npx))
            if rng.random() < 0.5 or _k == 0:
                px = bytearray(px)            # an application-built packet carries whatever bytes-like object it was given
            kept_packets.append((None, px, bytes(px)))
            pk = M() if rng.random() < 0.4 else M(context=ConnectionContext(protocol_version=rng.choice([379, 451, 452, 453, 471, 757])))      # the tracker ignores the packet's version
            pk.map_id, pk.scale, pk.icons = mid, rng.randrange(5), []
            pk.width, pk.height, pk.offset, pk.pixels = w, h, (ox, oz), px
            pk.is_tracking_position, pk.is_locked = rng.random() < 0.5, rng.random() < 0.5
            before = list(ms.maps_by_id[mid].pixels)
            if rng.random() < 0.12:
                # a rectangle that runs past the last cell of the map: the update is refused (IndexError reaches the caller) at the
                # first pixel outside; the pixels before it have landed, the map's tracking / locked flags are not touched
                oz = mh - max(1, h // 2)
                px = bytes(rng.randrange(256) for _ in range(w * (h + 2)))
                pk.offset, pk.pixels, pk.height = (ox, oz), px, h + 2
                first_out = next(i for i in range(len(px) + 1) if i == len(px) or (ox + i % w) + mw * (oz + i // w) >= mw * mh)
                old_flags = (ms.maps_by_id[mid].is_tracking_position, ms.maps_by_id[mid].is_locked)
                try:
                    pk.apply_to_map_set(ms)
                    outcome = 'returned'
                except IndexError:
                    outcome = 'IndexError'
                except Exception as e:
                    outcome = exn_name(e)
                mp = ms.maps_by_id[mid]
                chk.tally('map:past-the-end')
                if first_out < len(px) and (outcome != 'IndexError' or (mp.is_tracking_position, mp.is_locked) != old_flags):
                    chk.violation('map', 'map:past-end:%d' % (hash(repr((mw, mh, w, h, ox, oz))) % 10 ** 8), {'case': {'map_size': [mw, mh], 'width': w, 'height': h + 2, 'offset': [ox, oz]},
                                                                                                            'observed': {'outcome': outcome, 'flags': [mp.is_tracking_position, mp.is_locked], 'flags_before': list(old_flags)}},
                                  'map packet %dx%d at offset (%d, %d) on a %dx%d map runs past the end: %s, flags %s -> %s; expected IndexError and untouched flags' % (
                                      w, h + 2, ox, oz, mw, mh, outcome, list(old_flags), [mp.is_tracking_position, mp.is_locked]))
                reqs.append(('map_patch', [mw, ox, oz, w, bytes(px[:first_out]), before]))
                obs.append(({'map': mid, 'map_size': [mw, mh], 'width': w, 'height': h + 2, 'offset': [ox, oz], 'past_the_end': True}, list(mp.pixels),
                            (mp.scale,), (pk.scale,)))
                continue
            pk.apply_to_map_set(ms)
            mp = ms.maps_by_id[mid]
            # an update changes the map, never the packets that were applied before (their pixel data is theirs)
            for _n, pobj, orig in kept_packets:
                if bytes(pobj) != orig:
                    chk.violation('map', 'map:packet-mutated', {'case': {'map': mid, 'map_size': [mw, mh], 'width': w, 'height': h, 'offset': [ox, oz]}, 'observed': 'pixel data of an earlier packet changed'},
                                  'after a %dx%d update at (%d, %d) of a %dx%d map, the pixel data of a packet applied earlier has changed (packet and map share a buffer)' % (w, h, ox, oz, mw, mh))
                    kept_packets[:] = []
                    break
            reqs.append(('map_patch', [mw, ox, oz, w, bytes(px), before]))
            obs.append(({'map': mid, 'map_size': [mw, mh], 'width': w, 'height': h, 'offset': [ox, oz]}, list(mp.pixels), (mp.scale, mp.is_tracking_position, mp.is_locked), (pk.scale, pk.is_tracking_position, pk.is_locked)))
    # a packet for a map the set does not know creates a default map
    ms = M.MapSet()
    pk = M()
    pk.map_id, pk.scale, pk.icons, pk.width, pk.height, pk.offset, pk.pixels, pk.is_tracking_position, pk.is_locked = 9, 1, [], 2, 2, (126, 126), b'\x01\x02\x03\x04', True, False
    pk.apply_to_map_set(ms)
    mp = ms.maps_by_id.get(9)
    if mp is None or [mp.pixels[126 + 128 * 126], mp.pixels[127 + 128 * 126], mp.pixels[126 + 128 * 127], mp.pixels[127 + 128 * 127]] != [1, 2, 3, 4] or sum(mp.pixels) != 10:
        chk.violation('map', 'map:new', {'case': {'map': 9}}, 'a packet for an unknown map id does not create the map and patch it')
    # a packet without pixel data (icons / flags only; width 0): for a known map it changes scale, icons and flags and no pixel;
    # for an unknown map id it is the packet that makes the map known (blank), with its scale, icons and flags
    for mid, known in ((9, True), (11, False), (12, False)):
        pk = M() if mid != 12 else M(context=ConnectionContext(protocol_version=757))
        icon = M.MapIcon(type=3, direction=5, location=(7, -7)) if hasattr(M, 'MapIcon') else None
        pk.map_id, pk.scale, pk.icons, pk.width, pk.height, pk.offset, pk.pixels, pk.is_tracking_position, pk.is_locked = mid, 3, [icon] if icon else [], 0, 0, None, None, mid != 11, mid == 11
        before = list(ms.maps_by_id[mid].pixels) if known else None
        chk.count('map', ['pixel-less', mid, known], True)
        try:
            pk.apply_to_map_set(ms)
            mp = ms.maps_by_id.get(mid)
            if mp is None:
                what = 'the map is not tracked afterwards'
            elif (mp.scale, mp.is_tracking_position, mp.is_locked, len(mp.icons)) != (3, mid != 11, mid == 11, 1 if icon else 0):
                what = 'scale / flags / icons are %r' % ((mp.scale, mp.is_tracking_position, mp.is_locked, len(mp.icons)),)
            elif list(mp.pixels) != (before if known else [0] * (128 * 128)):
                what = 'the pixels changed' if known else 'the new map is not blank 128 x 128'
            else:
                what = None
        except Exception as e:
            what = 'raised %s' % exn_name(e)
        if what:
            chk.violation('map', 'map:pixel-less:%d' % mid, {'case': {'map': mid, 'known_before': known}, 'observed': what},
                          'a map packet without pixel data for %s map id %d: %s' % ('the known' if known else 'an unknown', mid, what))
    res = run_model(reqs)
    for (case, got, fields, exp_fields), r in zip(obs, res):
        chk.count('map', case, True)
        if got != r or fields != exp_fields:
            k = next((i for i, (a, b) in enumerate(zip(got, r)) if a != b), None)
            chk.violation('map', 'map:%s' % (hash(repr(case)) % 10 ** 8), {'case': case, 'observed': {'first_wrong_pixel': k, 'fields': fields}},
                          'map patch %s: pixel %s (x=%s, z=%s) differs from offset + (i mod w, i div w); fields %s vs %s' % (case, k, None if k is None else k % case['map_size'][0], None if k is None else k // case['map_size'][0], fields, exp_fields))


def positions(chk):
    from minecraft.networking.packets.clientbound.play import PlayerPositionAndLookPacket as P
    from minecraft.networking.types import PositionAndLook
    rng, th = chk.rng, chk.tier == 'thorough'
    K = 8
    S = 2 ** K
    reqs, obs = [], []
    for flags in range(32):
        for _ in range(6 if th else 2):
            d = lambda lo, hi: Fraction(rng.randrange(lo * S, hi * S), S)
            t = [d(-1000, 1000), d(0, 256), d(-1000, 1000), d(-720, 720), d(-360, 360)]
            p = [d(-1000, 1000), d(-64, 64), d(-1000, 1000), d(-720, 720), d(-360, 360)]
            if rng.random() < 0.35:
                # sums and absolute angles landing exactly on 0, one turn, two turns, minus one turn
                for j in (3, 4):
                    goal = Fraction(rng.choice([0, 360, 720, -360, 180, 359]))
                    if flags & (8 if j == 3 else 16):
                        t[j] = Fraction(rng.choice([0, 90, 180, 270, 360, -90]))
                        p[j] = goal - t[j]
                    else:
                        p[j] = goal
            target = PositionAndLook(x=float(t[0]), y=float(t[1]), z=float(t[2]), yaw=float(t[3]), pitch=float(t[4]))
            pk = P()
            pk.x, pk.y, pk.z, pk.yaw, pk.pitch, pk.flags = [float(v) for v in p] + [flags]
            pk.apply(target)
            got = [Fraction(target.x), Fraction(target.y), Fraction(target.z), Fraction(target.yaw), Fraction(target.pitch)]
            reqs.append(('pos_apply', [360 * S, flags, [int(v * S) for v in p], [int(v * S) for v in t]]))
            obs.append((flags, t, p, got))
    res = run_model(reqs)
    for (flags, t, p, got), r in zip(obs, res):
        exp = [Fraction(v, 2 ** 8) for v in r]
        chk.count('position', [flags, [str(v) for v in t], [str(v) for v in p]], flags != 0)
        if got != exp:
            chk.violation('position', 'position:%d' % flags, {'case': {'flags': flags, 'target': [float(v) for v in t], 'packet': [float(v) for v in p]}, 'expected': [float(v) for v in exp], 'observed': [float(v) for v in got]},
                          'flags %d: position after apply is %s; relative flags add, others assign, angles wrap to [0, 360): %s' % (flags, [float(v) for v in got], [float(v) for v in exp]))


def flags_(chk):
    import minecraft.networking.types.enum as E
    import minecraft.networking.packets.clientbound.play as cp
    rng, th = chk.rng, chk.tier == 'thorough'
    enums = []
    seen = set()

    def walk(obj, depth=0):
        for name, v in list(vars(obj).items()):
            if isinstance(v, type):
                if issubclass(v, E.BitFieldEnum) and v is not E.BitFieldEnum and v not in seen:
                    seen.add(v)
                    enums.append(v)
                if depth < 2 and v.__module__.startswith('minecraft'):
                    walk(v, depth + 1)
    import minecraft.networking.packets.serverbound.play as sp
    import minecraft.networking.types as T
    for mod in (E, cp, sp, T):
        walk(mod)
    # generated enums, including zero members, overlapping masks, equal values
    for k in range(40 if th else 12):
        n = rng.randrange(0, 7)
        members = {}
        for j in range(n):
            members['M%d' % j] = rng.choice([0, 1, 2, 4, 8, 16, 3, 5, 6, 12, 255, rng.randrange(256)])
        members['lower'] = 1            # not upper case: not a member
        members['NOTINT'] = 'x'
        enums.append(type('Gen%d' % k, (E.BitFieldEnum,), members))
    reqs, obs = [], []
    for en in enums:
        ms = [(n, v) for n, v in en.__dict__.items() if isinstance(v, int) and n.isupper()]
        for value in range(256):
            got = en.name_from_value(value)
            reqs.append(('flag_name', [[[code(n), v] for n, v in ms], value]))
            obs.append((en.__name__, ms, value, got))
    res = run_model(reqs)
    for (ename, ms, value, got), r in zip(obs, res):
        chk.count('flags', [ename, sorted(ms), value], value != 0)
        names = {code(n): n for n, _v in ms}
        exp = None if not r else ('|'.join(names[c] for c in r[0]) if r[0] else '0')
        what = None
        if got != exp:
            what = 'name_from_value(%d) = %r; the model gives %r' % (value, got, exp)
        elif got is not None:
            # the printed name parses back to the value
            back = 0
            if got != '0':
                d = dict(ms)
                for part in got.split('|'):
                    back |= d[part]
            if back != value or (r and r[1] != value):
                what = 'the printed name %r of value %d parses back to %d' % (got, value, back)
        if what:
            chk.violation('flags', 'flags:%s:%d' % (ename, value), {'case': {'enum': ename, 'members': ms, 'value': value}, 'observed': got, 'expected': exp}, '%s%s: %s' % (ename, dict(ms), what))
    chk.tally('flag-enums', len(enums))


def helpers(chk):
    from minecraft.networking.types import Vector, MutableRecord, PositionAndLook, Position
    from minecraft.networking.packets.clientbound.play import SpawnObjectPacket, PlayerListItemPacket, MapPacket
    from minecraft.networking.connection import ConnectionContext
    from minecraft import utility
    rng = chk.rng
    bad = []
    for _ in range(300):
        a = [rng.choice([0, 1, -1, 2 ** 31, -2 ** 63, rng.randrange(-10 ** 6, 10 ** 6)]) for _ in range(3)]
        b = [rng.choice([0, 1, -1, 7, rng.randrange(-10 ** 6, 10 ** 6)]) for _ in range(3)]
        k = rng.choice([1, 2, -3, 7, 1000])
        for cls in (Vector, Position):
            va, vb = cls(*a), cls(*b)
            chk.count('vector', [cls.__name__, a, b, k], True)
            checks = [(va + vb, [x + y for x, y in zip(a, b)]), (va - vb, [x - y for x, y in zip(a, b)]), (-va, [-x for x in a]), (va * k, [x * k for x in a]),
                      (k * va, [k * x for x in a]), (va // k, [x // k for x in a])]
            for res, exp in checks:
                if type(res) is not cls or list(res) != exp:
                    bad.append(('vector', '%s arithmetic on %s, %s gave %r (%s); expected %s of type %s' % (cls.__name__, a, b, res, type(res).__name__, exp, cls.__name__)))
            if (va + vb) - vb != va or va + (-va) != cls(0, 0, 0):
                bad.append(('vector', '%s: (a + b) - b or a + (-a) is wrong for %s, %s' % (cls.__name__, a, b)))
    # records
    R1 = PlayerListItemPacket.PlayerProperty
    R2 = MapPacket.MapIcon
    for _ in range(200):
        f = [rng.choice(['a', 'b', None, 1]) for _ in range(3)]
        g = list(f) if rng.random() < 0.5 else [rng.choice(['a', 'b', None, 1]) for _ in range(3)]
        x, y = R1(name=f[0], value=f[1], signature=f[2]), R1(name=g[0], value=g[1], signature=g[2])
        chk.count('record', [f, g], True)
        if (x == y) != (f == g) or (x != y) == (x == y):
            bad.append(('record', 'PlayerProperty%s == PlayerProperty%s is %s' % (f, g, x == y)))
        if x == y and hash(x) != hash(y):
            bad.append(('record', 'equal records hash differently: %s' % f))

        class Other(MutableRecord):
            __slots__ = 'name', 'value', 'signature'
        z = Other(name=f[0], value=f[1], signature=f[2])
        if x == z or z == x:
            bad.append(('record', 'records of different types with equal fields compare equal'))
    # equal values of different numeric type or sign: records that compare equal must still hash equally
    eqpool = [0, 0.0, -0.0, False, 1, 1.0, True, 2 ** 31, float(2 ** 31), -5, -5.0, 'a', None, 0.5]
    for _ in range(600):
        f = [rng.choice(eqpool) for _ in range(5)]
        g = [rng.choice([v for v in eqpool if v == x and type(v) is not type(x)] or [x]) if rng.random() < 0.7 else rng.choice(eqpool) for x in f]
        x = PositionAndLook(x=f[0], y=f[1], z=f[2], yaw=f[3], pitch=f[4])
        y = PositionAndLook(x=g[0], y=g[1], z=g[2], yaw=g[3], pitch=g[4])
        chk.count('record-eq-hash', [repr(f), repr(g)], True)
        if (x == y) != (f == g):
            bad.append(('record', 'PositionAndLook%s == PositionAndLook%s is %s; field-wise comparison gives %s' % (f, g, x == y, f == g)))
        if x == y and hash(x) != hash(y):
            bad.append(('record', 'PositionAndLook%r and PositionAndLook%r compare equal but hash differently' % (f, g)))
    # values that are not equal to themselves (NaN), held as ONE object by both records or as two objects:
    # the comparison is field-wise with ==, never by identity of the field values
    nan1, nan2 = float('nan'), float('nan')
    nanpool = [nan1, nan1, nan2, 0.0, 1.5, float('inf'), None]
    for _ in range(200):
        f = [rng.choice(nanpool) for _ in range(5)]
        g = [v if rng.random() < 0.8 else rng.choice(nanpool) for v in f]
        x = PositionAndLook(x=f[0], y=f[1], z=f[2], yaw=f[3], pitch=f[4])
        y = PositionAndLook(x=g[0], y=g[1], z=g[2], yaw=g[3], pitch=g[4])
        fieldwise = all(a == b for a, b in zip(f, g))
        chk.count('record-nan', [repr(f), repr(g), [a is b for a, b in zip(f, g)]], True)
        for l, r, what in ((x, y, 'two records'), (x, x, 'a record and itself')):
            exp = fieldwise if l is not r else all(a == a for a in f)
            if (l == r) != exp or (l != r) == (l == r):
                bad.append(('record', 'PositionAndLook%r == PositionAndLook%r (%s; same field objects: %s) is %s; field-wise == gives %s'
                            % (f, g if l is not r else f, what, [a is b for a, b in zip(f, g)], l == r, exp)))
    # record types that extend record types (in either order of first use): every slot of the whole hierarchy counts
    for order in ('parent-first', 'child-first'):
        class Base(MutableRecord):
            __slots__ = 'a', 'b'

        class Child(Base):
            __slots__ = 'c',

        class GrandChild(Child):
            __slots__ = 'd', 'e'

        class PALX(PositionAndLook):
            __slots__ = 'on_ground',
        mk = {Base: lambda v: Base(a=v[0], b=v[1]), Child: lambda v: Child(a=v[0], b=v[1], c=v[2]),
              GrandChild: lambda v: GrandChild(a=v[0], b=v[1], c=v[2], d=v[3], e=v[4]),
              PALX: lambda v: PALX(x=v[0], y=v[1], z=v[2], yaw=v[3], pitch=v[4], on_ground=v[5]),
              PositionAndLook: lambda v: PositionAndLook(x=v[0], y=v[1], z=v[2], yaw=v[3], pitch=v[4])}
        nf = {Base: 2, Child: 3, GrandChild: 5, PALX: 6, PositionAndLook: 5}
        seq = [Base, PositionAndLook, Child, PALX, GrandChild]
        if order == 'child-first':
            seq = seq[::-1]
        for cls in seq + seq:
            for _ in range(12):
                f = [rng.choice([0, 1, 2, 'a', None]) for _ in range(nf[cls])]
                g = list(f)
                if rng.random() < 0.7:
                    g[rng.randrange(nf[cls]) if rng.random() < 0.5 else nf[cls] - 1] = rng.choice([0, 1, 2, 'a', None, 'zz'])
                x, y = mk[cls](f), mk[cls](g)
                chk.count('record-subclass', [order, cls.__name__, repr(f), repr(g)], True)
                if (x == y) != (f == g) or (x != y) == (x == y):
                    bad.append(('record', '%s (%s): %s%s == %s%s is %s; field-wise comparison gives %s' % (cls.__name__, order, cls.__name__, f, cls.__name__, g, x == y, f == g)))
                elif x == y and hash(x) != hash(y):
                    bad.append(('record', '%s (%s): equal records hash differently: %s' % (cls.__name__, order, f)))
                elif list(x) != f:
                    bad.append(('record', '%s (%s): iterating %s%s yields %s' % (cls.__name__, order, cls.__name__, f, list(x))))
                elif any(('%r' % (v,)) not in repr(x) for v in f) or not repr(x).startswith(cls.__name__ + '('):
                    bad.append(('record', '%s (%s): repr %s does not show every field of %s' % (cls.__name__, order, repr(x), f)))
        # a record and an instance of a SUBCLASS with the same inherited field values are different records, in both directions
        # (comparison is field-wise within one type), whatever the subclass adds
        from minecraft.networking.packets.clientbound.play import PlayerListItemPacket as PLI
        u = str(uuid.UUID(int=rng.getrandbits(128)))
        pairs = [(Base(a=1, b=2), Child(a=1, b=2, c=None)), (Child(a=1, b=2, c=3), GrandChild(a=1, b=2, c=3, d=None, e=None)),
                 (PositionAndLook(x=1, y=2, z=3, yaw=4, pitch=5), PALX(x=1, y=2, z=3, yaw=4, pitch=5, on_ground=None))]
        for sub in PLI.Action.__subclasses__():
            try:
                pairs.append((PLI.Action(uuid=u), sub(uuid=u)))
            except Exception:
                pass
        for x, y in pairs:
            chk.count('record-subclass', [order, 'base-vs-subclass', type(x).__name__, type(y).__name__], True)
            if x == y or y == x or not (x != y) or not (y != x):
                bad.append(('record', '%r and %r (an instance of a subclass with equal inherited fields) compare equal' % (x, y)))
    # aliases
    ctx = ConnectionContext(protocol_version=757)
    for _ in range(100):
        p = SpawnObjectPacket(context=ctx)
        v = [rng.randrange(-1000, 1000) for _ in range(3)]
        p.position = Vector(*v)
        chk.count('alias', v, True)
        if [p.x, p.y, p.z] != v or tuple(p.position) != tuple(v):
            bad.append(('alias', 'position alias: set %s, fields %s, read back %s' % (v, [p.x, p.y, p.z], p.position)))
        p.velocity = Vector(*v[::-1])
        if [p.velocity_x, p.velocity_y, p.velocity_z] != v[::-1] or tuple(p.velocity) != tuple(v[::-1]):
            bad.append(('alias', 'velocity alias does not read back what was set'))
        u = str(uuid.UUID(int=rng.getrandbits(128)))
        p.objectUUID = u
        if p.object_uuid != u or p.objectUUID != u:
            bad.append(('alias', 'attribute_alias objectUUID does not read back what was set'))
        p.x, p.y, p.z, p.yaw, p.pitch = 1.5, 2.5, 3.5, 90.0, 45.0
        pal = p.position_and_look
        if (pal.x, pal.y, pal.z, pal.yaw, pal.pitch) != (1.5, 2.5, 3.5, 90.0, 45.0):
            bad.append(('alias', 'position_and_look alias reads %r' % (pal,)))
        p.position_and_look = PositionAndLook(x=9.0, y=8.0, z=7.0, yaw=6.0, pitch=5.0)
        if (p.x, p.y, p.z, p.yaw, p.pitch) != (9.0, 8.0, 7.0, 6.0, 5.0):
            bad.append(('alias', 'position_and_look alias set does not reach the fields'))
    for kind, what in bad[:5]:
        chk.violation(kind, '%s:%s' % (kind, hash(what) % 10 ** 8), {'case': {'kind': kind}, 'observed': what}, what)


def run(chk):
    common.standard_proof(chk, 'Properties/C20.v')
    player_lists(chk)
    maps(chk)
    positions(chk)
    flags_(chk)
    helpers(chk)
    chk.assumptions += ['float inputs of the position tracker are dyadic values on which binary64 addition and % are exact (the model is exact arithmetic)',
                        'Python dict / hash / namedtuple are library code; the record hash is an arbitrary function in the model']


def replay(chk, rp):
    run(chk)
