"""Turns the reifier's JSON into Coq data files (Gen/*.v) inside a per-run build directory."""
import os, json, subprocess, re
import common


def reify(build):
    """Runs the reifier on the repo under test in a fresh interpreter; returns the parsed tables.
    Raises RuntimeError (fail closed) with the reifier's message."""
    p = subprocess.run([common.PY, '-B', os.path.join(common.VERIF, 'harness', 'reify.py')], env=common.sub_env(),
                       stdout=subprocess.PIPE, stderr=subprocess.PIPE, timeout=600, cwd=build)
    if p.returncode != 0:
        raise RuntimeError('reifier failed (rc=%d): %s' % (p.returncode, p.stderr.decode()[-1500:]))
    return json.loads(p.stdout.decode())


def id_code(s):
    """Injective integer code of a version id string."""
    return int.from_bytes(b'\x01' + s.encode('utf-8'), 'big')


def looks_like_release(s):
    """Independent transliteration of re.match(r'\\d+(\\.\\d+)+$', s): digits, then one or more
    '.digits' groups, then end of string (Python's $ also accepts one trailing newline)."""
    if s.endswith('\n'):
        s = s[:-1]
    parts = s.split('.')
    if len(parts) < 2:
        return False
    return all(len(p) > 0 and all(c.isdecimal() for c in p) for p in parts)   # \d = Unicode category Nd


def zl(l):
    return '[' + '; '.join(str(x) if x >= 0 else '(%d)' % x for x in l) + ']'


def pl(l):
    return '[' + '; '.join('(%d, %d)' % (a, b) for a, b in l) + ']'


def gen_versions(t, outdir):
    L = ['From Coq Require Import ZArith List.', 'From PyCraft Require Import Model.Versions.',
         'Import ListNotations.', 'Open Scope Z_scope.', '']
    recs = []
    for vid, proto, sup in t['records']:
        recs.append('  {| v_id := %d; v_proto := %d; v_supported := %s; v_release := %s |}'
                    % (id_code(vid), proto, 'true' if sup else 'false', 'true' if looks_like_release(vid) else 'false'))
    L.append('Definition records : list vrec := [\n' + ';\n'.join(recs) + '\n].')
    L.append('Definition PRE : Z := %d.' % t['PRE'])
    enc = lambda kv: [(id_code(k), v) for k, v in kv]
    L.append('Definition observed : tables := {|')
    L.append('  known_versions := %s;' % pl(enc(t['known_versions'])))
    L.append('  known_protocols := %s;' % zl(t['known_protocols']))
    L.append('  indices := %s;' % pl(t['indices']))
    L.append('  supported_versions := %s;' % pl(enc(t['supported_versions'])))
    L.append('  supported_protocols := %s;' % zl(t['supported_protocols']))
    L.append('  release_versions := %s;' % pl(enc(t['release_versions'])))
    L.append('  release_protocols := %s |}.' % zl(t['release_protocols']))
    kv = dict(t['known_versions'])
    L.append('Definition readme_release_protocols : list Z := %s.' %
             zl([kv.get(r, -1) for r in t['readme_releases']]))
    L.append('Definition layout : list Z := %s.' % zl([{'yz': 0, 'zy': 1}.get(x, 2) for x in t['layout']]))
    open(os.path.join(outdir, 'Versions.v'), 'w').write('\n'.join(L) + '\n')


def compile_gen(chk, name):
    if common.CHILD:
        return                       # extra-seed workers do not re-check proofs (the parent does)
    ok, out = common.coqc(os.path.join(chk.gen_dir, name + '.v'), extra_q=[(chk.gen_dir, 'Gen')], cwd=chk.gen_dir)
    if not ok:
        raise RuntimeError('generated file %s.v does not compile: %s' % (name, out[-1500:]))


def prepare(chk, which=('Versions',)):
    """reify + emit + compile the requested Gen files; returns the tables."""
    chk.gen_dir = os.path.join(chk.build, 'gen')
    os.makedirs(chk.gen_dir, exist_ok=True)
    t = reify(chk.build)
    chk.tables = t
    if 'Versions' in which:
        gen_versions(t, chk.gen_dir)
        compile_gen(chk, 'Versions')
    if 'Tables' in which:
        import gen_tables
        gen_tables.gen_tables(t, chk.gen_dir)
        compile_gen(chk, 'Tables')
    return t
