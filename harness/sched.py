"""Cooperative scheduler over real Python threads (DESIGN.md section 2.5).  Every controlled thread is
gated by a baton; it runs from one scheduling point to the next when the controller chooses it.
Scheduling points: lock acquire / release, deque.append / popleft, socket.send / shutdown / close, select,
thread start / join.  A schedule is a list of thread choices; choosing a thread that is blocked (lock held
elsewhere, joining a live thread) or finished is a no-op, as in the model."""
import threading, collections, random
import sim


class Kill(BaseException):
    """Unwinds a controlled thread when the controller abandons a run."""


class Worker(object):
    def __init__(self, sched, tid, fn, name):
        self.sched, self.tid, self.fn, self.name = sched, tid, fn, name
        self.go = threading.Semaphore(0)
        self.pending = ('start', None)
        self.finished = False
        self.error = None
        self.killed = False
        self.thread = threading.Thread(target=self.body, name='w%d' % tid, daemon=True)
        self.started = False

    def body(self):
        self.go.acquire()
        try:
            if not self.killed:
                self.fn()
        except Kill:
            pass
        except sim.EndOfScript:
            self.error = 'end-of-script'
        except BaseException as e:          # noqa
            self.error = e
        finally:
            self.finished = True
            self.pending = ('finished', None)
            self.sched.back.release()


class Sched(object):
    def __init__(self):
        self.workers = {}
        self.by_thread = {}
        self.back = threading.Semaphore(0)
        self.events = []                # (tid, kind, info) in execution order
        self.locks = []
        self.stop_idle = False

    # ---- controlled threads
    def spawn(self, tid, fn, name=None):
        w = Worker(self, tid, fn, name or 't%d' % tid)
        self.workers[tid] = w
        w.thread.start()
        self.by_thread[w.thread.ident] = w
        return w

    def current(self):
        return self.by_thread.get(threading.get_ident())

    def yield_point(self, kind, info=None):
        """called by a controlled thread just before it performs the operation [kind]"""
        w = self.current()
        if w is None or w.killed:
            return                      # an abandoned thread unwinds (finally clauses, lock releases) without scheduling
        w.pending = (kind, info)
        self.back.release()
        w.go.acquire()
        if w.killed:
            raise Kill()

    # ---- controller
    def enabled(self, w):
        if w.finished:
            return False
        kind, info = w.pending
        if kind == 'acquire':
            return info.owner is None or info.owner == w.tid
        if kind == 'join':
            return info is None or info.finished
        return True

    def step(self, tid):
        """let thread tid perform its pending operation and run to its next scheduling point"""
        w = self.workers.get(tid)
        if w is None or not self.enabled(w):
            return False
        self.events.append((tid,) + tuple(w.pending))
        w.go.release()
        self.back.acquire()
        return True

    def live(self):
        return [t for t, w in sorted(self.workers.items()) if not w.finished]

    def runnable(self):
        return [t for t, w in sorted(self.workers.items()) if self.enabled(w)]

    def kill_all(self):
        for w in self.workers.values():
            if not w.finished:
                w.killed = True
                w.go.release()
                self.back.acquire()


class InstrLock(object):
    """re-entrant lock whose acquire and release are scheduling points"""

    def __init__(self, sched):
        self.sched = sched
        self.owner = None
        self.depth = 0
        sched.locks.append(self)

    def _me(self):
        w = self.sched.current()
        return w.tid if w is not None else 'main'

    def acquire(self, blocking=True, timeout=-1):
        me = self._me()
        if me != 'main':
            if self.owner == me:
                self.depth += 1                 # re-entrant: no scheduling point
                return True
            if not blocking:
                if self.owner is None:
                    self.sched.events.append((me, 'acquire', None))
                    self.owner, self.depth = me, 1
                    return True
                return False
            self.sched.yield_point('acquire', self)
        assert self.owner is None or self.owner == me, 'lock acquired while held by %r' % (self.owner,)
        self.owner = me
        self.depth += 1
        return True

    def release(self):
        me = self._me()
        if self.depth == 1 and me != 'main':
            self.sched.yield_point('release', self)
        self.depth -= 1
        if self.depth == 0:
            self.owner = None

    __enter__ = acquire

    def __exit__(self, *a):
        self.release()


def make_deque(sched):
    class InstrDeque(collections.deque):
        def append(self, x):
            sched.yield_point('append', getattr(x, 'tag', None))
            collections.deque.append(self, x)

        def popleft(self):
            if not self:
                # nothing to take: no effect on shared state, so no scheduling point (code that tests len() first and code that
                # catches IndexError look the same to the model)
                return collections.deque.popleft(self)
            sched.yield_point('popleft', None)
            return collections.deque.popleft(self)
    return InstrDeque


def instrument(module, sc):
    """Replaces, in [module], whatever names hold the lock class and the deque class - "from threading import RLock" or
    "import threading", "from collections import deque" or "import collections" - by the scheduling-point versions.
    Returns an undo function."""
    import types
    saved = []
    ideque = make_deque(sc)
    for name, obj in list(vars(module).items()):
        if obj is threading.RLock:
            saved.append((name, obj))
            setattr(module, name, lambda *a, **k: InstrLock(sc))
        elif obj is collections.deque:
            saved.append((name, obj))
            setattr(module, name, ideque)
        elif obj is threading:
            saved.append((name, obj))
            ns = types.SimpleNamespace(**{k: v for k, v in vars(threading).items() if not k.startswith('__')})
            ns.RLock = lambda *a, **k: InstrLock(sc)
            setattr(module, name, ns)
        elif obj is collections:
            saved.append((name, obj))
            ns = types.SimpleNamespace(**{k: v for k, v in vars(collections).items() if not k.startswith('__')})
            ns.deque = ideque
            setattr(module, name, ns)

    def undo():
        for name, obj in saved:
            setattr(module, name, obj)
    return undo


def find_queue(conn):
    """the connection's outgoing queue, found by what it is (its only deque attribute), not by its private name"""
    qs = [v for v in vars(conn).values() if isinstance(v, collections.deque)]
    return qs[0] if len(qs) == 1 else getattr(conn, '_outgoing_packet_queue')
