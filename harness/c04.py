"""C04 - block positions, chunk-section positions, block records."""
import struct, itertools
import common, gen
from common import run_model, exn_name

RULE = ('for each of the 369 known versions (layout reified by probing, decided by the kernel): the full product of per-axis '
        'boundary values (in range and just outside), every single-bit / sign-boundary 64-bit word decoded, seeded random triples; '
        'chunk-section positions and block records likewise on both sides of protocol 741. impl bytes vs model word vs arithmetic '
        'spec; decode(encode) = identity in range; one context object hopping across the switch-over (reused-context stream). Non-trivial = triple with at least one non-zero coordinate; distinct by (version-layout, input).')


class Buf(object):
    def __init__(self, data=b''):
        self.data, self.pos, self.out = data, 0, b''

    def read(self, n=None):
        if n is None:
            n = len(self.data) - self.pos
        r = self.data[self.pos:self.pos + n]
        self.pos += len(r)
        return r

    def send(self, d):
        self.out += bytes(d)


def axis(bits):
    h = 1 << (bits - 1)
    return [-h, -h + 1, -2, -1, 0, 1, 2, h - 2, h - 1]


def spec_word(zy, x, y, z):
    if zy:
        return (x % 2 ** 26) * 2 ** 38 + (z % 2 ** 26) * 2 ** 12 + y % 2 ** 12
    return (x % 2 ** 26) * 2 ** 38 + (y % 2 ** 12) * 2 ** 26 + z % 2 ** 26


def check_positions(chk):
    from minecraft.networking.types import Position
    from minecraft.networking.connection import ConnectionContext
    t = chk.tables
    rng = chk.rng
    inr = [(x, y, z) for x in axis(26) for y in axis(12) for z in axis(26)]
    outr = [(1 << 25, 0, 0), (-(1 << 25) - 1, 5, 7), (3, 1 << 11, 9), (3, -(1 << 11) - 1, 9), (1, 2, 1 << 25), (1 << 40, 1 << 20, -(1 << 33))]
    nrand = 300 if chk.tier == 'thorough' else 40
    words = [1 << k for k in range(64)] + [(1 << k) - 1 for k in range(1, 65)] + [0, (1 << 64) - 1, 0x8000000000000000, 0x7FFFFFFFFFFFFFFF,
                                                                                   1 << 37 | 1 << 11, 1 << 63 | 1 << 25 | 1 << 11]
    model = {}
    for later in (False, True):
        model[later] = None
    for vi, (pv, lay) in enumerate(zip(t['known_protocols'], t['layout'])):
        if lay not in ('yz', 'zy'):
            chk.violation('layout', 'layout:%d' % pv, {'case': {'proto': pv}, 'observed': lay},
                          'protocol %d: Position encoder/decoder use neither 26/12/26 layout consistently (%s)' % (pv, lay))
            continue
        later = lay == 'zy'
        triples = inr if (chk.tier == 'thorough' or vi % 8 == 0 or pv in (404, 440, 441, 442, 443, 444, 451, 452, 477)) else inr[::7]
        triples = triples + outr + [(rng.randrange(-2 ** 25, 2 ** 25), rng.randrange(-2 ** 11, 2 ** 11), rng.randrange(-2 ** 25, 2 ** 25)) for _ in range(nrand)]
        m = run_model([('pos_batch', [later, [list(x) for x in triples]])])[0]
        ctx = ConnectionContext(protocol_version=pv)
        for (x, y, z), (mw, mu) in zip(triples, m):
            chk.count('position', [later, x, y, z], (x, y, z) != (0, 0, 0))
            b = Buf()
            try:
                Position.send_with_context((x, y, z), b, ctx)
                got = b.out
            except Exception as e:
                got = 'raised ' + exn_name(e)
            exp = struct.pack('>Q', mw)
            bad = None
            if got != exp:
                bad = 'encoded %s; model %s' % (got.hex() if isinstance(got, bytes) else got, exp.hex())
            elif mw != spec_word(later, x, y, z):
                bad = 'word %x is not the %s packing %x' % (mw, 'x|z|y' if later else 'x|y|z', spec_word(later, x, y, z))
            else:
                back = tuple(Position.read_with_context(Buf(got), ctx))
                if back != tuple(mu):
                    bad = 'decoded %r; model %r' % (back, tuple(mu))
                elif -2 ** 25 <= x < 2 ** 25 and -2 ** 11 <= y < 2 ** 11 and -2 ** 25 <= z < 2 ** 25 and back != (x, y, z):
                    bad = 'decode(encode) = %r' % (back,)
            if bad:
                chk.violation('position', 'pos:%d:%d:%d:%d' % (pv, x, y, z), {'case': {'proto': pv, 'xyz': [x, y, z]}, 'observed': bad},
                              'protocol %d Position %r: %s' % (pv, (x, y, z), bad))
        if chk.tier == 'thorough' or vi % 4 == 0:
            mu = run_model([('pos_unword_batch', [later, words])])[0]
            for w, u in zip(words, mu):
                chk.count('position-word', [later, w], True)
                back = tuple(Position.read_with_context(Buf(struct.pack('>Q', w)), ctx))
                if back != tuple(u):
                    chk.violation('position-word', 'posw:%d:%x' % (pv, w), {'case': {'proto': pv, 'word': w}, 'expected': u, 'observed': back},
                                  'protocol %d Position.read of word %016x = %r; model %r' % (pv, w, back, tuple(u)))
        chk.tally('layout:' + lay)
    # one context object whose protocol_version is reassigned (as Connection does while negotiating), hopping across the switch-over
    shared = ConnectionContext(protocol_version=t['known_protocols'][0])
    lay = dict(zip(t['known_protocols'], t['layout']))
    hops = [404, 477, 47, 757, 442, 443, 441, 444, 340, 498] + [rng.choice(t['known_protocols']) for _ in range(200 if chk.tier == 'thorough' else 40)]
    prev = None
    for pv in hops:
        if lay.get(pv) not in ('yz', 'zy'):
            continue
        shared.protocol_version = pv
        later = lay[pv] == 'zy'
        for (x, y, z) in [(1, 2, 3), (-5, 100, -7), (33554431, -2048, -33554432), (rng.randrange(-2 ** 25, 2 ** 25), rng.randrange(-2 ** 11, 2 ** 11), rng.randrange(-2 ** 25, 2 ** 25))]:
            chk.count('reused-context', [pv, prev, x, y, z], True)
            b = Buf()
            bad = None
            try:
                Position.send_with_context((x, y, z), b, shared)
                exp = struct.pack('>Q', spec_word(later, x, y, z))
                if b.out != exp:
                    bad = 'encoded %s; the %s packing is %s' % (b.out.hex(), 'x|z|y' if later else 'x|y|z', exp.hex())
                else:
                    back = tuple(Position.read_with_context(Buf(exp), shared))
                    if back != (x, y, z):
                        bad = 'decoded %r from the encoding of %r' % (back, (x, y, z))
            except Exception as e:
                bad = 'raised ' + exn_name(e)
            if bad:
                chk.violation('reused-context', 'reused:%d:%d:%d:%d' % (pv, x, y, z), {'case': {'proto': pv, 'previous_proto_on_this_context': prev, 'xyz': [x, y, z]}, 'observed': bad},
                              'protocol %d Position %r on a context previously at protocol %s: %s' % (pv, (x, y, z), prev, bad))
        prev = pv
    chk.sample('position', {'proto': 757, 'xyz': [1, 2, 3], 'word': '%016x' % spec_word(True, 1, 2, 3)}, k=1)


def check_csp_records(chk):
    from minecraft.networking.packets.clientbound.play import MultiBlockChangePacket as M
    from minecraft.networking.connection import ConnectionContext
    rng = chk.rng
    triples = [(x, y, z) for x in axis(22) for y in axis(20) for z in axis(22)]
    triples += [(1 << 21, 0, 0), (0, 1 << 19, 0), (0, 0, -(1 << 21) - 1), (1 << 30, -(1 << 25), 7)]
    triples += [(rng.randrange(-2 ** 21, 2 ** 21), rng.randrange(-2 ** 19, 2 ** 19), rng.randrange(-2 ** 21, 2 ** 21)) for _ in range(2000 if chk.tier == 'thorough' else 300)]
    m = run_model([('csp_batch', [list(x) for x in triples])])[0]
    for (x, y, z), (mw, mu) in zip(triples, m):
        chk.count('csp', [x, y, z], (x, y, z) != (0, 0, 0))
        b = Buf()
        M.ChunkSectionPos.send((x, y, z), b)
        bad = None
        if b.out != struct.pack('>Q', mw):
            bad = 'encoded %s; model %016x' % (b.out.hex(), mw)
        elif mw != (x % 2 ** 22) * 2 ** 42 + (z % 2 ** 22) * 2 ** 20 + y % 2 ** 20:
            bad = 'word is not the 22/22/20 packing'
        else:
            back = tuple(M.ChunkSectionPos.read(Buf(b.out)))
            if back != tuple(mu):
                bad = 'decoded %r; model %r' % (back, tuple(mu))
            elif -2 ** 21 <= x < 2 ** 21 and -2 ** 19 <= y < 2 ** 19 and -2 ** 21 <= z < 2 ** 21 and back != (x, y, z):
                bad = 'decode(encode) = %r' % (back,)
        if bad:
            chk.violation('csp', 'csp:%d:%d:%d' % (x, y, z), {'case': {'xyz': [x, y, z]}, 'observed': bad}, 'ChunkSectionPos %r: %s' % ((x, y, z), bad))
    words = [1 << k for k in range(64)] + [(1 << k) - 1 for k in range(1, 65)] + [0x80000, 0x7FFFF, 0x200000 << 20, 0x200000 << 42]
    mu = run_model([('csp_unword_batch', words)])[0]
    for w, u in zip(words, mu):
        chk.count('csp-word', w, True)
        back = tuple(M.ChunkSectionPos.read(Buf(struct.pack('>Q', w))))
        if back != tuple(u):
            chk.violation('csp-word', 'cspw:%x' % w, {'case': {'word': w}, 'expected': u, 'observed': back}, 'ChunkSectionPos.read(%016x) = %r; model %r' % (w, back, tuple(u)))
    # records on both sides of 741
    from minecraft.networking.types import VarInt, VarLong
    quads = [(x, y, z, s) for x in (0, 1, 7, 15) for y in (0, 1, 15) for z in (0, 8, 15) for s in (0, 1, 15, 16, 4095, 4096, 2 ** 23 - 1, 2 ** 31 - 1, 2 ** 32 - 1)]
    quads += [(x, y, z, s) for x in (0, 15) for y in (0, 15) for z in (0, 15) for s in (2 ** 35, 2 ** 51, 2 ** 52 - 1)]
    quads += [(rng.randrange(16), rng.randrange(16), rng.randrange(16), rng.getrandbits(rng.choice([4, 12, 20, 31, 40, 51]))) for _ in range(300)]
    m = run_model([('rec_batch', [list(q) for q in quads])])[0]
    oldy = [(x, y, z, s) for x in (0, 3, 15) for y in (0, 1, 15, 16, 17, 127, 128, 200, 255) for z in (0, 9, 15) for s in (0, 1, 255, 2 ** 14, 2 ** 31 - 1)]
    for pv, new in ((740, False), (741, True), (754, True), (404, False), (47, False), (757, True)):
        ctx = ConnectionContext(protocol_version=pv)
        for (x, y, z, s), (mw, mu, mh, muh) in zip(quads, m):
            if not new and s >= 2 ** 32:
                continue        # before 741 the state id travels as a VarInt: domain [0, 2^32)
            chk.count('record', [new, x, y, z, s], True)
            rec = M.Record(x=x, y=y, z=z, block_state_id=s)
            b = Buf()
            try:
                M.Record.send_with_context(rec, b, ctx)
            except Exception as e:
                chk.violation('record', 'rec:%d:%r' % (pv, (x, y, z, s)), {'case': {'proto': pv, 'record': [x, y, z, s]}, 'observed': exn_name(e)},
                              'protocol %d block record %r: send raised %s' % (pv, (x, y, z, s), exn_name(e)))
                continue
            if new:
                eb = Buf()
                VarLong.send(mw, eb)
                exp = eb.out
            else:
                eb = Buf()
                VarInt.send(s, eb)
                exp = bytes([mh, y]) + eb.out
            bad = None
            if b.out != exp:
                bad = 'encoded %s; model %s' % (b.out.hex(), exp.hex())
            else:
                try:
                    r = M.Record.read_with_context(Buf(b.out), ctx)
                    back = (r.x, r.y, r.z, r.block_state_id)
                except Exception as e:
                    back = 'raised ' + exn_name(e)
                if back != (x, y, z, s):
                    bad = 'decode(encode) = %r' % (back,)
            if bad:
                chk.violation('record', 'rec:%d:%r' % (pv, (x, y, z, s)), {'case': {'proto': pv, 'record': [x, y, z, s]}, 'observed': bad},
                              'protocol %d block record %r: %s' % (pv, (x, y, z, s), bad))
        if not new:
            for (x, y, z, s) in oldy:
                chk.count('record-old', [x, y, z, s], True)
                rec = M.Record(x=x, y=y, z=z, block_state_id=s)
                b = Buf()
                M.Record.send_with_context(rec, b, ctx)
                r = M.Record.read_with_context(Buf(b.out), ctx)
                back = (r.x, r.y, r.z, r.block_state_id)
                if back != (x, y, z, s) or b.out[:2] != bytes([x * 16 + z, y]):
                    chk.violation('record-old', 'rec:%d:%r' % (pv, (x, y, z, s)), {'case': {'proto': pv, 'record': [x, y, z, s]}, 'observed': [b.out.hex(), back]},
                                  'protocol %d block record %r: bytes %s decode to %r' % (pv, (x, y, z, s), b.out.hex(), back))
    chk.sample('record', {'proto': 741, 'record': [1, 2, 3, 4096]}, k=1)


def witness_layout(chk):
    t = chk.tables
    pos = {p: i for i, p in enumerate(t['known_protocols'])}
    found = False
    lay = t['layout']
    for i, (pv, l) in enumerate(zip(t['known_protocols'], lay)):
        bad = None
        if l not in ('yz', 'zy'):
            bad = 'uses neither layout consistently (%s)' % l
        elif 404 in pos and i <= pos[404] and l != 'yz':
            bad = 'is at or before 1.13.2 (404) but uses x|z|y'
        elif 477 in pos and i >= pos[477] and l != 'zy':
            bad = 'is at or after 1.14 (477) but uses x|y|z'
        elif i > 0 and lay[i - 1] == 'zy' and l == 'yz':
            bad = 'switches back to x|y|z after protocol %d used x|z|y (more than one switch-over)' % t['known_protocols'][i - 1]
        if bad:
            found = True
            chk.violation('layout', 'layout:%d' % pv, {'case': {'proto': pv, 'probe': [1, 2, 3]}, 'observed': l}, 'protocol %d %s' % (pv, bad))
    return found


def check_reentrancy(chk):
    """the position codecs behave like functions: nothing carried over from a failed socket, nothing shared between threads"""
    import reent
    from minecraft.networking.types import Position
    from minecraft.networking.packets.clientbound.play import MultiBlockChangePacket as M
    from minecraft.networking.connection import ConnectionContext
    lay = dict(zip(chk.tables['known_protocols'], chk.tables['layout']))
    trip = [(1, 2, 3), (-1, -1, -1), (0, 0, 0), (33554431, -2048, -33554432), (-5, 100, -7), (12345, 77, -54321)]
    enc = []
    for pv in (47, 404, 477, 757):
        if lay.get(pv) not in ('yz', 'zy'):
            continue
        ctx = ConnectionContext(protocol_version=pv)
        for t in trip:
            enc.append(('Position@%d' % pv, (lambda v, s, ctx=ctx: Position.send_with_context(v, s, ctx)), t, struct.pack('>Q', spec_word(lay[pv] == 'zy', *t)),
                        (lambda d, ctx=ctx: tuple(Position.read_with_context(Buf(d), ctx)))))
    for (x, y, z) in [(1, 2, 3), (-1, -1, -1), (2 ** 21 - 1, -2 ** 19, -2 ** 21), (0, 0, 0)]:
        enc.append(('ChunkSectionPos', M.ChunkSectionPos.send, (x, y, z), struct.pack('>Q', (x % 2 ** 22) * 2 ** 42 + (z % 2 ** 22) * 2 ** 20 + y % 2 ** 20),
                    (lambda d: tuple(M.ChunkSectionPos.read(Buf(d))))))
    reent.after_failure(chk, 'reentrancy', [e[:4] for e in enc])
    # the packing depends on the three numbers, not on the kind of sequence they come in
    from minecraft.networking.types import Vector
    shapes = [('tuple', tuple), ('list', list), ('Vector', lambda t: Vector(*t)), ('Position', lambda t: Position(*t)),
              ('ChunkSectionPos', lambda t: M.ChunkSectionPos(*t)), ('generator', lambda t: (v for v in t))]
    for label, send, t, exp, _rd in enc:
        for sname, mk_shape in shapes:
            chk.count('argument-shape', [label, sname, list(t)], True)
            b = Buf()
            try:
                send(mk_shape(t), b)
                got = b.out
            except Exception as e:
                got = 'raised ' + exn_name(e)
            if got != exp:
                chk.violation('argument-shape', 'shape:%s:%s:%r' % (label, sname, t), {'case': {'codec': label, 'argument': '%s%r' % (sname, tuple(t))}, 'expected': exp.hex(), 'observed': got.hex() if isinstance(got, bytes) else got},
                              '%s of %s%r is %s; of the plain tuple %s' % (label, sname, tuple(t), got.hex() if isinstance(got, bytes) else got, exp.hex()))
                break

    def mk(send, v):
        def call():
            b = Buf()
            send(v, b)
            return b.out
        return call
    cases = [('%s.send%r' % (label, v), mk(send, v), exp) for label, send, v, exp, _r in enc]
    cases += [('%s.read(%s)' % (label, exp.hex()), (lambda rd=rd, exp=exp: rd(exp)), v) for label, _s, v, exp, rd in enc]
    reent.threaded(chk, 'reentrancy', cases, seconds=2.0 if chk.tier == 'thorough' else 0.6)


def whole_packets(chk):
    """The packets that carry the position codecs, whole: a multi block change with any number of records - among them the
    smallest ones (air at the low corner of a section: one byte from protocol 741 on) - and a block change, written by the real
    classes, framed, and read back through the real play reactor's read_packet; the chunk position and every record come back."""
    import proto
    from minecraft.networking.connection import ConnectionContext, PlayingReactor
    from minecraft.networking.packets import PacketBuffer
    from minecraft.networking.packets.clientbound.play import MultiBlockChangePacket as M, BlockChangePacket as B
    from minecraft.networking.types import Position
    import types, sim
    from minecraft.networking import connection as C
    sim.patch_select(C)                  # (a stream is readable when it has data; left installed - every later use goes through the simulation too)
    rng = chk.rng
    lay = dict(zip(chk.tables['known_protocols'], chk.tables['layout']))
    for pv in (47, 340, 404, 477, 578, 736, 740, 741, 751, 754, 757):
        if lay.get(pv) not in ('yz', 'zy'):
            continue
        ctx = ConnectionContext(protocol_version=pv)
        conn = types.SimpleNamespace(context=ctx, options=types.SimpleNamespace(compression_enabled=False, compression_threshold=-1))
        reactor = PlayingReactor(conn)
        for n, kind in ((0, 'none'), (1, 'smallest'), (3, 'smallest'), (17, 'smallest'), (200, 'smallest'), (5, 'mixed'), (64, 'mixed'), (300, 'largest')):
            recs = []
            for i in range(n):
                if kind == 'smallest':
                    recs.append((0, 0, i % 8, 0))
                elif kind == 'largest':
                    recs.append((15, 15 if pv >= 741 else 255, 15, 2 ** 13 - 1))
                else:
                    recs.append((rng.randrange(16), rng.randrange(16), rng.randrange(16), rng.choice([0, 0, 1, 127, 128, 9000])))
            pkt = M(context=ctx)
            if pv >= 741:
                pkt.chunk_section_pos = M.ChunkSectionPos(rng.randrange(-2 ** 21, 2 ** 21), rng.randrange(-2 ** 19, 2 ** 19), rng.randrange(-2 ** 21, 2 ** 21))
                pkt.invert_trust_edges = bool(n % 2)
            else:
                pkt.chunk_x, pkt.chunk_z = rng.randrange(-2 ** 20, 2 ** 20), rng.randrange(-2 ** 20, 2 ** 20)
            pkt.records = [M.Record(x=x, y=y, z=z, block_state_id=b) for x, y, z, b in recs]
            chk.count('whole-packets', [pv, n, kind, recs[:4]], True)
            try:
                buf = PacketBuffer()
                pkt.write(buf)
                back = reactor.read_packet(sim.SegStream([buf.get_writable()]), timeout=0)
                got = [(r.x, r.y, r.z, r.block_state_id) for r in back.records]
                where = tuple(back.chunk_section_pos) if pv >= 741 else (back.chunk_x, back.chunk_z)
                want_where = tuple(pkt.chunk_section_pos) if pv >= 741 else (pkt.chunk_x, pkt.chunk_z)
                what = None if (got == recs and where == want_where and type(back) is M) else 'read back as %s at %s (%d records)' % (type(back).__name__, where, len(got))
            except Exception as e:
                what = 'raised %s: %s' % (exn_name(e), str(e)[:80])
            if what:
                chk.violation('whole-packets', 'whole:%d:%d:%s' % (pv, n, kind), {'case': {'proto': pv, 'records': n, 'kind': kind, 'first': recs[:4]}, 'observed': what},
                              'multi block change at protocol %d with %d records (%s): %s' % (pv, n, kind, what))
        xyz = (rng.randrange(-2 ** 25, 2 ** 25), rng.randrange(-2 ** 11, 2 ** 11), rng.randrange(-2 ** 25, 2 ** 25))
        pkt = B(context=ctx)
        pkt.location, pkt.block_state_id = Position(*xyz), 4097
        buf = PacketBuffer()
        pkt.write(buf)
        chk.count('whole-packets', [pv, 'block-change', list(xyz)], True)
        try:
            back = reactor.read_packet(sim.SegStream([buf.get_writable()]), timeout=0)
            ok = tuple(back.location) == xyz and back.block_state_id == 4097
            what = None if ok else 'read back as %r' % (tuple(back.location),)
        except Exception as e:
            what = 'raised %s' % exn_name(e)
        if what:
            chk.violation('whole-packets', 'whole:%d:block-change' % pv, {'case': {'proto': pv, 'xyz': list(xyz)}, 'observed': what}, 'block change at protocol %d, position %r: %s' % (pv, xyz, what))


def connection_positions(chk):
    """Through the Connection: one packet object carrying a block position is written on connections of versions either side
    of the switch-over (and once built with another version's context); the word on the wire is packed for the version of the
    connection it is written on."""
    import sim, proto
    from minecraft.networking.connection import Connection, ConnectionContext
    from minecraft.networking.packets import Packet
    from minecraft.networking.types import Position
    lay = dict(zip(chk.tables['known_protocols'], chk.tables['layout']))
    rng = chk.rng

    class Probe(Packet):
        id = 0x3f
        packet_name = 'position probe'
        definition = [{'location': Position}]
    for trial in range(6):
        vers = [rng.choice([47, 340, 404, 441, 442]), rng.choice([443, 444, 477, 757]), rng.choice([404, 757, 442, 443])]
        if trial % 2:
            vers = vers[::-1]
        xyz = (rng.randrange(-2 ** 25, 2 ** 25), rng.randrange(-2 ** 11, 2 ** 11), rng.randrange(-2 ** 25, 2 ** 25))
        reused = Probe()
        reused.location = Position(*xyz)
        net = sim.Net([sim.Server([], end='idle') for _ in range(len(vers) + 1)]).install()
        what = None
        try:
            conn = Connection('localhost', 25565, username='user', allowed_versions={vers[0]}, handle_exception=lambda e, i: None)
            for k, pv in enumerate(vers):
                if lay.get(pv) not in ('yz', 'zy'):
                    continue
                conn.allowed_proto_versions = {pv}
                try:
                    conn.disconnect(immediate=True)
                except Exception:
                    pass
                conn.connect()
                srv = net.servers[net.nconn - 1]
                ids = proto.Ids(pv)
                srv.chunks.append(proto.frame(ids.login_success, ids.b_login_success()))
                net.run_threads(conn)
                foreign = Probe(context=ConnectionContext(protocol_version=rng.choice([404, 757])))
                foreign.location = Position(*xyz)
                for pkt, label in ((reused, 'used before on other connections'), (foreign, 'built with another version\'s context')):
                    nb = len(srv.sends)
                    conn.write_packet(pkt, force=True)
                    fr = proto.parse_frames(b''.join(srv.sends[nb:]))
                    chk.count('connection-position', [trial, k, pv, label], True)
                    exp = struct.pack('>Q', spec_word(lay[pv] == 'zy', *xyz))
                    if [f[1] for f in fr] != [exp]:
                        what = 'a packet object %s, written on a protocol %d connection, carries position word %s; the %s packing is %s' % (
                            label, pv, [f[1].hex() for f in fr], 'x|z|y' if lay[pv] == 'zy' else 'x|y|z', exp.hex())
                        break
                if what:
                    break
        except Exception as e:
            what = 'history raised %s' % exn_name(e)
        finally:
            net.uninstall()
        if what:
            chk.violation('connection-position', 'connection-position:%d' % trial, {'case': {'versions': vers, 'xyz': list(xyz)}, 'observed': what},
                          'one Connection through versions %s, position %r: %s' % (vers, xyz, what))


def run(chk):
    bad = common.lint()
    if bad:
        chk.broken('lint', '; '.join(bad[:10]))
    gen.prepare(chk, ('Versions',))
    ok, out = chk.prove('Properties/C04.v', extra_q=[(chk.gen_dir, 'Gen')])
    if not ok and not witness_layout(chk):
        chk.broken('Properties/C04.v', out)
    check_positions(chk)
    check_csp_records(chk)
    check_reentrancy(chk)
    connection_positions(chk)
    whole_packets(chk)
    chk.assumptions += ['struct.pack(">Q") / UnsignedLong, VarInt/VarLong (C03) carry the packed word', 'layout per version is observed by probing three triples that distinguish the layouts']


def replay(chk, rp):
    run(chk)
