"""C03 - VarInt/VarLong: bounded decoding, terminating canonical encoding, size."""
import os, sys, subprocess, json, itertools
import common
from common import run_model, res_decode, exn_name

RULE = ('read: byte strings (all up to 2 bytes quick / 3 bytes thorough; every continuation-bit shape up to 13 bytes x '
        'boundary payloads; every truncation; seeded random) decoded by VarInt.read and VarLong.read through a '
        'byte-counting stream vs the extracted model; send/size: integers (all below 2^14 quick / 2^21 thorough, powers '
        'of two and neighbours up to 2^90, negatives in a watchdog subprocess, seeded random) vs model and the LEB128 spec. '
        'Non-trivial = multi-byte or erroring case; distinct by (suite, input).')


class CountingStream(object):
    def __init__(self, data):
        self.data, self.pos, self.reads = data, 0, 0

    def read(self, n=None):
        self.reads += 1
        if n is None:
            n = len(self.data) - self.pos
        r = self.data[self.pos:self.pos + n]
        self.pos += len(r)
        return r


class Sink(object):
    def __init__(self):
        self.b = b''

    def send(self, d):
        self.b += d


_turn = [0]


def impl_read(cls, data):
    # the stream hands out bytes objects, or - one call in three - bytearrays (a reader slicing its mutable receive buffer)
    _turn[0] += 1
    s = CountingStream(bytearray(data) if _turn[0] % 3 == 0 else data)
    try:
        v = cls.read(s)
        return ['ok', v, s.pos]
    except Exception as e:
        return ['err', exn_name(e), s.pos]


def impl_send(cls, v):
    s = Sink()
    try:
        cls.send(v, s)
        return ['ok', s.b.hex()]
    except Exception as e:
        return ['err', exn_name(e)]


def impl_size(cls, v):
    try:
        return ['ok', cls.size(v)]
    except Exception as e:
        return ['err', exn_name(e)]


def leb128(n):
    out = bytearray()
    while True:
        if n < 128:
            out.append(n)
            return bytes(out)
        out.append(n % 128 + 128)
        n //= 128


def gen_read(chk):
    rng, thorough = chk.rng, chk.tier == 'thorough'
    cases = [b'']
    cases += [bytes([a]) for a in range(256)]
    cases += [bytes([a, b]) for a in range(256) for b in range(256)]
    bset = [0, 1, 2, 0x3f, 0x40, 0x7e, 0x7f, 0x80, 0x81, 0xbf, 0xc0, 0xfe, 0xff, 0x55, 0xaa, 0x0f]
    if thorough:
        cases += [bytes([a, b, c]) for a in range(128, 256) for b in range(128, 256) for c in range(256)]
        cases += [bytes([a, b, c]) for a in bset for b in bset for c in bset]
    else:
        cases += [bytes([a, b, c]) for a in bset for b in bset for c in bset]
    # every continuation-bit shape up to 13 bytes with boundary payloads
    pay = [0, 1, 0x7f, 0x55] if thorough else [0, 0x7f]
    maxlen = 13
    for ln in range(1, maxlen + 1):
        for shape in range(1 << ln):
            if not thorough and ln > 8 and (shape & ((1 << (ln - 4)) - 1)) not in (0, (1 << (ln - 4)) - 1):
                continue   # quick: for long strings vary only the last four continuation bits freely
            for p in pay:
                cases.append(bytes(((0x80 if (shape >> i) & 1 else 0) | p) for i in range(ln)))
    # every truncation of boundary encodings, with trailing data
    for k in list(range(0, 92, 7)) + [31, 32, 63, 64]:
        for d in (-1, 0, 1):
            n = (1 << k) + d
            if n >= 0:
                e = leb128(n) + b'\x05\x80'
                for t in range(len(e) + 1):
                    cases.append(e[:t])
    for _ in range(20000 if thorough else 3000):
        ln = rng.choice([1, 2, 3, 4, 5, 6, 7, 9, 10, 11, 12, 14, 20])
        hi = rng.random()
        cases.append(bytes((rng.randrange(128) | (0x80 if rng.random() < hi else 0)) for _ in range(ln)))
    return cases


def gen_ints(chk):
    rng, thorough = chk.rng, chk.tier == 'thorough'
    ns = list(range(1 << (21 if thorough else 14)))
    for k in range(0, 92):
        for d in (-2, -1, 0, 1, 2):
            n = (1 << k) + d
            if n >= 0:
                ns.append(n)
    for _ in range(20000 if thorough else 3000):
        ns.append(rng.getrandbits(rng.choice([8, 15, 22, 29, 32, 33, 36, 43, 50, 57, 63, 64, 65, 71, 78, 85, 100])))
    return ns


NEG = [-1, -2, -127, -128, -129, -2 ** 31, -2 ** 31 - 1, -2 ** 63, -2 ** 64, -2 ** 77 - 5]


def neg_subprocess(values, timeout=8):
    """Run VarInt.send / VarLong.send on negative values in a subprocess under a watchdog:
    a send that does not return within the time budget 'does not terminate'."""
    code = r'''
import sys, json
from minecraft.networking.types import VarInt, VarLong
class S:
    def __init__(s): s.n = 0
    def send(s, d): s.n += len(d)
v = int(sys.argv[1]); cls = {'VarInt': VarInt, 'VarLong': VarLong}[sys.argv[2]]
s = S()
try:
    cls.send(v, s); print(json.dumps(['ok', s.n]))
except Exception as e:
    print(json.dumps(['err', type(e).__name__]))
'''
    out = {}
    hung = False
    for cname in ('VarInt', 'VarLong'):
        for v in values:
            if hung:        # one non-terminating send is the finding; do not burn a watchdog period per value
                continue
            p = subprocess.Popen([common.PY, '-B', '-c', code, str(v), cname], env=common.sub_env(),
                                 stdout=subprocess.PIPE, stderr=subprocess.PIPE)
            try:
                o, _e = p.communicate(timeout=timeout)
                out[(cname, v)] = json.loads(o.decode() or '["err","crash"]')
            except subprocess.TimeoutExpired:
                p.kill()
                p.communicate()
                out[(cname, v)] = ['hang']
                hung = True
    return out


def check_read(chk, cases):
    from minecraft.networking.types import VarInt, VarLong
    for cname, cls, maxb in (('VarInt', VarInt, 5), ('VarLong', VarLong, 10)):
        model = run_model([('varint_read', [maxb, c]) for c in cases])
        for c, m in zip(cases, model):
            got = impl_read(cls, c)
            m = res_decode(m, lambda r: (r[0], len(c) - len(r[1])))
            exp = ['ok', m[1][0], m[1][1]] if m[0] == 'ok' else ['err', m[1]] if m[0] == 'err' else ['fuel']
            nontrivial = len(c) >= 2 or got[0] == 'err'
            chk.count('read', [cname, c.hex()], nontrivial)
            chk.tally('read:' + (got[0] if got[0] == 'ok' else got[1]))
            chk.tally('read:len%d' % min(len(c), 14))
            bad = None
            if got[0] == 'ok':
                if exp[0] != 'ok' or got[1] != exp[1] or got[2] != exp[2]:
                    bad = 'decoded %r consuming %d bytes; spec: %r' % (got[1], got[2], exp)
                elif got[1] < 0:
                    bad = 'negative result'
            else:
                if exp[:2] != got[:2]:
                    bad = 'raised %s; spec: %r' % (got[1], exp)
            if got[2] > maxb + 1:
                bad = 'consumed %d bytes > max_bytes+1' % got[2]
            if bad:
                chk.violation('read', 'read:%s:%s' % (cname, c.hex()),
                              {'case': {'cls': cname, 'bytes': c.hex()}, 'expected': exp, 'observed': got},
                              '%s.read(%s): %s' % (cname, c.hex(), bad))
        chk.sample('read', {'cls': cname, 'bytes': cases[len(cases) // 2].hex(), 'observed': impl_read(cls, cases[len(cases) // 2])}, k=2)


def check_send(chk, ns):
    from minecraft.networking.types import VarInt, VarLong
    msend = run_model([('varint_send', [n]) for n in ns])
    msize = run_model([('varint_size', [n]) for n in ns])
    for cname, cls, maxb in (('VarInt', VarInt, 5), ('VarLong', VarLong, 10)):
        for n, ms, mz in zip(ns, msend, msize):
            got = impl_send(cls, n)
            ms_ = res_decode(ms, lambda r: bytes(r).hex())
            exp = list(ms_)
            nontrivial = n >= 128
            chk.count('send', [cname, n], nontrivial)
            chk.tally('send:bytes%d' % (len(leb128(n))))
            bad = None
            if got != exp:
                bad = 'send gave %r; model/spec: %r' % (got, exp)
            elif got[0] == 'ok' and got[1] != leb128(n).hex():
                bad = 'not the canonical LEB128 form %s' % leb128(n).hex()
            if bad is None and got[0] == 'ok' and n < 128 ** (maxb + 1):
                r = impl_read(cls, bytes.fromhex(got[1]) + b'\x07')
                if r != ['ok', n, len(got[1]) // 2]:
                    bad = 'read(send(n)) = %r' % (r,)
            if bad is None and got[0] == 'ok' and n >= 128 ** (maxb + 1):
                r = impl_read(cls, bytes.fromhex(got[1]) + b'\x07')
                if r[:2] != ['err', 'ValueError']:
                    bad = 'read of an over-long encoding gave %r' % (r,)
            if bad:
                chk.violation('send', 'send:%s:%d' % (cname, n), {'case': {'cls': cname, 'n': n}, 'expected': exp, 'observed': got},
                              '%s.send(%d): %s' % (cname, n, bad))
            gz = impl_size(cls, n)
            mz_ = list(res_decode(mz))
            chk.count('size', [cname, n], nontrivial)
            bad = None
            if gz != mz_:
                bad = 'size gave %r; model: %r' % (gz, mz_)
            elif gz[0] == 'ok' and got[0] == 'ok' and gz[1] != len(got[1]) // 2:
                bad = 'size %d != encoded length %d' % (gz[1], len(got[1]) // 2)
            if bad:
                chk.violation('size', 'size:%s:%d' % (cname, n), {'case': {'cls': cname, 'n': n}, 'expected': mz_, 'observed': gz},
                              '%s.size(%d): %s' % (cname, n, bad))
    chk.sample('send', {'n': ns[-1], 'VarLong.send': impl_send(VarLong, ns[-1])}, k=2)


def check_neg(chk, values):
    res = neg_subprocess(values)
    model = run_model([('varint_send', [v]) for v in values])
    for (cname, v), got in sorted(res.items()):
        chk.count('send-negative', [cname, v], True)
        chk.tally('send-negative:' + got[0])
        exp = list(res_decode(model[values.index(v)]))
        if got[0] == 'hang':
            chk.violation('send-negative', 'send:%s:%d' % (cname, v), {'case': {'cls': cname, 'n': v}, 'expected': exp, 'observed': got},
                          '%s.send(%d) does not terminate (watchdog expired)' % (cname, v))
        elif got[0] == 'ok' or got[1] != 'ValueError':
            chk.violation('send-negative', 'send:%s:%d' % (cname, v), {'case': {'cls': cname, 'n': v}, 'expected': exp, 'observed': got},
                          '%s.send(%d) gave %r; model: %r' % (cname, v, got, exp))
    chk.sample('send-negative', {'n': values[0], 'observed': res.get(('VarInt', values[0]))}, k=1)


def check_table(chk):
    """The size table is data in the source: compare the module dict with the model's table."""
    from minecraft.networking.types import basic
    tbl = list(basic.VARINT_SIZE_TABLE.items())
    exp = [(2 ** (7 * k), k) for k in range(1, 13)]
    chk.count('size-table', tbl, True)
    if tbl != exp:
        chk.violation('size-table', 'size-table', {'case': {'table': tbl}, 'expected': exp, 'observed': tbl},
                      'VARINT_SIZE_TABLE differs from the modelled table (first difference: %r)' %
                      (next((a, b) for a, b in itertools.zip_longest(tbl, exp) if a != b),))


def reentrancy(chk):
    """VarInt / VarLong behave like functions: nothing carried over from a call whose socket failed, nothing shared between threads"""
    import reent
    from minecraft.networking.types import VarInt, VarLong
    vals = [0, 1, 127, 128, 300, 16384, 2 ** 21 - 1, 2 ** 28, 2 ** 31 - 1, 2 ** 32 - 1]
    enc = [('VarInt', VarInt.send, v, leb128(v)) for v in vals] + [('VarLong', VarLong.send, v, leb128(v)) for v in vals + [2 ** 35, 2 ** 56, 2 ** 63 - 1, 2 ** 64 - 1]]
    reent.after_failure(chk, 'reentrancy', enc)
    reent.after_read_failure(chk, 'reentrancy', [(n, (VarInt if n == 'VarInt' else VarLong).read, e, (v, len(e))) for n, _f, v, e in enc])

    def mk_send(cls, v):
        def call():
            s = Sink()
            cls.send(v, s)
            return s.b
        return call

    def mk_read(cls, data):
        def call():
            s = CountingStream(data + b'\x55')
            return (cls.read(s), s.pos)
        return call
    cases = [('%s.send(%d)' % (n, v), mk_send(VarInt if n == 'VarInt' else VarLong, v), e) for n, _f, v, e in enc]
    cases += [('%s.read(%s)' % (n, e.hex()), mk_read(VarInt if n == 'VarInt' else VarLong, e), (v, len(e))) for n, _f, v, e in enc]
    reent.threaded(chk, 'reentrancy', cases, seconds=2.0 if chk.tier == 'thorough' else 0.6)


def first_use(chk):
    """Before anything else has been encoded in this process: an integer whose FIRST encoding attempt was made with an equal
    value of the wrong type (5.0, Fraction(5), Decimal(5), '5' - the call may raise) still encodes canonically afterwards."""
    import reent
    from fractions import Fraction
    from decimal import Decimal
    from minecraft.networking.types import VarInt, VarLong
    fresh = [('VarInt', VarInt.send, v, leb128(v)) for v in (5, 77, 200, 4242, 16383, 70000)] + [('VarLong', VarLong.send, v, leb128(v)) for v in (6, 78, 201, 4243)]
    reent.after_bad_argument(chk, 'reentrancy', fresh, lambda v: [float(v), Fraction(v), Decimal(v), complex(v), str(v)])


def run(chk):
    first_use(chk)
    common.standard_proof(chk, 'Properties/C03.v')
    check_table(chk)
    check_read(chk, gen_read(chk))
    check_send(chk, gen_ints(chk))
    check_neg(chk, NEG)
    reentrancy(chk)
    chk.assumptions += ['CPython integer and bytes semantics; struct.pack("B")',
                        'negative sends are judged non-terminating when an 8 s watchdog expires']


def replay(chk, rp):
    c = rp['case']
    if rp['suite'] == 'read':
        check_read(chk, [bytes.fromhex(c['bytes'])])
    elif rp['suite'] in ('send', 'size'):
        check_send(chk, [c['n']])
    elif rp['suite'] == 'send-negative':
        check_neg(chk, [c['n']])
    else:
        check_table(chk)
