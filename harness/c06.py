"""C06 - per-version packet id tables are total and injective."""
import os, sys, json, subprocess, hashlib
import common, gen, gen_tables

RULE = ('exhaustive: all 250 supported protocol versions x 8 state/direction tables, evaluated by the Coq kernel over the '
        'tables reified from the source on this run (each (version, table) is one case; non-trivial = non-empty table); the '
        'remaining known versions are swept by the same oracle and reported, not asserted; decoder tables of the real reactors '
        'are rebuilt under several hash seeds and compared; the reifier re-evaluates every version newest-first and alternating '
        'between both ends on one reused context, and the oracle is run on every evaluation that differs.')

REACTOR_SCRIPT = r'''
import json, sys
import minecraft
from minecraft.networking.connection import ConnectionContext, LoginReactor, PlayingReactor, StatusReactor, PacketReactor
class C: pass
out = {}
for pv in minecraft.SUPPORTED_PROTOCOL_VERSIONS:
    c = C(); c.context = ConnectionContext(protocol_version=pv)
    row = {}
    for R in (PacketReactor, StatusReactor, LoginReactor, PlayingReactor):
        try:
            r = R(c)
            row[R.__name__] = sorted((i, k.__module__ + ':' + k.__qualname__) for i, k in r.clientbound_packets.items())
        except Exception as e:
            row[R.__name__] = '!' + type(e).__name__
    out[pv] = row
print(json.dumps(out, sort_keys=True))
'''

# tables computed through contexts that exist BEFORE the version records are extended at run time and the module tables
# rebuilt (C08's histories): the table of a version must not change.  Prints the versions whose table changed.
EXTENSION_SCRIPT = r'''
import json, sys, importlib
import minecraft
from minecraft.networking.connection import ConnectionContext
mods = {d + '.' + s: importlib.import_module('minecraft.networking.packets.%s.%s' % (d, s))
        for d in ('clientbound', 'serverbound') for s in ('handshake', 'status', 'login', 'play')}
def table(ctx):
    row = {}
    for tn, m in mods.items():
        row[tn] = sorted((repr(k.get_id(ctx)), k.__module__.replace('minecraft.networking.packets.', '') + ':' + k.__qualname__) for k in m.get_packets(ctx))
    return row
sup = list(minecraft.SUPPORTED_PROTOCOL_VERSIONS)
ctxs = {pv: ConnectionContext(protocol_version=pv) for pv in sup}
before = {pv: table(c) for pv, c in ctxs.items()}
changed = []
recs = minecraft.KNOWN_MINECRAFT_VERSION_RECORDS
for where, rec in ((len(recs) // 2, minecraft.Version('verif-mid', minecraft.PRE | 901, False)), (3, minecraft.Version('verif-early', 3000001, True)),
                   (len(recs), minecraft.Version('verif-late', 3000002, True))):
    recs.insert(min(where, len(recs)), rec)
    minecraft.initglobals(use_known_records=True)
    for pv, c in ctxs.items():
        try:
            after = table(c)
        except Exception as e:
            after = {'error': type(e).__name__}
        if after != before[pv]:
            tn = next((t for t in before[pv] if after.get(t) != before[pv][t]), 'error')
            changed.append({'proto': pv, 'inserted': rec.id, 'table': tn, 'before': before[pv].get(tn), 'after': after.get(tn, after)})
    if changed:
        break
# while initglobals() is rebuilding the index map (it clears it and refills it record by record, not atomically), a table
# asked for by another thread is either refused (KeyError) or the right one - never the table of another version
if not changed:
    idx = minecraft.PROTOCOL_VERSION_INDICES
    full = list(idx.items())
    idx.clear()
    try:
        for k, (p, i) in enumerate(full):
            if k % 37 == 0:
                for pv in sup[::9]:
                    try:
                        t = table(ctxs[pv])
                    except Exception:
                        continue
                    if t != before[pv]:
                        tn = next(x for x in before[pv] if t.get(x) != before[pv][x])
                        changed.append({'proto': pv, 'inserted': 'index map refilled up to entry %d of %d' % (k, len(full)), 'table': tn, 'before': before[pv][tn], 'after': t[tn]})
                        break
            if changed:
                break
            idx[p] = i
    finally:
        idx.clear()
        idx.update(full)
# an application that subclasses library packet classes (to add behaviour, or as its own packet types) does not change the
# library's tables: every class of every table, and every base class they have inside the library, gets a user subclass
if not changed:
    seen, user = set(), []
    for pv in sup[::7] + sup[-3:]:
        for tn, m in mods.items():
            for k in m.get_packets(ctxs[pv]):
                for base in k.__mro__:
                    if base.__module__.startswith('minecraft.') and base not in seen:
                        seen.add(base)
                        user.append(type('User' + base.__name__, (base,), {'__module__': 'application'}))
    for pv, c in ctxs.items():
        try:
            after = table(c)
        except Exception as e:
            after = {'error': type(e).__name__}
        if after != before[pv]:
            tn = next((t for t in before[pv] if after.get(t) != before[pv][t]), 'error')
            changed.append({'proto': pv, 'inserted': 'index map untouched; %d user subclasses of library packet classes defined' % len(user), 'table': tn, 'before': before[pv].get(tn), 'after': after.get(tn, after)})
# an application that narrows the supported set (deletes the newer entries of SUPPORTED_MINECRAFT_VERSIONS and calls
# initglobals(), the documented mechanism): the tables of the versions that remain supported - the new LAST one included - are
# the tables they had before
if not changed:
    saved = list(minecraft.SUPPORTED_MINECRAFT_VERSIONS.items())
    try:
        for keep in (len(saved) // 2, len(saved) // 5, len(saved) - 4):
            minecraft.SUPPORTED_MINECRAFT_VERSIONS.clear()
            minecraft.SUPPORTED_MINECRAFT_VERSIONS.update(saved[:keep])
            minecraft.initglobals()
            still = list(minecraft.SUPPORTED_PROTOCOL_VERSIONS)
            for pv in still[-3:] + still[:2]:
                try:
                    after = table(ConnectionContext(protocol_version=pv))
                except Exception as e:
                    after = {'error': type(e).__name__}
                if pv in before and after != before[pv]:
                    tn = next((t for t in before[pv] if after.get(t) != before[pv][t]), 'error')
                    changed.append({'proto': pv, 'inserted': 'nothing; supported set narrowed to its first %d entries (last supported protocol %d)' % (keep, still[-1]), 'table': tn, 'before': before[pv].get(tn), 'after': after.get(tn, after)})
            if changed:
                break
    finally:
        minecraft.SUPPORTED_MINECRAFT_VERSIONS.clear()
        minecraft.SUPPORTED_MINECRAFT_VERSIONS.update(saved)
        minecraft.initglobals()
def dup(c):
    ids = [i for i, _k in c['after']] if isinstance(c['after'], list) else []
    return len(ids) != len(set(ids))
changed.sort(key=lambda c: not dup(c))
print(json.dumps(changed[:6]))
'''


def reactor_tables(seed):
    e = common.sub_env()
    e['PYTHONHASHSEED'] = str(seed)
    p = subprocess.run([common.PY, '-B', '-c', REACTOR_SCRIPT], env=e, stdout=subprocess.PIPE, stderr=subprocess.PIPE, timeout=300)
    if p.returncode != 0:
        raise RuntimeError('reactor construction failed: ' + p.stderr.decode()[-800:])
    return json.loads(p.stdout.decode())


def confirm_on_impl(c):
    """Show the collision on the real code: the decoder table keeps one class for the id; a frame
    written by the other class is decoded as the wrong class (or fails)."""
    from minecraft.networking.connection import ConnectionContext, PlayingReactor, LoginReactor, StatusReactor
    import importlib
    ctx = ConnectionContext(protocol_version=c['proto'])
    mod = importlib.import_module('minecraft.networking.packets.' + c['table'])
    pk = {k.__module__.replace('minecraft.networking.packets.', '') + ':' + k.__qualname__: k for k in mod.get_packets(ctx)}
    ids = {q: pk[q].get_id(ctx) for q in c['classes']}
    return {'ids_on_impl': ids, 'same': len(set(ids.values())) == 1}


def connection_histories(chk, t):
    """One Connection object through histories of logins at different versions, refused connects and disconnects: after every
    successful connect the decoder tables of its login reactor and, after login success, of its play reactor are exactly the
    {id: class} tables of the version in its context."""
    import sim, proto
    from minecraft.networking.connection import Connection, ConnectionContext
    from minecraft.networking.packets import clientbound as cb
    rng = chk.rng
    sup = [p for p in t['supported_protocols'] if not any(c['proto'] == p for c in gen_tables.collisions(t) if c['supported'])]

    def fresh(mod, pv):
        ctx = ConnectionContext(protocol_version=pv)
        return {k.get_id(ctx): k for k in mod.get_packets(ctx)}
    for n in range(40 if chk.tier == 'thorough' else 12):
        steps = []
        pv = rng.choice(sup)
        for _ in range(rng.randrange(3, 8)):
            k = rng.random()
            if k < 0.35:
                pv = rng.choice(sup + [47, 340, 404, 754, 757])
                steps.append(('version', pv))
            elif k < 0.55:
                steps.append(('refused',))
            else:
                steps.append(('login',))
        if n == 0:      # one history every run performs: a login, a version switch, a refused connect, a login
            steps = [('version', 340), ('login',), ('version', 754), ('refused',), ('login',), ('version', 47), ('refused',), ('refused',), ('login',)]
        servers = []
        for st in steps:
            if st[0] == 'refused':
                srv = sim.Server([], end='idle')
                srv.refuse = True
                servers.append(srv)
            elif st[0] == 'login':
                servers.append(sim.Server([], end='idle'))
        servers.append(sim.Server([], end='idle'))
        net = sim.Net(servers).install()
        what = None
        try:
            cur = next((s[1] for s in steps if s[0] == 'version'), pv)
            conn = Connection('localhost', 25565, username='user', allowed_versions={cur}, handle_exception=lambda e, i: None)
            done = []
            reused = None
            for st in steps:
                done.append(list(st))
                if st[0] == 'version':
                    cur = st[1]
                    conn.allowed_proto_versions = {cur}
                    continue
                try:
                    conn.disconnect(immediate=True)
                except Exception:
                    pass
                try:
                    conn.connect()
                except OSError:
                    if st[0] == 'refused':
                        continue
                    raise
                if st[0] == 'refused':
                    what = 'a refused connect did not raise'
                    break
                ids = proto.Ids(cur)
                srv = net.servers[net.nconn - 1]
                got = dict(conn.reactor.clientbound_packets)
                if conn.context.protocol_version != cur or got != fresh(cb.login, cur):
                    what = 'login decoder table at protocol %d is not the table of that version (%d entries differ)' % (cur, sum(1 for k in set(got) | set(fresh(cb.login, cur)) if got.get(k) is not fresh(cb.login, cur).get(k)))
                    break
                srv.chunks.append(proto.frame(ids.login_success, ids.b_login_success()))
                net.run_threads(conn)
                got = dict(conn.reactor.clientbound_packets)
                exp = fresh(cb.play, cur)
                if type(conn.reactor).__name__ != 'PlayingReactor' or got != exp:
                    bad = sorted(k for k in set(got) | set(exp) if got.get(k) is not exp.get(k))
                    what = 'play decoder table at protocol %d is not the table of that version (%s, ids %s)' % (cur, type(conn.reactor).__name__, [hex(b) for b in bad[:6]])
                    break
                # the same packet OBJECT written on this connection after it was written on connections of other versions (and one
                # built with another version's context): it goes out under the id its class has at THIS connection's version
                from minecraft.networking.packets import serverbound as sbp
                if reused is None:
                    reused = sbp.play.ChatPacket()
                    reused.message = 'hi'
                foreign = sbp.play.ChatPacket(context=ConnectionContext(protocol_version=rng.choice(sup)))
                foreign.message = 'hi'
                for pkt in (reused, foreign):
                    nb = len(srv.sends)
                    conn.write_packet(pkt, force=True)
                    fr = proto.parse_frames(b''.join(srv.sends[nb:]))
                    want = sbp.play.ChatPacket.get_id(ConnectionContext(protocol_version=cur))
                    if [f[0] for f in fr] != [want]:
                        what = 'a chat packet object used before on another version is written at protocol %d with id %s; its class has id 0x%02X there' % (
                            cur, [hex(f[0]) for f in fr], want)
                        break
                if what:
                    break
        except Exception as e:
            what = 'history raised %s' % type(e).__name__
        finally:
            net.uninstall()
        chk.count('connection-history', [n, steps], True)
        if what:
            chk.violation('connection-history', 'connection-history:%d' % (hash(repr(done)) % 10 ** 8), {'case': {'history': done}, 'observed': what},
                          'one Connection through %s: %s' % (done, what))


def run(chk):
    bad = common.lint()
    if bad:
        chk.broken('lint', '; '.join(bad[:10]))
    t = gen.prepare(chk, ('Tables',))
    ok, out = chk.prove('Properties/C06.v', extra_q=[(chk.gen_dir, 'Gen')])
    cols = gen_tables.collisions(t)
    sup = [c for c in cols if c['supported']]
    nsup = len(t['supported_protocols'])
    pos = {p: i for i, p in enumerate(t['known_protocols'])}
    for pv in t['supported_protocols']:
        for tn in gen_tables.TABLE_NAMES:
            ms = t['per_version'][pos[pv]]['tables'][tn]
            chk.count('tables', [pv, tn], len(ms) > 0)
            chk.tally('members:%s' % tn, len(ms))
    found = False
    for c in sup:
        key = gen_tables.finding_key(c)
        detail = dict(c)
        if c['kind'] == 'collision':
            try:
                detail['impl'] = confirm_on_impl(c)
            except Exception as e:
                detail['impl'] = 'confirmation raised %s' % type(e).__name__
            what = 'protocol %d %s: %s share id 0x%02X' % (c['proto'], c['table'], ' and '.join(x.split(':')[-1] for x in c['classes']), c['id'])
        elif c['kind'] == 'no id':
            what = 'protocol %d %s: %s has no usable packet id (%r)' % (c['proto'], c['table'], c['class'].split(':')[-1], c['id'])
        else:
            what = 'protocol %d %s: %s' % (c['proto'], c['table'], c['kind'])
        found = True
        chk.violation('tables', key, {'case': detail}, what)
    # the same oracle on evaluations that came out differently in another evaluation order / on a reused context
    supset = set(t['supported_protocols'])
    for a in t.get('per_version_alt', []):
        if a['proto'] not in supset:
            continue
        chk.count('history', [a['proto'], a['order']], True)
        t2 = {'supported_protocols': [a['proto']], 'known_protocols': [a['proto']], 'per_version': [a['evaluation']]}
        cs = [c for c in gen_tables.collisions(t2) if gen_tables.finding_key(c) not in set(gen_tables.finding_key(x) for x in sup)]
        for c in cs[:3]:
            key = 'history:' + gen_tables.finding_key(c)
            what = ('protocol %d %s, evaluated %s after protocol %s on a reused context: ' % (c['proto'], c['table'], a['order'], a['previous']) +
                    ('%s share id 0x%02X' % (' and '.join(x.split(':')[-1] for x in c['classes']), c['id']) if c['kind'] == 'collision' else
                     '%s has no usable id' % c.get('class', '?').split(':')[-1] if c['kind'] == 'no id' else c['kind']))
            chk.violation('history', key, {'case': dict(c, order=a['order'], previous=a['previous'])}, what)
        if not cs:
            first = t['per_version'][a['index']]
            diff = [tn for tn in gen_tables.TABLE_NAMES if first['tables'][tn] != a['evaluation']['tables'][tn]] or \
                   [q for q in first['classes'] if first['classes'][q] != a['evaluation']['classes'].get(q)]
            chk.broken('reifier', 'tables at protocol %d are not a function of the version (evaluated %s after %s): %s differ' % (
                a['proto'], a['order'], a['previous'], diff[:4]))
    if not ok and not chk.violations:
        # proof failed but the oracle found nothing new: the obligation itself no longer checks
        chk.broken('Properties/C06.v', out)
    chk.extra['unsupported_versions_report'] = [gen_tables.finding_key(c) for c in cols if not c['supported']][:200]
    chk.extra['exhaustive'] = True
    # order independence on the real reactors
    seeds = [0, 1, 2] if chk.tier == 'quick' else [0, 1, 2, 3, 4, 5, 6, 7]
    ref = None
    for s in seeds:
        r = reactor_tables(s)
        chk.count('hashseed', s, True)
        # only versions without a collision must agree
        clean = {pv: row for pv, row in r.items() if not any(str(c['proto']) == pv for c in sup)}
        h = hashlib.sha1(json.dumps(clean, sort_keys=True).encode()).hexdigest()
        if ref is None:
            ref = (s, h, clean)
        elif h != ref[1]:
            pv = next(p for p in clean if clean[p] != ref[2].get(p))
            chk.violation('hashseed', 'hashseed:%s' % pv, {'case': {'proto': pv, 'seeds': [ref[0], s]}, 'observed': [ref[2].get(pv), clean[pv]]},
                          'decoder table at protocol %s depends on set iteration order (PYTHONHASHSEED %d vs %d)' % (pv, ref[0], s))
        # the decoder table must contain exactly the member ids
        for pv, row in clean.items():
            for rn, tn in (('StatusReactor', 'clientbound.status'), ('LoginReactor', 'clientbound.login'), ('PlayingReactor', 'clientbound.play')):
                ms = t['per_version'][pos[int(pv)]]['tables'][tn]
                exp = sorted((t['per_version'][pos[int(pv)]]['classes'][c]['id'], 'minecraft.networking.packets.' + c) for c in ms)
                got = row[rn] if isinstance(row[rn], str) else sorted((i, k) for i, k in row[rn])
                if got != [list(x) for x in exp] and got != exp:
                    chk.violation('reactor', 'reactor:%s:%s' % (pv, rn), {'case': {'proto': pv, 'reactor': rn}, 'expected': exp, 'observed': got},
                                  '%s decoder table at protocol %s is not {id: class} of its members' % (rn, pv))
    # tables through contexts created before a run-time extension of the version records
    e = common.sub_env()
    p = subprocess.run([common.PY, '-B', '-c', EXTENSION_SCRIPT], env=e, stdout=subprocess.PIPE, stderr=subprocess.PIPE, timeout=600)
    if p.returncode != 0:
        chk.broken('extension-script', p.stderr.decode()[-1500:])
    else:
        chk.count('extension', 'three insertions x %d contexts' % nsup, True)
        for c in json.loads(p.stdout.decode()):
            ids = [i for i, _k in c['after']] if isinstance(c['after'], list) else []
            dup = sorted(set(i for i in ids if ids.count(i) > 1))
            what = ('protocol %d %s, %s (%s): ' % (c['proto'], c['table'], 'asked again after' if 'user subclasses' in str(c['inserted']) else 'asked through a context created before the tables were rebuilt', c['inserted'].replace('index map untouched; ', '') if 'index map' in str(c['inserted']) else 'version %r inserted' % c['inserted']) +
                    ('classes %s share id %s' % ([k.split(':')[-1] for i, k in c['after'] if i == dup[0]], dup[0]) if dup else 'the table changed (%s)' % (str(c['after'])[:120])))
            chk.violation('extension', 'extension:%d:%s' % (c['proto'], c['table']), {'case': c}, what)
    connection_histories(chk, t)
    chk.sample('tables', {'proto': 757, 'table': 'clientbound.play',
                          'ids': sorted((t['per_version'][-1]['classes'][c]['id'], c.split(':')[-1]) for c in t['per_version'][-1]['tables']['clientbound.play'])[:6]}, k=1)
    chk.assumptions += ['the reifier evaluates get_packets/get_id on every known version (determinism checked by double evaluation)']


def replay(chk, rp):
    run(chk)
