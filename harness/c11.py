"""C11 - in play, keep-alives and teleports are always answered; unknown packets pass."""
import struct
import common, sim, proto
from common import run_model, exn_name

RULE = ('server packet histories interleaving keep-alives (ids at every VarInt / Long boundary), position-and-look packets, frames '
        'with ids the library does not know (arbitrary content) and known-but-unhandled packets, optionally ended by a disconnect '
        'packet; every supported protocol version (one history each) plus long histories crossing the 50-read / 300-write batch '
        'limits; compression on and off; whole-stream, per-frame and random-chunk arrival; through the simulated transport with the '
        'real reactors. Compared with the extracted model: the serverbound frames in order (ids, bodies), the generic packets '
        'delivered for unknown ids, spawned, exit callback count, recorded exception, socket closure. Non-trivial = at least two '
        'answerable packets; distinct by (version, history).')


def bits64(x):
    return struct.unpack('>Q', struct.pack('>d', x))[0]


def bits32(x):
    return struct.unpack('>I', struct.pack('>f', x))[0]


def gen_history(rng, ids, n, with_disconnect):
    h = []
    long_ids = ids.keep_alive_long
    bnd = ([0, 1, 127, 128, 2 ** 31 - 1, -1, -2 ** 63, 2 ** 63 - 1, 2 ** 32, 2 ** 56] if long_ids else [0, 1, 127, 128, 16383, 16384, 2 ** 21, 2 ** 28 - 1, 2 ** 28, 2 ** 31 - 1, 2 ** 31, 2 ** 32 - 1])
    for _ in range(n):
        k = rng.random()
        if k < 0.45:
            kid = rng.choice(bnd) if rng.random() < 0.5 else (rng.randrange(-2 ** 63, 2 ** 63) if long_ids else rng.randrange(2 ** 32))      # servers send Java ints: the top bit may be set
            h.append(('ka', kid))
        elif k < 0.6:
            pos = (rng.randrange(-10 ** 6, 10 ** 6) / 8.0, rng.randrange(0, 256) / 2.0, rng.randrange(-10 ** 6, 10 ** 6) / 8.0, rng.randrange(0, 360 * 4) / 4.0, rng.randrange(-90 * 4, 90 * 4) / 4.0)
            h.append(('pos', rng.choice([rng.randrange(2 ** 32), 2 ** 31, 2 ** 32 - 1, rng.randrange(128)]), pos, rng.randrange(32)))
        elif k < 0.85:
            h.append(('unk', ids.unknown_id(rng), bytes(rng.randrange(256) for _ in range(rng.choice([0, 1, 5, 40, 300])))))
        else:
            h.append(('chat', '{"text":"%s"}' % ('x' * rng.randrange(0, 30))))
    if with_disconnect:
        # the reason is a chat component: any JSON value (an object, a bare string, a list of components, null ...) - or whatever
        # text the server chose to send; the client closes the connection whatever it says
        h.append(('disc', rng.choice(['{"text":"bye"}', '{"text":"bye"}', '"Server closed"', '["a", {"text": "b"}]', 'null', '5', 'true',
                                      '{"text": 5, "extra": ["x", {"translate": "y"}]}', '{"translate":"multiplayer.disconnect.kicked"}', 'not json', '', '{}', '[]'])))
        if rng.random() < 0.5:
            h.append(('ka', 5))          # sent after the disconnect: must not be answered
    return h


def server_frames(ids, h, thr):
    fr = []
    for it in h:
        if it[0] == 'ka':
            fr.append(proto.frame(ids.keep_alive, ids.b_keep_alive(it[1]) if ids.keep_alive_long else proto.varint(it[1]), thr))
        elif it[0] == 'pos':
            x, y, z, yaw, pitch = it[2]
            fr.append(proto.frame(ids.position_look, ids.b_position_look(x, y, z, yaw, pitch, it[3], it[1]), thr))
        elif it[0] == 'unk':
            fr.append(proto.frame(it[1], it[2], thr))
        elif it[0] == 'chat':
            body = proto.string(it[1]) + b'\x00'
            if ids.ctx.protocol_later_eq(718):
                body += bytes(16)
            fr.append(proto.frame(ids.chat, body, thr))
        elif it[0] == 'disc':
            fr.append(proto.frame(ids.play_disconnect, proto.string(it[1] if len(it) > 1 else '{"text":"bye"}'), thr))
    return fr


def model_steps(h):
    st = [[0, [3]]]
    for it in h:
        if it[0] == 'ka':
            st.append([0, [5, it[1]]])
        elif it[0] == 'pos':
            x, y, z, yaw, pitch = it[2]
            st.append([0, [6, it[1], [bits64(x), bits64(y), bits64(z), bits32(yaw), bits32(pitch)]]])
        elif it[0] == 'disc':
            st.append([0, [7]])
        else:
            st.append([0, [8, it[1] if it[0] == 'unk' else 0]])
    st.append([1, len(h) + 5])
    return st


def decode_answers(ids, frames):
    """serverbound frames after login start -> model-style answers"""
    out = []
    for pid, body in frames:
        if pid == ids.sb_keep_alive and (len(body) == 8 if ids.keep_alive_long else True) and not (pid == ids.sb_teleport_confirm and not ids.keep_alive_long and False):
            # ids of keep-alive and teleport confirm differ on every version that has both
            out.append([2, struct.unpack('>q', body)[0] if ids.keep_alive_long else proto.rd_varint(body)[0]])
        elif ids.sb_teleport_confirm is not None and pid == ids.sb_teleport_confirm:
            out.append([3, proto.rd_varint(body)[0]])
        elif pid == ids.sb_position_look:
            x, y, z, yaw, pitch, og = struct.unpack('>dddff?', body)
            out.append([4, [bits64(x), bits64(y), bits64(z), bits32(yaw), bits32(pitch)], og])
        else:
            out.append(['frame', pid, body.hex()])
    return out


def one_run(chk, pv, h, thr, chunking, rng):
    from minecraft.networking.connection import Connection
    from minecraft.networking.packets import Packet
    ids = proto.Ids(pv)
    pre = []
    if thr is not None:
        pre.append(proto.frame(ids.set_compression, proto.varint(thr)))
    pre.append(proto.frame(ids.login_success, ids.b_login_success(), thr))
    frames = pre + server_frames(ids, h, thr)
    data = b''.join(frames)
    if chunking == 'whole':
        chunks = [data]
    elif chunking == 'frame':
        chunks = frames
    elif chunking == 'slow':
        # every frame arrives in two pieces with a long pause between them (a slow or congested link)
        chunks = []
        for f in frames:
            chunks += [f[:max(1, len(f) // 2)], sim.PAUSE, f[max(1, len(f) // 2):]]
    else:
        cuts = sorted(set(rng.randrange(1, len(data)) for _ in range(rng.randrange(1, 12))))
        chunks = [data[a:b] for a, b in zip([0] + cuts, cuts + [len(data)])]
    net = sim.Net([sim.Server(chunks, end='idle')]).install()
    exits, generic = [], []
    try:
        conn = Connection('localhost', 25565, username='user', allowed_versions={pv}, handle_exit=lambda: exits.append(1))
        conn.register_packet_listener(lambda p: generic.append(p.id) if type(p) is Packet else None, Packet)
        conn.connect()
        res = net.run_threads(conn)
    finally:
        net.uninstall()
    srv = net.servers[0]
    sent = b''.join(srv.sends)
    try:
        fr = proto.parse_frames(sent, thr_at=2 if thr is not None else None)
    except Exception as e:
        return {'error': 'client bytes do not parse: %s' % exn_name(e)}
    return {'answers': decode_answers(ids, fr[2:]), 'generic': generic, 'spawned': bool(getattr(conn, 'spawned', False)), 'exits': len(exits),
            'exception': None if conn.exception is None else exn_name(conn.exception), 'outcome': res[0][1] if isinstance(res[0][1], str) else 'raised:' + exn_name(res[0][1][1]),
            'closed': srv.sock.closed, 'prefix_ok': [f[0] for f in fr[:2]] == [ids.sb_handshake, ids.sb_login_start]}


def run(chk):
    common.standard_proof(chk, 'Properties/C11.v')
    import minecraft
    rng, th = chk.rng, chk.tier == 'thorough'
    sup = list(minecraft.SUPPORTED_PROTOCOL_VERSIONS)
    plan = []
    for pv in sup:
        for _ in range(3 if th else 1):
            plan.append((pv, rng.randrange(2, 25), rng.random() < 0.5, rng.choice([None, None, 0, 64, 256]), rng.choice(['whole', 'frame', 'random', 'slow'])))
    for pv in ([47, 107, 340, 404, 498, 578, 736, 754, 757] if th else [47, 340, 757]):
        for n in ((60, 320, 700) if th else (60, 330)):
            plan.append((pv, n, rng.random() < 0.5, rng.choice([None, 256]), rng.choice(['whole', 'frame', 'random'])))
    runs, reqs = [], []
    # deterministic probes: wherever the chat id is shared with another class, a fixed history with a chat frame
    from minecraft.networking.packets import clientbound as cb
    fixed = {}
    for pv in sup:
        ids = proto.Ids(pv)
        same = sorted(c.__name__ for c in cb.play.get_packets(ids.ctx) if c.get_id(ids.ctx) == ids.chat)
        if len(same) > 1:
            # which class the id -> decoder dict keeps depends on set iteration order (object addresses), so the session below
            # fails on some runs only; the demonstration here does not depend on it: the other class cannot decode a chat frame
            from minecraft.networking.packets import PacketBuffer
            body = proto.string('{"text":"hello"}') + b'\x00'
            for c in cb.play.get_packets(ids.ctx):
                if c.get_id(ids.ctx) == ids.chat and c.__name__ != 'ChatMessagePacket':
                    pb = PacketBuffer()
                    pb.send(body)
                    pb.reset_cursor()
                    try:
                        c(context=ids.ctx).read(pb)
                        outcome = 'decodes it as %s with %d bytes left' % (c.__name__, len(pb.read()))
                    except Exception as e:
                        outcome = 'raises %s' % exn_name(e)
                    chk.count('play', ['collision-probe', pv, c.__name__], True)
                    chk.violation('play', 'collision:%d:clientbound.play:0x%02X:chat-frame-misdecoded' % (pv, ids.chat),
                                  {'case': {'proto': pv, 'frame_body': body.hex(), 'decoder': c.__name__}, 'classes': same, 'observed': outcome},
                                  'protocol %d: a chat message frame (id 0x%02X, shared by %s) handed to %s %s, which ends the networking thread' % (
                                      pv, ids.chat, ' and '.join(same), c.__name__, outcome))
            plan.append((pv, 0, False, None, 'frame'))
            fixed[len(plan) - 1] = [('ka', 1), ('chat', '{"text":"hello"}'), ('ka', 2)]
    for k, (pv, n, disc, thr, chunking) in enumerate(plan):
        ids = proto.Ids(pv)
        h = fixed[k] if k in fixed else gen_history(rng, ids, n, disc)
        obs = one_run(chk, pv, h, thr, chunking, rng)
        f107 = ids.ctx.protocol_later_eq(107)
        reqs.append(('session_run', [[1], False, f107, model_steps(h)]))
        runs.append((pv, h, thr, chunking, obs, ids))
    res = run_model(reqs)
    for (pv, h, thr, chunking, obs, ids), r in zip(runs, res):
        play, comp, enc, queue, wire, joins, spawned, end, exits = r
        exp_answers = []
        for w in wire:
            o = w[0]
            exp_answers.append([o[0], o[1]] + ([True] if o[0] == 4 else []))
        has_disc = any(it[0] == 'disc' for it in h)
        cut = next((i for i, it in enumerate(h) if it[0] == 'disc'), len(h))
        exp = {'answers': exp_answers, 'generic': [it[1] for it in h[:cut] if it[0] == 'unk'], 'spawned': bool(spawned), 'exits': 1 if has_disc else 0,
               'exception': None, 'outcome': 'exit' if has_disc else 'end-of-script', 'closed': has_disc, 'prefix_ok': True}
        case = {'proto': pv, 'threshold': thr, 'arrival': chunking, 'history': [list(map(lambda v: v.hex() if isinstance(v, bytes) else v, it)) for it in h[:40]], 'length': len(h)}
        nans = len(exp_answers)
        chk.count('play', [pv, thr, chunking, repr(h)[:500]], nans >= 2)
        chk.tally('len:%s' % ('<=25' if len(h) <= 25 else '<=100' if len(h) <= 100 else '>300' if len(h) > 300 else '<=300'))
        chk.tally('comp:%s' % (thr is not None))
        if 'error' in obs:
            chk.violation('play', 'play:%d:parse' % pv, {'case': case, 'observed': obs}, 'protocol %d: %s' % (pv, obs['error']))
            continue
        diff = [k for k in exp if obs.get(k) != exp[k]]
        if diff and any(it[0] == 'chat' for it in h):
            # a chat frame whose id is shared with another registered class (an open C06 finding) is decoded by the
            # wrong class: if the history without the chat frames behaves, this is that finding and nothing else
            from minecraft.networking.packets import clientbound as cb
            same = [c.__name__ for c in cb.play.get_packets(ids.ctx) if c.get_id(ids.ctx) == ids.chat]
            if len(same) > 1:
                h2 = [it for it in h if it[0] != 'chat']
                obs2 = one_run(chk, pv, h2, thr, chunking, rng)
                r2 = run_model([('session_run', [[1], False, ids.ctx.protocol_later_eq(107), model_steps(h2)])])[0]
                exp2 = [[w[0][0], w[0][1]] + ([True] if w[0][0] == 4 else []) for w in r2[4]]
                if 'error' not in obs2 and obs2.get('answers') == exp2:
                    chk.violation('play', 'collision:%d:clientbound.play:0x%02X:chat-frame-misdecoded' % (pv, ids.chat), {'case': case, 'classes': same},
                                  'protocol %d: a chat message frame (id 0x%02X, shared by %s) is decoded by the wrong class and ends the networking thread' % (pv, ids.chat, ' and '.join(same)))
                    continue
        if diff:
            k = diff[0]
            detail = ''
            if k == 'answers':
                j = next((i for i, (a, b) in enumerate(zip(obs['answers'], exp['answers'])) if a != b), min(len(obs['answers']), len(exp['answers'])))
                detail = ' (answer %d: got %s, expected %s; %d answers written, %d expected)' % (j, obs['answers'][j] if j < len(obs['answers']) else None, exp['answers'][j] if j < len(exp['answers']) else None, len(obs['answers']), len(exp['answers']))
            chk.violation('play', 'play:%d:%s' % (pv, k), {'case': case, 'expected': {x: exp[x] for x in diff if x != 'answers'}, 'observed': {x: obs[x] for x in diff if x != 'answers'}},
                          'protocol %d, %d server packets, threshold %s, %s arrival: %s differ%s' % (pv, len(h), thr, chunking, diff, detail or ': got %r, expected %r' % (obs.get(k), exp[k])))
    write_fault(chk)
    shutdown_fault(chk)
    two_connections(chk)
    crash_then_reconnect(chk)
    backlog_at_goodbye(chk)
    chk.sample('play', {'proto': runs[0][0], 'history': repr(runs[0][1])[:200]}, k=1)
    chk.assumptions += ['the networking thread is run synchronously by the simulated transport; the server closes / stays idle after its script',
                        'packet ids of the server frames are looked up through pyCraft\'s tables (checked by C06/C07)']


def write_fault(chk):
    """The server says goodbye and closes; the client's answer to an earlier keep-alive can no longer be written (the socket
    fails with whatever error the platform reports for a vanished peer).  The disconnect packet is already readable: the
    connection must still end the documented way - packet delivered, exit callback once, no error reported."""
    from minecraft.networking.connection import Connection
    from minecraft.networking.packets import clientbound as cb
    import errno
    rng = chk.rng
    faults = [BrokenPipeError(errno.EPIPE, 'Broken pipe'), ConnectionResetError(errno.ECONNRESET, 'reset'), ConnectionAbortedError(errno.ECONNABORTED, 'aborted'),
              TimeoutError(errno.ETIMEDOUT, 'timed out'), OSError(errno.EHOSTUNREACH, 'No route to host'), OSError(errno.ENOTCONN, 'not connected')]
    for pv in (47, 340, 757):
        ids = proto.Ids(pv)
        for fault in faults:
            for thr, goodbye in ((None, True), (64, True), (None, False)):
                pre = ([proto.frame(ids.set_compression, proto.varint(thr))] if thr is not None else []) + [proto.frame(ids.login_success, ids.b_login_success(), thr)]
                first = b''.join(pre) + proto.frame(ids.keep_alive, ids.b_keep_alive(41), thr)
                second = proto.frame(ids.play_disconnect, proto.string('{"text":"bye"}'), thr)
                net = sim.Net([sim.Server([first], end='idle')]).install()
                exits, excs, seen = [], [], []
                orig_send = sim.SimSocket.send
                nsend = [0]

                def send(self_, data, orig=orig_send):
                    nsend[0] += 1
                    if nsend[0] > 4:                  # handshake and login start are two sends each; the peer is gone afterwards
                        if nsend[0] == 5 and goodbye:
                            net.servers[0].chunks.append(second)      # its goodbye is readable from now on
                        raise fault
                    return orig(self_, data)
                sim.SimSocket.send = send
                try:
                    conn = Connection('localhost', 25565, username='user', allowed_versions={pv}, handle_exit=lambda: exits.append(1),
                                      handle_exception=lambda e, i: excs.append(e))
                    conn.register_packet_listener(lambda p: seen.append(type(p).__name__), cb.play.DisconnectPacket)
                    conn.connect()
                    res = net.run_threads(conn)
                finally:
                    sim.SimSocket.send = orig_send
                    net.uninstall()
                case = {'proto': pv, 'threshold': thr, 'write_error': '%s(errno %s)' % (type(fault).__name__, fault.errno), 'server_said_goodbye': goodbye}
                chk.count('write-fault', case, True)
                # the model's turn of the loop: an IOError held back; then the disconnect packet (or nothing) is read
                m = run_model([('loop_turn', [[[fault.errno, True]], [[True, [], True]] if goodbye else []])])[0]
                obs = {'disconnect_packet_delivered': seen == ['DisconnectPacket'], 'exits': len(exits), 'errors': [exn_name(e) for e in excs],
                       'recorded': None if conn.exception is None else exn_name(conn.exception), 'outcome': res[0][1] if isinstance(res[0][1], str) else 'raised:' + exn_name(res[0][1][1])}
                if m == [1]:
                    exp = {'disconnect_packet_delivered': True, 'exits': 1, 'errors': [], 'recorded': None, 'outcome': 'exit'}
                else:       # [2, errno]: the write error is what the thread ends with (reported through the handler, not re-raised)
                    exp = {'disconnect_packet_delivered': False, 'exits': 0, 'errors': ['IOError'], 'recorded': 'IOError', 'outcome': 'exit'}
                    if isinstance(conn.exception, OSError) and conn.exception.errno != m[1]:
                        exp['recorded'] = 'the write error with errno %d' % m[1]
                if obs != exp:
                    k = next(k for k in exp if obs[k] != exp[k])
                    chk.violation('write-fault', 'write-fault:%d:%s:%s' % (pv, type(fault).__name__, fault.errno), {'case': case, 'expected': exp, 'observed': obs},
                                  'protocol %d: the server sent its disconnect packet and closed, the pending keep-alive answer failed with %s: %s is %r (expected %r)' % (
                                      pv, case['write_error'], k, obs[k], exp[k]))


def two_connections(chk):
    """Two Connection objects alive in one process do not share session state: A is in play with compression announced by its
    server; B connects to another server (no compression) and logs in; what A writes afterwards is still in A's framing, and
    B's is in B's."""
    from minecraft.networking.connection import Connection
    from minecraft.networking.packets import serverbound as sb
    for pv in (47, 340, 757):
        ids = proto.Ids(pv)
        for thr_a, thr_b in ((64, None), (None, 64), (0, 256)):
            def script(thr):
                pre = [proto.frame(ids.set_compression, proto.varint(thr))] if thr is not None else []
                return b''.join(pre) + proto.frame(ids.login_success, ids.b_login_success(), thr) + proto.frame(ids.keep_alive, ids.b_keep_alive(9), thr)
            net = sim.Net([sim.Server([script(thr_a)], end='idle'), sim.Server([script(thr_b)], end='idle')]).install()
            try:
                a = Connection('localhost', 25565, username='user', allowed_versions={pv})
                a.connect()
                net.run_threads(a)
                b = Connection('localhost', 25566, username='other', allowed_versions={pv})
                b.connect()
                net.run_threads(b)
                for c, kid in ((a, 1001), (b, 1002), (a, 1003)):
                    k = sb.play.KeepAlivePacket()
                    k.keep_alive_id = kid
                    c.write_packet(k, force=True)
            finally:
                net.uninstall()
            chk.count('two-connections', [pv, thr_a, thr_b], True)
            what = None
            for name, srv, thr, want in (('A', net.servers[0], thr_a, [9, 1001, 1003]), ('B', net.servers[1], thr_b, [9, 1002])):
                try:
                    fr = proto.parse_frames(b''.join(srv.sends), thr_at=2 if thr is not None else None)
                    got = [a_[1] for a_ in decode_answers(ids, fr[2:])]
                except Exception as e:
                    got = 'unparseable in the framing its server announced (%s)' % exn_name(e)
                if got != want:
                    what = 'connection %s (threshold %s) wrote keep-alives %s; expected %s' % (name, thr, got, want)
                    break
            if what:
                chk.violation('two-connections', 'two-connections:%d:%s:%s' % (pv, thr_a, thr_b), {'case': {'proto': pv, 'threshold_a': thr_a, 'threshold_b': thr_b}, 'observed': what},
                              'protocol %d, two live connections: %s' % (pv, what))


def crash_then_reconnect(chk):
    """A play session that dies of an error (end of stream right behind a burst of keep-alives, answers still queued) leaves
    nothing behind: connect() on the same object then opens with the handshake and the login start, and the answers written in
    the second session are those to the second server's keep-alives only."""
    from minecraft.networking.connection import Connection
    for pv in (47, 340, 757):
        ids = proto.Ids(pv)
        for burst in (3, 49, 50, 51, 60, 120):
            first = [proto.frame(ids.login_success, ids.b_login_success())] + [proto.frame(ids.keep_alive, ids.b_keep_alive(1000 + i)) for i in range(burst)]
            second = [proto.frame(ids.login_success, ids.b_login_success())] + [proto.frame(ids.keep_alive, ids.b_keep_alive(7 + i)) for i in range(3)]
            net = sim.Net([sim.Server([b''.join(first)], end='eof'), sim.Server([b''.join(second)], end='idle')]).install()
            excs = []
            try:
                conn = Connection('localhost', 25565, username='user', allowed_versions={pv}, handle_exception=lambda e, i: excs.append(e))
                conn.connect()
                net.run_threads(conn)
                n1 = len(excs)
                conn.connect()
                net.run_threads(conn)
            except Exception as e:
                excs.append(e)
                n1 = -1
            finally:
                net.uninstall()
            chk.count('crash-then-reconnect', [pv, burst], True)
            what = None
            if n1 != 1 or not isinstance(excs[0], EOFError) or len(excs) != 1:
                what = 'errors reported %s (expected the EOFError of the first session only)' % [exn_name(e) for e in excs]
            else:
                try:
                    fr = proto.parse_frames(b''.join(net.servers[1].sends))
                    import c09
                    head = c09.parse_conn(None, b''.join(net.servers[1].sends))
                    rest = [a_[1] for a_ in decode_answers(ids, fr[2:])]
                    if fr[0][0] != 0 or head[0] != pv or head[3] != 2:
                        what = 'the second session does not open with the handshake (first frame id %#x)' % fr[0][0]
                    elif fr[1][0] != 0:
                        what = 'the second frame of the second session is not the login start (id %#x)' % fr[1][0]
                    elif rest != [7, 8, 9]:
                        what = 'the second session answered keep-alives %s; its server sent [7, 8, 9]' % rest
                except Exception as e:
                    what = 'the second session\'s writes are unparseable (%s)' % exn_name(e)
            if what:
                chk.violation('crash-then-reconnect', 'crash-then-reconnect:%d:%d' % (pv, burst), {'case': {'proto': pv, 'burst': burst}, 'observed': what},
                              'protocol %d, session ended by end of stream behind %d keep-alives, then connect(): %s' % (pv, burst, what))


def backlog_at_goodbye(chk):
    """The application has a long backlog of its own packets queued (an early listener queues 320 chat lines when the first
    keep-alive arrives) when the server says goodbye in the same batch: the documented flush writes ALL of it - the 320 lines,
    and behind them the answer to the keep-alive - before the connection closes."""
    from minecraft.networking.connection import Connection
    from minecraft.networking.packets import clientbound as cb, serverbound as sb
    for pv in (47, 340, 757):
        ids = proto.Ids(pv)
        # (suppress: an early outgoing listener of the application vetoes every 7th line with IgnorePacket - among them the first;
        # a vetoed packet is skipped, everything queued behind it is still written)
        for thr, backlog, suppress in ((None, 320, 0), (64, 320, 0), (None, 299, 0), (None, 301, 0), (None, 650, 0), (None, 20, 7), (64, 40, 7), (None, 320, 7)):
            pre = [proto.frame(ids.set_compression, proto.varint(thr))] if thr is not None else []
            frames = pre + [proto.frame(ids.login_success, ids.b_login_success(), thr), proto.frame(ids.keep_alive, ids.b_keep_alive(77), thr),
                            proto.frame(ids.play_disconnect, proto.string('{"text":"bye"}'), thr)]
            net = sim.Net([sim.Server([b''.join(frames)], end='idle')]).install()
            exits, excs, done = [], [], []
            try:
                conn = Connection('localhost', 25565, username='user', allowed_versions={pv}, handle_exit=lambda: exits.append(1), handle_exception=lambda e, i: excs.append(e))

                def flood(p):
                    if not done:
                        done.append(1)
                        for k in range(backlog):
                            c = sb.play.ChatPacket()
                            c.message = 'line %d' % k
                            conn.write_packet(c)
                conn.register_packet_listener(flood, cb.play.KeepAlivePacket, early=True)
                if suppress:
                    from minecraft.networking.connection import IgnorePacket

                    def veto(p):
                        if int(p.message.split()[1]) % suppress == 0:
                            raise IgnorePacket()
                    conn.register_packet_listener(veto, sb.play.ChatPacket, outgoing=True, early=True)
                conn.connect()
                net.run_threads(conn)
            finally:
                net.uninstall()
            chk.count('backlog-at-goodbye', [pv, thr, backlog, suppress], True)
            what = None
            try:
                fr = proto.parse_frames(b''.join(net.servers[0].sends), thr_at=2 if thr is not None else None)[2:]
                chat_id = sb.play.ChatPacket.get_id(ids.ctx)
                chats = sum(1 for pid, _b in fr if pid == chat_id)
                answers = [a[1] for a in decode_answers(ids, [f for f in fr if f[0] != chat_id])]
                want = backlog - (len(range(0, backlog, suppress)) if suppress else 0)
                if chats != want or answers != [77] or exits != [1] or excs:
                    what = '%d of %d queued (and not vetoed) lines on the wire, keep-alive answers %s (expected [77]), exit callbacks %d, errors %s' % (chats, want, answers, len(exits), [exn_name(e) for e in excs])
            except Exception as e:
                what = 'what the server received is unparseable (%s)' % exn_name(e)
            if what:
                chk.violation('backlog-at-goodbye', 'backlog-at-goodbye:%d:%s:%d:%d' % (pv, thr, backlog, suppress), {'case': {'proto': pv, 'threshold': thr, 'queued_lines': backlog, 'every_nth_line_vetoed_by_outgoing_listener': suppress}, 'observed': what},
                              'protocol %d threshold %s, %d lines queued%s when the server disconnects: %s' % (pv, thr, backlog, ' (every %dth vetoed by an early outgoing listener)' % suppress if suppress else '', what))


def shutdown_fault(chk):
    """The server resets the connection right after its goodbye, so the shutdown() inside disconnect() fails (not connected /
    reset): the sockets are closed all the same, the exit callback runs once, no error is reported."""
    from minecraft.networking.connection import Connection
    import errno
    for pv in (47, 340, 757):
        ids = proto.Ids(pv)
        for err in (OSError(errno.ENOTCONN, 'Transport endpoint is not connected'), ConnectionResetError(errno.ECONNRESET, 'reset'), None):
            frames = [proto.frame(ids.login_success, ids.b_login_success()), proto.frame(ids.keep_alive, ids.b_keep_alive(3)),
                      proto.frame(ids.play_disconnect, proto.string('{"text":"bye"}'))]
            net = sim.Net([sim.Server([b''.join(frames)], end='idle')]).install()
            exits, excs = [], []
            orig = sim.SimSocket.shutdown

            def shutdown(self_, how, orig=orig):
                if err is not None:
                    raise err
                return orig(self_, how)
            sim.SimSocket.shutdown = shutdown
            try:
                conn = Connection('localhost', 25565, username='user', allowed_versions={pv}, handle_exit=lambda: exits.append(1), handle_exception=lambda e, i: excs.append(e))
                conn.connect()
                net.run_threads(conn)
            finally:
                sim.SimSocket.shutdown = orig
                net.uninstall()
            srv = net.servers[0]
            case = {'proto': pv, 'shutdown_error': None if err is None else '%s(errno %d)' % (type(err).__name__, err.errno)}
            chk.count('shutdown-fault', case, err is not None)
            obs = {'socket_closed': bool(srv.sock.closed), 'stream_closed': bool(srv.stream.closed), 'exits': len(exits), 'errors': [exn_name(e) for e in excs]}
            exp = {'socket_closed': True, 'stream_closed': True, 'exits': 1, 'errors': []}
            if obs != exp:
                k = next(k for k in exp if obs[k] != exp[k])
                chk.violation('shutdown-fault', 'shutdown-fault:%d:%s' % (pv, case['shutdown_error']), {'case': case, 'expected': exp, 'observed': obs},
                              'protocol %d: server disconnect packet, shutdown() fails with %s: %s is %r (expected %r)' % (pv, case['shutdown_error'], k, obs[k], exp[k]))


def replay(chk, rp):
    run(chk)
